//! C14: operator pipelines.  A fixed catalogue of composition shapes (Rust *types*, built with the
//! real `Composable` methods and wrappers of ec-core) over probe operators; for every shape, seeded
//! inputs and **every** failure position (each component call, failing before or after its draws)
//! are run on the real code and on the compiled Lean model (`ops` driver family), the model's
//! requests being answered from a shadow generator.
use crate::driver::Driver;
use crate::prims;
use crate::probe::*;
use crate::report::Report;
use crate::rng::SplitMix;
use crate::shard::run_sharded;
use crate::Cfg;
use ec_core::individual::scorer::FnScorer;
use ec_core::operator::constant::Constant;
use ec_core::operator::genome_extractor::GenomeExtractor;
use ec_core::operator::genome_scorer::GenomeScorer;
use ec_core::operator::identity::Identity;
use ec_core::operator::mutator::Mutate;
use ec_core::operator::recombinator::Recombine;
use ec_core::operator::selector::Select;
use ec_core::operator::{Composable, Operator};
use rand::RngCore;
use serde_json::json;

pub struct Ctx<'a> {
    pub d: &'a mut Driver,
    pub r: &'a mut Report,
    pub gen: SplitMix,
    pub seed: u64,
    pub case: u64,
    /// emulate a broken combinator on the harness side (env `UEC_SELFTEST=k`), see `mutate_real`
    pub selftest: u8,
}

/// seeded inputs per input type
pub trait GenIn: Sized {
    fn gen(g: &mut SplitMix) -> Self;
}
impl GenIn for V {
    fn gen(g: &mut SplitMix) -> Self { V::Leaf(g.below(1000)) }
}
impl<A: GenIn, B: GenIn> GenIn for (A, B) {
    fn gen(g: &mut SplitMix) -> Self { (A::gen(g), B::gen(g)) }
}
impl<A: GenIn> GenIn for [A; 2] {
    fn gen(g: &mut SplitMix) -> Self { [A::gen(g), A::gen(g)] }
}
impl<A: GenIn> GenIn for Vec<A> {
    fn gen(g: &mut SplitMix) -> Self {
        let n = match g.below(8) { 0 => 0, 1 => 1, 2 => 2, 3 => 5, _ => 1 + g.below(4) };
        (0..n).map(|_| A::gen(g)).collect()
    }
}
impl GenIn for Ind {
    fn gen(g: &mut SplitMix) -> Self { Ind::new(V::gen(g), V::gen(g)) }
}

pub fn leak<T>(x: T) -> &'static mut T { Box::leak(Box::new(x)) }

/// shape term -> the real ec-core value.  Every combinator is built through the public surface
/// (`Composable::{then, and, map, then_map, apply_twice, apply_n_times, wrap}`, the wrappers' `new`).
macro_rules! op {
    ((p $id:literal $d:literal)) => { Probe { id: $id, d: $d } };
    ((vp $id:literal $d:literal)) => { VProbe { id: $id, d: $d } };
    ((then $a:tt $b:tt)) => { op!($a).then(op!($b)) };
    ((and $a:tt $b:tt)) => { op!($a).and(op!($b)) };
    ((map $f:tt)) => { Identity.map(op!($f)) };
    ((mapm $s:tt $f:tt)) => { op!($s).map(op!($f)) };
    ((thenmap $a:tt $f:tt)) => { op!($a).then_map(op!($f)) };
    ((rep $n:literal $f:tt)) => { op!($f).apply_n_times::<$n>() };
    ((twice $f:tt)) => { op!($f).apply_twice() };
    ((id)) => { Identity };
    ((constleaf $n:literal)) => { Constant::new(V::Leaf($n)) };
    ((constvec $n:literal)) => { Constant::new((0..$n as u64).map(V::Leaf).collect::<Vec<V>>()) };
    ((select (ps $id:literal $d:literal))) => { Select::new(ProbeSel { id: $id, d: $d }) };
    ((select_ref (ps $id:literal $d:literal))) => { Select::new(&*leak(ProbeSel { id: $id, d: $d })) };
    ((mutate (pm $id:literal $d:literal))) => { Mutate::new(ProbeMut { id: $id, d: $d }) };
    ((mutate_ref (pm $id:literal $d:literal))) => { Mutate::new(&*leak(ProbeMut { id: $id, d: $d })) };
    ((mutate_mut (pm $id:literal $d:literal))) => { Mutate::new(leak(ProbeMut { id: $id, d: $d })) };
    ((recombine (pr $id:literal $d:literal))) => { Recombine::new(ProbeRec { id: $id, d: $d }) };
    ((recombine_ref (pr $id:literal $d:literal))) => { Recombine::new(&*leak(ProbeRec { id: $id, d: $d })) };
    // a type-erased operator as a component of a pipeline (same error type: the identity conversion)
    ((erased (p $id:literal $d:literal))) => { (Box::new(Probe { id: $id, d: $d }) as Box<dyn ec_core::operator::DynOperator<V, ProbeErr, Output = V>>) };
    ((erased_arc (p $id:literal $d:literal))) => { (std::sync::Arc::new(Probe { id: $id, d: $d }) as std::sync::Arc<dyn ec_core::operator::DynOperator<V, ProbeErr, Output = V> + Send + Sync>) };
    ((extract)) => { GenomeExtractor };
    ((scorer $gm:tt $c:literal)) => { GenomeScorer::new(op!($gm), FnScorer(score_c::<$c>)) };
    ((wrapscorer $gm:tt $c:literal)) => { op!($gm).wrap::<GenomeScorer<_, _>>(FnScorer(score_c::<$c>)) };
}

pub(crate) use op;

type ShapeFn = Box<dyn Fn(&mut Ctx) + Sync>;

macro_rules! catalogue {
    ($( [$($kind:tt)+] $term:tt ;)*) => {
        pub fn shapes() -> Vec<(&'static str, ShapeFn)> {
            vec![ $( (stringify!($term), catalogue!(@run [$($kind)+] $term)) ),* ]
        }
    };
    (@run [ref $t:ty] $term:tt) => {
        Box::new(|ctx: &mut Ctx| { let owned: $t = GenIn::gen(&mut ctx.gen); let op = op!($term); run_case(&op, &owned, stringify!($term), ctx) }) as ShapeFn
    };
    (@run [$t:ty] $term:tt) => {
        Box::new(|ctx: &mut Ctx| { let input: $t = GenIn::gen(&mut ctx.gen); let op = op!($term); run_case(&op, input, stringify!($term), ctx) }) as ShapeFn
    };
}

catalogue! {
    // --- a leaf input -------------------------------------------------------------------------
    [V] (p 1 1);
    [V] (p 1 0);
    [V] (then (p 1 1) (p 2 2));
    [V] (then (then (p 1 1) (p 2 0)) (p 3 2));
    [V] (then (p 1 2) (then (p 2 1) (p 3 1)));
    [V] (then (then (p 1 1) (p 2 1)) (then (p 3 1) (p 4 1)));
    [V] (and (p 1 1) (p 2 1));
    [V] (and (p 1 0) (p 2 3));
    [V] (then (and (p 1 1) (p 2 2)) (p 3 1));
    [V] (then (and (p 1 1) (p 2 1)) (map (p 3 1)));
    [V] (and (then (p 1 1) (p 2 1)) (and (p 3 0) (p 4 2)));
    [V] (and (and (p 1 1) (p 2 1)) (then (p 3 1) (and (p 4 1) (p 5 1))));
    [V] (rep 3 (p 1 1));
    [V] (rep 0 (p 1 1));
    [V] (rep 1 (p 1 2));
    [V] (rep 5 (then (p 1 1) (p 2 0)));
    [V] (then (rep 2 (p 1 1)) (map (p 2 1)));
    [V] (twice (then (p 1 1) (p 2 1)));
    [V] (then (twice (p 1 1)) (p 2 1));
    [V] (rep 2 (rep 2 (p 1 1)));
    [V] (rep 2 (and (p 1 1) (rep 2 (p 2 1))));
    [V] (then (vp 1 1) (map (p 2 1)));
    [V] (thenmap (vp 1 2) (then (p 2 1) (p 3 0)));
    [V] (then (vp 1 1) (map (and (p 2 1) (id))));
    [V] (then (vp 1 1) (then (map (vp 2 1)) (map (map (p 3 1)))));
    [V] (then (vp 1 1) (then (map (p 2 1)) (p 3 1)));
    [V] (id);
    [V] (then (id) (p 1 1));
    [V] (then (p 1 1) (id));
    [V] (constleaf 7);
    [V] (then (p 1 2) (constleaf 9));
    [V] (then (constvec 3) (map (p 1 1)));
    [V] (then (constvec 0) (map (p 1 1)));
    [V] (and (id) (constleaf 3));
    [V] (mutate (pm 1 1));
    [V] (mutate_ref (pm 1 2));
    [V] (mutate_mut (pm 1 1));
    [V] (then (p 1 1) (mutate (pm 2 1)));
    [V] (rep 2 (mutate_ref (pm 1 1)));
    [V] (then (and (p 1 1) (p 2 1)) (recombine (pr 3 1)));
    [V] (then (rep 2 (p 1 1)) (recombine_ref (pr 2 2)));
    [V] (then (and (mutate (pm 1 1)) (mutate_mut (pm 2 0))) (then (map (mutate_ref (pm 3 1))) (recombine (pr 4 1))));
    // --- type-erased operators as components: they draw from the shared stream like any other part -------------
    [V] (then (erased (p 1 1)) (p 2 1));
    [V] (then (p 1 1) (erased (p 2 2)));
    [V] (then (erased (p 1 2)) (erased_arc (p 2 1)));
    [V] (and (erased (p 1 1)) (erased_arc (p 2 1)));
    [V] (rep 3 (erased_arc (p 1 1)));
    [V] (then (rep 2 (erased (p 1 1))) (map (erased_arc (p 2 1))));
    // --- pair / array / vector inputs ---------------------------------------------------------
    [(V, V)] (map (p 1 1));
    [(V, V)] (mapm (p 9 3) (p 1 1));
    [(V, V)] (recombine (pr 1 1));
    [(V, V)] (map (then (p 1 1) (p 2 1)));
    [(V, V)] (then (map (p 1 1)) (recombine_ref (pr 2 1)));
    [[V; 2]] (map (p 1 1));
    [[V; 2]] (then (map (p 1 2)) (recombine (pr 2 1)));
    [Vec<V>] (map (p 1 1));
    [Vec<V>] (map (then (p 1 0) (p 2 1)));
    [Vec<V>] (then (map (p 1 1)) (p 2 1));
    [Vec<V>] (map (rep 2 (p 1 1)));
    [Vec<V>] (and (map (p 1 1)) (p 2 1));
    [Vec<V>] (map (mutate (pm 1 1)));
    [Vec<Vec<V>>] (map (map (p 1 1)));
    [Vec<(V, V)>] (map (map (then (p 1 1) (p 2 0))));
    [(Vec<V>, Vec<V>)] (map (map (p 1 1)));
    // --- a population (by reference) as input: the pipelines evolution runs use --------------
    [ref Vec<Ind>] (select (ps 1 1));
    [ref Vec<Ind>] (select_ref (ps 1 1));
    [ref Vec<Ind>] (then (select (ps 1 1)) (extract));
    [ref Vec<Ind>] (then (select (ps 1 1)) (p 2 1));
    [ref Vec<Ind>] (then (then (select (ps 1 1)) (extract)) (mutate (pm 2 1)));
    [ref Vec<Ind>] (scorer (then (then (select (ps 1 1)) (extract)) (mutate (pm 2 1))) 11);
    [ref Vec<Ind>] (wrapscorer (then (select_ref (ps 1 2)) (extract)) 5);
    [ref Vec<Ind>] (then (and (select (ps 1 1)) (select (ps 2 1))) (then (map (extract)) (recombine (pr 3 1))));
    [ref Vec<Ind>] (then (rep 2 (select_ref (ps 1 1))) (then (map (extract)) (recombine_ref (pr 3 1))));
    [ref Vec<Ind>] (then (scorer (then (select (ps 1 1)) (extract)) 3) (p 4 1));
    [ref Vec<Ind>] (scorer (then (and (select (ps 1 1)) (select (ps 2 2))) (then (map (then (extract) (mutate (pm 3 1)))) (recombine (pr 4 1)))) 7);
}

// ---- harness-side mutants of the combinators: copies of the real `apply` bodies with one realistic
// defect each, run against the model term of the *correct* combinator (UEC_SELFTEST=5..8) ----------
#[derive(Debug)]
pub struct MimicErr { text: String, dbg: String, inner: ProbeErr }
impl std::fmt::Display for MimicErr {
    fn fmt(&self, f: &mut std::fmt::Formatter<'_>) -> std::fmt::Result { f.write_str(&self.text) }
}
impl std::error::Error for MimicErr {
    fn source(&self) -> Option<&(dyn std::error::Error + 'static)> { Some(&self.inner) }
}
fn mimic(text: &str, dbg: &str, inner: ProbeErr) -> MimicErr { MimicErr { text: text.into(), dbg: dbg.into(), inner } }
const THEN1: &str = "Error while applying the first passed operator (`T`) in the `Then<T,>` Operator";
const THEN2: &str = "Error while applying the second passed operator (`U`) in the `Then<,U>` Operator";
const AND1: &str = "Error while applying the first passed operator (`T`) in the `And<T,>` Operator";
const AND2: &str = "Error while applying the second passed operator (`U`) in the `And<,U>` Operator";

/// defect: the second operator is still run (on a default value) after the first one failed
pub struct BadThen(pub Probe, pub Probe);
impl Composable for BadThen {}
impl Operator<V> for BadThen {
    type Output = V;
    type Error = MimicErr;
    fn apply<R: rand::Rng + ?Sized>(&self, x: V, rng: &mut R) -> Result<V, MimicErr> {
        match self.0.apply(x, rng) {
            Err(e) => { let _ = self.1.apply(V::Leaf(0), rng); Err(mimic(THEN1, "First", e)) }
            Ok(y) => self.1.apply(y, rng).map_err(|e| mimic(THEN2, "Second", e)),
        }
    }
}
/// defect: all elements are mapped before the first error is looked for
pub struct BadMapVec(pub Probe);
impl Composable for BadMapVec {}
impl Operator<Vec<V>> for BadMapVec {
    type Output = Vec<V>;
    type Error = MimicErr;
    fn apply<R: rand::Rng + ?Sized>(&self, input: Vec<V>, rng: &mut R) -> Result<Vec<V>, MimicErr> {
        let all: Vec<Result<V, ProbeErr>> = input.into_iter().map(|x| self.0.apply(x, rng)).collect();
        let mut out = Vec::new();
        for (i, r) in all.into_iter().enumerate() {
            match r { Ok(v) => out.push(v), Err(e) => return Err(mimic(&format!("Error while applying passed operator on the {i}-th element of the mapped iterable"), "MapError", e)) }
        }
        Ok(out)
    }
}
/// defect: one application too many (the surplus result is dropped)
pub struct BadRepeat3(pub Probe);
impl Composable for BadRepeat3 {}
impl Operator<V> for BadRepeat3 {
    type Output = [V; 3];
    type Error = ProbeErr;
    fn apply<R: rand::Rng + ?Sized>(&self, input: V, rng: &mut R) -> Result<[V; 3], ProbeErr> {
        let v: Vec<V> = std::iter::repeat_with(|| self.0.apply(input.clone(), rng)).take(4).collect::<Result<Vec<_>, _>>()?;
        Ok([v[0].clone(), v[1].clone(), v[2].clone()])
    }
}
/// defect: the two operators are applied in the wrong order
pub struct BadAnd(pub Probe, pub Probe);
impl Composable for BadAnd {}
impl Operator<V> for BadAnd {
    type Output = (V, V);
    type Error = MimicErr;
    fn apply<R: rand::Rng + ?Sized>(&self, x: V, rng: &mut R) -> Result<(V, V), MimicErr> {
        let g = self.1.apply(x.clone(), rng).map_err(|e| mimic(AND2, "Second", e))?;
        let f = self.0.apply(x, rng).map_err(|e| mimic(AND1, "First", e))?;
        Ok((f, g))
    }
}

fn mutant_shapes(selftest: u8) -> Vec<(&'static str, ShapeFn)> {
    let p = |id, d| Probe { id, d };
    match selftest {
        5 => vec![("(then (p 1 1) (p 2 1))", Box::new(move |ctx: &mut Ctx| { let x: V = GenIn::gen(&mut ctx.gen); run_case(&BadThen(p(1, 1), p(2, 1)), x, "(then (p 1 1) (p 2 1))", ctx) }) as ShapeFn)],
        6 => vec![("(map (p 1 1))", Box::new(move |ctx: &mut Ctx| { let x: Vec<V> = GenIn::gen(&mut ctx.gen); run_case(&BadMapVec(p(1, 1)), x, "(map (p 1 1))", ctx) }) as ShapeFn)],
        7 => vec![("(rep 3 (p 1 1))", Box::new(move |ctx: &mut Ctx| { let x: V = GenIn::gen(&mut ctx.gen); run_case(&BadRepeat3(p(1, 1)), x, "(rep 3 (p 1 1))", ctx) }) as ShapeFn)],
        _ => vec![("(and (p 1 1) (p 2 1))", Box::new(move |ctx: &mut Ctx| { let x: V = GenIn::gen(&mut ctx.gen); run_case(&BadAnd(p(1, 1), p(2, 1)), x, "(and (p 1 1) (p 2 1))", ctx) }) as ShapeFn)],
    }
}

pub struct Outcome {
    pub res: String,
    pub log: Vec<Call>,
    pub words: u64,
    pub dbg_ok: bool,
}

/// one run of the real pipeline under a script
fn real_run<In, O>(op: &O, input: In, rng: &mut SplitMix, fail_at: Option<usize>, mode: u8) -> Outcome
where
    O: Operator<In>,
    O::Output: ToV,
    O::Error: std::error::Error + 'static,
{
    set_script(fail_at, mode);
    let before = rng.words;
    let r = std::panic::catch_unwind(std::panic::AssertUnwindSafe(|| op.apply(input, rng)));
    let log = take_log();
    let mut dbg_ok = true;
    let res = match r {
        Ok(Ok(v)) => format!("ok {}", show(&v.to_v())),
        Ok(Err(e)) => {
            let (c, dbg) = canon_err(&e);
            // the Debug text is only required not to contradict the rest (a derive or a hand-written impl are both fine)
            let _ = dbg;
            dbg_ok = !c.contains("CONTRADICTION");
            format!("err {c}")
        }
        Err(_) => "panic".into(),
    };
    Outcome { res, log, words: rng.words - before, dbg_ok }
}

/// `UEC_SELFTEST=k`: what a broken combinator would look like to the check, emulated on the outcome
/// of the real run (never touches /repo).  1: a failing part does not stop the pipeline's draws
/// (one more word consumed after a failure); 2: First/Second swapped in the reported error;
/// 3: element index off by one; 4: the parts run right to left (call log reversed).
fn mutate_real(o: &mut Outcome, rng: &mut SplitMix, selftest: u8) {
    match selftest {
        1 => if o.res.starts_with("err") { rng.next_u64(); o.words += 1; },
        2 => { o.res = o.res.replace("First(", "\u{1}(").replace("Second(", "First(").replace("\u{1}(", "Second("); }
        3 => if let Some(p) = o.res.rfind(',') {
            if o.res[..p].contains("map(") || o.res.contains("map(") {
                // bump the last index of the outermost map(…,i)
                if let Some(q) = o.res.rfind(')') {
                    if let Ok(i) = o.res[p + 1..q].parse::<u64>() { o.res = format!("{}{}{}", &o.res[..p + 1], i + 1, &o.res[q..]); }
                }
            }
        },
        4 => o.log.reverse(),
        _ => {}
    }
}

fn root(res: &str) -> String {
    let t = res.split(|c| c == '(' || c == ' ').take(2).collect::<Vec<_>>().join(" ");
    if res.starts_with("ok") { "ok".into() } else { t }
}

pub const RULE: &str = "catalogue of composition shapes (depth <= 4) over probe operators, each built from real ec-core \
combinators/wrappers; per shape: seeded inputs (incl. empty vectors/populations) and every failure position (each component \
call, failing before or after its draws) plus the failure-free run; compared with the Lean Impl model: result value / error \
path, and the generator state after the call (shadow replay); with the Lean Spec: result and the component call log (order, \
inputs, draws, failed flag); model-free oracles on the real run alone; non-trivial = the failure-free run makes >= 2 component \
calls and draws >= 1 word; distinct by request line, seed and script";

/// One shape on one input: the failure-free run, then every failure position in both modes.
pub fn run_case<In, O>(op: &O, input: In, term: &str, ctx: &mut Ctx)
where
    In: ToV + Clone,
    O: Operator<In>,
    O::Output: ToV,
    O::Error: std::error::Error + 'static,
{
    let xin = input.to_v();
    // `stringify!` may break long terms over several lines
    let term = term.split_whitespace().collect::<Vec<_>>().join(" ");
    let req = format!("ops {} | {}", show(&xin), term);
    let base_rng = SplitMix::derive(ctx.seed ^ 0x0C14, ctx.case);
    // failure-free run first: it tells how many component calls there are
    let base = real_run(op, input.clone(), &mut base_rng.clone(), None, 0);
    let m = base.log.len();
    let mut scripts: Vec<(Option<usize>, u8)> = vec![(None, 0)];
    for j in 0..m {
        scripts.push((Some(j), 1));
        scripts.push((Some(j), 2));
    }
    let nontrivial = m >= 2 && base.words >= 1;
    ctx.r.hit(&format!("calls-in-failure-free-run {}", if m >= 8 { "8+".to_string() } else { m.to_string() }));
    for (fail_at, mode) in scripts {
        let mut real_rng = base_rng.clone();
        let mut shadow = base_rng.clone();
        let mut again = base_rng.clone();
        let mut real = real_run(op, input.clone(), &mut real_rng, fail_at, mode);
        let second = real_run(op, input.clone(), &mut again, fail_at, mode);
        mutate_real(&mut real, &mut real_rng, ctx.selftest);
        let case = json!({"request": req, "fail_at": fail_at, "mode": mode, "case": ctx.case});
        // ---- the model: requests answered from the shadow generator and the same script
        let mut mcalls: Vec<(u64, u64)> = Vec::new();
        let mut user = |tag: u64, rng: &mut SplitMix| -> String {
            if tag & 3 == 0 {
                let j = mcalls.len();
                mcalls.push(((tag >> 2) & 63, tag >> 8));
                format!("n {}", if fail_at == Some(j) { mode } else { 0 })
            } else {
                format!("n {}", rng.next_u64())
            }
        };
        let reply = ctx.d.ask_with(&req, |p| prims::answer(p, &mut shadow, &mut user));
        let (impl_s, spec_s) = reply.split_once(" ## ").unwrap_or((&reply, ""));
        let mut spec_parts = spec_s.split(" ; ");
        let spec_res = spec_parts.next().unwrap_or("");
        let _rest = spec_parts.next();
        let spec_calls = spec_parts.next().unwrap_or("").strip_prefix("calls=").unwrap_or("").to_string();
        let real_calls = real.log.iter().map(|c| format!("{}:{}:{}:{}", c.id, c.hash48, 1 + c.drawn, c.failed as u8)).collect::<Vec<_>>().join(",");
        ctx.r.case(&format!("{req}#{}#{fail_at:?}#{mode}", ctx.case), nontrivial);
        ctx.r.hit(&format!("outcome {}", root(&real.res)));
        ctx.r.hit(match (fail_at, mode) { (None, _) => "script failure-free", (_, 1) => "script fail-before-draw", _ => "script fail-after-draw" });
        ctx.r.sample(json!({"request": req, "fail_at": fail_at, "mode": mode, "real": real.res, "calls": real_calls, "rng_words": real.words}));
        // ---- correspondence with the Impl model
        let same_stream = real_rng.next_u64() == shadow.next_u64();
        let impl_agrees = same_err_text(&real.res, impl_s) && same_stream;
        // ---- the property itself: Spec + model-free oracles
        let mut what: Vec<String> = Vec::new();
        if !same_err_text(&real.res, spec_res) { what.push(format!("result differs from the Spec: {spec_res}")); }
        if real_calls != spec_calls { what.push(format!("component calls (order/inputs/draws/failed) differ from the Spec: {spec_calls}")); }
        if real.res == "panic" { what.push("the pipeline panicked".into()); }
        if !real.dbg_ok { what.push("Debug text of the error does not match its Display/source structure".into()); }
        // every draw belongs to a component call: combinators and wrappers draw nothing
        let drawn: u64 = real.log.iter().map(|c| c.drawn as u64).sum();
        if real.words != drawn { what.push(format!("generator advanced by {} words but the component calls drew {}", real.words, drawn)); }
        if let Some(j) = fail_at {
            if !real.res.starts_with("err") { what.push("a component failed but the pipeline reported success".into()); }
            if real.log.len() != j + 1 { what.push(format!("{} component calls were made although call {} failed (later parts must not run)", real.log.len(), j)); }
            if real.log.len() > j && real.log[..j] != base.log[..j] { what.push("the calls before the failing one differ from the failure-free run".into()); }
            if let Some(c) = real.log.get(j) {
                let want = format!("own({},{})", c.id, mode - 1);
                if !real.res.contains(&want) { what.push(format!("the error does not carry the failing component's error {want}")); }
            }
        }
        if second.res != real.res && ctx.selftest == 0 { what.push("two runs from equal generator states differ".into()); }
        if !what.is_empty() {
            ctx.r.violate(json!({"case": case, "real": real.res, "real_calls": real_calls, "spec": spec_res, "what": what}));
        } else if !impl_agrees {
            ctx.r.disagree(json!({"case": case, "real": real.res, "impl": impl_s, "same_generator_state_after": same_stream}));
        }
        if mcalls.len() != real.log.len() && what.is_empty() && impl_agrees {
            ctx.r.disagree(json!({"case": case, "what": "number of component calls announced by the model differs", "model": mcalls.len(), "real": real.log.len()}));
        }
    }
}

/// `map` / `then_map` over astronomically long vectors of zero-sized inputs whose k-th element fails: the components run
/// in order and stop at the first failure - k + 1 applications, the error comes back, nothing is allocated for the
/// elements that are never reached, no panic.  Model-free.
fn astronomic_map_inputs(rep: &mut Report) {
    use std::sync::atomic::{AtomicUsize, Ordering};
    struct FailAt { k: usize, calls: std::sync::Arc<AtomicUsize> }
    impl Composable for FailAt {}
    impl Operator<()> for FailAt {
        type Output = u64;
        type Error = ProbeErr;
        fn apply<R: rand::Rng + ?Sized>(&self, _x: (), rng: &mut R) -> Result<u64, ProbeErr> {
            let c = self.calls.fetch_add(1, Ordering::SeqCst);
            if c == self.k { Err(ProbeErr { id: 9, code: 1 }) } else { Ok(rng.next_u64()) }
        }
    }
    for n in [usize::MAX, usize::MAX / 2 + 1, (isize::MAX as usize) / 8 + 1, 1usize << 40] {
        for k in [0usize, 3] {
            for form in 0..2 {
                let calls = std::sync::Arc::new(AtomicUsize::new(0));
                let mut rng = SplitMix::new(n as u64 ^ k as u64);
                let input: Vec<()> = vec![(); n];
                let c2 = calls.clone();
                let res = std::panic::catch_unwind(std::panic::AssertUnwindSafe(|| {
                    if form == 0 { Identity.map(FailAt { k, calls: c2 }).apply(input, &mut rng).map(|v| v.len()).map_err(|e| e.to_string()) }
                    else { Identity.then_map(FailAt { k, calls: c2 }).apply(input, &mut rng).map(|v| v.len()).map_err(|e| e.to_string()) }
                }));
                rep.case(&format!("astronomic map input n={n} k={k} form={form}"), true);
                rep.hit("map over an astronomically long vector (oracle only)");
                let made = calls.load(Ordering::SeqCst);
                let bad = match res {
                    Err(_) => Some("panicked".to_string()),
                    Ok(Ok(len)) => Some(format!("succeeded with {len} outputs")),
                    Ok(Err(_)) => if made != k + 1 { Some(format!("the component was applied {made} times")) } else { None },
                };
                if let Some(b) = bad {
                    rep.violate(json!({"case": format!("{} over a vector of {n} zero-sized inputs whose element {k} fails", if form == 0 { "map" } else { "then_map" }), "real": b,
                        "what": format!("the components run in order and stop at the first failure: {} applications, then its error", k + 1)}));
                }
            }
        }
    }
}

pub fn run(cfg: &Cfg) -> Report {
    let selftest: u8 = std::env::var("UEC_SELFTEST").ok().and_then(|s| s.parse().ok()).unwrap_or(0);
    let shapes = if (5..=8).contains(&selftest) { mutant_shapes(selftest) } else { shapes() };
    let n_shapes = shapes.len() as u64;
    let seeds_per_shape: u64 = if cfg.thorough { 3000 } else { 100 };
    let n = n_shapes * seeds_per_shape;
    let seed = cfg.seed;
    let mut rep = run_sharded(&cfg.driver, cfg.threads, n, || Report::new("ops", RULE), |d, r, i| {
        let (term, f) = &shapes[(i % n_shapes) as usize];
        r.hit(&format!("shape {term}"));
        let mut ctx = Ctx { d, r, gen: SplitMix::derive(seed, i), seed, case: i, selftest };
        f(&mut ctx);
    });
    if selftest == 0 { crate::watch::guarded("ops: map / then_map over astronomically long vectors of zero-sized inputs with a failing element", || astronomic_map_inputs(&mut rep)); }
    rep.exhaustive = true;
    rep.notes.push(format!("{n_shapes} shapes x {seeds_per_shape} seeded inputs; for each, every component call as failure position x {{before, after}} its draws (exhaustive) + the failure-free run"));
    rep
}
