//! What one family run covered and found; serialised for `./check`.
use serde_json::{json, Value};
use std::collections::{BTreeMap, HashSet};
use std::hash::{Hash, Hasher};

#[derive(Default)]
pub struct Report {
    pub family: String,
    pub evaluations: u64,
    distinct: HashSet<u64>,
    pub rule: String,
    pub samples: Vec<Value>,
    pub histogram: BTreeMap<String, u64>,
    /// real code differs from the Impl model (correspondence broken)
    pub disagreements: Vec<Value>,
    /// real code contradicts the property itself (Spec / model-free oracle) on a concrete input
    pub violations: Vec<Value>,
    pub exhaustive: bool,
    pub notes: Vec<String>,
}

fn h64(s: &str) -> u64 {
    let mut h = std::collections::hash_map::DefaultHasher::new();
    s.hash(&mut h);
    h.finish()
}

impl Report {
    pub fn new(family: &str, rule: &str) -> Self {
        Self { family: family.into(), rule: rule.into(), ..Default::default() }
    }
    /// count one evaluated case; `nontrivial` by the family's stated rule
    pub fn case(&mut self, canonical: &str, nontrivial: bool) {
        self.evaluations += 1;
        if nontrivial {
            self.distinct.insert(h64(canonical));
        }
    }
    pub fn sample(&mut self, v: Value) {
        if self.samples.len() < 6 {
            self.samples.push(v);
        }
    }
    pub fn hit(&mut self, key: &str) {
        *self.histogram.entry(key.to_string()).or_insert(0) += 1;
    }
    pub fn hit_n(&mut self, key: &str, n: u64) {
        *self.histogram.entry(key.to_string()).or_insert(0) += n;
    }
    pub fn disagree(&mut self, v: Value) {
        if self.disagreements.len() < 50 {
            self.disagreements.push(v);
        } else {
            self.hit("disagreements-not-listed");
        }
    }
    pub fn violate(&mut self, v: Value) {
        if self.violations.len() < 5000 {
            self.violations.push(v);
        } else {
            self.hit("violations-not-listed");
        }
    }
    pub fn merge(&mut self, other: Report) {
        self.evaluations += other.evaluations;
        self.distinct.extend(other.distinct);
        for s in other.samples {
            self.sample(s);
        }
        for (k, v) in other.histogram {
            *self.histogram.entry(k).or_insert(0) += v;
        }
        for d in other.disagreements {
            self.disagree(d);
        }
        for d in other.violations {
            self.violate(d);
        }
        self.notes.extend(other.notes);
    }
    pub fn to_json(&self) -> Value {
        // smallest cases first; keep the report small
        let small = |v: &Vec<Value>| -> Vec<Value> {
            let mut v: Vec<(usize, Value)> = v.iter().map(|x| (x.to_string().len(), x.clone())).collect();
            v.sort_by_key(|(n, _)| *n);
            v.into_iter().take(25).map(|(_, x)| x).collect()
        };
        let n_dis = self.disagreements.len() as u64 + self.histogram.get("disagreements-not-listed").copied().unwrap_or(0);
        let n_vio = self.violations.len() as u64 + self.histogram.get("violations-not-listed").copied().unwrap_or(0);
        json!({
            "n_disagreements": n_dis,
            "n_violations": n_vio,
            "family": self.family,
            "evaluations": self.evaluations,
            "distinct_nontrivial": self.distinct.len(),
            "rule": self.rule,
            "samples": self.samples,
            "histogram": self.histogram,
            "disagreements": small(&self.disagreements),
            "violations": small(&self.violations),
            "exhaustive": self.exhaustive,
            "notes": self.notes,
        })
    }
}
