//! Answers to the model's `NEED <prim>` requests: the *same rand call* the repository makes,
//! applied to a shadow clone of the generator the real code consumed (DESIGN.md §4, §5).
use rand::distr::{Bernoulli, Distribution, Uniform};
use rand::prelude::{IndexedRandom, SliceRandom};
use rand::Rng;

fn list(l: &[usize]) -> String {
    format!("l {}", l.iter().map(|x| x.to_string()).collect::<Vec<_>>().join(","))
}

/// `user` requests are family specific: `user(tag, rng) -> answer line`.
pub fn answer<R: Rng>(prim: &str, rng: &mut R, user: &mut dyn FnMut(u64, &mut R) -> String) -> String {
    let t: Vec<&str> = prim.split(' ').collect();
    let n = |i: usize| -> usize { t[i].parse().expect("prim arg") };
    match t[0] {
        "f32" => format!("w {}", rng.random::<f32>().to_bits()),
        "bool" => format!("b {}", if rng.random::<bool>() { "t" } else { "f" }),
        "boolP" => {
            let p = f64::from_bits(t[1].parse::<u64>().expect("bits"));
            format!("b {}", if rng.random_bool(p) { "t" } else { "f" })
        }
        "ratio" => match Bernoulli::from_ratio(n(1) as u32, n(2) as u32) {
            Ok(d) => format!("b {}", if d.sample(rng) { "t" } else { "f" }),
            Err(_) => "err".into(),
        },
        "range" => format!("n {}", rng.random_range(n(1)..n(2))),
        "rangeIncl" => format!("n {}", rng.random_range(n(1)..=n(2))),
        "uniform" => match Uniform::new(0usize, n(1)) {
            Ok(d) => format!("n {}", d.sample(rng)),
            Err(_) => "err".into(),
        },
        "choose" => {
            let idx: Vec<usize> = (0..n(1)).collect();
            match idx.choose(rng) {
                Some(i) => format!("n {i}"),
                None => "none".into(),
            }
        }
        "chooseDistr" => {
            let idx: Vec<usize> = (0..n(1)).collect();
            match rand::distr::slice::Choose::new(&idx) {
                Ok(d) => format!("n {}", d.sample(rng)),
                Err(_) => "err".into(),
            }
        }
        "chooseMultiple" => {
            let idx: Vec<usize> = (0..n(1)).collect();
            let v: Vec<usize> = idx.choose_multiple(rng, n(2)).copied().collect();
            list(&v)
        }
        "chooseWeighted" => {
            // weights are `usize`, as in DynWeighted (the only caller of choose_weighted in the repository)
            let ws: Vec<usize> = if t.len() < 2 || t[1].is_empty() { vec![] } else { t[1].split(',').map(|x| x.parse().expect("w")).collect() };
            let idx: Vec<usize> = (0..ws.len()).collect();
            match idx.choose_weighted(rng, |i| ws[*i]) {
                Ok(i) => format!("n {i}"),
                Err(_) => "err".into(),
            }
        }
        "shuffle" => {
            let mut idx: Vec<usize> = (0..n(1)).collect();
            idx.shuffle(rng);
            list(&idx)
        }
        "user" => user(t[1].parse().expect("tag"), rng),
        other => panic!("unknown primitive requested by the model: {other}"),
    }
}

pub fn no_user<R: Rng>(tag: u64, _: &mut R) -> String {
    panic!("unexpected user request {tag}")
}
