//! Wall-clock watchdog.  The real code runs in-process; if one case does not return (a loop that never ends, a
//! dead-lock), no comparison is ever made and the check would just sit there.  Every worker announces the case it
//! is about to run; a watchdog thread writes a report naming the stuck case and ends the process when a case
//! exceeds the limit.  (C03: "it never panics or hangs"; for the other families: the operation returns.)
use crate::report::Report;
use serde_json::json;
use std::sync::atomic::{AtomicBool, AtomicU64, Ordering};
use std::sync::{Mutex, OnceLock};
use std::time::{Duration, Instant};

const SLOTS: usize = 128;

struct Slot {
    /// 0 = idle, otherwise milliseconds since `T0` (+1) at which the current case started
    since: AtomicU64,
    index: AtomicU64,
    note: Mutex<String>,
}

struct Watch {
    t0: Instant,
    slots: Vec<Slot>,
    family: Mutex<String>,
    out: Mutex<String>,
    prop: Mutex<String>,
    started: AtomicBool,
}

fn w() -> &'static Watch {
    static W: OnceLock<Watch> = OnceLock::new();
    W.get_or_init(|| Watch {
        t0: Instant::now(),
        slots: (0..SLOTS).map(|_| Slot { since: AtomicU64::new(0), index: AtomicU64::new(0), note: Mutex::new(String::new()) }).collect(),
        family: Mutex::new(String::new()),
        out: Mutex::new(String::new()),
        prop: Mutex::new(String::new()),
        started: AtomicBool::new(false),
    })
}

thread_local! { static MY_SLOT: std::cell::Cell<usize> = const { std::cell::Cell::new(usize::MAX) }; }

/// `UEC_TRACE_LAST=<file>`: the case about to be handed to the real code is written to the file (overwriting the
/// previous one).  `./check` re-runs a family that died (abort, allocation failure, stack overflow: nothing a
/// `catch_unwind` can stop) single-threaded with this switch to learn the input it died on.
fn trace(what: &str) {
    use std::io::{Seek, SeekFrom, Write};
    static F: OnceLock<Option<Mutex<std::fs::File>>> = OnceLock::new();
    let f = F.get_or_init(|| std::env::var("UEC_TRACE_LAST").ok().and_then(|p| std::fs::File::create(p).ok()).map(Mutex::new));
    if let Some(m) = f {
        if let Ok(mut file) = m.lock() {
            let line = format!("{:08}{}", what.len(), what);
            let _ = file.seek(SeekFrom::Start(0));
            let _ = file.write_all(line.as_bytes());
        }
    }
}

/// called by `run_sharded` before / after each case of worker `worker`
pub fn begin(worker: usize, index: u64) {
    let fam = w().family.lock().map(|g| g.clone()).unwrap_or_default();
    trace(&format!("{fam} case #{index}"));
    let wt = w();
    let s = &wt.slots[worker % SLOTS];
    MY_SLOT.with(|c| c.set(worker % SLOTS));
    s.index.store(index, Ordering::Relaxed);
    if let Ok(mut n) = s.note.lock() { n.clear(); }
    s.since.store(wt.t0.elapsed().as_millis() as u64 + 1, Ordering::Release);
}
pub fn end(worker: usize) {
    w().slots[worker % SLOTS].since.store(0, Ordering::Release);
}
/// optional: the family says what it is about to hand to the real code (shown in the replay)
pub fn note(what: &str) {
    let i = MY_SLOT.with(|c| c.get());
    if i == usize::MAX { return; }
    trace(what);
    if let Ok(mut n) = w().slots[i].note.lock() { n.clear(); n.push_str(what); }
}

/// Scenarios that run outside `run_sharded` (model-free oracles after the sharded cases) are watched, too: a scenario
/// that does not return within the limit is reported like a stuck case.  Slots 96.. are reserved for these.
pub fn guarded<T>(what: &str, f: impl FnOnce() -> T) -> T {
    use std::sync::atomic::AtomicUsize;
    static NEXT: AtomicUsize = AtomicUsize::new(0);
    let slot = 96 + NEXT.fetch_add(1, Ordering::Relaxed) % 32;
    begin(slot, 0);
    note(what);
    let r = f();
    end(slot);
    r
}

/// start the watchdog once per process
pub fn start(family: &str, out: &str, prop: &str, limit: Duration) {
    let wt = w();
    *wt.family.lock().unwrap() = family.to_string();
    *wt.out.lock().unwrap() = out.to_string();
    *wt.prop.lock().unwrap() = prop.to_string();
    if wt.started.swap(true, Ordering::SeqCst) { return; }
    std::thread::spawn(move || loop {
        std::thread::sleep(Duration::from_millis(200));
        let now = wt.t0.elapsed().as_millis() as u64 + 1;
        for (si, s) in wt.slots.iter().enumerate() {
            let since = s.since.load(Ordering::Acquire);
            // whole scenarios (slots 96..) get fifteen times the allowance of a single case
            let allowed = limit.as_millis() as u64 * if si >= 96 { 15 } else { 1 };
            if since != 0 && now.saturating_sub(since) > allowed {
                let family = wt.family.lock().map(|g| g.clone()).unwrap_or_default();
                let note = s.note.try_lock().map(|g| g.clone()).unwrap_or_default();
                let idx = s.index.load(Ordering::Relaxed);
                let case = if note.is_empty() { format!("{family} case #{idx}") } else { format!("{note}  [{family} case #{idx}]") };
                let mut rep = Report::new(&family, "watchdog: a case of the real code did not return");
                let mut v = json!({"case": case, "real": "no return", "what": format!("the real code did not return within {} s on this input (it hangs); the run was stopped", allowed / 1000)});
                if family.starts_with("push") { v["prop"] = json!("C03"); }
                rep.violate(v);
                rep.notes.push("stopped by the watchdog; the other cases of this run were not evaluated".into());
                let js = serde_json::to_string_pretty(&rep.to_json()).unwrap();
                let out = wt.out.lock().map(|g| g.clone()).unwrap_or_default();
                if out.is_empty() { println!("{js}"); } else { let _ = std::fs::write(&out, js); }
                std::process::exit(0);
            }
        }
    });
}
