//! Pipe to the compiled Lean model driver (`uec-driver`): one request line, one reply line,
//! with optional `NEED <prim>` sub-dialogue answered by a callback.
use std::io::{BufRead, BufReader, Write};
use std::process::{Child, ChildStdin, ChildStdout, Command, Stdio};

pub struct Driver {
    child: Child,
    stdin: ChildStdin,
    stdout: BufReader<ChildStdout>,
    pub requests: u64,
}

impl Driver {
    pub fn spawn(path: &str) -> Self {
        let mut child = Command::new(path)
            .stdin(Stdio::piped())
            .stdout(Stdio::piped())
            .spawn()
            .unwrap_or_else(|e| panic!("cannot start model driver {path}: {e}"));
        let stdin = child.stdin.take().unwrap();
        let stdout = BufReader::new(child.stdout.take().unwrap());
        let mut d = Self { child, stdin, stdout, requests: 0 };
        assert_eq!(d.ask("ping"), "pong", "driver handshake failed");
        d
    }

    fn read_line(&mut self) -> String {
        let mut s = String::new();
        let n = self.stdout.read_line(&mut s).expect("driver read");
        assert!(n > 0, "model driver closed its output unexpectedly");
        while s.ends_with('\n') || s.ends_with('\r') {
            s.pop();
        }
        s
    }

    /// Plain request (no randomness expected).
    pub fn ask(&mut self, line: &str) -> String {
        self.ask_with(line, |p| panic!("unexpected NEED {p} for request"))
    }

    /// Request whose model may ask for primitive answers.
    pub fn ask_with(&mut self, line: &str, mut answer: impl FnMut(&str) -> String) -> String {
        debug_assert!(!line.contains('\n'));
        self.requests += 1;
        writeln!(self.stdin, "{line}").expect("driver write");
        self.stdin.flush().expect("driver flush");
        loop {
            let reply = self.read_line();
            if let Some(prim) = reply.strip_prefix("NEED ") {
                let a = answer(prim);
                writeln!(self.stdin, "{a}").expect("driver write");
                self.stdin.flush().expect("driver flush");
            } else {
                return reply;
            }
        }
    }
}

impl Drop for Driver {
    fn drop(&mut self) {
        let _ = self.child.kill();
        let _ = self.child.wait();
    }
}
