//! Push VM (C01, C02, C03, C16): the real `PushState`/instructions/interpreter against the Lean
//! Impl model, plus model-free property oracles.
//!   family `push-instr`: every instruction × stack fill levels × capacity relations × boundary values
//!   family `push-run`  : random (type-aware, looping, growing, nested) programs, limit sweeps
use crate::driver::Driver;
use crate::report::Report;
use crate::rng::SplitMix;
use crate::shard::run_sharded;
use crate::Cfg;
use ordered_float::OrderedFloat;
use push::error::into_state::IntoState;
use push::instruction::variable_name::VariableName;
use push::instruction::{BoolInstruction, ExecInstruction, FloatInstruction, IntInstruction, PushInstruction};
use push::push_vm::program::PushProgram;
use push::push_vm::push_state::PushState;
use push::push_vm::{HasStack, State};
use serde_json::json;
use std::collections::BTreeMap;
use strum::IntoEnumIterator;

pub const USIZE_MAX: u128 = usize::MAX as u128;
const NAN_BITS: u64 = 0x7ff8_0000_0000_0000;

pub fn canon_bits(f: f64) -> u64 {
    if f.is_nan() { NAN_BITS } else { f.to_bits() }
}

fn hex(bytes: &[u8]) -> String {
    bytes.iter().map(|b| format!("{b:02x}")).collect()
}

// ---------------------------------------------------------------------------------------------
// inventory and tokens
// ---------------------------------------------------------------------------------------------

pub struct Inv {
    pub ints: BTreeMap<String, IntInstruction>,
    pub floats: BTreeMap<String, FloatInstruction>,
    pub bools: BTreeMap<String, BoolInstruction>,
    pub execs: BTreeMap<String, ExecInstruction>,
    pub exec_push: ExecInstruction,
}

impl Inv {
    pub fn new() -> Self {
        let mut ints = BTreeMap::new();
        for i in IntInstruction::iter() {
            if !matches!(i, IntInstruction::Push(_)) { ints.insert(format!("{i}"), i); }
        }
        let mut floats = BTreeMap::new();
        for i in FloatInstruction::iter() {
            if !matches!(i, FloatInstruction::Push(_)) { floats.insert(format!("{i}"), i); }
        }
        let mut bools = BTreeMap::new();
        for i in BoolInstruction::iter() {
            if !matches!(i, BoolInstruction::Push(_)) { bools.insert(format!("{i}"), i); }
        }
        let mut execs = BTreeMap::new();
        let mut exec_push = None;
        for i in ExecInstruction::iter() {
            if matches!(i, ExecInstruction::Push(_)) { exec_push = Some(i); } else { execs.insert(format!("{i}"), i); }
        }
        Self { ints, floats, bools, execs, exec_push: exec_push.expect("Exec::Push variant") }
    }
    pub fn exec_push_of(&self, p: PushProgram) -> PushInstruction {
        let mut e = self.exec_push.clone();
        if let ExecInstruction::Push(b) = &mut e { b.0 = p; }
        e.into()
    }
    /// every instruction without payload, as PushInstruction, with its token
    pub fn plain(&self) -> Vec<PushInstruction> {
        let mut v: Vec<PushInstruction> = Vec::new();
        v.extend(self.ints.values().cloned().map(Into::into));
        v.extend(self.floats.values().cloned().map(Into::into));
        v.extend(self.bools.values().cloned().map(Into::into));
        v.extend(self.execs.values().cloned().map(Into::into));
        v
    }
    pub fn names(&self) -> Vec<String> {
        let mut v = Vec::new();
        v.extend(self.ints.keys().map(|k| format!("I.{k}")));
        v.extend(self.floats.keys().map(|k| format!("F.{k}")));
        v.extend(self.bools.keys().map(|k| format!("B.{k}")));
        v.extend(self.execs.keys().map(|k| format!("E.{k}")));
        v.extend(["I.Push", "F.Push", "B.Push", "E.Push"].iter().map(|s| s.to_string()));
        v.sort();
        v
    }
}

pub fn instr_tokens(i: &PushInstruction, out: &mut Vec<String>) {
    match i {
        PushInstruction::InputVar(v) => out.push(format!("V:{v}")),
        PushInstruction::IntInstruction(IntInstruction::Push(v)) => out.push(format!("I.Push:{}", v.0)),
        PushInstruction::IntInstruction(x) => out.push(format!("I.{x}")),
        PushInstruction::FloatInstruction(FloatInstruction::Push(v)) => out.push(format!("F.Push:{}", canon_bits(v.0 .0))),
        PushInstruction::FloatInstruction(x) => out.push(format!("F.{x}")),
        PushInstruction::BoolInstruction(BoolInstruction::Push(v)) => out.push(format!("B.Push:{}", if v.0 { "t" } else { "f" })),
        PushInstruction::BoolInstruction(x) => out.push(format!("B.{x}")),
        PushInstruction::Exec(ExecInstruction::Push(b)) => {
            out.push("E.Push".into());
            prog_tokens(&b.0, out);
        }
        PushInstruction::Exec(x) => out.push(format!("E.{x}")),
        PushInstruction::PrintSpace(_) => out.push("P.Space".into()),
        PushInstruction::PrintNewline(_) => out.push("P.Newline".into()),
        PushInstruction::PrintPeriod(_) => out.push("P.Period".into()),
        PushInstruction::PrintString(s) => {
            if s.0.is_empty() { out.push("P.String".into()) } else { out.push(format!("P.String:{}", hex(s.0.as_bytes()))) }
        }
        _ => out.push("?unknown-instruction".into()),
    }
}

pub fn prog_tokens(p: &PushProgram, out: &mut Vec<String>) {
    match p {
        PushProgram::Instruction(i) => instr_tokens(i, out),
        PushProgram::Block(b) => {
            out.push("(".into());
            for q in b { prog_tokens(q, out); }
            out.push(")".into());
        }
    }
}

pub fn progs_string(ps: &[PushProgram]) -> String {
    let mut out = Vec::new();
    for p in ps { prog_tokens(p, &mut out); }
    out.join(" ")
}

// ---------------------------------------------------------------------------------------------
// states
// ---------------------------------------------------------------------------------------------

#[derive(Clone, Debug)]
pub enum LitV { I(i64), F(f64), B(bool) }

#[derive(Clone, Debug)]
pub struct StateSpec {
    pub max_steps: usize,
    pub exec_max: usize,
    pub int_max: usize,
    pub float_max: usize,
    pub bool_max: usize,
    /// bottom first
    pub exec: Vec<PushProgram>,
    pub ints: Vec<i64>,
    pub floats: Vec<f64>,
    pub bools: Vec<bool>,
    pub inputs: Vec<(String, LitV)>,
}

fn fill<T>(st: &mut push::push_vm::stack::Stack<T>, vals: Vec<T>, max: usize) {
    // contents first (with unlimited room), then the limit: also allows over-full states
    st.set_max_stack_size(usize::MAX);
    let mut v = vals;
    v.reverse(); // push_many makes the first supplied value the top
    st.push_many(v).expect("unlimited stack");
    st.set_max_stack_size(max);
}

impl StateSpec {
    pub fn build(&self) -> PushState {
        let mut b = PushState::builder().with_max_stack_size(0).with_no_program();
        for (n, v) in &self.inputs {
            b = match v {
                LitV::I(x) => b.with_int_input(n, *x),
                LitV::F(x) => b.with_float_input(n, OrderedFloat(*x)),
                LitV::B(x) => b.with_bool_input(n, *x),
            };
        }
        let mut s = b.with_instruction_step_limit(self.max_steps).build();
        fill(s.stack_mut::<PushProgram>(), self.exec.clone(), self.exec_max);
        fill(s.stack_mut::<i64>(), self.ints.clone(), self.int_max);
        fill(s.stack_mut::<OrderedFloat<f64>>(), self.floats.iter().map(|f| OrderedFloat(*f)).collect(), self.float_max);
        fill(s.stack_mut::<bool>(), self.bools.clone(), self.bool_max);
        s
    }
    /// The same state configured through the generated builder alone (only for states within their limits): junk
    /// per-stack sizes first, then the common size, then individual sizes only where they differ from the common one -
    /// the size set last is the one in effect -, then contents, program, inputs.  `None`: the builder refused.
    pub fn build_via_builder(&self) -> Option<PushState> {
        let rev = |v: &Vec<i64>| -> Vec<i64> { let mut w = v.clone(); w.reverse(); w };
        let mut b = PushState::builder()
            .with_int_max_size(usize::MAX / 3).with_float_max_size(1).with_bool_max_size(0)
            .with_max_stack_size(self.exec_max);
        if self.int_max != self.exec_max { b = b.with_int_max_size(self.int_max); }
        if self.float_max != self.exec_max { b = b.with_float_max_size(self.float_max); }
        if self.bool_max != self.exec_max { b = b.with_bool_max_size(self.bool_max); }
        let mut fl: Vec<OrderedFloat<f64>> = self.floats.iter().map(|f| OrderedFloat(*f)).collect(); fl.reverse();
        let mut bl = self.bools.clone(); bl.reverse();
        let mut prog = self.exec.clone(); prog.reverse();
        let mut b = b.with_int_values(rev(&self.ints)).ok()?.with_float_values(fl).ok()?.with_bool_values(bl).ok()?.with_program(prog).ok()?;
        for (n, v) in &self.inputs {
            b = match v {
                LitV::I(x) => b.with_int_input(n, *x),
                LitV::F(x) => b.with_float_input(n, OrderedFloat(*x)),
                LitV::B(x) => b.with_bool_input(n, *x),
            };
        }
        Some(b.with_instruction_step_limit(self.max_steps).build())
    }
    pub fn request_body(&self) -> String {
        format!(
            "{} {} {} {} {} | {} | {} | {} | {} | {}",
            self.max_steps, self.exec_max, self.int_max, self.float_max, self.bool_max,
            progs_string(&self.exec),
            self.ints.iter().map(|x| x.to_string()).collect::<Vec<_>>().join(" "),
            self.floats.iter().map(|x| canon_bits(*x).to_string()).collect::<Vec<_>>().join(" "),
            self.bools.iter().map(|b| if *b { "t" } else { "f" }).collect::<Vec<_>>().join(" "),
            // a name declared more than once is bound to the value declared last: the model is given the effective bindings
            self.inputs.iter().enumerate().filter(|(i, (n, _))| !self.inputs[i + 1..].iter().any(|(m, _)| m == n)).map(|(_, x)| x).map(|(n, v)| match v {
                LitV::I(x) => format!("{n}=I:{x}"),
                LitV::F(x) => format!("{n}=F:{}", canon_bits(*x)),
                LitV::B(x) => format!("{n}=B:{}", if *x { "t" } else { "f" }),
            }).collect::<Vec<_>>().join(" "),
        )
    }
    pub fn wf(&self) -> bool {
        self.exec.len() <= self.exec_max && self.ints.len() <= self.int_max && self.floats.len() <= self.float_max && self.bools.len() <= self.bool_max
    }
}

fn drain<T: Clone>(st: &push::push_vm::stack::Stack<T>) -> Vec<T> {
    let mut c = st.clone();
    let mut v = Vec::new();
    while let Ok(x) = c.pop() { v.push(x); }
    v.reverse();
    v
}

/// canonical dump: `exec | int | float | bool | <stdout bytes hex>` (stacks bottom first)
pub fn dump(s: &PushState) -> String {
    let mut s2 = s.clone();
    let out = s2.stdout_string().map(|x| hex(x.as_bytes())).unwrap_or_else(|_| "non-utf8".into());
    format!(
        "{} | {} | {} | {} | {}",
        progs_string(&drain(s.stack::<PushProgram>())),
        drain(s.stack::<i64>()).iter().map(|x| x.to_string()).collect::<Vec<_>>().join(" "),
        drain(s.stack::<OrderedFloat<f64>>()).iter().map(|x| canon_bits(x.0).to_string()).collect::<Vec<_>>().join(" "),
        drain(s.stack::<bool>()).iter().map(|b| if *b { "t" } else { "f" }).collect::<Vec<_>>().join(" "),
        out
    )
}

fn sizes_ok(s: &PushState) -> bool {
    s.stack::<PushProgram>().size() <= s.stack::<PushProgram>().max_stack_size()
        && s.stack::<i64>().size() <= s.stack::<i64>().max_stack_size()
        && s.stack::<OrderedFloat<f64>>().size() <= s.stack::<OrderedFloat<f64>>().max_stack_size()
        && s.stack::<bool>().size() <= s.stack::<bool>().max_stack_size()
}

/// turn the model's reply into the harness' canonical form: the `out` section's tokens
/// (`s<hex>` literal bytes, `f<bits>` a float to be rendered by Rust's Display) become bytes
fn render_model(reply: &str) -> String {
    let mut parts: Vec<String> = reply.split(" | ").map(|s| s.to_string()).collect();
    if parts.len() < 2 { return reply.to_string(); }
    let last = parts.len() - 1;
    let toks = parts[last].clone();
    let mut bytes = String::new();
    for t in toks.split(' ').filter(|t| !t.is_empty()) {
        if let Some(h) = t.strip_prefix('s') { bytes.push_str(h); }
        else if let Some(b) = t.strip_prefix('f') {
            let f = f64::from_bits(b.parse::<u64>().unwrap_or(0));
            bytes.push_str(&hex(format!("{f}").as_bytes()));
        }
    }
    parts[last] = bytes;
    // normalise empty sections ("a |  | b")
    parts.iter().map(|p| p.trim().to_string()).collect::<Vec<_>>().join(" | ")
}

/// what the property fixes of a result: outcome kind, error class, stacks, output (not the payload numbers)
fn mask_payload(s: &str) -> String {
    let (head, rest) = s.split_once(" | ").unwrap_or((s, ""));
    let head = head.split('(').next().unwrap_or(head);
    format!("{head} | {rest}")
}

fn split_reply(reply: &str) -> (String, String) {
    match reply.split_once(" ## ") {
        Some((a, b)) => (a.to_string(), b.to_string()),
        None => (reply.to_string(), String::new()),
    }
}

fn norm(s: &str) -> String {
    s.split(" | ").map(|p| p.trim().to_string()).collect::<Vec<_>>().join(" | ")
}

/// canonical form of a `PushInstructionError`, read off the public enum structure (not off Debug text)
fn err_canon(e: &push::instruction::instruction_error::PushInstructionError) -> String {
    use push::instruction::instruction_error::PushInstructionError as E;
    use push::instruction::IntInstructionError;
    use push::push_vm::stack::StackError;
    match e {
        E::StackError(StackError::Underflow { num_requested, num_present }) => format!("underflow({num_requested},{num_present})"),
        E::StackError(StackError::Overflow { .. }) => "overflow".into(),
        E::Int(IntInstructionError::Overflow { op }) => format!("intoverflow({op})"),
        other => format!("other({other:?})"),
    }
}

pub fn real_perform(spec: &StateSpec, p: &PushProgram) -> (String, bool /*err state == input*/) {
    let s = spec.build();
    let before = s.clone();
    let r = std::panic::catch_unwind(std::panic::AssertUnwindSafe(move || s.perform(p)));
    match r {
        Err(_) => ("panic".into(), true),
        Ok(Ok(s2)) => (format!("ok | {}", dump(&s2)), true),
        Ok(Err(e)) => {
            let kind = if e.is_recoverable() { "rec" } else { "fatal" };
            let es = err_canon(e.error());
            let unchanged = *e.state() == before && dump(e.state()) == dump(&before);
            (format!("{kind}:{es} | {}", dump(e.state())), unchanged)
        }
    }
}

/// (result string without step count, final sizes within limits)
pub fn real_run(spec: &StateSpec) -> (String, bool) {
    let s = spec.build();
    let r = std::panic::catch_unwind(std::panic::AssertUnwindSafe(move || s.run_to_completion()));
    match r {
        Err(_) => ("panic".into(), true),
        Ok(Ok(s2)) => (format!("ok | {}", dump(&s2)), sizes_ok(&s2)),
        Ok(Err(e)) => {
            // a FatalError has no accessor of its own for the error it carries; as the `Fatal` variant of the
            // public error enum it has (no dependence on the Debug text of private fields)
            let wrapped = push::error::Error::Fatal(e);
            let es = err_canon(wrapped.error());
            let st: PushState = wrapped.into_state();
            (format!("fatal:{es} | {}", dump(&st)), sizes_ok(&st))
        }
    }
}

/// Reading the printed output is not an operation on the machine: reading it twice gives the same text, the state is
/// unchanged by a read, and a state that was read in between continues exactly like one that was not (a second
/// program that prints is pushed and run: the text printed so far stays in front).  `None` = fine.
pub fn reread_oracle(spec: &StateSpec) -> Option<String> {
    let s = spec.build();
    let r = std::panic::catch_unwind(std::panic::AssertUnwindSafe(move || s.run_to_completion()));
    let Ok(Ok(mut a)) = r else { return None };
    let mut b = a.clone();                      // never read before the second stage
    let before = dump(&a);
    let o1 = a.stdout_string().map_err(|_| ());
    let o2 = a.stdout_string().map_err(|_| ());
    if o1 != o2 { return Some(format!("two reads of the output of the same final state differ: {o1:?} then {o2:?}")); }
    if dump(&a) != before || a != b { return Some(format!("reading the output changed the state: {before} became {}", dump(&a))); }
    // second stage: print something more (and push an integer and print it), on the state that was read and on the one that was not
    let more = || vec![
        PushProgram::Instruction(IntInstruction::Print(push::instruction::printing::Print::new()).into()),
        PushProgram::Instruction(PushInstruction::push_int(-7)),
        PushProgram::Instruction(PushInstruction::PrintString(push::instruction::printing::PrintString("Z!".into()))),
    ];
    let stage = |mut st: PushState| -> Option<PushState> {
        if st.stack::<PushProgram>().max_stack_size() < st.stack::<PushProgram>().size() + 3 { return None; }
        st.stack_mut::<PushProgram>().push_many(more()).ok()?;
        std::panic::catch_unwind(std::panic::AssertUnwindSafe(move || st.run_to_completion())).ok()?.ok()
    };
    let (Some(mut a2), Some(mut b2)) = (stage(a), stage(b.clone())) else { return None };
    let (oa, ob) = (a2.stdout_string().map_err(|_| ()), b2.stdout_string().map_err(|_| ()));
    if oa != ob || dump(&a2) != dump(&b2) {
        return Some(format!("a state whose output was read continues differently from one that was not read: output {oa:?} vs {ob:?}"));
    }
    if let (Ok(first), Ok(all)) = (&o1, &oa) {
        if !all.starts_with(first.as_str()) { return Some(format!("the output printed so far ({first:?}) is not the beginning of the output after printing more ({all:?})")); }
    }
    let _ = b.stdout_string();
    None
}

// ---------------------------------------------------------------------------------------------
// value pools
// ---------------------------------------------------------------------------------------------

pub const INTS: [i64; 20] = [
    i64::MIN, i64::MIN + 1, -2, -1, 0, 1, 2, (1 << 31) - 1, 1 << 31, (1 << 32) - 1, 1 << 32, i64::MAX - 1, i64::MAX,
    3, -3, 7, 63, 64, -(1 << 32), 3_037_000_500,
];
pub fn floats() -> Vec<f64> {
    vec![f64::NAN, f64::INFINITY, f64::NEG_INFINITY, 0.0, -0.0, 1.0, -1.0, 0.5, 1e308, 5e-324, 9.223372036854775807e18,
         -9.223372036854775808e18, 1e19, 3.7, -2.5, 2.0, f64::MAX, f64::MIN_POSITIVE, 4503599627370497.5, -1e-300,
         // other NaNs: the negative quiet NaN (what x86 makes of inf - inf), one with a payload, a signalling one -
         // all NaNs are one value to the interpreter (OrderedFloat), the model is told the canonical NaN
         f64::from_bits(0xfff8_0000_0000_0000), f64::from_bits(0x7ff8_0000_0000_0001), f64::from_bits(0x7ff0_0000_0000_0001)]
}

// ---------------------------------------------------------------------------------------------
// family push-instr
// ---------------------------------------------------------------------------------------------

const RULE_INSTR: &str = "every instruction of the crates' strum inventory (plus literal pushes, Exec::Push of a program, blocks of \
length 0..3, bound and unbound input variables, print instructions) performed once in builder-made states enumerated over stack fill \
levels (int 0..3, float 0..2, bool 0..2, exec 0..2) x capacity relation per stack (exactly full / spare room) x rotations of \
boundary value pools (i64 extremes, 2^31/2^32 neighbours, NaN, infinities, signed zeros, subnormal, 1e308); compared with the Lean Impl model: \
outcome kind, error payload, all four stacks, stdout; oracle: an Err carries a state equal to the input (PartialEq and canonical dump); \
non-trivial = the instruction found all operands it needs or hit a full destination; distinct by request line";

fn instr_catalogue(inv: &Inv) -> Vec<PushProgram> {
    let mut v: Vec<PushProgram> = inv.plain().into_iter().map(PushProgram::Instruction).collect();
    let lit = |i: PushInstruction| PushProgram::Instruction(i);
    v.push(lit(PushInstruction::push_int(i64::MIN)));
    v.push(lit(PushInstruction::push_int(42)));
    v.push(lit(PushInstruction::push_float(OrderedFloat(f64::NAN))));
    v.push(lit(PushInstruction::push_float(OrderedFloat(-0.0))));
    v.push(lit(PushInstruction::push_bool(true)));
    v.push(lit(PushInstruction::push_bool(false)));
    v.push(lit(inv.exec_push_of(PushProgram::Block(vec![lit(PushInstruction::push_int(1)), PushProgram::Block(vec![])]))));
    v.push(lit(inv.exec_push_of(lit(IntInstruction::Add.into()))));
    v.push(lit(VariableName::from("x").into()));
    v.push(lit(VariableName::from("y").into()));
    v.push(lit(VariableName::from("z").into()));
    v.push(lit(VariableName::from("unbound").into()));
    v.push(lit(PushInstruction::PrintSpace(Default::default())));
    v.push(lit(PushInstruction::PrintNewline(Default::default())));
    v.push(lit(PushInstruction::PrintPeriod(Default::default())));
    v.push(lit(PushInstruction::PrintString(push::instruction::printing::PrintString("héllo, wörld".into()))));
    v.push(PushProgram::Block(vec![]));
    v.push(PushProgram::Block(vec![lit(PushInstruction::push_int(1))]));
    v.push(PushProgram::Block(vec![lit(PushInstruction::push_int(1)), lit(BoolInstruction::Not.into())]));
    v.push(PushProgram::Block(vec![lit(PushInstruction::push_int(1)), PushProgram::Block(vec![lit(ExecInstruction::noop().into())]), lit(FloatInstruction::Add.into())]));
    v
}

fn exec_items(inv: &Inv, k: usize, rot: usize) -> Vec<PushProgram> {
    let pool = vec![
        PushProgram::Instruction(PushInstruction::push_int(10)),
        PushProgram::Block(vec![PushProgram::Instruction(PushInstruction::push_bool(true)), PushProgram::Instruction(IntInstruction::Inc.into())]),
        PushProgram::Instruction(ExecInstruction::dup_block().into()),
        PushProgram::Block(vec![]),
        PushProgram::Instruction(inv.exec_push_of(PushProgram::Block(vec![]))),
    ];
    (0..k).map(|j| pool[(rot + j) % pool.len()].clone()).collect()
}

fn check_instr_case(d: &mut Driver, r: &mut Report, spec: &StateSpec, p: &PushProgram, sample: bool) {
    let wf = spec.wf();
    let mut ptoks = Vec::new();
    prog_tokens(p, &mut ptoks);
    let req = format!("push perform {} | {}", spec.request_body(), ptoks.join(" "));
    crate::watch::note(&req);
    let (real, unchanged) = real_perform(spec, p);
    let (impl_r, spec_r) = split_reply(&d.ask(&req));
    let model = render_model(&impl_r);
    let spec_s = render_model(&spec_r);
    let real = norm(&real);
    let kind = real.split(' ').next().unwrap_or("").split(':').next().unwrap_or("").to_string();
    let iname = ptoks.first().cloned().unwrap_or_default().split(':').next().unwrap_or("").to_string();
    r.case(&req, kind == "ok" || kind == "fatal");
    r.hit(&format!("outcome {kind}"));
    r.hit(&format!("instr {iname} {kind}"));
    if sample { r.sample(json!({"request": req, "real": real})); }
    let unbound = ptoks.first().map(|t| t == "V:unbound").unwrap_or(false);
    if !unchanged && wf {
        r.violate(json!({"prop": "C02", "case": req, "real": real, "what": "the state carried by the error differs from the state before the instruction"}));
    }
    if !wf { r.hit("over-full state (Impl correspondence only)"); }
    if real == "panic" && !unbound {
        r.violate(json!({"prop": "C03", "case": req, "real": real, "what": "perform panicked although every mentioned input variable is bound"}));
    }
    if real != model {
        r.disagree(json!({"case": req, "real": real, "impl": model}));
    }
    if wf && !unbound && mask_payload(&real) != mask_payload(&spec_s) {
        r.violate(json!({"prop": "C01", "case": req, "real": real, "spec": spec_s, "what": "outcome, stacks or output differ from what the instruction semantics (signature table / action tables) prescribe"}));
    }
}

/// The named constructors and `From` conversions of the instruction types are how programs are written by hand
/// (examples, tests, users): each must build exactly the instruction it is named after.  Model-free.
fn check_constructors(rep: &mut Report) {
    use push::genome::plushy::PushGene;
    use push::instruction::printing::{Print, PrintLn, PrintNewline, PrintPeriod, PrintSpace, PrintString};
    use push::instruction::Instruction;
    let of = OrderedFloat;
    let table: Vec<(&str, PushInstruction)> = vec![
        ("I.Pop", IntInstruction::pop().into()), ("I.Push:-7", IntInstruction::push(-7).into()), ("I.Dup", IntInstruction::dup().into()),
        ("I.Swap", IntInstruction::swap().into()), ("I.IsEmpty", IntInstruction::is_empty().into()),
        ("I.StackDepth", IntInstruction::stack_depth().into()), ("I.Flush", IntInstruction::flush().into()),
        ("I.Negate", IntInstruction::negate().into()), ("I.Abs", IntInstruction::abs().into()), ("I.Clamp", IntInstruction::clamp().into()),
        ("F.Pop", FloatInstruction::pop().into()), ("F.Push:4612811918334230528", FloatInstruction::push(2.5).into()),
        ("F.Push:4612811918334230528", FloatInstruction::push_ordered_float(of(2.5)).into()),
        ("F.Dup", FloatInstruction::dup().into()), ("F.Swap", FloatInstruction::swap().into()), ("F.IsEmpty", FloatInstruction::is_empty().into()),
        ("F.StackDepth", FloatInstruction::stack_depth().into()), ("F.Flush", FloatInstruction::flush().into()),
        ("B.Push:t", BoolInstruction::push(true).into()), ("B.Push:f", BoolInstruction::push(false).into()),
        ("E.Noop", ExecInstruction::noop().into()), ("E.DupBlock", ExecInstruction::dup_block().into()), ("E.When", ExecInstruction::when().into()),
        ("E.Unless", ExecInstruction::unless().into()), ("E.IfElse", ExecInstruction::if_else().into()),
        ("B.Push:t", PushInstruction::push_bool(true)), ("I.Push:9223372036854775807", PushInstruction::push_int(i64::MAX)),
        ("F.Push:13835058055282163712", PushInstruction::push_float(of(-2.0))),
        ("I.Print", IntInstruction::Print(Print::new()).into()), ("I.PrintLn", IntInstruction::PrintLn(PrintLn::new()).into()),
        ("P.Space", PushInstruction::PrintSpace(PrintSpace::new())), ("P.Newline", PushInstruction::PrintNewline(PrintNewline::new())),
        ("P.Period", PushInstruction::PrintPeriod(PrintPeriod::new())), ("P.String:6869", PushInstruction::PrintString(PrintString::new("hi".to_string()))),
    ];
    for (want, ins) in table {
        let mut t = Vec::new();
        instr_tokens(&ins, &mut t);
        let got = t.join(" ");
        rep.case(&format!("ctor {want}"), true);
        rep.hit("constructor / From conversion");
        if got != want {
            rep.violate(json!({"prop": "C01", "case": format!("constructor or conversion named {want}"), "real": got, "what": "a named constructor / From conversion builds a different instruction than the one it is named after"}));
        }
        // PushProgram::from / PushGene::from wrap the instruction unchanged; a boxed dyn Instruction performs like the instruction
        let pp: PushProgram = ins.clone().into();
        let pg: PushGene = ins.clone().into();
        if pp != PushProgram::Instruction(ins.clone()) || pg != PushGene::Instruction(ins.clone()) {
            rep.violate(json!({"prop": "C01", "case": format!("PushProgram::from / PushGene::from of {want}"), "real": format!("{pp:?} / {pg:?}"), "what": "the conversion into a program element / gene changes the instruction"}));
        }
        let spec = StateSpec { max_steps: 10, exec_max: 4, int_max: 4, float_max: 4, bool_max: 4, exec: vec![], ints: vec![3, i64::MIN], floats: vec![1.5, -0.0], bools: vec![true, false], inputs: vec![] };
        let direct = match ins.perform(spec.build()) { Ok(s) => format!("ok {}", dump(&s)), Err(e) => format!("err {}", dump(&e.into_state())) };
        let boxed: Box<dyn Instruction<PushState, Error = push::instruction::instruction_error::PushInstructionError>> = Box::new(ins.clone());
        let via = match boxed.perform(spec.build()) { Ok(s) => format!("ok {}", dump(&s)), Err(e) => format!("err {}", dump(&e.into_state())) };
        if direct != via {
            rep.violate(json!({"prop": "C01", "case": format!("Box<dyn Instruction> of {want}"), "real": via, "spec": direct, "what": "the boxed instruction performs differently from the instruction itself"}));
        }
    }
}

/// The accessors of an instruction error agree with each other: `is_recoverable` / `is_fatal` name the variant,
/// `state()`, `into_state()` and the state `try_recover` hands back are the same state, `map_inner_err` keeps kind
/// and state.  (The harness reads errors through some of these; the interpreter recovers through `try_recover`.)
fn check_error_api(rep: &mut Report) {
    use push::error::{try_recover::TryRecover, Error};
    use push::instruction::Instruction;
    let spec = StateSpec { max_steps: 10, exec_max: 4, int_max: 1, float_max: 4, bool_max: 4, exec: vec![], ints: vec![5], floats: vec![], bools: vec![], inputs: vec![] };
    let cases: Vec<(&str, PushInstruction, bool)> = vec![("recoverable", IntInstruction::Add.into(), true), ("fatal", IntInstruction::push(1).into(), false)];
    for (name, ins, want_rec) in cases {
        let before = spec.build();
        let mut bad: Vec<String> = vec![];
        match ins.perform(spec.build()) {
            Ok(_) => bad.push("the instruction succeeded".into()),
            Err(e) => {
                let is_rec_variant = matches!(e, Error::Recoverable(_));
                if is_rec_variant != want_rec { bad.push(format!("variant is {}", if is_rec_variant { "Recoverable" } else { "Fatal" })); }
                if e.is_recoverable() != is_rec_variant || e.is_fatal() == is_rec_variant { bad.push(format!("is_recoverable() = {}, is_fatal() = {} for a {} error", e.is_recoverable(), e.is_fatal(), if is_rec_variant { "recoverable" } else { "fatal" })); }
                if *e.state() != before { bad.push("state() is not the state before the instruction".into()); }
                let mapped = ins.perform(spec.build()).unwrap_err().map_inner_err(|x| format!("{x:?}"));
                if mapped.is_recoverable() != is_rec_variant || *mapped.state() != before { bad.push("map_inner_err changed the kind or the state of the error".into()); }
                match (Err(e) as Result<PushState, Error<PushState, push::instruction::instruction_error::PushInstructionError>>).try_recover() {
                    Ok(s) => if !is_rec_variant || s != before { bad.push("try_recover recovered a fatal error, or not to the carried state".into()); },
                    Err(f) => if is_rec_variant || f.into_state() != before { bad.push("try_recover did not recover a recoverable error, or lost the state of a fatal one".into()); },
                }
            }
        }
        rep.case(&format!("error api {name}"), true);
        rep.hit("error accessor coherence");
        if !bad.is_empty() { rep.disagree(json!({"case": format!("accessors of a {name} instruction error"), "real": bad, "impl": "is_recoverable / is_fatal / state / into_state / map_inner_err / try_recover agree"})); }
    }
}

pub fn run_instr(cfg: &Cfg) -> Report {
    let inv = Inv::new();
    let cat = instr_catalogue(&inv);
    let fl = floats();
    // capacity relation per stack: 0 = exactly full, 1 = one spare, 2 = roomy
    let caps: Vec<usize> = if cfg.thorough { vec![0, 1, 3] } else { vec![0, 2] };
    let nc = caps.len() as u64;
    let fills: u64 = 4 * 3 * 3 * 3;
    let rots: u64 = if cfg.thorough { 10 } else { 3 };
    let per_instr = fills * nc.pow(4) * rots;
    let total = per_instr * cat.len() as u64;
    let seed = cfg.seed;
    let mut rep = run_sharded(&cfg.driver, cfg.threads, total, || Report::new("push-instr", RULE_INSTR), |d, r, idx| {
        let ii = (idx / per_instr) as usize;
        let mut j = idx % per_instr;
        let p = &cat[ii];
        let ni = (j % 4) as usize; j /= 4;
        let nf = (j % 3) as usize; j /= 3;
        let nb = (j % 3) as usize; j /= 3;
        let ne = (j % 3) as usize; j /= 3;
        let ci = caps[(j % nc) as usize]; j /= nc;
        let cf = caps[(j % nc) as usize]; j /= nc;
        let cb = caps[(j % nc) as usize]; j /= nc;
        let ce = caps[(j % nc) as usize]; j /= nc;
        let rot = (j as usize).wrapping_mul(7).wrapping_add(seed as usize % 17);
        let spec = StateSpec {
            max_steps: 10,
            exec_max: ne + ce, int_max: ni + ci, float_max: nf + cf, bool_max: nb + cb,
            exec: exec_items(&inv, ne, rot),
            ints: (0..ni).map(|k| INTS[(rot + k * 3 + ii) % INTS.len()]).collect(),
            floats: (0..nf).map(|k| fl[(rot + k * 5 + ii) % fl.len()]).collect(),
            bools: (0..nb).map(|k| (rot + k + ii) % 3 != 0).collect(),
            inputs: vec![("x".into(), LitV::I(INTS[rot % INTS.len()])), ("y".into(), LitV::F(fl[rot % fl.len()])), ("z".into(), LitV::B(rot % 2 == 0))],
        };
        check_instr_case(d, r, &spec, p, idx % 9973 == 0);
    });
    // phase 2: operand sweep — every instruction with ALL pairs (triples for the top three) of the boundary
    // pools as its operands (first operand = top), roomy and exactly-full capacities
    let ni = INTS.len() as u64;
    let nfl = fl.len() as u64;
    let per_instr2 = (ni * ni + nfl * nfl + 8) * 2;
    let total2 = per_instr2 * cat.len() as u64;
    let sweep = run_sharded(&cfg.driver, cfg.threads, total2, || Report::new("push-instr", RULE_INSTR), |d, r, idx| {
        let ii = (idx / per_instr2) as usize;
        let mut j = idx % per_instr2;
        let full = j % 2 == 1; j /= 2;
        let p = &cat[ii];
        let (ints, floats_v, bools): (Vec<i64>, Vec<f64>, Vec<bool>) = if j < ni * ni {
            // bottom first: [third, second, top]
            (vec![INTS[((j + ii as u64) % ni) as usize], INTS[(j / ni) as usize], INTS[(j % ni) as usize]], vec![fl[(j % nfl) as usize]], vec![j % 2 == 0, j % 3 == 0])
        } else if j < ni * ni + nfl * nfl {
            let q = j - ni * ni;
            (vec![INTS[(q % ni) as usize]], vec![fl[((q + 1) % nfl) as usize], fl[(q / nfl) as usize], fl[(q % nfl) as usize]], vec![q % 2 == 0])
        } else {
            let q = j - ni * ni - nfl * nfl;
            (vec![1, 2], vec![0.5], vec![q & 4 != 0, q & 2 != 0, q & 1 != 0])
        };
        let slack = if full { 0 } else { 3 };
        let spec = StateSpec {
            max_steps: 10,
            exec_max: 2 + slack, int_max: ints.len() + slack, float_max: floats_v.len() + slack, bool_max: bools.len() + slack,
            exec: exec_items(&inv, 2, ii), ints, floats: floats_v, bools,
            inputs: vec![("x".into(), LitV::I(7)), ("y".into(), LitV::F(2.5)), ("z".into(), LitV::B(true))],
        };
        check_instr_case(d, r, &spec, p, idx % 9973 == 0);
    });
    rep.merge(sweep);
    // phase 3: over-full states (reachable only through Stack::set_max_stack_size on a loaded stack): outside the
    // hypotheses of the theorems, but the code-shaped Impl model describes the Rust's partial updates there too
    // (discard-then-push, pop2-then-push-push); only the correspondence with the Impl is checked
    let per3: u64 = 3 * 3 * 3 * 3 * 4;
    let total3 = per3 * cat.len() as u64;
    let over = run_sharded(&cfg.driver, cfg.threads, total3, || Report::new("push-instr", RULE_INSTR), |d, r, idx| {
        let ii = (idx / per3) as usize;
        let mut j = idx % per3;
        let p = &cat[ii];
        let ni = 1 + (j % 3) as usize; j /= 3;
        let nf = 1 + (j % 3) as usize; j /= 3;
        let nb = 1 + (j % 3) as usize; j /= 3;
        let ne = (j % 3) as usize; j /= 3;
        // which stack is over-full (by 1 or 2)
        let which = j % 4;
        let lim = |n: usize, me: bool| -> usize { if me { n.saturating_sub(1 + (ii % 2)) } else { n + 2 } };
        let spec = StateSpec {
            max_steps: 10,
            exec_max: lim(ne, which == 0), int_max: lim(ni, which == 1), float_max: lim(nf, which == 2), bool_max: lim(nb, which == 3),
            exec: exec_items(&inv, ne, ii),
            ints: (0..ni).map(|k| INTS[(ii + k * 3) % INTS.len()]).collect(),
            floats: (0..nf).map(|k| fl[(ii + k * 5) % fl.len()]).collect(),
            bools: (0..nb).map(|k| (ii + k) % 2 == 0).collect(),
            inputs: vec![("x".into(), LitV::I(7)), ("y".into(), LitV::F(2.5)), ("z".into(), LitV::B(true))],
        };
        check_instr_case(d, r, &spec, p, false);
    });
    rep.merge(over);
    // inventory: every instruction of the crates must exist in the model and vice versa
    let mut d = Driver::spawn(&cfg.driver);
    let mut model_names: Vec<String> = d.ask("push inventory").split(' ').map(|s| s.to_string()).collect();
    model_names.sort();
    let real_names = inv.names();
    if model_names != real_names {
        let only_real: Vec<_> = real_names.iter().filter(|n| !model_names.contains(n)).collect();
        let only_model: Vec<_> = model_names.iter().filter(|n| !real_names.contains(n)).collect();
        rep.disagree(json!({"case": "inventory", "real": format!("only in the crates: {only_real:?}"), "impl": format!("only in the model: {only_model:?}")}));
    }
    check_constructors(&mut rep);
    check_error_api(&mut rep);
    rep.exhaustive = true;
    rep.notes.push(format!("{} instructions/programs x {} fill patterns x {}^4 capacity patterns x {} value rotations = {} single-step cases; operand sweep: every instruction x all {}x{} int pairs, {}x{} float pairs, 8 bool triples x {{roomy, exactly full}} = {} cases; inventory of {} instruction names cross-checked", cat.len(), fills, nc, rots, total, ni, ni, nfl, nfl, total2, real_names.len()));
    rep
}

// ---------------------------------------------------------------------------------------------
// family push-run: random programs
// ---------------------------------------------------------------------------------------------

const RULE_RUN: &str = "seeded random programs from a type-aware generator (instructions whose operands are available favoured, \
literals from boundary pools, input variables, nested blocks, Exec::Push of programs, DupBlock/Dup/Swap loops, exponentially growing and \
deeply nested shapes), per-stack limits 0..8 (sometimes large), step limits 0..64 (sometimes large), initial stack contents; \
run_to_completion under catch_unwind compared with the Lean interpreter model for the configured limit and for smaller limits (intermediate states); \
oracles: no panic, every stack within its limit afterwards, an error is only ever Overflow; non-trivial = at least 3 instructions were executed; \
distinct by request line";

struct Gen<'a> {
    g: &'a mut SplitMix,
    inv: &'a Inv,
    fl: Vec<f64>,
    plain: Vec<PushInstruction>,
}

impl<'a> Gen<'a> {
    fn lit(&mut self) -> PushInstruction {
        match self.g.below(3) {
            0 => PushInstruction::push_int(if self.g.chance(1, 2) { *self.g.pick(&INTS) } else { self.g.below(20) as i64 - 5 }),
            1 => { let f = *self.g.pick(&self.fl.clone()); PushInstruction::push_float(OrderedFloat(f)) }
            _ => PushInstruction::push_bool(self.g.chance(1, 2)),
        }
    }
    fn instr(&mut self) -> PushInstruction {
        match self.g.below(20) {
            0..=6 => self.lit(),
            7 => VariableName::from(*self.g.pick(&["x", "y", "z", "X", "xy"])).into(),
            8 => match self.g.below(4) {
                0 => PushInstruction::PrintSpace(Default::default()),
                1 => PushInstruction::PrintNewline(Default::default()),
                2 => PushInstruction::PrintPeriod(Default::default()),
                _ => PushInstruction::PrintString(push::instruction::printing::PrintString("ab ".into())),
            },
            9 => { let p = self.prog(2); self.inv.exec_push_of(p) }
            10 | 11 => {
                let names = ["DupBlock", "When", "Unless", "IfElse", "Dup", "Swap", "Pop", "IsEmpty", "StackDepth", "Noop"];
                let n = *self.g.pick(&names);
                self.inv.execs[n].clone().into()
            }
            _ => self.g.pick(&self.plain.clone()).clone(),
        }
    }
    fn prog(&mut self, depth: u32) -> PushProgram {
        if depth > 0 && self.g.chance(1, 4) {
            let n = self.g.below(5);
            PushProgram::Block((0..n).map(|_| self.prog(depth - 1)).collect())
        } else {
            PushProgram::Instruction(self.instr())
        }
    }
    fn program(&mut self) -> Vec<PushProgram> {
        let shape = self.g.below(10);
        let n = match shape { 0 => self.g.below(3), 1..=6 => 3 + self.g.below(25), _ => 10 + self.g.below(50) };
        let mut v: Vec<PushProgram> = (0..n).map(|_| self.prog(3)).collect();
        match shape {
            7 => {
                // self-replicating: DupBlock { … DupBlock … }
                let dupb: PushProgram = PushProgram::Instruction(self.inv.execs["DupBlock"].clone().into());
                let body = PushProgram::Block(vec![PushProgram::Instruction(PushInstruction::push_int(1)), dupb.clone(), PushProgram::Instruction(self.inv.execs["Dup"].clone().into())]);
                v.insert(0, body);
                v.insert(0, dupb);
            }
            8 => {
                // exponential growth through Dup of a block that dups
                let dup: PushProgram = PushProgram::Instruction(self.inv.execs["Dup"].clone().into());
                v.insert(0, PushProgram::Block(vec![dup.clone(), dup.clone(), PushProgram::Instruction(self.inv.ints["Dup"].clone().into())]));
                v.insert(0, dup);
                v.insert(0, PushProgram::Instruction(PushInstruction::push_int(7)));
            }
            9 => {
                // deep nesting
                let mut p = PushProgram::Instruction(self.instr());
                for _ in 0..(5 + self.g.below(60)) { p = PushProgram::Block(vec![p, PushProgram::Instruction(self.instr())]); }
                v.insert(0, p);
            }
            _ => {}
        }
        v
    }
}

pub fn run_run(cfg: &Cfg) -> Report {
    let inv = Inv::new();
    let n: u64 = if cfg.thorough { 150_000 } else { 5_000 };
    let seed = cfg.seed;
    let thorough = cfg.thorough;
    let mut rep = run_sharded(&cfg.driver, cfg.threads, n, || Report::new("push-run", RULE_RUN), |d, r, idx| {
        let mut g = SplitMix::derive(seed, idx);
        let fl = floats();
        let plain = inv.plain();
        // limits: tiny, roomy, unlimited, and huge-but-finite ones (a stack must not try to reserve its whole capacity)
        let lim = |g: &mut SplitMix| -> usize { match g.below(9) { 0 => 0, 1 => 1, 2 => 1000, 3 => usize::MAX, 4 => *g.pick(&[usize::MAX - 1, usize::MAX / 2, 1usize << 62, (1usize << 60) + 1]), _ => g.below(9) as usize } };
        let (em, im, fm, bm) = (match g.below(6) { 0 => g.below(4) as usize, 1 => usize::MAX, _ => 4 + g.below(60) as usize }, lim(&mut g), lim(&mut g), lim(&mut g));
        let steps = match g.below(10) { 0 => 0, 1 => 1, 2 => 500 + g.below(1500) as usize, _ => g.below(65) as usize };
        let mut gen = Gen { g: &mut g, inv: &inv, fl: fl.clone(), plain };
        let mut program = gen.program();
        program.reverse(); // exec stack bottom first: the first element of the program is the top
        if program.len() > em { let cut = program.len() - em; program.drain(..cut); }
        let g = gen.g;
        let ints: Vec<i64> = (0..g.below(im.min(4) as u64 + 1)).map(|_| *g.pick(&INTS)).collect();
        let floats_v: Vec<f64> = (0..g.below(fm.min(3) as u64 + 1)).map(|_| *g.pick(&fl)).collect();
        let bools: Vec<bool> = (0..g.below(bm.min(3) as u64 + 1)).map(|_| g.chance(1, 2)).collect();
        let spec = StateSpec {
            max_steps: steps, exec_max: em, int_max: im, float_max: fm, bool_max: bm,
            exec: program, ints, floats: floats_v, bools,
            // `X` and `xy` differ from `x` only in letter case / by a suffix and are bound to values of other types
            // `x` is declared twice, first with a value of another type: the declaration made last is the one in effect
            inputs: vec![("x".into(), LitV::F(*g.pick(&fl))), ("x".into(), LitV::I(*g.pick(&INTS))), ("y".into(), LitV::F(*g.pick(&fl))), ("z".into(), LitV::B(g.chance(1, 2))),
                         ("X".into(), LitV::B(g.chance(1, 2))), ("xy".into(), LitV::F(*g.pick(&fl)))],
        };
        // the configured limit, plus smaller limits (intermediate states of the same run)
        let mut limits = vec![steps];
        if steps > 0 {
            if thorough && steps <= 64 { limits.extend(0..steps); } else { limits.push(g.below(steps as u64) as usize); limits.push(steps - 1); }
        }
        limits.sort(); limits.dedup();
        for l in limits {
            let mut sp = spec.clone();
            sp.max_steps = l;
            let req = format!("push run {}", sp.request_body());
            crate::watch::note(&req);
            let (real, within) = real_run(&sp);
            let (impl_r, spec_r) = split_reply(&d.ask(&req));
            // reply: `<res> | <steps> | state…`; the real run does not report the step count
            let strip = |reply: &str| -> (String, usize) {
                let mut parts: Vec<&str> = reply.splitn(3, " | ").collect();
                let executed: usize = if parts.len() == 3 { parts[1].trim().parse().unwrap_or(0) } else { 0 };
                if parts.len() == 3 { parts.remove(1); }
                (render_model(&parts.join(" | ")), executed)
            };
            let (model, executed) = strip(&impl_r);
            let (spec_s, _) = strip(&spec_r);
            let real = norm(&real);
            let kind = real.split(' ').next().unwrap_or("").split(':').next().unwrap_or("").to_string();
            let short = if req.len() > 600 { format!("{}…", &req[..600]) } else { req.clone() };
            r.case(&req, executed >= 3);
            r.hit(&format!("outcome {kind}"));
            r.hit(&format!("steps {}", match executed { 0 => "0", 1..=2 => "1-2", 3..=9 => "3-9", 10..=63 => "10-63", _ => "64+" }));
            if executed == l && l > 0 { r.hit("stopped by step limit"); }
            if idx % 997 == 0 && l == sp.max_steps { r.sample(json!({"request": short, "real": real})); }
            if real == "panic" {
                r.violate(json!({"prop": "C03", "case": req, "real": real, "what": "run_to_completion panicked (all mentioned input variables are bound)"}));
            }
            if !within {
                r.violate(json!({"prop": "C03", "case": req, "real": real, "what": "a stack holds more elements than its configured maximum after the run"}));
            }
            if l == spec.max_steps && sp.wf() {
                // the same machine configured through the builder alone is the same machine
                let direct = sp.build();
                match std::panic::catch_unwind(std::panic::AssertUnwindSafe(|| sp.build_via_builder())) {
                    Ok(Some(built)) => {
                        if built != direct || dump(&built) != dump(&direct)
                            || built.stack::<i64>().max_stack_size() != sp.int_max || built.stack::<OrderedFloat<f64>>().max_stack_size() != sp.float_max
                            || built.stack::<bool>().max_stack_size() != sp.bool_max || built.stack::<PushProgram>().max_stack_size() != sp.exec_max {
                            r.violate(json!({"prop": "C01", "case": short, "real": format!("{} ; limits exec/int/float/bool = {}/{}/{}/{}", dump(&built), built.stack::<PushProgram>().max_stack_size(), built.stack::<i64>().max_stack_size(), built.stack::<OrderedFloat<f64>>().max_stack_size(), built.stack::<bool>().max_stack_size()),
                                "spec": format!("{} ; limits {}/{}/{}/{}", dump(&direct), sp.exec_max, sp.int_max, sp.float_max, sp.bool_max),
                                "what": "the initial state configured through the builder (junk per-stack sizes, then the common size, then the differing sizes; contents; program; inputs) is not the configured state: the program would run under other limits / contents"}));
                        }
                    }
                    Ok(None) => r.violate(json!({"prop": "C01", "case": short, "real": "the builder reported an overflow", "what": "the builder refused contents that fit the configured limits"})),
                    Err(_) => r.violate(json!({"prop": "C01", "case": short, "real": "panic", "what": "the builder panicked"})),
                }
            }
            if l == spec.max_steps {
                if let Some(what) = reread_oracle(&sp) {
                    r.violate(json!({"prop": "C01", "case": short, "real": real, "what": what}));
                }
            }
            if kind == "fatal" && !real.starts_with("fatal:overflow") {
                r.violate(json!({"prop": "C03", "case": req, "real": real, "what": "evaluation ended with an error other than stack overflow"}));
            }
            if executed > l {
                r.disagree(json!({"case": req, "real": real, "impl": format!("model executed {executed} steps with limit {l}")}));
            }
            if real != model {
                r.disagree(json!({"case": req, "real": real, "impl": model}));
            }
            if mask_payload(&real) != mask_payload(&spec_s) {
                r.violate(json!({"prop": "C01", "case": short, "real": real, "spec": spec_s, "what": "final state of the run differs from the state the instruction semantics prescribe"}));
            }
        }
    });
    rep.notes.push(format!("{n} programs, each run at its step limit and at smaller limits"));
    rep
}

// ---------------------------------------------------------------------------------------------
// family push-det (C16): evaluation is a deterministic function of program, input values, limits —
// independent of the order in which the inputs were declared
// ---------------------------------------------------------------------------------------------

const RULE_DET: &str = "seeded random programs that mention up to 4 input variables; the state is built with the real builder with \
the inputs declared in every order (all permutations), and each is run twice; all runs must give the same canonical dump, and the dump of \
the Lean model; non-trivial = at least two input variables are executed; distinct by request line";

fn permutations(n: usize) -> Vec<Vec<usize>> {
    if n == 0 { return vec![vec![]]; }
    let mut out = Vec::new();
    for p in permutations(n - 1) {
        for i in 0..=p.len() { let mut q = p.clone(); q.insert(i, n - 1); out.push(q); }
    }
    out
}

pub fn run_det(cfg: &Cfg) -> Report {
    let inv = Inv::new();
    let n: u64 = if cfg.thorough { 20_000 } else { 1_000 };
    let seed = cfg.seed;
    let mut rep = run_sharded(&cfg.driver, cfg.threads, n, || Report::new("push-det", RULE_DET), |d, r, idx| {
        let mut g = SplitMix::derive(seed ^ 0x16, idx);
        let fl = floats();
        // plain names, and names that differ only in letter case / by a prefix (a lookup that normalises or
        // prefix-matches names would confuse them)
        let names = *g.pick(&[["a", "b", "c", "d"], ["x", "X", "xx", "Xx"], ["in1", "IN1", "in10", "In1"], ["é", "É", "e", "E"], ["a", "b", "c", "d"], ["p", "q", "in1", "in2"]]);
        let mut k = 1 + g.below(4) as usize;
        // one case in eight mentions a name that is NOT declared (e.g. `in2` next to two declared inputs): whatever the
        // machine does with it - it panics -, it does the same in every run and for every declaration order
        let undeclared = g.chance(1, 8);
        if undeclared { k = k.min(3).max(2).min(2 + g.below(2) as usize); }
        let inputs: Vec<(String, LitV)> = (0..k).map(|j| (names[j].to_string(), match g.below(3) {
            0 => LitV::I(*g.pick(&INTS)), 1 => LitV::F(*g.pick(&fl)), _ => LitV::B(g.chance(1, 2)) })).collect();
        let plain = inv.plain();
        let len = 2 + g.below(20);
        let mut used = 0;
        let mut program: Vec<PushProgram> = (0..len).map(|_| {
            if g.chance(2, 5) { used += 1; PushProgram::Instruction(VariableName::from(names[g.below(k as u64) as usize]).into()) }
            else if g.chance(1, 6) { PushProgram::Block(vec![PushProgram::Instruction(VariableName::from(names[g.below(k as u64) as usize]).into()), PushProgram::Instruction(g.pick(&plain).clone())]) }
            else { PushProgram::Instruction(g.pick(&plain).clone()) }
        }).collect();
        if undeclared { let at = g.below(program.len() as u64 + 1) as usize; program.insert(at, PushProgram::Instruction(VariableName::from(names[k.min(3)]).into())); }
        program.reverse();
        let spec0 = StateSpec { max_steps: 40 + g.below(40) as usize, exec_max: 64, int_max: 1 + g.below(8) as usize, float_max: 1 + g.below(8) as usize, bool_max: 1 + g.below(8) as usize,
            exec: program, ints: vec![], floats: vec![], bools: vec![], inputs: inputs.clone() };
        let req = format!("push run {}", spec0.request_body());
        let (impl_r, _) = split_reply(&d.ask(&req));
        let mut parts: Vec<&str> = impl_r.splitn(3, " | ").collect();
        if parts.len() == 3 { parts.remove(1); }
        let model = render_model(&parts.join(" | "));
        let mut first: Option<String> = None;
        let perms = permutations(k);
        for perm in &perms {
            let mut sp = spec0.clone();
            sp.inputs = perm.iter().map(|j| inputs[*j].clone()).collect();
            for _rep in 0..2 {
                let (real, _) = real_run(&sp);
                let real = norm(&real);
                match &first {
                    None => first = Some(real.clone()),
                    Some(f) => if *f != real {
                        r.violate(json!({"prop": "C16", "case": req, "declaration_order": format!("{perm:?}"), "first": f, "other": real,
                            "what": "evaluating the same program with the same input values gave a different result (other declaration order or second run)"}));
                    }
                }
            }
        }
        let real = first.unwrap_or_default();
        r.case(&req, used >= 2);
        r.hit(&format!("inputs {k} permutations {}", perms.len()));
        if idx % 199 == 0 { r.sample(json!({"request": req, "real": real})); }
        // (the model has no panic outcome: programs that mention an undeclared name are compared among themselves only)
        if real != model && !undeclared { r.disagree(json!({"case": req, "real": real, "impl": model})); }
    });
    crate::watch::guarded("push-det: name history (6000 names, threads)", || name_history(&mut rep));
    rep
}

/// Evaluation depends on the program, the input values and the limits - not on what else the process did before or on
/// which thread the pieces were made: the same program value (its variable names created once, at the start) is
/// evaluated with freshly declared inputs (a) at once, (b) after thousands of other names came and went,
/// (c) with the state built on another thread, (d) with the whole evaluation on another thread.  Model-free.
fn name_history(rep: &mut Report) {
    let mut prog: Vec<PushProgram> = vec![
        PushProgram::Instruction(VariableName::from("x").into()),
        PushProgram::Instruction(VariableName::from("speed").into()),
        PushProgram::Instruction(IntInstruction::Add.into()),
        PushProgram::Block(vec![PushProgram::Instruction(VariableName::from("x").into()), PushProgram::Instruction(IntInstruction::Multiply.into())]),
    ];
    prog.reverse();
    let spec = StateSpec { max_steps: 50, exec_max: 16, int_max: 8, float_max: 4, bool_max: 4, exec: prog, ints: vec![], floats: vec![], bools: vec![],
        inputs: vec![("x".into(), LitV::I(5)), ("speed".into(), LitV::I(8))] };
    let run = |sp: &StateSpec| norm(&real_run(sp).0);
    let first = run(&spec);
    rep.case("name history: fresh", true);
    if !first.starts_with("ok |  | 65 ") && !first.contains("| 65 |") {
        rep.violate(json!({"prop": "C16", "case": "program x speed Add (x Multiply) with x = 5, speed = 8", "real": first, "what": "the program does not evaluate to 65"}));
    }
    // (b) many other names are created, used and dropped
    let mut keep = Vec::new();
    for i in 0..6000u32 {
        let name = format!("v{i}");
        let sp = StateSpec { max_steps: 3, exec_max: 4, int_max: 4, float_max: 1, bool_max: 1,
            exec: vec![PushProgram::Instruction(VariableName::from(name.as_str()).into())], ints: vec![], floats: vec![], bools: vec![], inputs: vec![(name.clone(), LitV::I(i as i64))] };
        if i % 1000 == 0 {
            let got = run(&sp);
            if !got.contains(&format!("| {i} |")) { rep.violate(json!({"prop": "C16", "case": format!("input {name} = {i}, program [{name}]"), "real": got, "what": "a declared input was not pushed"})); }
        } else { let _ = sp.build(); }
        if i % 7 == 0 { keep.push(VariableName::from(name.as_str())); }
    }
    let later = run(&spec);
    rep.case("name history: after 6000 other names", true);
    if later != first {
        rep.violate(json!({"prop": "C16", "case": "the same program value and input values, evaluated again after 6000 other input names were created in the process", "first": first, "other": later,
            "what": "the result of an evaluation depends on what the process did before (names are compared by something other than their text?)"}));
    }
    drop(keep);
    // (c) state (and so the input declarations) built on another thread, evaluated here; (d) everything on another thread
    let sp2 = spec.clone();
    let built_elsewhere = std::thread::spawn(move || std::panic::catch_unwind(std::panic::AssertUnwindSafe(|| sp2.build())).ok()).join().ok().flatten();
    rep.case("name history: state built on another thread", true);
    match built_elsewhere {
        Some(st) => {
            let r = std::panic::catch_unwind(std::panic::AssertUnwindSafe(move || st.run_to_completion()));
            let got = match r { Ok(Ok(s2)) => norm(&format!("ok | {}", dump(&s2))), Ok(Err(_)) => "fatal".into(), Err(_) => "panic".into() };
            if got != first {
                rep.violate(json!({"prop": "C16", "case": "program value made on this thread, state (input declarations) built on another thread", "first": first, "other": got,
                    "what": "the result of an evaluation depends on the thread on which the inputs were declared"}));
            }
        }
        None => rep.violate(json!({"prop": "C16", "case": "state built on another thread", "what": "building the state panicked"})),
    }
    let sp3 = spec.clone();
    let elsewhere = std::thread::spawn(move || norm(&real_run(&sp3).0)).join().unwrap_or_else(|_| "panic".into());
    rep.case("name history: evaluated on another thread", true);
    if elsewhere != first {
        rep.violate(json!({"prop": "C16", "case": "program value made on this thread, state built and evaluated on another thread", "first": first, "other": elsewhere,
            "what": "the result of an evaluation depends on the thread"}));
    }
}
