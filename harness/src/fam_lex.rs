//! Family `lex` (C08, part of C06): `Lexicase::select` of ec-core vs. the Lean model, tape level, plus
//! the Lean *Spec* of lexicase filtering (survivors of the shuffled case order) and model-free oracles.
use crate::mutants;
use crate::prims;
use crate::report::Report;
use crate::rng::SplitMix;
use crate::selcommon::*;
use crate::shard::run_sharded;
use crate::Cfg;
use ec_core::operator::selector::{lexicase::Lexicase, Selector};
use rand::prelude::SliceRandom;
use rand::RngCore;
use serde_json::json;

fn run_real<R: Ord + Clone>(n_cases: usize, pop: &Vec<Ind<R>>, rng: &mut SplitMix) -> String { run_real_w(n_cases, pop, rng, true) }

fn run_real_w<R: Ord + Clone>(n_cases: usize, pop: &Vec<Ind<R>>, rng: &mut SplitMix, warm: bool) -> String {
    let res = std::panic::catch_unwind(std::panic::AssertUnwindSafe(|| -> Result<usize, String> {
        let idx = |r: &Ind<R>| index_of(pop, r).map_or_else(|| Err("NOT-A-MEMBER".to_string()), Ok);
        if let Some(r) = mutants::lexicase(n_cases, pop, rng) { return r.and_then(idx); }
        let sel = Lexicase::new(n_cases);
        let mut w = rng.clone();
        if warm && pop.len() >= 2 && w.state & 48 == 0 {
            // the selector value has been used before on a population that lived in the same buffer (same address,
            // same length) and has been re-scored in place since: only the present contents count
            let mut buf: Vec<Ind<R>> = (0..pop.len()).map(|i| pop[(i + 1) % pop.len()].clone()).collect();
            let mut t = SplitMix::derive(w.state, 78);
            let _ = sel.select(&buf, &mut t);
            let _ = sel.select(&buf, &mut t);
            for i in 0..pop.len() { buf[i] = pop[i].clone(); }
            let r = sel.select(&buf, rng).map_err(|e| e.canon());
            return r.and_then(|x| index_of(&buf, x).map_or_else(|| Err("NOT-A-MEMBER".to_string()), Ok));
        }
        if warm { warm_up(&sel, pop, &mut w); }
        sel.select(pop, rng).map_err(|e| e.canon()).and_then(idx)
    }));
    match res {
        Ok(Ok(i)) => format!("ok {i}"),
        Ok(Err(e)) => format!("err {e}"),
        Err(_) => "panic".into(),
    }
}

const RULE: &str = "Lexicase::new(n).select on populations of EcIndividual<_, TestResults<Score|Error>> (empty, singleton, duplicates, tie-laden \
matrices over small value ranges, random), n from 0 to one more than the results available, ragged result vectors for the MissingTestCase path. Both \
shuffles requested by the model are answered by slice.shuffle on a shadow generator. Compared: selected index (pointer identity), error payload, generator \
state after the call. Property oracles on the real result: the winner is among the survivors the Lean Spec computes for the case order drawn on this stream \
(lexspec request), is never Pareto-dominated on the n cases (checked by the Lean Spec and by a model-free Rust check), zero cases = the individual the final \
shuffle puts first, single individual = that individual, errors: LexEmpty iff empty population, MissingTestCase(n,i) only with i<n and an individual lacking \
result i, no error when every individual has n results. Exhaustive scope: all result matrices of 3 individuals x 2 cases (thorough: x 3 cases) over {0,1,2} \
until every case order was drawn, both polarities; measured selection frequencies against the law (1/n!) sum_pi [i in surv(pi)]/#surv(pi) computed from the \
Lean Spec. non-trivial = at least 2 individuals and at least 1 case; distinct by request line and seed";

fn dominated(score: bool, pop: &PopRaw, n: usize, w: usize) -> Option<usize> {
    let v = |i: usize, c: usize| if score { pop[i].1[c] } else { -pop[i].1[c] };
    (0..pop.len()).find(|&j| (0..n).all(|c| v(j, c) >= v(w, c)) && (0..n).any(|c| v(j, c) > v(w, c)))
}

fn parse_list(s: &str) -> Vec<usize> {
    if s.is_empty() { vec![] } else { s.split(',').map(|x| x.parse().unwrap()).collect() }
}
/// Lean Spec: survivors for a case order, and the non-dominated individuals
fn lexspec(d: &mut crate::driver::Driver, score: bool, n: usize, order: &[usize], pop: &PopRaw) -> (Vec<usize>, Vec<usize>) {
    let o = if order.is_empty() { "-".to_string() } else { order.iter().map(|x| x.to_string()).collect::<Vec<_>>().join(",") };
    let reply = d.ask(&format!("lexspec {} {n} {o} | {}", if score { "score" } else { "error" }, pop_tokens(pop)));
    // "surv <l> nondominated <l>" (an empty list is an empty token, i.e. missing)
    let t: Vec<&str> = reply.split(' ').collect();
    let pos = t.iter().position(|x| *x == "nondominated").expect("lexspec reply");
    let surv = if pos > 1 { parse_list(t[1]) } else { vec![] };
    let nd = if t.len() > pos + 1 { parse_list(t[pos + 1]) } else { vec![] };
    (surv, nd)
}

/// returns (real result, drawn case order)
fn one_case(d: &mut crate::driver::Driver, r: &mut Report, prop: &str, tag: &str, score: bool, n_cases: usize, pop: &PopRaw, mut real_rng: SplitMix, count: bool) -> (String, Vec<usize>) {
    let req = format!("sel {} lexicase {n_cases} | {}", if score { "score" } else { "error" }, pop_tokens(pop));
    let mut shadow = real_rng.clone();
    let mut second = real_rng.clone();
    let mut oracle_rng = real_rng.clone();
    let mut fresh_rng = real_rng.clone();
    let (real, again, fresh) = if score {
        let p = mk_score(pop);
        (run_real(n_cases, &p, &mut real_rng), run_real(n_cases, &p, &mut second), run_real_w(n_cases, &p, &mut fresh_rng, false))
    } else {
        let p = mk_error(pop);
        (run_real(n_cases, &p, &mut real_rng), run_real(n_cases, &p, &mut second), run_real_w(n_cases, &p, &mut fresh_rng, false))
    };
    if fresh != real || fresh_rng != real_rng {
        r.violate(json!({"case": req, "tag": tag, "what": "a selector value that was used before gives a different result than a fresh one from equal generator states: hidden state between calls (C16)", "used_before": real, "fresh": fresh}));
    }
    let det_ok = real == again && real_rng == second;
    let words = real_rng.words;
    let model = d.ask_with(&req, |p| prims::answer(p, &mut shadow, &mut prims::no_user));
    let n = pop.len();
    let complete = pop.iter().all(|x| x.1.len() >= n_cases);
    if count {
        r.case(&format!("{req}#{tag}"), n >= 2 && n_cases >= 1);
        let outcome = if let Some(e) = real.strip_prefix("err ") { format!("err {}", e.split('(').next().unwrap()) } else { real.split(' ').next().unwrap().to_string() };
        r.hit(&format!("lex cases={} pop={} {} -> {outcome}", n_cases.min(4), if n > 4 { "5+".to_string() } else { n.to_string() }, if complete { "complete" } else { "ragged" }));
        r.sample(json!({"request": req, "real": real, "rng_words": words}));
    }
    let same_stream = real_rng.next_u64() == shadow.next_u64();
    if real != model || !same_stream {
        r.disagree(json!({"case": req, "tag": tag, "real": real, "impl": model, "same_generator_state_after": same_stream}));
    }
    // ---- property oracles ----
    let c06 = prop.is_empty() || prop == "C06";
    let c08 = prop.is_empty() || prop == "C08";
    let viol = |r: &mut Report, what: String| r.violate(json!({"case": req, "tag": tag, "what": what, "real": real}));
    // the case order this stream gives: the harness's own shuffle of 0..n (independent of the model)
    let mut order: Vec<usize> = (0..n_cases).collect();
    order.shuffle(&mut oracle_rng);
    if !det_ok { viol(r, "two runs from equal generator states differ (C16)".into()); }
    if real == "panic" { viol(r, "selector panicked".into()); return (real, order); }
    if real.contains("NOT-A-MEMBER") { viol(r, "returned reference is not an element of the population".into()); return (real, order); }
    if c06 && (n == 0) != (real == "err LexEmpty") { viol(r, "LexEmpty must be reported exactly for the empty population".into()); }
    if let Some(e) = real.strip_prefix("err MissingTestCase(").filter(|_| c06) {
        let nums: Vec<usize> = e.trim_end_matches(')').split(',').map(|x| x.parse().unwrap()).collect();
        if nums[0] != n_cases || nums[1] >= n_cases || !pop.iter().any(|x| x.1.len() <= nums[1]) {
            viol(r, "MissingTestCase(total, idx) needs total = configured cases, idx < total and an individual without result idx".into());
        }
        if complete { viol(r, "MissingTestCase although every individual has the configured number of results".into()); }
    }
    if let Some(w) = real.strip_prefix("ok ").map(|x| x.parse::<usize>().unwrap()) {
        if complete && c08 {
            let (surv, nd) = lexspec(d, score, n_cases, &order, pop);
            if !surv.contains(&w) { viol(r, format!("winner is not among the survivors {surv:?} of filtering by the drawn case order {order:?} (Lean Spec)")); }
            if !nd.contains(&w) { viol(r, format!("winner is Pareto-dominated (Lean Spec: non-dominated = {nd:?})")); }
            if let Some(j) = dominated(score, pop, n_cases, w) { viol(r, format!("winner is Pareto-dominated by individual {j}")); }
            // choosing among the final survivors: the final shuffle's first element
            let mut fin: Vec<usize> = surv.clone();
            fin.shuffle(&mut oracle_rng);
            if fin.first() != Some(&w) { viol(r, format!("winner is not the survivor the final shuffle puts first ({:?} of {surv:?})", fin.first())); }
        }
        if c08 && n == 1 && w != 0 { viol(r, "single individual must be selected".into()); }
    } else if complete && n > 0 {
        viol(r, "an error although the population is non-empty and every individual has the configured number of results".into());
    }
    (real, order)
}

fn gen_case(rng: &mut SplitMix) -> (bool, usize, PopRaw) {
    let score = rng.chance(1, 2);
    let cases = match rng.below(8) { 0 => 0, 1 => 1, _ => 1 + rng.below(6) as usize };
    let ragged = rng.chance(1, 6);
    let pop = gen_pop(rng, 14, cases, ragged);
    let n_cases = match rng.below(12) { 0 => cases + 1, 1 => cases.saturating_sub(1), 2 => 0, _ => cases };
    (score, n_cases, pop)
}

fn factorial(n: usize) -> f64 { (1..=n).fold(1.0, |a, x| a * x as f64) }
fn permutations(n: usize) -> Vec<Vec<usize>> {
    if n == 0 { return vec![vec![]]; }
    let mut out = Vec::new();
    for p in permutations(n - 1) { for pos in 0..n { let mut q = p.clone(); q.insert(pos, n - 1); out.push(q); } }
    out
}

/// measured selection frequencies vs. the law computed from the Lean Spec, |z| <= 7
fn law_block(d: &mut crate::driver::Driver, r: &mut Report, seed: u64, runs: u64) {
    let configs: Vec<(bool, PopRaw)> = vec![
        (true, vec![(0, vec![2, 0, 1]), (0, vec![0, 2, 1]), (0, vec![1, 1, 2]), (0, vec![2, 0, 1]), (0, vec![0, 0, 0])]),
        (false, vec![(0, vec![0, 3]), (0, vec![3, 0]), (0, vec![1, 1]), (0, vec![0, 3])]),
        (true, vec![(0, vec![1, 2, 3, 0]), (0, vec![3, 2, 1, 0]), (0, vec![2, 2, 2, 1]), (0, vec![0, 0, 0, 5]), (0, vec![3, 2, 1, 0]), (0, vec![1, 2, 3, 0])]),
    ];
    for (ci, (score, pop)) in configs.iter().enumerate() {
        let n_cases = pop[0].1.len();
        let mut prob = vec![0.0f64; pop.len()];
        for pi in permutations(n_cases) {
            let (surv, _) = lexspec(d, *score, n_cases, &pi, pop);
            for &i in &surv { prob[i] += 1.0 / factorial(n_cases) / surv.len() as f64; }
        }
        let mut counts = vec![0u64; pop.len()];
        let mut rng = SplitMix::derive(seed ^ 0x1E8, ci as u64);
        for _ in 0..runs {
            let s = if *score { run_real(n_cases, &mk_score(pop), &mut rng) } else { run_real(n_cases, &mk_error(pop), &mut rng) };
            if let Some(w) = s.strip_prefix("ok ") { counts[w.parse::<usize>().unwrap()] += 1; }
        }
        for (i, pr) in prob.iter().enumerate() {
            let exp = pr * runs as f64;
            let sd = (runs as f64 * pr * (1.0 - pr)).sqrt();
            let diff = counts[i] as f64 - exp;
            let z = if sd > 0.0 { diff / sd } else if diff.abs() < 0.5 { 0.0 } else { f64::INFINITY };
            r.hit_n(&format!("law config{ci} individual={i} expected={exp:.1}"), counts[i]);
            r.case(&format!("law {ci} {i}"), true);
            if z.abs() > 7.0 {
                r.violate(json!({"case": format!("lexicase {n_cases} on {} x{runs}, seed {seed}", pop_tokens(pop)), "what": format!("individual {i} selected {} times, the law gives {exp:.1} (z = {z:.1})", counts[i]), "real": counts}));
            }
        }
    }
}

pub fn run(cfg: &Cfg) -> Report {
    let n: u64 = if cfg.thorough { 2000000 } else { 50000 };
    let seed = cfg.seed;
    let prop = cfg.prop.as_str();
    let mut rep = run_sharded(&cfg.driver, cfg.threads, n, || Report::new("lex", RULE), |d, r, i| {
        let mut g = SplitMix::derive(seed ^ 0x1EC5, i);
        let (score, n_cases, pop) = gen_case(&mut g);
        one_case(d, r, prop, &i.to_string(), score, n_cases, &pop, SplitMix::derive(seed ^ 0xCAFE, i), true);
    });
    // exhaustive small scope: 3 individuals x c cases over {0,1,2}, every case order
    let c: usize = if cfg.thorough { 3 } else { 2 };
    let cells = 3 * c;
    let total = 3u64.pow(cells as u32);
    let orders_needed = factorial(c) as usize;
    let ex = run_sharded(&cfg.driver, cfg.threads, total, || Report::new("lex", RULE), |d, r, m| {
        let pop: PopRaw = (0..3).map(|i| { let rs: Vec<i64> = (0..c).map(|k| ((m / 3u64.pow((i * c + k) as u32)) % 3) as i64).collect(); (rs.iter().sum(), rs) }).collect();
        for score in [true, false] {
            let mut seen: Vec<Vec<usize>> = Vec::new();
            let mut s = 0u64;
            while seen.len() < orders_needed && s < 200 {
                let (_, order) = one_case(d, r, prop, &format!("ex{m}-{s}"), score, c, &pop, SplitMix::derive(seed ^ 0xE1E1, m * 256 + s), s == 0);
                if !seen.contains(&order) { seen.push(order); }
                s += 1;
            }
            if seen.len() < orders_needed { r.notes.push(format!("matrix {m}: only {} case orders drawn", seen.len())); }
        }
        r.hit(&format!("exhaustive matrix 3x{c} over {{0,1,2}} x every case order x both polarities"));
    });
    rep.merge(ex);
    if prop.is_empty() || prop == "C08" {
        let mut d = crate::driver::Driver::spawn(&cfg.driver);
        law_block(&mut d, &mut rep, seed, if cfg.thorough { 1000000 } else { 50000 });
    }
    rep.notes.push(format!("exhaustive scope: all {total} result matrices of 3 individuals x {c} cases over {{0,1,2}}, every case order, both polarities"));
    rep
}
