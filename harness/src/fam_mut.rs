//! C11 / C12: ec-linear mutators (`WithRate`, `WithOneOverLength`, `Umad`), `Bitstring::random*`, and
//! the Plushy `GeneGenerator` — real code vs. the Lean Impl model, tape-level with exact `f32` bits,
//! plus model-free property oracles (C11: structure; C12: exact-budget frequency tests).
use crate::prims;
use crate::report::Report;
use crate::rng::SplitMix;
use crate::shard::run_sharded;
use crate::Cfg;
use ec_core::distributions::choices::ChoicesDistribution;
use ec_core::distributions::collection::ConvertToCollectionGenerator;
use ec_core::operator::mutator::Mutator;
use ec_core::operator::recombinator::Recombinator;
use ec_linear::genome::bitstring::Bitstring;
use ec_linear::genome::vector::Vector;
use ec_linear::mutator::umad::Umad;
use ec_linear::mutator::with_one_over_length::WithOneOverLength;
use ec_linear::mutator::with_rate::WithRate;
use ec_linear::recombinator::uniform_xo::UniformXo;
use push::genome::plushy::{ConvertToGeneGenerator, GeneGenerator, Plushy, PushGene};
use push::instruction::variable_name::VariableName;
use push::instruction::{BoolInstruction, IntInstruction, PushInstruction};
use rand::distr::Distribution;
use rand::{Rng, RngCore};
use serde_json::json;
use std::num::NonZeroUsize;
use std::panic::{catch_unwind, AssertUnwindSafe};

/// The generator handed to the code under test: an optional script of words (to steer single
/// `f32` draws onto decision boundaries), then a `SplitMix` stream.
#[derive(Clone, Debug, PartialEq)]
pub struct LinRng {
    script: Vec<u64>,
    pos: usize,
    tail: SplitMix,
}
impl LinRng {
    fn new(script: Vec<u64>, tail: SplitMix) -> Self { Self { script, pos: 0, tail } }
    fn words(&self) -> u64 { self.pos as u64 + self.tail.words }
}
impl RngCore for LinRng {
    fn next_u32(&mut self) -> u32 { (self.next_u64() >> 32) as u32 }
    fn next_u64(&mut self) -> u64 {
        if self.pos < self.script.len() { self.pos += 1; self.script[self.pos - 1] } else { self.tail.next_u64() }
    }
    fn fill_bytes(&mut self, dst: &mut [u8]) {
        for chunk in dst.chunks_mut(8) { let w = self.next_u64().to_le_bytes(); chunk.copy_from_slice(&w[..chunk.len()]); }
    }
}

const RULE_MUT: &str = "C11 mut: seeded mutations, model requests answered by the same rand call on a shadow generator (f32 answers carry the exact bits; \
the first draws of many cases are scripted onto the decision boundary floor(rate*2^24)+-1 and 0 / max); WithRate and WithOneOverLength on Vec<bool>, Vec<i32> \
(tagged genes, Not = bitwise not), Bitstring, Vector<i32>; Umad (new / new_with_empty_rate / new_without_empty) on Bitstring (bool probe generator), Vector<u32> \
(tagged parents, probe generator from a disjoint alphabet) and Plushy (tagged InputVar parents, the real GeneGenerator over a probe instruction distribution); \
lengths 0..64; f32 rates from {0,-0,2^-24,tiny,.3,.5,1-2^-24,1,1.5,inf,NaN} and random, f64 rates from {0,1,tiny,.3,.5,1-2^-53} and random, occasionally outside [0,1] \
(expected panic of random_bool); compared: child / panic, next generator word, second run; model-free oracles: same length and every gene unchanged or negated in place, \
rate 0 => identity, rate >= 1 => all flipped; Umad: surviving parent genes in original order, at most one new gene per parent position (counted per gap), new genes from the generator's alphabet, \
empty parent => at most one gene (none without empty-addition), (0,0) => identity, del 1 => empty, (1,0) => each parent gene followed by exactly one new gene. \
non-trivial = non-empty parent and at least one random word consumed; distinct by request line and seed";

const RULE_RATES: &str = "C12 rates: the same tape-level correspondence focused on the decisions (rates of one case pairwise distinct, scripted boundary draws), plus \
Bitstring::random / random_with_probability, the Plushy GeneGenerator (close marker vs instruction) and UniformXo coins; with_uniform_close_probability(n) compared bit for bit \
with the model's fl32(1/fl32(n+1)) for n = 1..=N and large n (the model's exact float functions are cross-checked against hardware Float32 in the driver); \
frequency oracles on the real code alone with a Hoeffding bound at false-alarm budget 1e-12 per test: flips of WithRate(p), flips per genome of WithOneOverLength, \
survivors (1-d), insertions a(1-d) and size preservation at d=a/(1+a) of Umad, first-parent share 1/2 of UniformXo, set bits of Bitstring::random (1/2) and \
random_with_probability(p), close markers of GeneGenerator (configured and default 1/(n+1)). non-trivial = at least one random decision; distinct by request line and seed";

// ---------------------------------------------------------------- helpers

fn gtok<T: ToString>(v: &[T]) -> String {
    if v.is_empty() { "-".into() } else { v.iter().map(|x| x.to_string()).collect::<Vec<_>>().join(",") }
}
fn parse_genome(tok: &str) -> Vec<u64> {
    if tok == "-" { vec![] } else { tok.split(',').map(|x| x.parse().unwrap()).collect() }
}

const F32_POOL: [u32; 12] = [
    0x0000_0000, 0x8000_0000, 0x3380_0000 /*2^-24*/, 0x0000_0001 /*min subnormal*/, 0x3E99_999A /*.3*/, 0x3F00_0000 /*.5*/,
    0x3F7F_FFFF /*1-2^-24*/, 0x3F80_0000 /*1*/, 0x3FC0_0000 /*1.5*/, 0x7F80_0000 /*inf*/, 0x7FC0_0000 /*NaN*/, 0x3EAA_AAAB, /*1/3*/
];
fn gen_f32_rate(g: &mut SplitMix) -> u32 {
    match g.below(10) {
        0..=3 => *g.pick(&F32_POOL),
        4 => ((g.below(1 << 24) as f32) / (1u32 << 24) as f32).to_bits(),       // on the 2^-24 grid
        5 => ((g.below(1 << 25) as f32) / (1u32 << 25) as f32).to_bits(),       // off the grid below 1/2
        _ => (g.below(1_000_000) as f32 / 1_000_000.0).to_bits(),
    }
}
const F64_POOL: [u64; 7] = [
    0, 0x3FF0_0000_0000_0000 /*1*/, 0x0000_0000_0000_0001, 0x3FD3_3333_3333_3333 /*.3*/, 0x3FE0_0000_0000_0000 /*.5*/,
    0x3FEF_FFFF_FFFF_FFFF /*1-2^-53*/, 0x8000_0000_0000_0000, /*-0*/
];
const F64_BAD: [u64; 5] = [0x3FF0_0000_0000_0001, 0xBFB9_9999_9999_999A /*-.1*/, 0x7FF8_0000_0000_0000 /*NaN*/, 0x7FF0_0000_0000_0000, 0x4000_0000_0000_0000];
fn gen_f64_rate(g: &mut SplitMix, allow_bad: bool) -> u64 {
    match g.below(20) {
        0 if allow_bad => *g.pick(&F64_BAD),
        1..=8 => *g.pick(&F64_POOL),
        _ => (g.below(1_000_000) as f64 / 1_000_000.0).to_bits(),
    }
}

/// words that put an `f32` draw on / next to the decision boundary of `rate`
fn boundary_script(g: &mut SplitMix, rate: f32, n: usize) -> Vec<u64> {
    let mut s = Vec::new();
    if !(rate.is_finite()) || n == 0 || g.chance(1, 3) { return s; }
    let k = (rate as f64 * (1u64 << 24) as f64).floor().clamp(0.0, ((1u64 << 24) - 1) as f64) as u64;
    let low = (1u64 << 40) - 1;
    let cands = [k << 40, (k << 40) | low, (k.saturating_sub(1)) << 40 | low, ((k + 1).min((1 << 24) - 1)) << 40, 0, u64::MAX, low];
    for _ in 0..g.below(n as u64 + 1).min(6) { s.push(*g.pick(&cands)); }
    s
}

// ---------------------------------------------------------------- probes (identical on both sides)

#[derive(Clone, Debug)]
struct ProbeU32;
impl Distribution<u32> for ProbeU32 {
    fn sample<R: Rng + ?Sized>(&self, rng: &mut R) -> u32 { 100_000 + rng.random_range(0..1000u32) }
}
#[derive(Clone, Debug)]
struct ProbeBool;
impl Distribution<bool> for ProbeBool {
    fn sample<R: Rng + ?Sized>(&self, rng: &mut R) -> bool { rng.random::<bool>() }
}
/// instruction distribution probe: `n` choices, a few real instructions first, then input variables `n<j>`
#[derive(Clone, Debug)]
struct ProbeInstr { n: usize }
fn instr_of(j: usize) -> PushInstruction {
    match j {
        0 => IntInstruction::Add.into(),
        1 => BoolInstruction::And.into(),
        2 => IntInstruction::Multiply.into(),
        _ => PushInstruction::InputVar(VariableName::from(format!("n{j}").as_str())),
    }
}
impl Distribution<PushInstruction> for ProbeInstr {
    fn sample<R: Rng + ?Sized>(&self, rng: &mut R) -> PushInstruction { instr_of(rng.random_range(0..self.n.min(1 << 20))) }
}
impl ChoicesDistribution for ProbeInstr {
    fn num_choices(&self) -> NonZeroUsize { NonZeroUsize::new(self.n).unwrap() }
}
/// gene code shared with the driver: 0 = Close, j+1 = j-th instruction of the probe, 1_000_001+i = parent tag i
fn code_of(gene: &PushGene) -> u64 {
    match gene {
        PushGene::Close => 0,
        PushGene::Instruction(PushInstruction::InputVar(v)) => {
            let s = v.to_string();
            if let Some(i) = s.strip_prefix('p') { 1_000_001 + i.parse::<u64>().unwrap() } else { 1 + s[1..].parse::<u64>().unwrap() }
        }
        PushGene::Instruction(i) => 1 + (0..3).find(|j| &instr_of(*j) == i).expect("unknown instruction") as u64,
    }
}
/// inverse of `code_of`
fn gene_of_code(x: u64) -> PushGene {
    match x {
        0 => PushGene::Close,
        1..=1_000_000 => PushGene::Instruction(instr_of((x - 1) as usize)),
        _ => parent_gene((x - 1_000_001) as usize),
    }
}
fn parent_gene(i: usize) -> PushGene { PushGene::Instruction(PushInstruction::InputVar(VariableName::from(format!("p{i}").as_str()))) }
/// The close probability of a gene generator, measured by what it does: the number of f32 grid draws `k * 2^-24`
/// (`0 <= k < 2^24`) for which a sampled gene is a close marker, found by bisection with scripted draws (a gene is a
/// close marker iff the draw is below the probability, so the set of such `k` is an initial segment).  Independent of
/// how the generator stores or prints the value.
fn close_cutoff_of<T: Distribution<PushInstruction>>(gg: &GeneGenerator<T>) -> u64 {
    let is_close = |k: u64| -> bool {
        let mut rng = LinRng::new(vec![k << 40], SplitMix::derive(0xC105E, k));
        matches!(gg.sample(&mut rng), PushGene::Close)
    };
    let top = 1u64 << 24;
    if is_close(top - 1) { return top; }
    if !is_close(0) { return 0; }
    // invariant: is_close(lo), !is_close(hi)
    let (mut lo, mut hi) = (0u64, top - 1);
    while hi - lo > 1 { let mid = (lo + hi) / 2; if is_close(mid) { lo = mid } else { hi = mid } }
    hi
}

// ---------------------------------------------------------------- cases

#[derive(Clone, Copy, Debug, PartialEq)]
pub enum Flavour { VecBool, VecI32, Bits, VectorI32 }
#[derive(Clone, Copy, Debug, PartialEq)]
pub enum UFlavour { Bits, VectorU32, Plushy }
#[derive(Clone, Copy, Debug, PartialEq)]
pub enum UCtor { New, WithEmptyRate, WithoutEmpty }

/// Self-test mutants (harness-side re-implementations with one defect each); `None` = the real code.
#[derive(Clone, Copy, Debug, PartialEq)]
pub enum Mutant {
    None, WrLe, WrInverted, WrF64, OolOffByOne, UmadNewBeforeOld, UmadNewNotDeleted, UmadRatesSwapped, UmadEmptyAlwaysAdds,
    UmadDeleteTwice, CloseOffByOne, CloseInverted,
}

fn neg_code(x: u64) -> u64 { x ^ 1 }
/// tagged i32 gene for position i and its code (2i; the negated gene has code 2i+1)
fn tag_i32(i: usize) -> i32 { 1000 + i as i32 }
fn code_i32(v: i32) -> u64 { if v >= 0 { 2 * (v - 1000) as u64 } else { 2 * (!v - 1000) as u64 + 1 } }

fn mutant_with_rate(m: Mutant, rate: f32, genome: Vec<i32>, rng: &mut LinRng) -> Vec<i32> {
    genome.into_iter().map(|bit| match m {
        Mutant::WrF64 => { let r: f64 = rng.random(); if r < rate as f64 { !bit } else { bit } }
        Mutant::WrLe => { let r: f32 = rng.random(); if r <= rate { !bit } else { bit } }
        Mutant::WrInverted => { let r: f32 = rng.random(); if r > rate { !bit } else { bit } }
        _ => { let r: f32 = rng.random(); if r < rate { !bit } else { bit } }
    }).collect()
}

/// WithRate (ool = false) / WithOneOverLength (ool = true); genome as codes; returns `ok <codes>` | `panic`
fn run_flip(fl: Flavour, ool: bool, rate_bits: u32, codes: &[u64], rng: &mut LinRng, mutant: Mutant) -> String {
    let rate = f32::from_bits(rate_bits);
    let res = catch_unwind(AssertUnwindSafe(|| -> Vec<u64> {
        match fl {
            Flavour::VecBool => {
                let g: Vec<bool> = codes.iter().map(|c| *c == 1).collect();
                let out = if ool { WithOneOverLength.mutate(g, rng).expect("conversion") } else { WithRate::new(rate).mutate(g, rng).unwrap() };
                out.iter().map(|b| *b as u64).collect()
            }
            Flavour::Bits => {
                let g = Bitstring { bits: codes.iter().map(|c| *c == 1).collect() };
                let out = if ool { WithOneOverLength.mutate(g, rng).expect("conversion") } else { WithRate::new(rate).mutate(g, rng).unwrap() };
                out.bits.iter().map(|b| *b as u64).collect()
            }
            Flavour::VecI32 => {
                let g: Vec<i32> = (0..codes.len()).map(tag_i32).collect();
                let out = match mutant {
                    Mutant::WrLe | Mutant::WrInverted | Mutant::WrF64 if !ool => mutant_with_rate(mutant, rate, g, rng),
                    Mutant::OolOffByOne if ool => { let r = 1.0 / (g.len() as f32 + 1.0); mutant_with_rate(Mutant::None, r, g, rng) }
                    _ => if ool { WithOneOverLength.mutate(g, rng).expect("conversion") } else { WithRate::new(rate).mutate(g, rng).unwrap() },
                };
                out.iter().map(|v| code_i32(*v)).collect()
            }
            Flavour::VectorI32 => {
                let g = Vector { genes: (0..codes.len()).map(tag_i32).collect::<Vec<i32>>() };
                let out = if ool { WithOneOverLength.mutate(g, rng).expect("conversion") } else { WithRate::new(rate).mutate(g, rng).unwrap() };
                out.genes.iter().map(|v| code_i32(*v)).collect()
            }
        }
    }));
    match res { Ok(c) => format!("ok {}", gtok(&c)), Err(_) => "panic".into() }
}

fn flip_oracle(ool: bool, rate_bits: u32, codes: &[u64], real: &str) -> Option<String> {
    if real == "panic" { return Some("bit-flip mutation panicked".into()); }
    let out = parse_genome(real.strip_prefix("ok ").unwrap_or("-").split(' ').next().unwrap());
    if out.len() != codes.len() { return Some("bit-flip mutation changed the genome length".into()); }
    for i in 0..out.len() {
        if out[i] != codes[i] && out[i] != neg_code(codes[i]) { return Some(format!("gene {i} is neither unchanged nor negated")); }
    }
    let rate = f32::from_bits(rate_bits);
    if !ool && rate == 0.0 && out != codes { return Some("rate 0 must be the identity".into()); }
    if !ool && rate >= 1.0 && (0..out.len()).any(|i| out[i] != neg_code(codes[i])) { return Some("rate >= 1 must flip every gene".into()); }
    // the length-scaled variant on a single gene: 1/length = 1, a flip rate >= 1
    if ool && codes.len() == 1 && out[0] != neg_code(codes[0]) { return Some("WithOneOverLength on a genome of one gene has rate 1/1 = 1: the gene must be flipped".into()); }
    None
}

struct UmadCase { fl: UFlavour, ctor: UCtor, add: u64, del: u64, empty: u64, close: u32, n_instr: usize, parent: Vec<u64> }

fn mutant_umad(m: Mutant, add: f64, del: f64, empty: Option<f64>, genome: Vec<u32>, rng: &mut LinRng) -> Vec<u32> {
    let gen = ProbeU32;
    if genome.is_empty() {
        if let Some(r) = empty {
            let go = if m == Mutant::UmadEmptyAlwaysAdds { let _ = rng.random_bool(r); true } else { rng.random_bool(r) };
            return go.then(|| gen.sample(rng)).into_iter().collect();
        }
    }
    let (add, del) = if m == Mutant::UmadRatesSwapped { (del, add) } else { (add, del) };
    genome.into_iter().flat_map(|gene| {
        let add_gene = rng.random_bool(add);
        let mut delete_gene = rng.random_bool(del);
        if m == Mutant::UmadDeleteTwice { delete_gene = delete_gene || rng.random_bool(del); }
        let delete_new_gene = if m == Mutant::UmadNewNotDeleted { false } else { add_gene && rng.random_bool(del) };
        let old_gene = (!delete_gene).then_some(gene);
        let new_gene = match (add_gene, delete_new_gene) { (true, false) => Some(gen.sample(rng)), _ => None };
        if m == Mutant::UmadNewBeforeOld { [new_gene, old_gene] } else { [old_gene, new_gene] }
    }).flatten().collect()
}

fn mk_umad<G>(c: &UmadCase, gen: G) -> Umad<G> {
    let (a, d, e) = (f64::from_bits(c.add), f64::from_bits(c.del), f64::from_bits(c.empty));
    match c.ctor { UCtor::New => Umad::new(a, d, gen), UCtor::WithEmptyRate => Umad::new_with_empty_rate(a, e, d, gen), UCtor::WithoutEmpty => Umad::new_without_empty(a, d, gen) }
}

/// C16 "repeated call histories on one operator value": use the mutator once on a clone of the genome with a
/// throw-away generator before the compared call (about half of the cases); a stateless mutator cannot notice
fn warm<M, G: Clone>(m: &M, g: &G, other: G, key: usize) where M: ec_core::operator::mutator::Mutator<G> {
    if key % 2 == 0 {
        let _ = catch_unwind(AssertUnwindSafe(|| { let mut t = SplitMix::new(0x77AB ^ key as u64); let _ = m.mutate(g.clone(), &mut t); }));
    }
    // ... and, in a third of the cases, once on a genome of the *other* kind (empty if this one is not, and the other
    // way round): the empty-genome rate and the per-gene rates are separate settings of one value
    if key % 3 == 0 {
        let _ = catch_unwind(AssertUnwindSafe(|| { let mut t = SplitMix::new(0x51AB ^ key as u64); let _ = m.mutate(other, &mut t); }));
    }
}

fn run_umad(c: &UmadCase, rng: &mut LinRng, mutant: Mutant) -> String {
    let res = catch_unwind(AssertUnwindSafe(|| -> Vec<u64> {
        match c.fl {
            UFlavour::Bits => {
                let g = Bitstring { bits: c.parent.iter().map(|x| *x == 1).collect() };
                let m = mk_umad(c, ProbeBool); warm(&m, &g, Bitstring { bits: if c.parent.is_empty() { vec![true, false, true] } else { vec![] } }, c.parent.len() + c.add as usize % 7);
                m.mutate(g, rng).unwrap().bits.iter().map(|b| *b as u64).collect()
            }
            UFlavour::VectorU32 => {
                let g: Vec<u32> = c.parent.iter().map(|x| *x as u32).collect();
                let umad_mutant = matches!(mutant, Mutant::UmadNewBeforeOld | Mutant::UmadNewNotDeleted | Mutant::UmadRatesSwapped | Mutant::UmadEmptyAlwaysAdds | Mutant::UmadDeleteTwice);
                if umad_mutant {
                    let empty = match c.ctor { UCtor::New => Some(f64::from_bits(c.add)), UCtor::WithEmptyRate => Some(f64::from_bits(c.empty)), UCtor::WithoutEmpty => None };
                    mutant_umad(mutant, f64::from_bits(c.add), f64::from_bits(c.del), empty, g, rng).iter().map(|x| *x as u64).collect()
                } else {
                    let m = mk_umad(c, ProbeU32); let gv = Vector { genes: g }; warm(&m, &gv, Vector { genes: if c.parent.is_empty() { vec![7u32, 8, 9] } else { vec![] } }, c.parent.len() + c.del as usize % 5);
                    m.mutate(gv, rng).unwrap().genes.iter().map(|x| *x as u64).collect()
                }
            }
            UFlavour::Plushy => {
                let g = Plushy::new(c.parent.iter().map(|x| gene_of_code(*x)));
                let gg = ProbeInstr { n: c.n_instr }.into_gene_generator_with_close_probability(f32::from_bits(c.close));
                let m = mk_umad(c, gg); warm(&m, &g, Plushy::new(if c.parent.is_empty() { vec![gene_of_code(1), gene_of_code(2)] } else { vec![] }), c.parent.len() + c.n_instr);
                m.mutate(g, rng).unwrap().get_genes().iter().map(code_of).collect()
            }
        }
    }));
    match res { Ok(c) => format!("ok {}", gtok(&c)), Err(_) => "panic".into() }
}

fn valid_p(bits: u64) -> bool { let p = f64::from_bits(bits); (0.0..=1.0).contains(&p) }

/// model-free structure oracle for UMAD (parents are tagged for VectorU32 / Plushy)
fn umad_oracle(c: &UmadCase, real: &str) -> Option<String> {
    let n = c.parent.len();
    let empty_rate = match c.ctor { UCtor::New => Some(c.add), UCtor::WithEmptyRate => Some(c.empty), UCtor::WithoutEmpty => None };
    let rates_ok = if n == 0 { empty_rate.map_or(true, valid_p) } else { valid_p(c.add) && valid_p(c.del) };
    if real == "panic" {
        return if rates_ok { Some("UMAD panicked although all rates it uses are probabilities".into()) } else { None };
    }
    if !rates_ok { return None; } // the property speaks about rates in [0,1] only
    let out = parse_genome(real.strip_prefix("ok ").unwrap_or("-"));
    let (a, d) = (f64::from_bits(c.add), f64::from_bits(c.del));
    if n == 0 {
        if out.len() > 1 { return Some("an empty parent yielded more than one gene".into()); }
        if empty_rate.is_none() && !out.is_empty() { return Some("empty-genome addition is disabled but a gene was added".into()); }
        if let Some(e) = empty_rate { if f64::from_bits(e) == 0.0 && !out.is_empty() { return Some("empty-genome addition rate 0 but a gene was added".into()); } }
    }
    let untagged = c.fl == UFlavour::Bits || (c.fl == UFlavour::Plushy && c.parent.iter().any(|x| *x <= 1_000_000));
    if untagged {
        if n > 0 && out.len() > 2 * n { return Some("more than one insertion per parent position".into()); }
        if n > 0 && a == 1.0 && d == 0.0 && !(out.len() == 2 * n && (0..n).all(|i| out[2 * i] == c.parent[i])) {
            return Some("addition 1 / deletion 0 must follow every parent gene by exactly one new gene".into());
        }
    } else {
        let is_old = |x: u64| if c.fl == UFlavour::VectorU32 { x < 100_000 } else { x > 1_000_000 };
        let idx = |x: u64| if c.fl == UFlavour::VectorU32 { x as i64 } else { (x - 1_000_001) as i64 };
        // new genes come from the generator's alphabet
        for x in &out {
            if !is_old(*x) {
                let ok = if c.fl == UFlavour::VectorU32 { (100_000..101_000).contains(x) } else { *x <= c.n_instr as u64 };
                if !ok { return Some(format!("gene {x} is neither a parent gene nor an output of the gene generator")); }
            }
        }
        // survivors strictly increasing in parent position, and per gap at most (j - max(i,0)) insertions
        let mut last: i64 = -1;
        let mut run: i64 = 0;
        for x in out.iter().chain(std::iter::once(&u64::MAX)) {
            let (old, j) = if *x == u64::MAX { (true, n as i64) } else if is_old(*x) { (true, idx(*x)) } else { (false, 0) };
            if old {
                if *x != u64::MAX && (j <= last || j >= n as i64 || c.parent[j as usize] != *x) { return Some("surviving parent genes are not in their original order".into()); }
                if n > 0 && run > j - last.max(0) { return Some("more than one new gene inserted after a parent position".into()); }
                last = j; run = 0;
            } else { run += 1; }
        }
        if n > 0 {
            if a == 0.0 && d == 0.0 && out != c.parent { return Some("rates (0,0) must be the identity".into()); }
            if a == 1.0 && d == 0.0 {
                let ok = out.len() == 2 * n && (0..n).all(|i| out[2 * i] == c.parent[i] && !is_old(out[2 * i + 1]));
                if !ok { return Some("addition 1 / deletion 0 must follow every parent gene by exactly one new gene".into()); }
            }
        }
    }
    if d == 1.0 && n > 0 && !out.is_empty() { return Some("deletion rate 1 must give an empty result".into()); }
    if a == 0.0 && d == 0.0 && n > 0 && out != c.parent { return Some("rates (0,0) must be the identity".into()); }
    None
}

fn user_answer(fl: UFlavour, n_instr: usize) -> impl FnMut(u64, &mut LinRng) -> String {
    move |_tag, rng| match fl {
        UFlavour::Bits => format!("n {}", ProbeBool.sample(rng) as u64),
        UFlavour::VectorU32 => format!("n {}", ProbeU32.sample(rng)),
        // the model adds 1 itself (PGene.instr j ↦ j+1); answer the index of the instruction
        UFlavour::Plushy => format!("n {}", code_of(&PushGene::Instruction(ProbeInstr { n: n_instr }.sample(rng))) - 1),
    }
}

fn finish(r: &mut Report, req: &str, i: u64, real: &str, model: &str, same_stream: bool, oracle: Option<String>) {
    if model.ends_with("native-mismatch") {
        r.disagree(json!({"case": req, "seed_index": i, "what": "the model's exact float function disagrees with hardware Float32", "impl": model}));
    }
    if let Some(what) = oracle { r.violate(json!({"case": req, "seed_index": i, "real": real, "what": what})); }
    if real != model.trim_end_matches(" native-mismatch") || !same_stream {
        r.disagree(json!({"case": req, "seed_index": i, "real": real, "impl": model, "same_generator_state_after": same_stream}));
    }
}

fn case_flip(d: &mut crate::driver::Driver, r: &mut Report, seed: u64, i: u64, mutant: Mutant) {
    let mut g = SplitMix::derive(seed, i);
    let fl = *g.pick(&[Flavour::VecBool, Flavour::VecI32, Flavour::Bits, Flavour::VectorI32]);
    let ool = g.chance(1, 3);
    let n = match g.below(10) { 0 => 0, 1 => 1, 2 => 2, _ => g.below(65) } as usize;
    let rate_bits = gen_f32_rate(&mut g);
    let codes: Vec<u64> = match fl { Flavour::VecBool | Flavour::Bits => (0..n).map(|_| g.below(2)).collect(), _ => (0..n).map(|j| 2 * j as u64).collect() };
    let eff_rate = if ool { 1.0 / n as f32 } else { f32::from_bits(rate_bits) };
    let script = boundary_script(&mut g, eff_rate, n);
    exec_flip(d, r, seed, i, mutant, fl, ool, rate_bits, codes, script);
}

/// long genomes for the length-scaled rate: 1/length must keep following the length beyond 2^16 genes (a rate
/// computed through a narrower integer type saturates there); draws are scripted onto the decision boundary
const LONG_LENGTHS: [usize; 6] = [65_535, 65_536, 65_537, 70_001, 131_072, 200_003];
fn case_flip_long(d: &mut crate::driver::Driver, r: &mut Report, seed: u64, i: u64, j: u64, mutant: Mutant) {
    let n = LONG_LENGTHS[(j as usize) % LONG_LENGTHS.len()];
    let fl = if j % 2 == 0 { Flavour::Bits } else { Flavour::VecBool };
    let mut g = SplitMix::derive(seed ^ 0x10B6, i);
    let codes: Vec<u64> = (0..n).map(|_| g.below(2)).collect();
    // every boundary word around floor(2^24 / n), and around the value a 16-bit length would give
    let low = (1u64 << 40) - 1;
    let mut script = vec![];
    for k in [((1u64 << 24) as f64 / n as f64).floor() as u64, (1u64 << 24) / 65_535, (1u64 << 24) / 65_536] {
        script.extend([k << 40, (k << 40) | low, (k.saturating_sub(1)) << 40 | low, (k + 1) << 40, ((k + 1) << 40) | low]);
    }
    r.hit("WithOneOverLength on a long genome (65535 .. 200003 genes)");
    // The interactive model would need n round trips through nested continuations (quadratic); for these lengths the
    // model supplies the rate (fl32(1/fl32(n)), `mut oolrate n`) and the per-gene rule of `withRate` - one f32 draw per
    // gene, flipped iff draw < rate - is replayed here on the shadow generator.
    let mut real_rng = LinRng::new(script, SplitMix::derive(seed ^ 0xC11, i));
    let mut shadow = real_rng.clone();
    let real = run_flip(fl, true, 0, &codes, &mut real_rng, mutant);
    let req = format!("mut oolrate {n}");
    let reply = d.ask(&req);
    let rate_bits: u32 = reply.trim_end_matches(" native-mismatch").parse().unwrap_or(0);
    let rate = f32::from_bits(rate_bits);
    let want: Vec<u64> = codes.iter().map(|c| { let x: f32 = shadow.random(); if x < rate { 1 - *c } else { *c } }).collect();
    let want_s = format!("ok {}", gtok(&want));
    r.case(&format!("{req}#{i}"), true);
    let same = real_rng.next_u64() == shadow.next_u64();
    if reply.ends_with("native-mismatch") { r.disagree(json!({"case": req, "what": "exact fl32(1/fl32(n)) disagrees with hardware Float32", "impl": reply})); }
    if real != want_s || !same {
        let flips = |s: &str| parse_genome(s.split(' ').nth(1).unwrap_or("-")).iter().zip(&codes).filter(|(a, b)| a != b).count();
        r.violate(json!({"case": format!("WithOneOverLength on a genome of {n} genes ({fl:?}), boundary draws scripted, seed index {i}"), "real": format!("{} genes flipped", flips(&real)), "spec": format!("{} genes flipped with rate 1/{n} (bits {rate_bits})", flips(&want_s)),
            "same_generator_state_after": same, "what": "the genes flipped are not those whose draw lies below 1/length: the length-scaled rate does not follow the length"}));
    }
}

/// exhaustive decision-boundary scope: every pool rate x every boundary word x every flavour, one gene
fn case_flip_boundary(d: &mut crate::driver::Driver, r: &mut Report, seed: u64, i: u64, j: u64, mutant: Mutant) {
    let fl = [Flavour::VecBool, Flavour::VecI32, Flavour::Bits, Flavour::VectorI32][(j % 4) as usize];
    let w = (j / 4) % 7;
    let rate_bits = F32_POOL[((j / 28) as usize) % F32_POOL.len()];
    let rate = f32::from_bits(rate_bits);
    let k = if rate.is_finite() { (rate as f64 * (1u64 << 24) as f64).floor().clamp(0.0, ((1u64 << 24) - 1) as f64) as u64 } else { 0 };
    let low = (1u64 << 40) - 1;
    let word = [k << 40, (k << 40) | low, (k.saturating_sub(1)) << 40 | low, ((k + 1).min((1 << 24) - 1)) << 40, 0, u64::MAX, low][w as usize];
    let codes = vec![if matches!(fl, Flavour::VecBool | Flavour::Bits) { 1 } else { 0 }];
    r.hit("WithRate decision-boundary scope (rate pool x boundary word x flavour)");
    exec_flip(d, r, seed, i, mutant, fl, false, rate_bits, codes, vec![word]);
}

#[allow(clippy::too_many_arguments)]
fn exec_flip(d: &mut crate::driver::Driver, r: &mut Report, seed: u64, i: u64, mutant: Mutant, fl: Flavour, ool: bool, rate_bits: u32, codes: Vec<u64>, script: Vec<u64>) {
    let n = codes.len();
    let mut real_rng = LinRng::new(script, SplitMix::derive(seed ^ 0xC11, i));
    let (mut shadow, mut second) = (real_rng.clone(), real_rng.clone());
    let mut real = run_flip(fl, ool, rate_bits, &codes, &mut real_rng, mutant);
    let again = run_flip(fl, ool, rate_bits, &codes, &mut second, mutant);
    let req = if ool { format!("mut ool {}", gtok(&codes)) } else { format!("mut wr {rate_bits} {}", gtok(&codes)) };
    if again != real || second != real_rng { r.violate(json!({"case": req, "seed_index": i, "what": "two runs from equal generator states differ", "first": real, "second": again})); }
    let model = d.ask_with(&req, |p| prims::answer(p, &mut shadow, &mut prims::no_user));
    let oracle = flip_oracle(ool, rate_bits, &codes, &real);
    if ool && real.starts_with("ok") { real = format!("{real} rate={}", (1.0f32 / n as f32).to_bits()); }
    r.case(&format!("{req}#{i}"), n > 0 && real_rng.words() > 0);
    let flips = parse_genome(real.split(' ').nth(1).unwrap_or("-")).iter().zip(&codes).filter(|(a, b)| a != b).count();
    r.hit(&format!("{} {fl:?} len {} -> {} flips", if ool { "WithOneOverLength" } else { "WithRate" }, match n { 0 => "0", 1 => "1", _ => "2+" },
        if flips == 0 { "0" } else if flips == n { "all" } else { "some" }));
    r.sample(json!({"request": req, "real": real, "rng_words": real_rng.words()}));
    let same = real_rng.next_u64() == shadow.next_u64();
    finish(r, &req, i, &real, &model, same, oracle);
}

fn gen_umad(g: &mut SplitMix, distinct_rates: bool) -> UmadCase {
    let fl = *g.pick(&[UFlavour::Bits, UFlavour::VectorU32, UFlavour::VectorU32, UFlavour::Plushy]);
    let ctor = *g.pick(&[UCtor::New, UCtor::WithEmptyRate, UCtor::WithoutEmpty]);
    let n = match g.below(10) { 0 | 1 => 0, 2 => 1, 3 => 2, _ => g.below(33) } as usize;
    let add = gen_f64_rate(g, true);
    let mut del = gen_f64_rate(g, true);
    let mut empty = gen_f64_rate(g, true);
    if distinct_rates { while del == add { del = gen_f64_rate(g, false); } while empty == add || empty == del { empty = gen_f64_rate(g, false); } }
    let parent: Vec<u64> = match fl {
        UFlavour::Bits => (0..n).map(|_| g.below(2)).collect(),
        UFlavour::VectorU32 => (0..n as u64).collect(),
        // mostly tagged parents (structure oracle); also genomes of close markers only and mixtures of close
        // markers, instructions of the generator's own alphabet and tagged genes (repeated, untagged genes)
        UFlavour::Plushy => match g.below(6) {
            0 => vec![0; n],
            1 => (0..n as u64).map(|j| match g.below(3) { 0 => 0, 1 => 1 + g.below(3), _ => 1_000_001 + j }).collect(),
            _ => (0..n as u64).map(|j| 1_000_001 + j).collect(),
        },
    };
    UmadCase { fl, ctor, add, del, empty, close: gen_f32_rate(g), n_instr: 1 + g.below(8) as usize, parent }
}

fn case_umad(d: &mut crate::driver::Driver, r: &mut Report, seed: u64, i: u64, mutant: Mutant, distinct_rates: bool) {
    let mut g = SplitMix::derive(seed, i);
    let c = gen_umad(&mut g, distinct_rates);
    let empty_tok = match c.ctor { UCtor::New => c.add.to_string(), UCtor::WithEmptyRate => c.empty.to_string(), UCtor::WithoutEmpty => "none".into() };
    let req = match c.fl {
        UFlavour::Plushy => format!("mut umadp {} {} {empty_tok} {} {}", c.add, c.del, c.close, gtok(&c.parent)),
        _ => format!("mut umad {} {} {empty_tok} {}", c.add, c.del, gtok(&c.parent)),
    };
    let mut real_rng = LinRng::new(vec![], SplitMix::derive(seed ^ 0xC11A, i));
    let (mut shadow, mut second) = (real_rng.clone(), real_rng.clone());
    let real = run_umad(&c, &mut real_rng, mutant);
    let again = run_umad(&c, &mut second, mutant);
    if again != real || (real != "panic" && second != real_rng) { r.violate(json!({"case": req, "seed_index": i, "what": "two runs from equal generator states differ", "first": real, "second": again})); }
    let mut user = user_answer(c.fl, c.n_instr);
    let model = d.ask_with(&req, |p| prims::answer(p, &mut shadow, &mut user));
    r.case(&format!("{req}#{i}"), !c.parent.is_empty() && real_rng.words() > 0);
    let out_len = if real == "panic" { 0 } else { parse_genome(&real[3..]).len() };
    r.hit(&format!("Umad::{:?} {:?} parent {} -> {}", c.ctor, c.fl, match c.parent.len() { 0 => "0", 1 => "1", _ => "2+" },
        if real == "panic" { "panic" } else if out_len == 0 { "empty" } else if out_len < c.parent.len() { "shorter" } else if out_len == c.parent.len() { "same-size" } else { "longer" }));
    r.sample(json!({"request": req, "real": real, "rng_words": real_rng.words()}));
    // after a panic the real generator stopped mid-way: compare streams only for completed runs
    let same = real == "panic" || real_rng.next_u64() == shadow.next_u64();
    let oracle = umad_oracle(&c, &real);
    finish(r, &req, i, &real, &model, same, oracle);
}

// ---------------------------------------------------------------- C12-specific cases

fn case_gene(d: &mut crate::driver::Driver, r: &mut Report, seed: u64, i: u64, mutant: Mutant) {
    let mut g = SplitMix::derive(seed, i);
    let n_instr = 1 + g.below(12) as usize;
    let default_p = g.chance(1, 2);
    let count = 1 + g.below(24) as usize;
    let probe = ProbeInstr { n: n_instr };
    let close_cfg = gen_f32_rate(&mut g);
    let gg = if default_p { probe.into_gene_generator() } else { probe.into_gene_generator_with_close_probability(f32::from_bits(close_cfg)) };
    // the probability the model is run with: the configured one, or the model's own default fl32(1/fl32(n+1))
    let close: u32 = if default_p { d.ask(&format!("mut closep {n_instr}")).trim_end_matches(" native-mismatch").parse().expect("closep reply") } else { close_cfg };
    let script = boundary_script(&mut g, f32::from_bits(close), count);
    let mut real_rng = LinRng::new(script, SplitMix::derive(seed ^ 0xC12, i));
    let mut shadow = real_rng.clone();
    let real = match catch_unwind(AssertUnwindSafe(|| -> Vec<u64> {
        let p: Plushy = gg.clone().into_collection_generator(count).sample(&mut real_rng);
        let mut v: Vec<u64> = p.get_genes().iter().map(code_of).collect();
        if mutant == Mutant::CloseInverted { for x in v.iter_mut() { if *x == 0 { *x = 1 } } }
        v
    })) { Ok(v) => format!("ok {}", gtok(&v)), Err(_) => "panic".into() };
    let req = format!("mut gene {close} {count}");
    let mut user = user_answer(UFlavour::Plushy, n_instr);
    let model = d.ask_with(&req, |p| prims::answer(p, &mut shadow, &mut user));
    r.case(&format!("{req}#{i}"), true);
    r.hit(&format!("GeneGenerator {} -> {}", if default_p { "default 1/(n+1)" } else { "configured" },
        if real.contains("ok 0") || real.contains(",0") { "some close" } else { "no close" }));
    r.sample(json!({"request": req, "real": real, "n_instructions": n_instr}));
    let same = real_rng.next_u64() == shadow.next_u64();
    let oracle = if real == "panic" { Some("gene generator panicked".to_string()) } else {
        let v = parse_genome(&real[3..]);
        if v.len() != count { Some("collection generator did not deliver the requested number of genes".into()) }
        else if v.iter().any(|x| *x > n_instr as u64) { Some("a generated gene is neither a close marker nor one of the supplied instructions".into()) } else { None }
    };
    finish(r, &req, i, &real, &model, same, oracle);
}

fn case_closep(d: &mut crate::driver::Driver, r: &mut Report, n: usize, mutant: Mutant) {
    let req = format!("mut closecut {n}");
    let built = catch_unwind(AssertUnwindSafe(|| close_cutoff_of(&ProbeInstr { n }.into_gene_generator())));
    r.case(&req, true);
    r.hit("with_uniform_close_probability(n): close-marker cut-off on the 2^-24 grid");
    let Ok(mut real) = built else {
        r.violate(json!({"case": req, "real": "panic", "what": format!("with_uniform_close_probability panicked for {n} instructions (the default close probability 1/(n+1) must exist for every instruction-set size)")}));
        return;
    };
    if mutant == Mutant::CloseOffByOne { real = ((1.0f64 / n as f64) * (1u64 << 24) as f64).ceil().min((1u64 << 24) as f64) as u64; }
    let model: u64 = d.ask(&req).trim().parse().unwrap_or(u64::MAX);
    // property oracle: P(close) = cut-off / 2^24 is 1/(n+1) up to the f32 rounding of the probability and the grid
    let want = (1u64 << 24) as f64 / (n as f64 + 1.0);
    if (real as f64 - want).abs() > 2.0 + want * 1.3e-7 {
        r.violate(json!({"case": req, "real": real, "spec": want, "what": format!("default close probability for {n} instructions must be 1/(n+1): {want:.3} of the 2^24 grid draws must give a close marker, {real} do")}));
    }
    if real != model { r.disagree(json!({"case": req, "real": real, "impl": model})); }
}

fn case_bits(d: &mut crate::driver::Driver, r: &mut Report, seed: u64, i: u64) {
    let mut g = SplitMix::derive(seed, i);
    let n = match g.below(8) { 0 => 0, 1 => 1, _ => g.below(65) } as usize;
    let with_p = g.chance(1, 2);
    let p = gen_f64_rate(&mut g, true);
    let mut real_rng = LinRng::new(vec![], SplitMix::derive(seed ^ 0xB175, i));
    let mut shadow = real_rng.clone();
    let real = match catch_unwind(AssertUnwindSafe(|| {
        if with_p && i % 2 == 0 {
            // one BoolGenerator value used, reconfigured through its public field, and used again: the probability
            // that acts must be the one configured now, not the one of the first use
            let p0 = [0.0, 1.0, 0.5, 0.3][(i / 2 % 4) as usize];
            let mut bg = ec_linear::genome::bitstring::BoolGenerator::new(p0);
            let mut scratch = SplitMix::derive(seed ^ 0x5C4A, i);
            for _ in 0..3 { let _: bool = bg.sample(&mut scratch); }
            bg.true_probability = f64::from_bits(p);
            let b: Bitstring = bg.into_collection_generator(n).sample(&mut real_rng);
            b
        } else if with_p { Bitstring::random_with_probability(n, f64::from_bits(p), &mut real_rng) } else { Bitstring::random(n, &mut real_rng) }
    })) { Ok(b) => format!("ok {}", gtok(&b.bits.iter().map(|x| *x as u64).collect::<Vec<_>>())), Err(_) => "panic".into() };
    let req = if with_p { format!("mut bitsp {n} {p}") } else { format!("mut bits {n}") };
    let model = d.ask_with(&req, |q| prims::answer(q, &mut shadow, &mut prims::no_user));
    r.case(&format!("{req}#{i}"), n > 0);
    r.hit(&format!("Bitstring::{} -> {}", if with_p { "random_with_probability" } else { "random" }, real.split(' ').next().unwrap()));
    r.sample(json!({"request": req, "real": real}));
    let same = real == "panic" || real_rng.next_u64() == shadow.next_u64();
    let oracle = if real == "panic" {
        if with_p && !valid_p(p) && n > 0 { None } else { Some("random bitstring generation panicked for a probability in [0,1]".to_string()) }
    } else {
        let v = parse_genome(&real[3..]);
        if v.len() != n { Some("random bitstring has the wrong length".into()) }
        else if with_p && valid_p(p) && f64::from_bits(p) == 0.0 && v.iter().any(|x| *x == 1) { Some("probability 0 set a bit".into()) }
        else if with_p && f64::from_bits(p) == 1.0 && v.iter().any(|x| *x == 0) { Some("probability 1 left a bit unset".into()) } else { None }
    };
    finish(r, &req, i, &real, &model, same, oracle);
}

/// Hoeffding: P(|X - Np| >= t) <= 2 exp(-2 t^2 / N); t for a 1e-12 budget
fn hoeffding_t(n: f64) -> f64 { (n * (2.0e12f64).ln() / 2.0).sqrt() }

fn freq_check(r: &mut Report, name: &str, trials: u64, hits: u64, p: f64) {
    let t = hoeffding_t(trials as f64);
    let dev = (hits as f64 - trials as f64 * p).abs();
    r.case(&format!("freq {name}"), true);
    r.hit_n(&format!("freq {name}: trials"), trials);
    r.hit_n(&format!("freq {name}: hits"), hits);
    if dev > t + 1.0 {
        r.violate(json!({"case": format!("frequency test {name}"), "real": format!("{hits} of {trials}"),
            "what": format!("expected probability {p} (i.e. {:.1} +- {:.1} at a 1e-12 false-alarm budget); the configured probability is not the probability applied", trials as f64 * p, t)}));
    }
}

/// frequency oracles on the real code alone (C12)
fn frequency_oracles(r: &mut Report, seed: u64, big: bool, mutant: Mutant) {
    let n: usize = if big { 4_000_000 } else { 200_000 };
    let mut rng = LinRng::new(vec![], SplitMix::derive(seed ^ 0xF4E9, 0));
    for rate in [0.05f32, 0.25, 0.5, 0.9] {
        let g: Vec<i32> = (0..n).map(tag_i32).collect();
        let out = match mutant { Mutant::WrLe | Mutant::WrInverted | Mutant::WrF64 => mutant_with_rate(mutant, rate, g, &mut rng), _ => WithRate::new(rate).mutate(g, &mut rng).unwrap() };
        freq_check(r, &format!("WithRate({rate}) flips"), n as u64, out.iter().filter(|v| **v < 0).count() as u64, rate as f64);
    }
    for len in [1usize, 2, 5, 10, 100] {
        let reps = n / len;
        let mut flips = 0u64;
        for _ in 0..reps {
            let g = Bitstring { bits: vec![false; len] };
            let out = if mutant == Mutant::OolOffByOne { Bitstring { bits: mutant_with_rate(Mutant::None, 1.0 / (len as f32 + 1.0), vec![0; len], &mut rng).iter().map(|x| *x < 0).collect() } }
                else { WithOneOverLength.mutate(g, &mut rng).unwrap() };
            flips += out.bits.iter().filter(|b| **b).count() as u64;
        }
        freq_check(r, &format!("WithOneOverLength len {len} flips (one expected per genome)"), (reps * len) as u64, flips, 1.0 / len as f64);
    }
    for (a, d) in [(0.3f64, 0.1f64), (0.09, 0.09 / 1.09), (0.5, 0.5 / 1.5), (1.0, 0.5)] {
        let g: Vec<u32> = (0..n as u32).map(|x| x % 100_000).collect();
        let out: Vec<u32> = match mutant {
            Mutant::UmadNewBeforeOld | Mutant::UmadNewNotDeleted | Mutant::UmadRatesSwapped | Mutant::UmadDeleteTwice => mutant_umad(mutant, a, d, Some(a), g, &mut rng),
            _ => Umad::new(a, d, ProbeU32).mutate(Vector { genes: g }, &mut rng).unwrap().genes,
        };
        let old = out.iter().filter(|x| **x < 100_000).count() as u64;
        let new = out.len() as u64 - old;
        freq_check(r, &format!("Umad({a},{d}) surviving parent genes (1-d)"), n as u64, old, 1.0 - d);
        freq_check(r, &format!("Umad({a},{d}) inserted genes a(1-d)"), n as u64, new, a * (1.0 - d));
        if (d - a / (1.0 + a)).abs() < 1e-12 {
            // size preserved in expectation: |child| = sum of n variables in [0,2] with mean 1
            let t = 2.0 * hoeffding_t(n as f64);
            r.case(&format!("freq Umad({a},{d}) size"), true);
            if (out.len() as f64 - n as f64).abs() > t + 1.0 {
                r.violate(json!({"case": format!("Umad({a},{d}) expected size"), "real": out.len(), "what": format!("deletion = addition/(1+addition) must preserve the expected size {n} (+- {t:.0})")}));
            }
        }
    }
    {
        let (a, b): (Vec<u32>, Vec<u32>) = (vec![1; n], vec![2; n]);
        let c = UniformXo.recombine([a, b], &mut rng).unwrap();
        freq_check(r, "UniformXo Vec genes from the first parent", n as u64, c.iter().filter(|x| **x == 1).count() as u64, 0.5);
        let c = UniformXo.recombine([Bitstring { bits: vec![true; n] }, Bitstring { bits: vec![false; n] }], &mut rng).unwrap();
        freq_check(r, "UniformXo Bitstring genes from the first parent", n as u64, c.bits.iter().filter(|x| **x).count() as u64, 0.5);
    }
    freq_check(r, "Bitstring::random set bits", n as u64, Bitstring::random(n, &mut rng).bits.iter().filter(|x| **x).count() as u64, 0.5);
    for p in [0.1f64, 0.5, 0.75] {
        freq_check(r, &format!("Bitstring::random_with_probability({p}) set bits"), n as u64, Bitstring::random_with_probability(n, p, &mut rng).bits.iter().filter(|x| **x).count() as u64, p);
    }
    for (n_instr, cp) in [(4usize, None), (1, None), (9, None), (4, Some(0.3f32)), (4, Some(0.0)), (4, Some(1.0))] {
        let probe = ProbeInstr { n: n_instr };
        let gg = match cp { None => probe.into_gene_generator(), Some(p) => probe.into_gene_generator_with_close_probability(p) };
        let mut p_eff = match cp { None => 1.0 / (n_instr as f64 + 1.0), Some(p) => p as f64 };
        let plushy: Plushy = gg.into_collection_generator(n).sample(&mut rng);
        let mut closes = plushy.get_genes().iter().filter(|x| matches!(x, PushGene::Close)).count() as u64;
        if mutant == Mutant::CloseInverted { closes = n as u64 - closes; }
        if mutant == Mutant::CloseOffByOne && cp.is_none() { p_eff = 1.0 / (n_instr as f64 + 2.0); }
        freq_check(r, &format!("GeneGenerator n={n_instr} close={cp:?} close markers"), n as u64, closes, p_eff);
    }
}

// ---------------------------------------------------------------- entry points

/// `UEC_LIN_MUTANT=<name>` (testing the check itself, never set by `./check`): see `fam_xo::env_mutant`.
fn env_mutant() -> Mutant {
    let all = [Mutant::WrLe, Mutant::WrInverted, Mutant::WrF64, Mutant::OolOffByOne, Mutant::UmadNewBeforeOld, Mutant::UmadNewNotDeleted, Mutant::UmadRatesSwapped,
        Mutant::UmadEmptyAlwaysAdds, Mutant::UmadDeleteTwice, Mutant::CloseOffByOne, Mutant::CloseInverted];
    let want = std::env::var("UEC_LIN_MUTANT").unwrap_or_default();
    all.into_iter().find(|m| format!("{m:?}") == want).unwrap_or(Mutant::None)
}

pub fn run(cfg: &Cfg) -> Report { run_mut(cfg, env_mutant()) }
pub fn run_rates(cfg: &Cfg) -> Report { run_rates_with(cfg, env_mutant()) }

/// Genomes whose length is not exactly representable as an `f32` (2^24 + 1 genes and neighbours): `WithOneOverLength`
/// still mutates them - same length, each gene flipped iff its draw lies below the model's rate for that length
/// (`mut oolrate n`, the per-gene rule replayed on a clone of the generator).  One lean pass per length.
fn inexact_length_genomes(rep: &mut Report, driver: &str, seed: u64) {
    use ec_linear::mutator::with_one_over_length::WithOneOverLength;
    let mut d = crate::driver::Driver::spawn(driver);
    for (k, n) in [(1usize << 24) + 1, (1 << 24) + 3, 1 << 24].into_iter().enumerate() {
        let req = format!("mut oolrate {n}");
        let reply = d.ask(&req);
        let rate = f32::from_bits(reply.trim_end_matches(" native-mismatch").parse().unwrap_or(0));
        let base = SplitMix::derive(seed ^ 0x1EAC7, k as u64);
        rep.case(&format!("{req}#inexact"), true);
        rep.hit("WithOneOverLength on a genome of 2^24 .. 2^24 + 3 genes (oracle only)");
        for bits_flavour in [false, true] {
            let mut rng = base.clone();
            let res = catch_unwind(AssertUnwindSafe(|| -> Result<Vec<bool>, String> {
                if bits_flavour { WithOneOverLength.mutate(Bitstring { bits: vec![false; n] }, &mut rng).map(|b| b.bits).map_err(|e| e.to_string()) }
                else { WithOneOverLength.mutate(vec![false; n], &mut rng).map_err(|e| e.to_string()) }
            }));
            let what = match res {
                Err(_) => Some("panicked".to_string()),
                Ok(Err(e)) => Some(format!("refused the genome: {e}")),
                Ok(Ok(child)) => {
                    let mut shadow = base.clone();
                    let mut diff = None;
                    if child.len() != n { Some(format!("returned {} genes", child.len())) } else {
                        for (i, c) in child.iter().enumerate() { let x: f32 = shadow.random(); if (x < rate) != *c { diff = Some(i); break; } }
                        let same = shadow.next_u64() == rng.next_u64();
                        match diff { Some(i) => Some(format!("gene {i} is {} although its draw says otherwise for rate 1/{n}", if child[i] { "flipped" } else { "not flipped" })), None => if same { None } else { Some("the generator is left in another state than one draw per gene leaves it".to_string()) } }
                    }
                }
            };
            if let Some(w) = what {
                rep.violate(json!({"case": format!("WithOneOverLength on a {} of {n} genes", if bits_flavour { "Bitstring" } else { "Vec<bool>" }), "real": w,
                    "what": "a genome keeps its length and every gene is flipped with the length-scaled rate, also when the length is not exactly representable as an f32"}));
            }
        }
    }
}

pub fn run_mut(cfg: &Cfg, mutant: Mutant) -> Report {
    let seed = cfg.seed;
    let n: u64 = if cfg.thorough { 1_500_000 } else { 40_000 };
    let mut rep = run_sharded(&cfg.driver, cfg.threads, n, || Report::new("mut", RULE_MUT), |d, r, i| {
        if i % 2 == 0 { case_flip(d, r, seed, i, mutant) } else { case_umad(d, r, seed, i, mutant, false) }
    });
    rep.notes.push(format!("{n} seeded mutations (half bit-flip, half UMAD)"));
    if mutant == Mutant::None { crate::watch::guarded("mut: WithOneOverLength on genomes of 2^24 .. 2^24 + 3 genes", || inexact_length_genomes(&mut rep, &cfg.driver, seed)); }
    if mutant != Mutant::None { rep.notes.push(format!("SELFTEST: mutant {mutant:?}")); }
    rep
}

pub fn run_rates_with(cfg: &Cfg, mutant: Mutant) -> Report {
    let seed = cfg.seed ^ 0x12;
    let n: u64 = if cfg.thorough { 1_000_000 } else { 30_000 };
    let n_close: u64 = if cfg.thorough { 400_000 } else { 10_000 };
    let n_bound: u64 = 4 * 7 * F32_POOL.len() as u64;
    let n_long: u64 = if cfg.thorough { 24 } else { 6 };
    let mut rep = run_sharded(&cfg.driver, cfg.threads, n + n_close + 64 + n_bound + n_long, || Report::new("rates", RULE_RATES), |d, r, i| {
        if i >= n + n_close + 64 + n_bound {
            case_flip_long(d, r, seed, i, i - (n + n_close + 64 + n_bound), mutant)
        } else if i < n {
            match i % 5 { 0 => case_flip(d, r, seed, i, mutant), 1 | 2 => case_umad(d, r, seed, i, mutant, true), 3 => case_gene(d, r, seed, i, mutant), _ => case_bits(d, r, seed, i) }
        } else if i < n + n_close {
            case_closep(d, r, (i - n + 1) as usize, mutant)
        } else if i >= n + n_close + 64 {
            case_flip_boundary(d, r, seed, i, i - n - n_close - 64, mutant)
        } else {
            // large instruction counts: around 2^24 (where `as f32` starts rounding) and beyond
            let j = i - n - n_close;
            let big = [(1usize << 24) - 2, (1 << 24) - 1, 1 << 24, (1 << 24) + 1, (1 << 24) + 2, (1 << 25) + 3, 1 << 31, (1 << 40) + 12345, usize::MAX - 1];
            let mut g = SplitMix::derive(seed, i);
            let nn = if (j as usize) < big.len() { big[j as usize] } else { (g.next_u64() >> g.below(40)) as usize | 1 };
            case_closep(d, r, nn.min(usize::MAX - 1), mutant)
        }
    });
    crate::watch::guarded("rates: frequency oracles", || frequency_oracles(&mut rep, seed, cfg.thorough, mutant));
    if mutant == Mutant::None { crate::watch::guarded("rates: WithOneOverLength on genomes of 2^24 .. 2^24 + 3 genes", || inexact_length_genomes(&mut rep, &cfg.driver, seed)); }
    rep.notes.push(format!("{n} seeded tape-level cases; with_uniform_close_probability for n = 1..={n_close} and 64 large n bit for bit; exhaustive WithRate decision-boundary scope ({n_bound} cases: rate pool x boundary word x flavour); frequency oracles on {} samples each", if cfg.thorough { 4_000_000 } else { 200_000 }));
    if mutant != Mutant::None { rep.notes.push(format!("SELFTEST: mutant {mutant:?}")); }
    rep
}

/// `uec-harness mut-selftest`: every mutant must be caught by the C11 family or the C12 family.
pub fn selftest(cfg: &Cfg) -> Report {
    let mut rep = Report::new("mut-selftest", "each built-in mutant of the ec-linear mutators / gene generator must be detected");
    for m in [Mutant::WrLe, Mutant::WrInverted, Mutant::WrF64, Mutant::OolOffByOne, Mutant::UmadNewBeforeOld, Mutant::UmadNewNotDeleted, Mutant::UmadRatesSwapped,
              Mutant::UmadEmptyAlwaysAdds, Mutant::UmadDeleteTwice, Mutant::CloseOffByOne, Mutant::CloseInverted] {
        let a = run_mut(cfg, m).to_json();
        let b = run_rates_with(cfg, m).to_json();
        let f = |j: &serde_json::Value, k: &str| j[k].as_u64().unwrap_or(0);
        rep.case(&format!("{m:?}"), true);
        rep.notes.push(format!("mutant {m:?}: C11 mut violations={} disagreements={} | C12 rates violations={} disagreements={} | first: {} / {}",
            f(&a, "n_violations"), f(&a, "n_disagreements"), f(&b, "n_violations"), f(&b, "n_disagreements"),
            a["violations"].get(0).map(|x| x["what"].to_string()).unwrap_or_default(), b["violations"].get(0).map(|x| x["what"].to_string()).unwrap_or_default()));
        if f(&a, "n_violations") + f(&a, "n_disagreements") + f(&b, "n_violations") + f(&b, "n_disagreements") == 0 {
            rep.violate(json!({"case": format!("{m:?}"), "what": "mutant not detected"}));
        }
    }
    rep
}
