//! Self-test of the check: `UEC_MUTANT=<name>` replaces one real selector by an edited *copy* of
//! its source (the kind of change a maintainer could make by accident), so that one can confirm
//! `./check` fails on it without touching /repo.  With the variable unset nothing here runs.
use crate::selcommon::*;
use rand::prelude::{IndexedRandom, SliceRandom};
use rand::Rng;
use std::cmp::Ordering;
use std::sync::OnceLock;

pub fn active() -> &'static str {
    static M: OnceLock<String> = OnceLock::new();
    M.get_or_init(|| std::env::var("UEC_MUTANT").unwrap_or_default())
}

/// mutants of best / worst / tournament
pub fn basic<'p, R: Ord, G: Rng + ?Sized>(leaf: &Leaf, pop: &'p Vec<Ind<R>>, rng: &mut G) -> Option<Result<&'p Ind<R>, String>> {
    let m = active();
    if m.is_empty() { return None; }
    match (m, leaf) {
        // `.min()` for `.max()` in Best
        ("best_min", Leaf::Best) => Some(pop.iter().min().ok_or("EmptyPopulation".to_string())),
        // first maximum instead of last (the property leaves tie-breaking open: drift, not violation)
        ("best_first_max", Leaf::Best) => Some(pop.iter().rev().max().ok_or("EmptyPopulation".to_string())),
        ("worst_max", Leaf::Worst) => Some(pop.iter().max().ok_or("EmptyPopulation".to_string())),
        (_, Leaf::Tournament(k)) if m.starts_with("tournament_") => {
            let k = *k;
            if m == "tournament_off_by_one" {
                // `<=` for `<` in the size check
                if pop.len() <= k { return Some(Err(format!("TournamentSize({k},{})", pop.len()))); }
            } else if pop.len() < k {
                return Some(Err(format!("TournamentSize({k},{})", pop.len())));
            }
            match m {
                // sampling with replacement
                "tournament_with_replacement" => Some(Ok((0..k).map(|_| pop.choose(rng).unwrap()).max().unwrap())),
                // worst of the sample
                "tournament_min" => Some(Ok(pop.choose_multiple(rng, k).min().unwrap())),
                // one individual too few
                "tournament_k_minus_1" => Some(Ok(pop.choose_multiple(rng, (k - 1).max(1)).max().unwrap())),
                // biased subset: always the first k individuals, plus a dummy draw
                "tournament_prefix" => { let _ = rng.next_u64(); Some(Ok(pop[..k].iter().max().unwrap())) }
                "tournament_off_by_one" => Some(Ok(pop.choose_multiple(rng, k).max().unwrap())),
                _ => None,
            }
        }
        _ => None,
    }
}

/// mutants of `Lexicase::select` (copy of selector/lexicase.rs with one edit each)
pub fn lexicase<'p, R: Ord, G: Rng + ?Sized>(num_test_cases: usize, population: &'p Vec<Ind<R>>, rng: &mut G) -> Option<Result<&'p Ind<R>, String>> {
    let m = active();
    if !m.starts_with("lexicase_") { return None; }
    let missing = |i: usize| format!("MissingTestCase({num_test_cases},{i})");
    let mut case_indices: Vec<usize> = (0..num_test_cases).collect();
    if m != "lexicase_no_shuffle" { case_indices.shuffle(rng); }
    if m == "lexicase_first_case_only" { case_indices.truncate(1); }
    let mut candidates: Vec<&Ind<R>> = population.iter().collect();
    let mut winners = Vec::with_capacity(candidates.len());
    for test_case_index in case_indices {
        let Some((&initial_winner, remaining)) = candidates.split_first() else { return Some(Err("LexEmpty".into())) };
        if remaining.is_empty() { break; }
        winners.clear();
        winners.push(initial_winner);
        let Some(mut current_best_result) = initial_winner.test_results.results.get(test_case_index) else { return Some(Err(missing(test_case_index))) };
        for c in remaining {
            let Some(this_result) = c.test_results.results.get(test_case_index) else { return Some(Err(missing(test_case_index))) };
            let mut ord = this_result.cmp(current_best_result);
            if m == "lexicase_keep_worst" { ord = ord.reverse(); }
            match ord {
                Ordering::Less => {}
                Ordering::Equal => winners.push(c),
                Ordering::Greater => {
                    if m != "lexicase_no_clear" { winners.clear(); }
                    winners.push(c);
                    current_best_result = this_result;
                }
            }
        }
        std::mem::swap(&mut candidates, &mut winners);
    }
    if m != "lexicase_tie_by_position" { candidates.shuffle(rng); }
    Some(candidates.first().copied().ok_or("LexEmpty".to_string()))
}

// ---------------------------------------------------------------------------------------------
// weighted combinations: an edited copy of weighted/weighted_pair.rs

use crate::fam_wsel::{Node, Static};
use crate::rng::SplitMix;
use ec_core::operator::selector::Selector;
use ec_core::weighted::error::{SelectionError, WeightSumOverflow, WeightedPairError, ZeroWeight};
use ec_core::weighted::with_weight::WithWeight;
use ec_core::weighted::Weighted;
use rand::distr::{Bernoulli, Distribution};

pub struct MutPair<A, B> {
    a: A,
    b: B,
    distr: Option<Bernoulli>,
    weight_sum: u32,
}
impl<A: WithWeight, B: WithWeight> MutPair<A, B> {
    pub fn new(a: A, b: B) -> Result<Self, WeightSumOverflow> {
        let m = active();
        let a_weight = a.weight();
        let b_weight = b.weight();
        let weight_sum = if m == "pair_wrapping_add" { a_weight.wrapping_add(b_weight) } else { a_weight.checked_add(b_weight).ok_or(WeightSumOverflow(a_weight, b_weight))? };
        let distr = match m {
            // a/(b) instead of a/(a+b)
            "pair_a_over_b" => Bernoulli::from_ratio(a_weight, b_weight).ok(),
            // probability of the *other* branch
            "pair_swapped" => Bernoulli::from_ratio(b_weight, weight_sum).ok(),
            // float probability with a floor, so that a zero-weight branch stays reachable
            "pair_zero_reachable" => Bernoulli::new((a_weight as f64 / weight_sum.max(1) as f64).clamp(0.05, 0.95)).ok(),
            _ => Bernoulli::from_ratio(a_weight, weight_sum).ok(),
        };
        Ok(Self { a, b, distr, weight_sum })
    }
}
impl<A, B> WithWeight for MutPair<A, B> {
    fn weight(&self) -> u32 { self.weight_sum }
}
impl<P, A, B> Selector<P> for MutPair<A, B>
where
    P: ec_core::population::Population,
    A: WithWeight + Selector<P>,
    B: WithWeight + Selector<P>,
{
    type Error = SelectionError<WeightedPairError<A::Error, B::Error>>;
    fn select<'pop, R: Rng + ?Sized>(&self, population: &'pop P, rng: &mut R) -> Result<&'pop P::Individual, Self::Error> {
        let Some(distr) = self.distr else { return Err(ZeroWeight.into()); };
        let first = distr.sample(rng);
        if active() == "pair_both_called" { let _ = self.b.select(population, rng); }
        if first { self.a.select(population, rng).map_err(WeightedPairError::A) } else { self.b.select(population, rng).map_err(WeightedPairError::B) }
            .map_err(SelectionError::Selector)
    }
}

type Log = std::sync::Arc<std::sync::Mutex<Vec<usize>>>;

pub fn weighted<R: Ord + 'static>(node: &Node, pop: &Vec<Ind<R>>, rng: &mut SplitMix, log: &Log) -> Option<String> {
    let m = active();
    if m.is_empty() { return None; }
    let res = |r: Result<&Ind<R>, String>| match r {
        Ok(x) => format!("ok {}", index_of(pop, x).unwrap()),
        Err(e) => format!("err {e}"),
    };
    let mk = |st: &Static, i: usize| Weighted::new(AnyLeaf { leaf: st.leaves[i].0.clone(), id: i, log: log.clone() }, st.leaves[i].1);
    match node {
        Node::S(st) if m.starts_with("pair_") && st.code == 2 => Some(match MutPair::new(mk(st, 0), mk(st, 1)) {
            Ok(s) => res(s.select(pop, rng).map_err(|e| e.canon())),
            Err(e) => format!("builderr {} {}", e.0, e.1),
        }),
        Node::S(st) if m.starts_with("pair_") && st.code == 3 => Some(match MutPair::new(mk(st, 0), mk(st, 1)).and_then(|p| MutPair::new(p, mk(st, 2))) {
            Ok(s) => res(s.select(pop, rng).map_err(|e| e.canon())),
            Err(e) => format!("builderr {} {}", e.0, e.1),
        }),
        // a weight-0 `Weighted` that forgets its check
        Node::S(st) if m == "weighted_zero_ok" && st.code == 1 => {
            let l = AnyLeaf { leaf: st.leaves[0].0.clone(), id: 0, log: log.clone() };
            Some(res(l.select(pop, rng).map_err(|e| format!("Selector({})", e.canon()))))
        }
        // DynWeighted that ignores the weights (uniform choice among its members)
        Node::Dyn(items) if m == "dyn_uniform" && items.iter().all(|(n, _)| matches!(n, Node::S(s) if s.code == 0)) => {
            let i = (0..items.len()).collect::<Vec<_>>().choose(rng).copied().unwrap();
            let Node::S(st) = &items[i].0 else { unreachable!() };
            let l = AnyLeaf { leaf: st.leaves[0].0.clone(), id: i, log: log.clone() };
            Some(res(l.select(pop, rng).map_err(|e| format!("DynOther({})", e.canon()))))
        }
        _ => None,
    }
}
