//! Self-test of the check: `UEC_MUTANT=<name>` replaces one real selector by an edited *copy* of
//! its source (the kind of change a maintainer could make by accident), so that one can confirm
//! `./check` fails on it without touching /repo.  With the variable unset nothing here runs.
use crate::selcommon::*;
use rand::prelude::{IndexedRandom, SliceRandom};
use rand::Rng;
use std::cmp::Ordering;
use std::sync::OnceLock;

pub fn active() -> &'static str {
    static M: OnceLock<String> = OnceLock::new();
    M.get_or_init(|| std::env::var("UEC_MUTANT").unwrap_or_default())
}

/// mutants of best / worst / tournament
pub fn basic<'p, R: Ord, G: Rng + ?Sized>(leaf: &Leaf, pop: &'p Vec<Ind<R>>, rng: &mut G) -> Option<Result<&'p Ind<R>, String>> {
    let m = active();
    if m.is_empty() { return None; }
    match (m, leaf) {
        // `.min()` for `.max()` in Best
        ("best_min", Leaf::Best) => Some(pop.iter().min().ok_or("EmptyPopulation".to_string())),
        // first maximum instead of last (the property leaves tie-breaking open: drift, not violation)
        ("best_first_max", Leaf::Best) => Some(pop.iter().rev().max().ok_or("EmptyPopulation".to_string())),
        ("worst_max", Leaf::Worst) => Some(pop.iter().max().ok_or("EmptyPopulation".to_string())),
        (_, Leaf::Tournament(k)) if m.starts_with("tournament_") => {
            let k = *k;
            if m == "tournament_off_by_one" {
                // `<=` for `<` in the size check
                if pop.len() <= k { return Some(Err(format!("TournamentSize({k},{})", pop.len()))); }
            } else if pop.len() < k {
                return Some(Err(format!("TournamentSize({k},{})", pop.len())));
            }
            match m {
                // sampling with replacement
                "tournament_with_replacement" => Some(Ok((0..k).map(|_| pop.choose(rng).unwrap()).max().unwrap())),
                // worst of the sample
                "tournament_min" => Some(Ok(pop.choose_multiple(rng, k).min().unwrap())),
                // one individual too few
                "tournament_k_minus_1" => Some(Ok(pop.choose_multiple(rng, (k - 1).max(1)).max().unwrap())),
                // biased subset: always the first k individuals, plus a dummy draw
                "tournament_prefix" => { let _ = rng.next_u64(); Some(Ok(pop[..k].iter().max().unwrap())) }
                "tournament_off_by_one" => Some(Ok(pop.choose_multiple(rng, k).max().unwrap())),
                _ => None,
            }
        }
        _ => None,
    }
}

/// mutants of `Lexicase::select` (copy of selector/lexicase.rs with one edit each)
pub fn lexicase<'p, R: Ord, G: Rng + ?Sized>(num_test_cases: usize, population: &'p Vec<Ind<R>>, rng: &mut G) -> Option<Result<&'p Ind<R>, String>> {
    let m = active();
    if !m.starts_with("lexicase_") { return None; }
    let missing = |i: usize| format!("MissingTestCase({num_test_cases},{i})");
    let mut case_indices: Vec<usize> = (0..num_test_cases).collect();
    if m != "lexicase_no_shuffle" { case_indices.shuffle(rng); }
    if m == "lexicase_first_case_only" { case_indices.truncate(1); }
    let mut candidates: Vec<&Ind<R>> = population.iter().collect();
    let mut winners = Vec::with_capacity(candidates.len());
    for test_case_index in case_indices {
        let Some((&initial_winner, remaining)) = candidates.split_first() else { return Some(Err("LexEmpty".into())) };
        if remaining.is_empty() { break; }
        winners.clear();
        winners.push(initial_winner);
        let Some(mut current_best_result) = initial_winner.test_results.results.get(test_case_index) else { return Some(Err(missing(test_case_index))) };
        for c in remaining {
            let Some(this_result) = c.test_results.results.get(test_case_index) else { return Some(Err(missing(test_case_index))) };
            let mut ord = this_result.cmp(current_best_result);
            if m == "lexicase_keep_worst" { ord = ord.reverse(); }
            match ord {
                Ordering::Less => {}
                Ordering::Equal => winners.push(c),
                Ordering::Greater => {
                    if m != "lexicase_no_clear" { winners.clear(); }
                    winners.push(c);
                    current_best_result = this_result;
                }
            }
        }
        std::mem::swap(&mut candidates, &mut winners);
    }
    if m != "lexicase_tie_by_position" { candidates.shuffle(rng); }
    Some(candidates.first().copied().ok_or("LexEmpty".to_string()))
}
