//! C09: the REAL `ec_core::generation::Generation::{serial_next, par_next}` driven with a probe child
//! maker (a `GenomeScorer` around a logging genome maker) against the Lean Impl model
//! (`Uec.Generation`) and against the property (Lean Spec + model-free oracles).
//!
//! `rand::rng()` cannot be scripted: the probe records the words it drew and its call number; the
//! model is run on exactly those answers (serial: one tape; parallel: the *observed* schedule —
//! call order, rayon worker of each call — and per-worker tapes).  "Own live randomness" is tied by
//! a distinctness oracle on the drawn words.
//!
//! `UEC_GEN_MUTANT=gen_*` swaps the real `Generation` for a deliberately broken copy (self-test).
use crate::driver::Driver;
use crate::report::Report;
use crate::rng::SplitMix;
use crate::shard::run_sharded;
use crate::Cfg;
use ec_core::generation::Generation;
use ec_core::individual::ec::EcIndividual;
use ec_core::individual::scorer::FnScorer;
use ec_core::operator::genome_scorer::GenomeScorer;
use ec_core::operator::{Composable, Operator};
use rand::Rng;
use rayon::prelude::*;
use serde_json::json;
use std::collections::HashSet;
use std::sync::atomic::{AtomicUsize, Ordering};
use std::sync::{Arc, Mutex, OnceLock};

type Ind = EcIndividual<Vec<i64>, i64>;
type Pop = Vec<Ind>;

const M61: i128 = 2305843009213693951;

/// identical to `Uec.Generation.checksum`
fn checksum(pop: &[Ind]) -> i64 {
    let mut a: i128 = 17;
    for ind in pop {
        let mut b = (a * 131 + 11) % M61;
        for x in ind.genome.iter().chain(std::iter::once(&ind.test_results)) {
            b = (b * 31 + (*x as i128).rem_euclid(1000003) + 7) % M61;
        }
        a = b;
    }
    a as i64
}
/// identical to `Uec.Generation.probeScore`
fn probe_score(g: &Vec<i64>) -> i64 {
    g.iter().fold(0i64, |a, x| (a + x.rem_euclid(9973)) % 1_000_000_007)
}

#[derive(Clone, Debug)]
struct Call {
    no: usize,
    thread: usize,
    words: Vec<i64>,
    shown_checksum: i64,
    shown_len: usize,
    shown_ptr: usize,
    failed: bool,
}

#[derive(Default)]
struct Shared {
    calls: AtomicUsize,
    log: Mutex<Vec<Call>>,
    /// failing call numbers of the current step (so that ONE Generation value can be stepped several times
    /// with a different failure script per step: hidden state kept between steps must not matter)
    fail_at: Mutex<Vec<usize>>,
}

#[derive(Debug, Clone, PartialEq)]
struct ProbeErr(usize);

/// genome maker probe (`Operator<&Pop, Output = Vec<i64>>`)
struct ProbeMaker {
    d: usize,
    fail_at: Vec<usize>,
    shared: Arc<Shared>,
    /// busy-wait per call (microseconds): gives rayon time to steal work, so that steps really are
    /// spread over several workers and calls overlap
    spin_us: u64,
}
impl Composable for ProbeMaker {}
impl<'a> Operator<&'a Pop> for ProbeMaker {
    type Output = Vec<i64>;
    type Error = ProbeErr;
    fn apply<R: Rng + ?Sized>(&self, pop: &'a Pop, rng: &mut R) -> Result<Vec<i64>, ProbeErr> {
        let no = self.shared.calls.fetch_add(1, Ordering::SeqCst);
        let words: Vec<i64> = (0..self.d).map(|_| (rng.next_u64() >> 1) as i64).collect();
        let cs = checksum(pop);
        if self.spin_us > 0 {
            let t0 = std::time::Instant::now();
            while (t0.elapsed().as_micros() as u64) < self.spin_us { std::hint::spin_loop(); }
        }
        let failed = self.fail_at.contains(&no) || self.shared.fail_at.lock().unwrap().contains(&no);
        self.shared.log.lock().unwrap().push(Call {
            no,
            thread: rayon::current_thread_index().unwrap_or(0),
            words: words.clone(),
            shown_checksum: cs,
            shown_len: pop.len(),
            shown_ptr: pop.as_ptr() as usize,
            failed,
        });
        if failed {
            return Err(ProbeErr(no));
        }
        let mut g = vec![cs, no as i64];
        g.extend(words);
        Ok(g)
    }
}

type Cm = GenomeScorer<ProbeMaker, FnScorer<fn(&Vec<i64>) -> i64>>;
fn child_maker(d: usize, fail_at: Vec<usize>, shared: Arc<Shared>, spin_us: u64) -> Cm {
    GenomeScorer::new(ProbeMaker { d, fail_at, shared, spin_us }, FnScorer(probe_score as fn(&Vec<i64>) -> i64))
}

// ---------------------------------------------------------------------------------------------
// self-test mutants: broken copies of generation.rs
// ---------------------------------------------------------------------------------------------

fn mutant() -> String {
    let m = std::env::var("UEC_GEN_MUTANT").unwrap_or_default();
    if m.starts_with("gen_") { m } else { String::new() }
}

struct MutGeneration {
    population: Pop,
    child_maker: Cm,
}
impl MutGeneration {
    fn serial_next(&mut self, m: &str) -> Result<(), ProbeErr> {
        let mut rng = rand::rng();
        let n = self.population.len();
        match m {
            "gen_commit_partial" => {
                // keeps the children made before the failure
                let mut new = vec![];
                let mut err = None;
                for _ in 0..n {
                    match self.child_maker.apply(&self.population, &mut rng) {
                        Ok(c) => new.push(c),
                        Err(e) => { err = Some(e); break; }
                    }
                }
                self.population = new;
                err.map_or(Ok(()), Err)
            }
            "gen_one_draw_copied" => {
                if n == 0 { return Ok(()); }
                let c = self.child_maker.apply(&self.population, &mut rng)?;
                self.population = vec![c; n];
                Ok(())
            }
            "gen_size_minus_one" => {
                let new: Result<Pop, _> = std::iter::repeat_n((), n.saturating_sub(1)).map(|_| self.child_maker.apply(&self.population, &mut rng)).collect();
                self.population = new?;
                Ok(())
            }
            "gen_incremental" => {
                // children are made from the partially replaced population
                for i in 0..n {
                    let c = self.child_maker.apply(&self.population, &mut rng)?;
                    self.population[i] = c;
                }
                Ok(())
            }
            "gen_swallow_error" => {
                let new: Pop = std::iter::repeat_n((), n).filter_map(|_| self.child_maker.apply(&self.population, &mut rng).ok()).collect();
                self.population = new;
                Ok(())
            }
            _ => {
                let new: Result<Pop, _> = std::iter::repeat_n((), n).map(|_| self.child_maker.apply(&self.population, &mut rng)).collect();
                self.population = new?;
                Ok(())
            }
        }
    }
    fn par_next(&mut self, m: &str) -> Result<(), ProbeErr> {
        let n = self.population.len();
        match m {
            "gen_par_fixed_seed" => {
                // every rayon job starts from the same generator state: correlated children
                let new: Result<Pop, _> = rayon::iter::repeatn(&self.population, n)
                    .map_init(|| SplitMix::new(7), |rng, p| self.child_maker.apply(p, rng))
                    .collect();
                self.population = new?;
                Ok(())
            }
            "gen_commit_partial" | "gen_swallow_error" => {
                let new: Pop = rayon::iter::repeatn(&self.population, n)
                    .map_init(rand::rng, |rng, p| self.child_maker.apply(p, rng))
                    .filter_map(Result::ok)
                    .collect();
                let failed = new.len() != n;
                self.population = new;
                if failed && m == "gen_commit_partial" { Err(ProbeErr(usize::MAX)) } else { Ok(()) }
            }
            "gen_size_minus_one" => {
                let new: Result<Pop, _> = rayon::iter::repeatn(&self.population, n.saturating_sub(1))
                    .map_init(rand::rng, |rng, p| self.child_maker.apply(p, rng))
                    .collect();
                self.population = new?;
                Ok(())
            }
            _ => self.serial_next(m),
        }
    }
}

// ---------------------------------------------------------------------------------------------

fn pools() -> &'static Vec<(usize, rayon::ThreadPool)> {
    static POOLS: OnceLock<Vec<(usize, rayon::ThreadPool)>> = OnceLock::new();
    POOLS.get_or_init(|| [1usize, 2, 3, 4, 8, 16].iter().map(|k| (*k, rayon::ThreadPoolBuilder::new().num_threads(*k).build().expect("rayon pool"))).collect())
}

fn show_ind(i: &Ind) -> String {
    format!("{}:{}", i.genome.iter().map(|x| x.to_string()).collect::<Vec<_>>().join(","), i.test_results)
}
fn show_pop(p: &[Ind]) -> String { p.iter().map(show_ind).collect::<Vec<_>>().join(" ") }
fn nats(l: &[usize]) -> String { if l.is_empty() { "-".into() } else { l.iter().map(|x| x.to_string()).collect::<Vec<_>>().join(",") } }

struct Step {
    result: Result<(), ProbeErr>,
    panicked: bool,
    old: Pop,
    after: Pop,
    log: Vec<Call>,
    old_ptr: usize,
}

enum Gen { Real(Generation<Pop, Cm>), Mut(MutGeneration) }
impl Gen {
    fn population(&self) -> &Pop { match self { Gen::Real(g) => g.population(), Gen::Mut(g) => &g.population } }
}

/// one generation step on the real code (or the selected mutant)
fn step(gen: &mut Gen, shared: &Arc<Shared>, pool: Option<&rayon::ThreadPool>) -> Step {
    shared.calls.store(0, Ordering::SeqCst);
    shared.log.lock().unwrap().clear();
    let old = gen.population().clone();
    let old_ptr = gen.population().as_ptr() as usize;
    let m = mutant();
    let res = std::panic::catch_unwind(std::panic::AssertUnwindSafe(|| match (&mut *gen, pool) {
        (Gen::Real(g), None) => g.serial_next(),
        (Gen::Real(g), Some(p)) => p.install(|| g.par_next()),
        (Gen::Mut(g), None) => g.serial_next(&m),
        (Gen::Mut(g), Some(p)) => p.install(|| g.par_next(&m)),
    }));
    let mut log = shared.log.lock().unwrap().clone();
    log.sort_by_key(|c| c.no);
    let after = gen.population().clone();
    match res {
        Ok(r) => Step { result: r, panicked: false, old, after, log, old_ptr },
        Err(_) => Step { result: Ok(()), panicked: true, old, after, log, old_ptr },
    }
}

const RULE: &str = "C09 `generation` family: Generation::new(GenomeScorer(probe genome maker, probe scorer), Vec<EcIndividual>) stepped with the real serial_next and, \
inside rayon pools of 1, 2, 3, 4, 8 and 16 threads, the real par_next; population sizes 0, 1, 2, .. 64 (thorough 400); the probe draws d words from the generator it is handed, \
records call number, rayon worker, words, address/length/checksum of the population it was shown, and fails at scripted call numbers (every failure position for populations up to 16, seeded otherwise); \
several consecutive steps per Generation value. Compared with the Lean model run on the recorded answers (serial: one tape; parallel: the observed call order and worker of each call as the abstract schedule, \
per-worker tapes): Ok/Err, error payload, the population afterwards position by position, all recorded answers consumed. Property oracles (violations): Ok => same size, every child made from the old population \
(checksum, address, length seen by the child maker), exactly one application per child, pairwise distinct call numbers and pairwise distinct drawn words (live randomness; false-alarm <= n^2 2^-63), score = score of the carried genome; \
any failed application => Err carrying the error of a failed application and the population equal to the old one; Lean Spec verdict on the observed step. non-trivial = population >= 2 and d >= 1; distinct by case index";

struct CaseCfg {
    n: usize,
    d: usize,
    /// per step: scripted failing call numbers
    fails: Vec<Vec<usize>>,
    /// None = serial, Some(i) = pools()[i]
    pool: Option<usize>,
    spin_us: u64,
}

fn gen_case(g: &mut SplitMix, thorough: bool, i: u64, n_exh: u64, exh: &[(usize, usize, Option<usize>)]) -> CaseCfg {
    if i < n_exh {
        // exhaustive: population size n <= 16, failure at call k (every position), serial and each pool
        let (n, k, pool) = exh[i as usize];
        return CaseCfg { n, d: 1 + (i % 2) as usize, fails: vec![vec![k], vec![]], pool, spin_us: if pool.is_some() && i % 3 != 0 { 30 } else { 0 } };
    }
    let big = if thorough { 400 } else { 64 };
    // size boundaries: chunked / batched implementations slip at multiples of their block size
    const EDGES: [u64; 22] = [31, 32, 33, 63, 64, 65, 96, 127, 128, 129, 192, 255, 256, 257, 384, 511, 512, 513, 768, 1023, 1024, 1025];
    let edge = g.chance(1, if thorough { 12 } else { 40 });
    let n = if edge { *g.pick(&EDGES) * if thorough && g.chance(1, 4) { 4 } else { 1 } } else { match g.below(10) { 0 => 0, 1 => 1, 2 => 2, 3 => big, 4 => g.below(big + 1), _ => g.below(20) } } as usize;
    let d = if edge { g.below(2) } else { g.below(4) } as usize;
    let steps = if edge { 1 } else { 1 + g.below(3) as usize };
    let fails = (0..steps).map(|_| match g.below(4) {
        0 | 1 => vec![],
        2 => vec![g.below(n as u64 + 2) as usize],
        _ => (0..1 + g.below(3)).map(|_| g.below(n as u64 + 2) as usize).collect(),
    }).collect();
    let pool = if g.chance(1, 3) { None } else { Some(g.below(6) as usize) };
    let spin_us = if pool.is_some() && n <= 64 && g.chance(1, 2) { 10 + g.below(40) } else { 0 };
    CaseCfg { n, d, fails, pool, spin_us }
}

fn run_case(d: &mut Driver, r: &mut Report, c: &CaseCfg, g: &mut SplitMix, i: u64) {
    let shared = Arc::new(Shared::default());
    let pop0: Pop = (0..c.n).map(|_| {
        let genome: Vec<i64> = (0..g.below(4)).map(|_| g.below(1000) as i64).collect();
        EcIndividual::new(genome, g.below(100) as i64)
    }).collect();
    let pool = c.pool.map(|p| &pools()[p]);
    let mode = match pool { None => "serial".to_string(), Some((k, _)) => format!("par{k}") };
    let mut all_words: HashSet<i64> = HashSet::new();
    let mut gen: Option<Gen> = None;
    let mut current = pop0;
    for (si, fail_at) in c.fails.iter().enumerate() {
        // the child maker carries the failure script, so a new Generation value is built per step from
        // the population the previous step left (`into_population` is not needed: it was cloned)
        // ONE Generation value for all steps of the case; the failure script of the step is handed to the probe
        // through the shared state
        *shared.fail_at.lock().unwrap() = fail_at.clone();
        if gen.is_none() {
            let cm = child_maker(c.d, vec![], shared.clone(), c.spin_us);
            gen = Some(if mutant().is_empty() { Gen::Real(Generation::new(cm, current.clone())) } else { Gen::Mut(MutGeneration { population: current.clone(), child_maker: cm }) });
        }
        let st = step(gen.as_mut().unwrap(), &shared, pool.map(|(_, p)| p));
        current = st.after.clone();
        let case = format!("generation {mode} n={} d={} failAt={} step={si} #{i}", c.n, c.d, nats(fail_at));
        r.case(&case, c.n >= 2 && c.d >= 1);
        let kind = if st.panicked { "panic" } else if st.result.is_ok() { "ok" } else { "err" };
        r.hit(&format!("{mode} -> {kind}"));
        r.hit(&format!("population size {}", match c.n { 0 => "0", 1 => "1", 2 => "2", 3..=16 => "3-16", 17..=64 => "17-64", _ => ">64" }));
        if let Err(ProbeErr(k)) = &st.result { if c.n <= 16 { r.hit(&format!("{} failing call position {}", if pool.is_some() { "par" } else { "serial" }, if *k < 17 { k.to_string() } else { "?".into() })); } }
        if pool.is_some() {
            let workers: HashSet<usize> = st.log.iter().map(|c| c.thread).collect();
            r.hit(&format!("par: distinct workers used in one step = {}", workers.len().min(9)));
            let first_fail = st.log.iter().position(|c| c.failed);
            if let Some(f) = first_fail { r.hit(&format!("par: calls made after the first failing call = {}", (st.log.len() - f - 1).min(20))); }
        }
        // ---------------- model ---------------------------------------------------------------
        let real_line = match (&st.result, st.panicked) {
            (_, true) => "panic".to_string(),
            (Ok(()), _) => format!("ok | {}", show_pop(&st.after)),
            (Err(ProbeErr(k)), _) => format!("err {k} | {}", show_pop(&st.after)),
        };
        let model_line = match pool {
            None => {
                // answer the probe's requests from the recorded calls, in call order
                let mut answers: Vec<String> = vec![];
                for cl in &st.log { answers.push(format!("n {}", cl.no)); for w in &cl.words { answers.push(format!("n {w}")); } }
                let mut it = answers.into_iter();
                let mut starved = false;
                let req = format!("generation serial {} {} | {}", c.d, nats(fail_at), show_pop(&st.old));
                let m = d.ask_with(&req, |_p| it.next().unwrap_or_else(|| { starved = true; "n 999999999".into() }));
                let left = it.count();
                if starved { format!("{m} [model made more child-maker calls than the real code]") } else if left > 0 { format!("{m} [real code made more child-maker calls / draws than the model: {left} answers unused]") } else { m }
            }
            Some(_) => {
                // the observed schedule: calls in call order, worker of each; positions from the result
                let mut order: Vec<(usize, usize)> = vec![];
                let mut used = vec![false; c.n.max(st.log.len())];
                for cl in &st.log {
                    let pos = if st.result.is_ok() { st.after.iter().position(|ind| ind.genome.get(1) == Some(&(cl.no as i64))) } else { None };
                    let pos = pos.filter(|p| !used[*p]).unwrap_or_else(|| used.iter().position(|u| !*u).unwrap_or(0));
                    if pos < used.len() { used[pos] = true; }
                    order.push((pos, cl.thread));
                }
                for p in 0..c.n { if !used[p] { order.push((p, 0)); } }
                let first_fail = st.log.iter().position(|c| c.failed);
                let extra = first_fail.map(|f| st.log.len() - f - 1).unwrap_or(0);
                let failing: Vec<usize> = st.log.iter().filter(|c| c.failed).map(|c| c.no).collect();
                let pick = match &st.result { Err(ProbeErr(k)) => failing.iter().position(|x| x == k).unwrap_or(0), _ => 0 };
                let mut threads: Vec<usize> = st.log.iter().map(|c| c.thread).collect();
                threads.sort(); threads.dedup();
                let tapes: Vec<String> = threads.iter().map(|th| {
                    let mut v: Vec<String> = vec![];
                    for cl in st.log.iter().filter(|c| c.thread == *th) { v.push(cl.no.to_string()); for w in &cl.words { v.push(w.to_string()); } }
                    format!("T{th}={}", v.join(","))
                }).collect();
                let ord = if order.is_empty() { "-".to_string() } else { order.iter().map(|(p, t)| format!("{p}.{t}")).collect::<Vec<_>>().join(",") };
                let req = format!("generation par {} {} {extra} {pick} {ord} {} | {}", c.d, nats(fail_at), tapes.join(" "), show_pop(&st.old));
                let m = d.ask(&req);
                match m.strip_suffix(" | unread 0") { Some(x) => x.to_string(), None => format!("{m} [answers left unread or tape short]") }
            }
        };
        if r.samples.len() < 4 && c.n <= 3 && c.n >= 1 { r.sample(json!({"case": case, "real": real_line, "model": model_line, "calls": st.log.len()})); }
        if real_line.trim_end() != model_line.trim_end() {
            r.disagree(json!({"case": case, "real": clip(&real_line), "impl": clip(&model_line), "calls": st.log.len()}));
        }
        // ---------------- property oracles (model-free) -----------------------------------------
        let mut why: Vec<String> = vec![];
        let old_cs = checksum(&st.old);
        let any_failed = st.log.iter().any(|c| c.failed);
        if st.panicked { why.push("the generation step panicked".into()); }
        for cl in &st.log {
            if cl.shown_checksum != old_cs || cl.shown_len != st.old.len() || cl.shown_ptr != st.old_ptr {
                why.push(format!("call {} of the child maker was shown something other than the previous, unmodified population", cl.no));
                break;
            }
        }
        match &st.result {
            Ok(()) if !st.panicked => {
                if any_failed { why.push("a child failed but the step returned Ok".into()); }
                if st.after.len() != st.old.len() { why.push(format!("population of {} replaced by {} individuals", st.old.len(), st.after.len())); }
                if st.log.len() != st.old.len() { why.push(format!("{} applications of the child maker for {} children", st.log.len(), st.old.len())); }
                let mut nos = HashSet::new();
                for ind in &st.after {
                    if ind.genome.first() != Some(&old_cs) { why.push("a new individual was not made from the previous population".into()); break; }
                    if ind.test_results != probe_score(&ind.genome) { why.push("a new individual does not carry the score of its genome".into()); break; }
                    if !nos.insert(ind.genome.get(1).copied()) { why.push("two new individuals stem from the same application of the child maker (correlated copies)".into()); break; }
                }
                if st.old.len() >= 1 && c.d >= 1 && st.after == st.old { why.push("population not replaced".into()); }
            }
            Err(ProbeErr(k)) => {
                if st.after != st.old { why.push("a failed step did not leave the population exactly as it was".into()); }
                if !st.log.iter().any(|c| c.failed && c.no == *k) { why.push(format!("the returned error {k} is not the error of a failed child")); }
            }
            _ => {}
        }
        // live randomness: every word drawn in this case (all children, all steps) is distinct
        for cl in &st.log { for w in &cl.words { if !all_words.insert(*w) { why.push("two children drew the same random word: their randomness is not independent live randomness".into()); } } }
        // Lean Spec verdict on the observed step
        if !st.panicked {
            let v = d.ask(&format!("generation spec {} | {} | {}", if st.result.is_ok() { "ok" } else { "err" }, show_pop(&st.old), show_pop(&st.after)));
            if v != "t" { why.push(format!("Lean Spec (specStep): {v}")); }
        }
        why.sort(); why.dedup();
        if !why.is_empty() {
            r.violate(json!({"case": case, "real": clip(&real_line), "old": clip(&show_pop(&st.old)), "what": why}));
        }
    }
    // `into_population` hands out exactly the population the last step left; `Population::is_empty` agrees with the size
    if let Some(Gen::Real(g)) = gen {
        let final_pop = g.into_population();
        if final_pop != current {
            r.violate(json!({"case": format!("generation {mode} n={} #{i}: into_population", c.n), "real": clip(&show_pop(&final_pop)), "spec": clip(&show_pop(&current)),
                "what": ["into_population does not return the population the last step left"]}));
        }
        if ec_core::population::Population::is_empty(&final_pop) != (ec_core::population::Population::size(&final_pop) == 0) || ec_core::population::Population::size(&final_pop) != c.n {
            r.violate(json!({"case": format!("generation {mode} n={} #{i}: size", c.n), "real": ec_core::population::Population::size(&final_pop), "what": ["Population::size / is_empty do not describe the population"]}));
        }
    }
}

// ---------------------------------------------------------------------------------------------
// set-like populations: a step makes as many children as the population has NOW
// ---------------------------------------------------------------------------------------------

/// child maker over `BTreeSet<u64>` populations: a child is a random value below `modulus` (so children collide and
/// the collected set can be smaller than the old one); counts its applications and records the population size shown
struct SetMaker { modulus: u64, calls: Arc<std::sync::atomic::AtomicUsize>, shown: Arc<Mutex<Vec<usize>>> }
impl Composable for SetMaker {}
impl<'a> Operator<&'a std::collections::BTreeSet<u64>> for SetMaker {
    type Output = u64;
    type Error = ProbeErr;
    fn apply<R: Rng + ?Sized>(&self, pop: &'a std::collections::BTreeSet<u64>, rng: &mut R) -> Result<u64, ProbeErr> {
        self.calls.fetch_add(1, Ordering::SeqCst);
        self.shown.lock().unwrap().push(pop.len());
        Ok(rng.next_u64() % self.modulus)
    }
}

/// The property counts children by the population "it had": with a set-like population (children that compare equal
/// collapse) the population shrinks, and the next step on the same `Generation` value must make as many children as
/// the population has then - not as many as it had when the value was created.  Model-free.
fn set_population_scenarios(r: &mut Report, seed: u64) {
    use std::collections::BTreeSet;
    for (k, (n0, modulus)) in [(10usize, 4u64), (40, 7), (3, 1), (64, 1000), (1, 1), (0, 5)].into_iter().enumerate() {
        for mode in 0..3usize {
            let calls = Arc::new(std::sync::atomic::AtomicUsize::new(0));
            let shown = Arc::new(Mutex::new(Vec::new()));
            let pop0: BTreeSet<u64> = (0..n0 as u64).map(|x| 1_000_000 + x).collect();
            let mut gen = Generation::new(SetMaker { modulus, calls: calls.clone(), shown: shown.clone() }, pop0);
            let mut why: Vec<String> = vec![];
            for step in 0..4usize {
                let before = gen.population().len();
                calls.store(0, Ordering::SeqCst);
                shown.lock().unwrap().clear();
                let par = match mode { 0 => false, 1 => true, _ => step % 2 == 1 };
                let res = std::panic::catch_unwind(std::panic::AssertUnwindSafe(|| if par { pools()[(seed as usize + k + step) % 6].1.install(|| gen.par_next()) } else { gen.serial_next() }));
                let made = calls.load(Ordering::SeqCst);
                match res {
                    Err(_) => { why.push(format!("step {step}: panicked")); break; }
                    Ok(Err(_)) => { why.push(format!("step {step}: failed although the child maker never fails")); break; }
                    Ok(Ok(())) => {
                        if made != before { why.push(format!("step {step} ({}): {made} applications of the child maker for a population of {before}", if par { "par" } else { "serial" })); }
                        if shown.lock().unwrap().iter().any(|l| *l != before) { why.push(format!("step {step}: a child was made from a population of another size than the current one ({before})")); }
                        if gen.population().len() > before || gen.population().iter().any(|x| *x >= modulus) { why.push(format!("step {step}: the new population is not made of this step's children")); }
                    }
                }
            }
            r.case(&format!("set population n={n0} modulus={modulus} mode={mode}"), n0 > 1);
            r.hit("set-like population (BTreeSet) stepped four times");
            if !why.is_empty() {
                r.violate(json!({"case": format!("generation over a BTreeSet population of {n0} values, children = random values below {modulus}, mode {mode} (0 serial, 1 parallel, 2 alternating)"), "what": why}));
            }
        }
    }
}

/// child maker over populations of zero-sized individuals that always fails (and counts its applications)
struct FailingUnitMaker { calls: Arc<std::sync::atomic::AtomicUsize> }
impl Composable for FailingUnitMaker {}
impl<'a> Operator<&'a Vec<()>> for FailingUnitMaker {
    type Output = ();
    type Error = ProbeErr;
    fn apply<R: Rng + ?Sized>(&self, _pop: &'a Vec<()>, _rng: &mut R) -> Result<(), ProbeErr> {
        let k = self.calls.fetch_add(1, Ordering::SeqCst);
        // a step that keeps applying the child maker after failures would go on for 2^64 applications: end it
        if k >= 100_000 { panic!("the child maker was applied more than 100000 times although every application fails"); }
        Err(ProbeErr(k))
    }
}

/// Populations of astronomic size (zero-sized individuals cost nothing): a step whose first child fails returns that
/// error and leaves the population as it was - serially and under every pool size; no arithmetic on the size may
/// overflow on the way.  Model-free.
fn astronomic_populations(r: &mut Report) {
    for n in [usize::MAX, usize::MAX - 1, usize::MAX - 17, usize::MAX / 2 + 3] {
        for mode in 0..=6usize {
            let calls = Arc::new(std::sync::atomic::AtomicUsize::new(0));
            let mut gen = Generation::new(FailingUnitMaker { calls: calls.clone() }, vec![(); n]);
            let res = std::panic::catch_unwind(std::panic::AssertUnwindSafe(|| if mode == 0 { gen.serial_next() } else { pools()[mode - 1].1.install(|| gen.par_next()) }));
            r.case(&format!("astronomic population {n} mode {mode}"), true);
            r.hit("population of astronomic size, failing child maker");
            let applied = calls.load(Ordering::SeqCst);
            let bad = match res {
                Err(_) => Some(if applied >= 100_000 { format!("the child maker was applied {applied} times (and counting) although its first application failed: the step does not stop at the first failure") } else { "panicked".to_string() }),
                Ok(Ok(())) => Some("succeeded although every child fails".to_string()),
                Ok(Err(_)) => if gen.population().len() != n { Some(format!("population size changed to {}", gen.population().len())) } else { None },
            };
            if let Some(b) = bad {
                r.violate(json!({"case": format!("generation step over {n} zero-sized individuals, child maker always fails, {}", if mode == 0 { "serial".to_string() } else { format!("rayon pool #{mode}") }), "real": b,
                    "what": ["a failing step must return the child maker's error and leave the population as it was"]}));
            }
        }
    }
}

struct CountingMaker { calls: Arc<AtomicUsize>, fail_from: usize }
impl Composable for CountingMaker {}
impl<'a> Operator<&'a Vec<u32>> for CountingMaker {
    type Output = u32;
    type Error = ProbeErr;
    fn apply<R: Rng + ?Sized>(&self, pop: &'a Vec<u32>, _rng: &mut R) -> Result<u32, ProbeErr> {
        let k = self.calls.fetch_add(1, Ordering::SeqCst);
        if k >= self.fail_from { return Err(ProbeErr(k)); }
        Ok((pop.len() as u32).wrapping_add(k as u32 % 7))
    }
}

/// Large populations (around and beyond 2^16 and 2^17 individuals; cheap individuals, cheap child maker): as many
/// children as individuals - counted -, a failure late in the step (serial: at an exact position beyond 2^16) is
/// reported and leaves the population untouched.  Serial and under two pools.  Model-free.
fn large_population_steps(r: &mut Report) {
    for n in [65_535usize, 65_536, 65_537, 100_003, 131_073] {
        for mode in [0usize, 3, 6] {
            let label = if mode == 0 { "serial".to_string() } else { format!("pool of {} threads", pools()[mode - 1].0) };
            // (a) no failure
            let calls = Arc::new(AtomicUsize::new(0));
            let mut gen = Generation::new(CountingMaker { calls: calls.clone(), fail_from: usize::MAX }, vec![0u32; n]);
            let res = std::panic::catch_unwind(std::panic::AssertUnwindSafe(|| if mode == 0 { gen.serial_next() } else { pools()[mode - 1].1.install(|| gen.par_next()) }));
            r.case(&format!("large population {n} {label}"), true);
            r.hit("population beyond 2^16 (oracle only)");
            let made = calls.load(Ordering::SeqCst);
            let bad = match res {
                Err(_) => Some("panicked".to_string()),
                Ok(Err(e)) => Some(format!("failed at call {}", e.0)),
                Ok(Ok(())) => if gen.population().len() != n || made != n { Some(format!("{} individuals afterwards, child maker applied {made} times", gen.population().len())) }
                              else if gen.population().iter().any(|c| *c < n as u32) { Some("an individual of the old population is still there".to_string()) } else { None },
            };
            if let Some(b) = bad {
                r.violate(json!({"case": format!("generation step over {n} individuals, child maker cannot fail, {label}"), "real": b,
                    "what": "a step replaces the population by exactly as many fresh children as it had individuals"}));
            }
            // (b) the child made last fails (serial: exactly that one; parallel: everything from that call number on)
            let calls = Arc::new(AtomicUsize::new(0));
            let mut gen = Generation::new(CountingMaker { calls: calls.clone(), fail_from: n - 1 }, vec![0u32; n]);
            let res = std::panic::catch_unwind(std::panic::AssertUnwindSafe(|| if mode == 0 { gen.serial_next() } else { pools()[mode - 1].1.install(|| gen.par_next()) }));
            let bad = match res {
                Err(_) => Some("panicked".to_string()),
                Ok(Ok(())) => Some(format!("succeeded although the child maker failed at call {} (applied {} times)", n - 1, calls.load(Ordering::SeqCst))),
                Ok(Err(_)) => if gen.population().len() != n || gen.population().iter().any(|c| *c != 0) { Some("the population was changed by a failed step".to_string()) } else { None },
            };
            if let Some(b) = bad {
                r.violate(json!({"case": format!("generation step over {n} individuals, the child maker fails from its call number {} on, {label}", n - 1), "real": b,
                    "what": "a failed step returns the child maker's error and leaves the population as it was"}));
            }
        }
    }
}

/// Child makers assembled from the library's own parts, as its examples do (`Select . apply_twice . then_map(GenomeExtractor) .
/// then(Recombine) . then(Mutate) . wrap::<GenomeScorer>`), stepped serially and under pools.  None of these pipelines can fail
/// on a non-empty population whose individuals carry the configured number of results, so every step must be `Ok`, keep the
/// size, and deliver children that are scored by the scorer.  Several generations with *different* configurations (numbers
/// of lexicase cases, tournament sizes, repetition counts 0 / 1 / 2) are stepped one after the other on the same threads:
/// a step depends on its own generation only.  Model-free.
fn library_pipeline_scenarios(r: &mut Report, seed: u64) {
    use ec_core::distributions::collection::ConvertToCollectionGenerator;
    use ec_core::individual::ec::WithScorer;
    use ec_core::operator::constant::Constant;
    use ec_core::operator::genome_extractor::GenomeExtractor;
    use ec_core::operator::mutator::Mutate;
    use ec_core::operator::recombinator::Recombine;
    use ec_core::operator::selector::{best::Best, lexicase::Lexicase, tournament::Tournament, Select};
    use ec_core::test_results::{Score, TestResults};
    use ec_linear::genome::bitstring::Bitstring;
    use ec_linear::mutator::with_one_over_length::WithOneOverLength;
    use ec_linear::recombinator::two_point_xo::TwoPointXo;
    use rand::distr::{Distribution, StandardUniform};
    type BI = EcIndividual<Bitstring, TestResults<Score<i64>>>;
    fn score_k(k: usize, b: &Bitstring) -> TestResults<Score<i64>> {
        (0..k).map(|c| b.bits.iter().skip(c).step_by(k.max(1)).filter(|x| **x).count() as i64).collect()
    }
    let mut bad: Vec<String> = vec![];
    let mut steps = 0u64;
    let mut check = |what: &str, k: usize, bits: usize, n: usize, res: Result<(), String>, pop: &Vec<BI>, bad: &mut Vec<String>| {
        match res {
            Err(e) => bad.push(format!("{what}: a step whose child maker cannot fail on this population returned the error `{e}`")),
            Ok(()) => {
                if pop.len() != n { bad.push(format!("{what}: the population has {} individuals after the step, it had {n}", pop.len())); }
                for c in pop {
                    if c.genome.bits.len() != bits { bad.push(format!("{what}: a child genome has {} bits, the parents had {bits}", c.genome.bits.len())); break; }
                    if c.test_results != score_k(k, &c.genome) { bad.push(format!("{what}: a child does not carry the scorer's results for its genome")); break; }
                }
            }
        }
    };
    // (a) lexicase with 4, then 3, 2, 1, then 4 cases again; tournaments of 5, 2, 1, 3 - one after the other on this thread and in the pools
    let configs: [(usize, usize, usize); 9] = [(12, 4, 0), (12, 3, 0), (10, 2, 0), (9, 1, 0), (12, 4, 0), (8, 2, 5), (8, 2, 2), (8, 2, 1), (8, 2, 3)];
    for round in 0..2 {
        for (ci, &(bits, k, tsize)) in configs.iter().enumerate() {
            let mut rng = SplitMix::derive(seed ^ 0x11B, (round * 16 + ci) as u64);
            let n = 9usize;
            let scorer = FnScorer(move |b: &Bitstring| score_k(k, b));
            let population: Vec<BI> = StandardUniform.to_collection_generator(bits).with_scorer(scorer).into_collection_generator(n).sample(&mut rng);
            macro_rules! drive { ($maker:expr, $label:expr) => {{
                let mut generation = Generation::new($maker, population.clone());
                for (si, mode) in [None, Some(1usize), None, Some(4), Some(0)].iter().enumerate() {
                    let res = std::panic::catch_unwind(std::panic::AssertUnwindSafe(|| match mode {
                        None => generation.serial_next().map_err(|e| e.to_string()),
                        Some(pi) => pools()[*pi].1.install(|| generation.par_next().map_err(|e| e.to_string())),
                    })).unwrap_or_else(|_| Err("PANIC".to_string()));
                    steps += 1;
                    check(&format!("{} (bits {bits}, cases {k}, population {n}), step {si} ({})", $label, match mode { None => "serial".to_string(), Some(pi) => format!("pool of {} threads", pools()[*pi].0) }), k, bits, n, res, generation.population(), &mut bad);
                }
            }}; }
            if tsize == 0 {
                drive!(Select::new(Lexicase::new(k)).apply_twice().then_map(GenomeExtractor).then(Recombine::new(TwoPointXo)).then(Mutate::new(WithOneOverLength)).wrap::<GenomeScorer<_, _>>(scorer), "Lexicase . twice . extract . TwoPointXo . WithOneOverLength . score");
            } else {
                drive!(Select::new(Tournament::new(std::num::NonZeroUsize::new(tsize).unwrap())).apply_twice().then_map(GenomeExtractor).then(Recombine::new(TwoPointXo)).then(Mutate::new(WithOneOverLength)).wrap::<GenomeScorer<_, _>>(scorer), format!("Tournament({tsize}) . twice . extract . TwoPointXo . WithOneOverLength . score"));
            }
            // (b) a selection repeated 0 / 1 / 2 times whose outcome is then ignored: zero applications cannot fail (or panic)
            let fixed = Bitstring { bits: vec![true; bits] };
            drive!(Select::new(Best).apply_n_times::<0>().then(Constant::new(fixed.clone())).wrap::<GenomeScorer<_, _>>(scorer), "Best . 0 times . constant genome . score");
            drive!(Select::new(Best).apply_n_times::<1>().then(Constant::new(fixed.clone())).wrap::<GenomeScorer<_, _>>(scorer), "Best . once . constant genome . score");
            drive!(Select::new(Lexicase::new(k)).apply_n_times::<2>().then(Constant::new(fixed.clone())).wrap::<GenomeScorer<_, _>>(scorer), "Lexicase . twice . constant genome . score");
        }
    }
    r.case("library child makers stepped in sequence", true);
    r.hit_n("steps with library child makers (oracle only)", steps);
    for what in bad.into_iter().take(6) {
        r.violate(json!({"case": "generations with child makers made of library selectors / recombinators / mutators / scorers, stepped one after the other (serial, pools of 1, 2 and 8 threads)", "what": what}));
    }
}

fn clip(s: &str) -> String { if s.len() > 400 { format!("{}…({} chars)", &s[..400], s.len()) } else { s.to_string() } }

pub fn run(cfg: &Cfg) -> Report {
    let seed = cfg.seed;
    let thorough = cfg.thorough;
    let _ = pools();
    // exhaustive: every failure position k in 0..n (and k = n: no failure) for n <= 16, serial + the six pools
    let mut exh: Vec<(usize, usize, Option<usize>)> = vec![];
    let reps = if thorough { 20 } else { 2 };
    for _ in 0..reps { for n in 0..=16usize { for k in 0..=n { for pool in std::iter::once(None).chain((0..6).map(Some)) { exh.push((n, k, pool)); } } } }
    let n_exh = exh.len() as u64;
    let n_rand: u64 = if thorough { 40_000 } else { 6_000 };
    let mut rep = run_sharded(&cfg.driver, cfg.threads, n_exh + n_rand, || Report::new("generation", RULE), |d, r, i| {
        let mut g = SplitMix::derive(seed ^ 0xC09, i);
        let c = gen_case(&mut g, thorough, i, n_exh, &exh);
        run_case(d, r, &c, &mut g, i);
    });
    if mutant().is_empty() {
        crate::watch::guarded("generation: set-like (BTreeSet) populations stepped four times", || set_population_scenarios(&mut rep, seed));
        crate::watch::guarded("generation: a step over vec![(); usize::MAX] (and neighbours) whose child maker fails at its first call, serial and under every pool", || astronomic_populations(&mut rep));
        crate::watch::guarded("generation: steps over 65 535 .. 131 073 individuals, serial and under pools, incl. a failure in the last child", || large_population_steps(&mut rep));
        crate::watch::guarded("generation: child makers assembled from library parts, generations with different configurations stepped in sequence", || library_pipeline_scenarios(&mut rep, seed));
    }
    if !mutant().is_empty() { rep.notes.push(format!("SELF-TEST: real Generation replaced by mutant `{}`", mutant())); }
    rep.exhaustive = true;
    rep.notes.push(format!("exhaustive scope: population sizes 0..=16 x every failing call position 0..n (and none) x (serial, rayon pools of 1,2,3,4,8,16 threads) x {reps} repeats = {n_exh} cases; seeded random: {n_rand} cases of 1-3 consecutive steps"));
    rep.notes.push("rayon interleavings are exercised, not enumerated; rand::rng() is not scriptable: the model is run on the recorded answers and the observed schedule".into());
    rep
}
