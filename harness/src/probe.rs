//! Probe component operators for the C14 / C17 correspondence — the Rust twins of
//! `lean/Uec/Model/OpProbe.lean` (same hashing, same draws, same decisions), plus the universal value
//! type `V` every pipeline result is canonicalised into, the per-thread script / call log, and the
//! canonical form of (nested) operator errors.
use ec_core::individual::ec::EcIndividual;
use ec_core::operator::mutator::Mutator;
use ec_core::operator::recombinator::Recombinator;
use ec_core::operator::selector::Selector;
use ec_core::operator::{Composable, Operator};
use rand::Rng;
use std::cell::RefCell;

#[derive(Clone, Debug, PartialEq, Eq)]
pub enum V {
    Leaf(u64),
    Pair(Box<V>, Box<V>),
    Arr(Vec<V>),
    Vec(Vec<V>),
    Ind(Box<V>, Box<V>),
}

pub type Ind = EcIndividual<V, V>;

pub trait ToV {
    fn to_v(&self) -> V;
}
impl ToV for V {
    fn to_v(&self) -> V { self.clone() }
}
impl<T: ToV + ?Sized> ToV for &T {
    fn to_v(&self) -> V { (**self).to_v() }
}
impl<A: ToV, B: ToV> ToV for (A, B) {
    fn to_v(&self) -> V { V::Pair(Box::new(self.0.to_v()), Box::new(self.1.to_v())) }
}
impl<A: ToV, const N: usize> ToV for [A; N] {
    fn to_v(&self) -> V { V::Arr(self.iter().map(ToV::to_v).collect()) }
}
impl<A: ToV> ToV for Vec<A> {
    fn to_v(&self) -> V { V::Vec(self.iter().map(ToV::to_v).collect()) }
}
impl<G: ToV, R: ToV> ToV for EcIndividual<G, R> {
    fn to_v(&self) -> V { V::Ind(Box::new(self.genome.to_v()), Box::new(self.test_results.to_v())) }
}

/// the driver's value syntax (`OpsFam.showVal`)
pub fn show(v: &V) -> String {
    fn list(tag: &str, l: &[V]) -> String {
        let mut s = format!("({tag}");
        for x in l { s.push(' '); s.push_str(&show(x)); }
        s.push(')');
        s
    }
    match v {
        V::Leaf(n) => n.to_string(),
        V::Pair(a, b) => format!("(P {} {})", show(a), show(b)),
        V::Arr(l) => list("A", l),
        V::Vec(l) => list("V", l),
        V::Ind(g, s) => format!("(I {} {})", show(g), show(s)),
    }
}

const K1: u64 = 0x9E37_79B9_7F4A_7C15;
const K2: u64 = 0xBF58_476D_1CE4_E5B9;

pub fn mix(a: u64, b: u64) -> u64 {
    let z = (a ^ b.wrapping_mul(K1)).wrapping_mul(K2).wrapping_add(0x632B_E59B_D9B4_E019);
    z ^ (z >> 29)
}

pub fn hash(v: &V) -> u64 {
    fn hl(seed: u64, l: &[V]) -> u64 { l.iter().fold(seed, |s, x| mix(s, hash(x))) }
    match v {
        V::Leaf(n) => mix(1, *n),
        V::Pair(a, b) => mix(mix(2, hash(a)), hash(b)),
        V::Arr(l) => hl(mix(3, l.len() as u64), l),
        V::Vec(l) => hl(mix(4, l.len() as u64), l),
        V::Ind(g, s) => mix(mix(5, hash(g)), hash(s)),
    }
}

/// one component call as the real code made it
#[derive(Clone, Debug, PartialEq, Eq)]
pub struct Call {
    pub id: u64,
    pub hash48: u64,
    pub drawn: u32,
    pub failed: bool,
}

/// What the probes are told to do in the current run (per thread), and what they did.
#[derive(Default)]
pub struct Script {
    /// the call (in global call order) that fails, if any
    pub fail_at: Option<usize>,
    /// 1: fail before drawing, 2: fail after drawing
    pub mode: u8,
    pub log: Vec<Call>,
}

thread_local! {
    pub static SCRIPT: RefCell<Script> = RefCell::new(Script::default());
}

pub fn set_script(fail_at: Option<usize>, mode: u8) {
    SCRIPT.with(|s| *s.borrow_mut() = Script { fail_at, mode, log: Vec::new() });
}
pub fn take_log() -> Vec<Call> {
    SCRIPT.with(|s| std::mem::take(&mut s.borrow_mut().log))
}

#[derive(Clone, Debug, PartialEq, Eq)]
pub struct ProbeErr {
    pub id: u64,
    pub code: u8,
}
impl std::fmt::Display for ProbeErr {
    fn fmt(&self, f: &mut std::fmt::Formatter<'_>) -> std::fmt::Result {
        write!(f, "probe {} failed with code {}", self.id, self.code)
    }
}
impl std::error::Error for ProbeErr {}

/// announce, maybe fail, draw `d` words, maybe fail; the mixed value on success
pub fn body<R: Rng + ?Sized>(id: u64, d: u32, x: &V, rng: &mut R) -> Result<u64, ProbeErr> {
    let hx = hash(x);
    let mode = SCRIPT.with(|s| {
        let mut s = s.borrow_mut();
        let j = s.log.len();
        let mode = if s.fail_at == Some(j) { s.mode } else { 0 };
        s.log.push(Call { id, hash48: hx & ((1 << 48) - 1), drawn: 0, failed: mode != 0 });
        mode
    });
    if mode == 1 {
        return Err(ProbeErr { id, code: 0 });
    }
    let mut m = mix(mix(7, id), hx);
    for _ in 0..d {
        m = mix(m, rng.next_u64());
    }
    SCRIPT.with(|s| s.borrow_mut().log.last_mut().unwrap().drawn = d);
    if mode == 2 {
        return Err(ProbeErr { id, code: 1 });
    }
    Ok(m)
}

fn mark_failed() {
    SCRIPT.with(|s| s.borrow_mut().log.last_mut().unwrap().failed = true);
}

/// any input, a leaf out
#[derive(Clone, Copy, Debug)]
pub struct Probe { pub id: u64, pub d: u32 }
impl Composable for Probe {}
impl<T: ToV> Operator<T> for Probe {
    type Output = V;
    type Error = ProbeErr;
    fn apply<R: Rng + ?Sized>(&self, input: T, rng: &mut R) -> Result<V, ProbeErr> {
        body(self.id, self.d, &input.to_v(), rng).map(V::Leaf)
    }
}

/// any input, a vector of `m % 4` leaves out
#[derive(Clone, Copy, Debug)]
pub struct VProbe { pub id: u64, pub d: u32 }
impl Composable for VProbe {}
impl<T: ToV> Operator<T> for VProbe {
    type Output = Vec<V>;
    type Error = ProbeErr;
    fn apply<R: Rng + ?Sized>(&self, input: T, rng: &mut R) -> Result<Vec<V>, ProbeErr> {
        body(self.id, self.d, &input.to_v(), rng).map(|m| (0..m % 4).map(|j| V::Leaf(mix(m, j))).collect())
    }
}

/// a population in, a reference to one of its members out
#[derive(Clone, Copy, Debug)]
pub struct ProbeSel { pub id: u64, pub d: u32 }
impl<I: ToV> Selector<Vec<I>> for ProbeSel {
    type Error = ProbeErr;
    fn select<'pop, R: Rng + ?Sized>(&self, pop: &'pop Vec<I>, rng: &mut R) -> Result<&'pop I, ProbeErr> {
        let m = body(self.id, self.d, &pop.to_v(), rng)?;
        if pop.is_empty() {
            mark_failed();
            return Err(ProbeErr { id: self.id, code: 2 });
        }
        Ok(&pop[(m % pop.len() as u64) as usize])
    }
}

#[derive(Clone, Copy, Debug)]
pub struct ProbeMut { pub id: u64, pub d: u32 }
impl Mutator<V> for ProbeMut {
    type Error = ProbeErr;
    fn mutate<R: Rng + ?Sized>(&self, genome: V, rng: &mut R) -> Result<V, ProbeErr> {
        body(self.id, self.d, &genome, rng).map(V::Leaf)
    }
}

#[derive(Clone, Copy, Debug)]
pub struct ProbeRec { pub id: u64, pub d: u32 }
impl<GS: ToV> Recombinator<GS> for ProbeRec {
    type Output = V;
    type Error = ProbeErr;
    fn recombine<R: Rng + ?Sized>(&self, genomes: GS, rng: &mut R) -> Result<V, ProbeErr> {
        body(self.id, self.d, &genomes.to_v(), rng).map(V::Leaf)
    }
}

/// the scorer used with `GenomeScorer`
pub fn score_c<const C: u64>(g: &V) -> V {
    V::Leaf(mix(C, hash(g)))
}

/// Canonical form of a (nested) operator error and the `{:?}` text it must have.  The combinators'
/// error types are not nameable from outside ec-core, so the structure is read through the public
/// surface: `Display` (which combinator, which side / element) and `Error::source` (the inner error).
/// errors whose message does not say which combinator they come from (`anyFirst(..)`) are compared with the model's
/// `thenFirst(..)` / `andFirst(..)` modulo the combinator's name
pub fn same_err_text(real: &str, model: &str) -> bool {
    if real == model { return true; }
    if !real.contains("anyFirst(") && !real.contains("anySecond(") { return false; }
    let gen = |s: &str| s.replace("thenFirst(", "anyFirst(").replace("andFirst(", "anyFirst(").replace("thenSecond(", "anySecond(").replace("andSecond(", "anySecond(");
    gen(real) == gen(model)
}

pub fn canon_err(e: &(dyn std::error::Error + 'static)) -> (String, String) {
    if let Some(p) = e.downcast_ref::<ProbeErr>() {
        return (format!("own({},{})", p.id, p.code), format!("{p:?}"));
    }
    // The combinators' error types live in private modules: what a caller can observe is the Display text, the
    // Debug text and the source() chain.  Which part / element failed is read off BOTH texts, tolerantly (variant
    // name of the derive; the words first / second / an element number in the message) - a rewording that still
    // names the right part is fine, a text that names the *other* part is a contradiction and stays visible.
    let text = e.to_string();
    let low = text.to_lowercase();
    let dbg = format!("{e:?}");
    let (inner, inner_dbg) = match e.source() {
        Some(s) => canon_err(s),
        None => ("?".into(), "?".into()),
    };
    let d_first = dbg.starts_with("First(");
    let d_second = dbg.starts_with("Second(");
    let d_map = dbg.starts_with("MapError(");
    let t_first = (low.contains("first") || low.contains("1st")) && !(low.contains("second") || low.contains("2nd"));
    let t_second = (low.contains("second") || low.contains("2nd")) && !(low.contains("first") || low.contains("1st"));
    let t_index: Option<String> = text.find("-th element").map(|pos| text[..pos].chars().rev().take_while(|c| c.is_ascii_digit()).collect::<String>().chars().rev().collect::<String>())
        .filter(|d| !d.is_empty())
        .or_else(|| if low.contains("element") { let d: String = text.chars().skip_while(|c| !c.is_ascii_digit()).take_while(|c| c.is_ascii_digit()).collect(); if d.is_empty() { None } else { Some(d) } } else { None });
    let d_index: Option<String> = if d_map { dbg.rsplit(", ").next().map(|t| t.trim_end_matches(')').to_string()).filter(|t| !t.is_empty() && t.chars().all(|c| c.is_ascii_digit())) } else { None };
    // a message that names the element by an ordinal word ("the third element") is read as well: first = element 0
    let t_index: Option<String> = t_index.or_else(|| if d_map && low.contains("element") {
        const ORD: [&str; 12] = ["first", "second", "third", "fourth", "fifth", "sixth", "seventh", "eighth", "ninth", "tenth", "eleventh", "twelfth"];
        let found: Vec<usize> = ORD.iter().enumerate().filter(|(_, w)| low.split(|c: char| !c.is_ascii_alphabetic()).any(|t| t == **w)).map(|(k, _)| k).collect();
        if found.len() == 1 { Some(found[0].to_string()) } else { None }
    } else { None });
    if d_map || (t_index.is_some() && !d_first && !d_second) {
        let idx = match (&d_index, &t_index) {
            (Some(a), Some(b)) if a != b => format!("CONTRADICTION[debug says element {a}, display says element {b}]"),
            (Some(a), _) => a.clone(),
            (None, Some(b)) => b.clone(),
            (None, None) => "?".into(),
        };
        return (format!("map({inner},{idx})"), format!("MapError({inner_dbg}, {idx})"));
    }
    let first = if d_first || d_second { Some(d_first) } else if t_first || t_second { Some(t_first) } else { None };
    let Some(first) = first else { return (format!("unknown[{text}]({inner})"), format!("?{inner_dbg}")) };
    if (d_first && t_second) || (d_second && t_first) {
        return (format!("CONTRADICTION[debug says {}, display says the other part: {text}]({inner})", if d_first { "First" } else { "Second" }), format!("?{inner_dbg}"));
    }
    let comb = if low.contains("then<") { "then" } else if low.contains("and<") { "and" } else { "any" };
    let (c, d) = if first { (format!("{comb}First"), "First") } else { (format!("{comb}Second"), "Second") };
    (format!("{c}({inner})"), format!("{d}({inner_dbg})"))
}
