//! uec-harness: correspondence harness between /repo's crates and the Lean models.
mod driver;
mod fam_builder;
mod fam_plushy;
mod fam_push;
#[cfg(feature = "dynfam")]
mod fam_dyn;
mod fam_ops;
mod fam_res;
mod fam_gen;
mod fam_generation;
mod fam_sel;
mod fam_lex;
mod fam_stack;
mod fam_wsel;
mod mutants;
mod selcommon;
mod fam_xo;
mod fam_mut;
mod prims;
mod probe;
mod report;
mod rng;
mod shard;
mod watch;

pub struct Cfg {
    pub thorough: bool,
    pub seed: u64,
    pub driver: String,
    pub threads: usize,
    pub out: String,
    pub replay: Option<String>,
    pub prop: String,
}

fn main() {
    let args: Vec<String> = std::env::args().collect();
    let fam = args.get(1).cloned().unwrap_or_default();
    let mut cfg = Cfg { thorough: false, seed: 1, driver: String::new(), threads: 8, out: String::new(), replay: None, prop: String::new() };
    let mut i = 2;
    while i < args.len() {
        match args[i].as_str() {
            "--tier" => { cfg.thorough = args[i + 1] == "thorough"; i += 1; }
            "--seed" => { cfg.seed = args[i + 1].parse().expect("seed"); i += 1; }
            "--driver" => { cfg.driver = args[i + 1].clone(); i += 1; }
            "--threads" => { cfg.threads = args[i + 1].parse().expect("threads"); i += 1; }
            "--out" => { cfg.out = args[i + 1].clone(); i += 1; }
            "--prop" => { cfg.prop = args[i + 1].clone(); i += 1; }
            "--replay" => { cfg.replay = Some(args[i + 1].clone()); i += 1; }
            x => panic!("unknown argument {x}"),
        }
        i += 1;
    }
    // keep panics of the code under test quiet; they are caught and reported per case
    if std::env::var("UEC_LOUD").is_err() { std::panic::set_hook(Box::new(|_| {})); }
    // a case of the real code that does not return is reported (and the run stopped) instead of waited for
    let limit = std::env::var("UEC_CASE_TIMEOUT_S").ok().and_then(|v| v.parse().ok()).unwrap_or(if cfg.thorough { 120 } else { 20 });
    watch::start(&fam, &cfg.out, &cfg.prop, std::time::Duration::from_secs(limit));
    let rep = match fam.as_str() {
        "stack" => fam_stack::run(&cfg),
        "sel" => fam_sel::run(&cfg),
        "plushy" => fam_plushy::run(&cfg),
        "push-instr" => fam_push::run_instr(&cfg),
        "push-run" => fam_push::run_run(&cfg),
        "push-det" => fam_push::run_det(&cfg),
        "builder" => fam_builder::run(&cfg),
        "builder-probes" => fam_builder::run_probes(&cfg),
        "wsel" => fam_wsel::run(&cfg),
        "lex" => fam_lex::run(&cfg),
        "xo" => fam_xo::run(&cfg),
        "xo-selftest" => fam_xo::selftest(&cfg),
        "mut" => fam_mut::run(&cfg),
        "rates" => fam_mut::run_rates(&cfg),
        "mut-selftest" => fam_mut::selftest(&cfg),
        "ops" => fam_ops::run(&cfg),
        "res" => fam_res::run(&cfg),
        #[cfg(feature = "dynfam")]
        "dyn" => fam_dyn::run(&cfg),
        "gen" => fam_gen::run(&cfg),
        "generation" => fam_generation::run(&cfg),
        f => { eprintln!("unknown family {f}"); std::process::exit(2) }
    };
    let js = serde_json::to_string_pretty(&rep.to_json()).unwrap();
    if cfg.out.is_empty() { println!("{js}"); } else { std::fs::write(&cfg.out, js).expect("write report"); }
}
