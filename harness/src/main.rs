//! uec-harness: correspondence harness between /repo's crates and the Lean models.
mod driver;
// Every group of families sits behind a cargo feature (all on by default).  When the full harness no longer compiles
// against /repo, `./check` builds it with only the families of the property being checked: a change of one API then
// fails the properties whose tie uses that API, not all nineteen.
#[cfg(feature = "g_push")]
mod fam_builder;
#[cfg(feature = "g_plushy")]
mod fam_plushy;
#[cfg(feature = "g_push")]
mod fam_push;
#[cfg(feature = "dynfam")]
mod fam_dyn;
#[cfg(feature = "g_ops")]
mod fam_ops;
#[cfg(feature = "g_res")]
mod fam_res;
#[cfg(feature = "g_gen")]
mod fam_gen;
#[cfg(feature = "g_generation")]
mod fam_generation;
#[cfg(feature = "g_sel")]
mod fam_sel;
#[cfg(feature = "g_sel")]
mod fam_lex;
#[cfg(feature = "g_stack")]
mod fam_stack;
#[cfg(feature = "g_sel")]
mod fam_wsel;
#[cfg(feature = "g_sel")]
mod mutants;
#[cfg(feature = "g_sel")]
mod selcommon;
#[cfg(feature = "g_xo")]
mod fam_xo;
#[cfg(feature = "g_mut")]
mod fam_mut;
mod prims;
#[cfg(any(feature = "g_ops", feature = "g_res", feature = "dynfam"))]
mod probe;
mod report;
mod rng;
mod shard;
mod watch;

pub struct Cfg {
    pub thorough: bool,
    pub seed: u64,
    pub driver: String,
    pub threads: usize,
    pub out: String,
    pub replay: Option<String>,
    pub prop: String,
}

fn main() {
    let args: Vec<String> = std::env::args().collect();
    let fam = args.get(1).cloned().unwrap_or_default();
    let mut cfg = Cfg { thorough: false, seed: 1, driver: String::new(), threads: 8, out: String::new(), replay: None, prop: String::new() };
    let mut i = 2;
    while i < args.len() {
        match args[i].as_str() {
            "--tier" => { cfg.thorough = args[i + 1] == "thorough"; i += 1; }
            "--seed" => { cfg.seed = args[i + 1].parse().expect("seed"); i += 1; }
            "--driver" => { cfg.driver = args[i + 1].clone(); i += 1; }
            "--threads" => { cfg.threads = args[i + 1].parse().expect("threads"); i += 1; }
            "--out" => { cfg.out = args[i + 1].clone(); i += 1; }
            "--prop" => { cfg.prop = args[i + 1].clone(); i += 1; }
            "--replay" => { cfg.replay = Some(args[i + 1].clone()); i += 1; }
            x => panic!("unknown argument {x}"),
        }
        i += 1;
    }
    // keep panics of the code under test quiet; they are caught and reported per case
    if std::env::var("UEC_LOUD").is_err() { std::panic::set_hook(Box::new(|_| {})); }
    // a case of the real code that does not return is reported (and the run stopped) instead of waited for
    let limit = std::env::var("UEC_CASE_TIMEOUT_S").ok().and_then(|v| v.parse().ok()).unwrap_or(if cfg.thorough { 120 } else { 20 });
    watch::start(&fam, &cfg.out, &cfg.prop, std::time::Duration::from_secs(limit));
    let rep = match fam.as_str() {
        #[cfg(feature = "g_stack")]
        "stack" => fam_stack::run(&cfg),
        #[cfg(feature = "g_sel")]
        "sel" => fam_sel::run(&cfg),
        #[cfg(feature = "g_plushy")]
        "plushy" => fam_plushy::run(&cfg),
        #[cfg(feature = "g_push")]
        "push-instr" => fam_push::run_instr(&cfg),
        #[cfg(feature = "g_push")]
        "push-run" => fam_push::run_run(&cfg),
        #[cfg(feature = "g_push")]
        "push-det" => fam_push::run_det(&cfg),
        #[cfg(feature = "g_push")]
        "builder" => fam_builder::run(&cfg),
        #[cfg(feature = "g_push")]
        "builder-probes" => fam_builder::run_probes(&cfg),
        #[cfg(feature = "g_sel")]
        "wsel" => fam_wsel::run(&cfg),
        #[cfg(feature = "g_sel")]
        "lex" => fam_lex::run(&cfg),
        #[cfg(feature = "g_xo")]
        "xo" => fam_xo::run(&cfg),
        #[cfg(feature = "g_xo")]
        "xo-selftest" => fam_xo::selftest(&cfg),
        #[cfg(feature = "g_mut")]
        "mut" => fam_mut::run(&cfg),
        #[cfg(feature = "g_mut")]
        "rates" => fam_mut::run_rates(&cfg),
        #[cfg(feature = "g_mut")]
        "mut-selftest" => fam_mut::selftest(&cfg),
        #[cfg(feature = "g_ops")]
        "ops" => fam_ops::run(&cfg),
        #[cfg(feature = "g_res")]
        "res" => fam_res::run(&cfg),
        #[cfg(feature = "dynfam")]
        "dyn" => fam_dyn::run(&cfg),
        #[cfg(feature = "g_gen")]
        "gen" => fam_gen::run(&cfg),
        #[cfg(feature = "g_generation")]
        "generation" => fam_generation::run(&cfg),
        f => { eprintln!("unknown family {f}"); std::process::exit(2) }
    };
    let js = serde_json::to_string_pretty(&rep.to_json()).unwrap();
    if cfg.out.is_empty() { println!("{js}"); } else { std::fs::write(&cfg.out, js).expect("write report"); }
}
