//! uec-harness: correspondence harness between /repo's crates and the Lean models.
mod driver;
mod fam_gen;
mod fam_generation;
mod fam_sel;
mod fam_stack;
mod prims;
mod report;
mod rng;
mod shard;

pub struct Cfg {
    pub thorough: bool,
    pub seed: u64,
    pub driver: String,
    pub threads: usize,
    pub out: String,
    pub replay: Option<String>,
    pub prop: String,
}

fn main() {
    let args: Vec<String> = std::env::args().collect();
    let fam = args.get(1).cloned().unwrap_or_default();
    let mut cfg = Cfg { thorough: false, seed: 1, driver: String::new(), threads: 8, out: String::new(), replay: None, prop: String::new() };
    let mut i = 2;
    while i < args.len() {
        match args[i].as_str() {
            "--tier" => { cfg.thorough = args[i + 1] == "thorough"; i += 1; }
            "--seed" => { cfg.seed = args[i + 1].parse().expect("seed"); i += 1; }
            "--driver" => { cfg.driver = args[i + 1].clone(); i += 1; }
            "--threads" => { cfg.threads = args[i + 1].parse().expect("threads"); i += 1; }
            "--out" => { cfg.out = args[i + 1].clone(); i += 1; }
            "--prop" => { cfg.prop = args[i + 1].clone(); i += 1; }
            "--replay" => { cfg.replay = Some(args[i + 1].clone()); i += 1; }
            x => panic!("unknown argument {x}"),
        }
        i += 1;
    }
    // keep panics of the code under test quiet; they are caught and reported per case
    std::panic::set_hook(Box::new(|_| {}));
    let rep = match fam.as_str() {
        "stack" => fam_stack::run(&cfg),
        "sel" => fam_sel::run(&cfg),
        "gen" => fam_gen::run(&cfg),
        "generation" => fam_generation::run(&cfg),
        f => { eprintln!("unknown family {f}"); std::process::exit(2) }
    };
    let js = serde_json::to_string_pretty(&rep.to_json()).unwrap();
    if cfg.out.is_empty() { println!("{js}"); } else { std::fs::write(&cfg.out, js).expect("write report"); }
}
