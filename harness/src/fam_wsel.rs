//! Family `wsel` (C06, C13): weighted selector combinations — `Weighted`, nested `WeightedPair`
//! (a fixed catalogue of statically typed shapes), `DynWeighted` (dynamic, nested lists), `&S`,
//! `Select::new(&s)` and type-erased `dyn DynSelector` forms — real code vs. the Lean model, tape level.
use crate::mutants;
use crate::prims;
use crate::report::Report;
use crate::rng::SplitMix;
use crate::selcommon::*;
use crate::shard::run_sharded;
use crate::Cfg;
use ec_core::operator::selector::{
    best::Best, dyn_weighted::DynWeighted, random::Random, tournament::Tournament, worst::Worst, DynSelector, Select, Selector,
};
use ec_core::operator::Operator;
use ec_core::weighted::{error::WeightSumOverflow, weighted_pair::WeightedPair, with_weighted_item::WithWeightedItem, Weighted};
use rand::RngCore;
use serde_json::json;
use std::num::NonZeroUsize;
use std::sync::{Arc, Mutex};

type Log = Arc<Mutex<Vec<usize>>>;

/// statically typed shapes; leaves in depth-first order, each `Weighted::new(leaf, w)`
#[derive(Clone, Debug)]
pub struct Static {
    /// 0 bare leaf | 1 W | 2 P(l0,l1) | 3..5 chains of 3..5 | 6 P(l0,P(l1,l2)) | 7 P(P(l0,l1),P(l2,l3)) |
    /// 8 P(W(P(l0,l1),x),l2) | 9 P(P(l0,P(l1,l2)),P(l3,l4)) | 10 chain Best/Worst/Random/Tournament(k) with the real leaf types
    pub code: u8,
    pub leaves: Vec<(Leaf, u32)>,
    pub extra: u32,
}

#[derive(Clone, Debug)]
pub enum Node {
    S(Static),
    Dyn(Vec<(Node, usize)>),
}

/// at most one wrapper around the root
#[derive(Clone, Copy, Debug, PartialEq)]
pub enum Wrap {
    None,
    Ref,
    SelectOp,
    BoxDyn,
    RefDyn,
    ArcDyn,
    RcDyn,
    RefBoxDyn,
}

const N_LEAVES: [usize; 11] = [1, 1, 2, 3, 4, 5, 3, 4, 3, 5, 4];

impl Static {
    fn wl(&self, i: usize) -> String {
        format!("weighted {} {}", self.leaves[i].1, self.leaves[i].0.token())
    }
    pub fn token(&self) -> String {
        let l = |i| self.wl(i);
        match self.code {
            0 => self.leaves[0].0.token(),
            1 => l(0),
            2 => format!("pair {} {}", l(0), l(1)),
            3 => format!("pair pair {} {} {}", l(0), l(1), l(2)),
            4 | 10 => format!("pair pair pair {} {} {} {}", l(0), l(1), l(2), l(3)),
            5 => format!("pair pair pair pair {} {} {} {} {}", l(0), l(1), l(2), l(3), l(4)),
            6 => format!("pair {} pair {} {}", l(0), l(1), l(2)),
            7 => format!("pair pair {} {} pair {} {}", l(0), l(1), l(2), l(3)),
            8 => format!("pair weighted {} pair {} {} {}", self.extra, l(0), l(1), l(2)),
            9 => format!("pair pair {} pair {} {} pair {} {}", l(0), l(1), l(2), l(3), l(4)),
            _ => unreachable!(),
        }
    }
    /// probability of each leaf being the one delegated to (None: zero-weight error / build error)
    fn leaf_probs(&self) -> Option<Vec<f64>> {
        let w: Vec<f64> = self.leaves.iter().map(|x| x.1 as f64).collect();
        let s = |ix: &[usize]| ix.iter().map(|&i| w[i]).sum::<f64>();
        let tot = match self.code { 0 => 1.0, 8 => self.extra as f64 + w[2], _ => s(&(0..w.len()).collect::<Vec<_>>()) };
        if tot == 0.0 { return None; }
        Some(match self.code {
            0 => vec![1.0],
            8 => {
                let inner = w[0] + w[1];
                let x = self.extra as f64;
                if inner == 0.0 { vec![0.0, 0.0, w[2] / tot] } else { vec![x / tot * w[0] / inner, x / tot * w[1] / inner, w[2] / tot] }
            }
            _ => w.iter().map(|x| x / tot).collect(),
        })
    }
}
impl Node {
    pub fn token(&self) -> String {
        match self {
            Node::S(s) => s.token(),
            Node::Dyn(l) => format!("dyn {} {}", l.len(), l.iter().map(|(n, w)| format!("{w} {}", n.token())).collect::<Vec<_>>().join(" ")),
        }
    }
}

fn leaf(log: &Log, next: &mut usize, l: &Leaf) -> AnyLeaf {
    *next += 1;
    AnyLeaf { leaf: l.clone(), id: *next - 1, log: log.clone() }
}

/// Build the typed value of a static shape and hand it to `$body` (expanded once per shape, so
/// `$body` is type-checked for every shape's type).  Build failures return `builderr a b`.
macro_rules! with_static {
    ($st:expr, $log:expr, $next:expr, $s:ident => $body:expr) => {{
        let st: &Static = $st;
        let mut wl = |i: usize| Weighted::new(leaf($log, $next, &st.leaves[i].0), st.leaves[i].1);
        let be = |e: WeightSumOverflow| format!("builderr {} {}", e.0, e.1);
        match st.code {
            0 => { let $s = leaf($log, $next, &st.leaves[0].0); $body }
            1 => { let $s = wl(0); $body }
            2 => match { let a = wl(0); a.with_weighted_item(wl(1)) } { Ok($s) => $body, Err(e) => be(e) },
            3 => match { let a = wl(0); let b = wl(1); let c = wl(2); a.with_weighted_item(b).with_weighted_item(c) } { Ok($s) => $body, Err(e) => be(e) },
            4 => match { let a = wl(0); let b = wl(1); let c = wl(2); let d = wl(3); a.with_weighted_item(b).with_weighted_item(c).with_weighted_item(d) } { Ok($s) => $body, Err(e) => be(e) },
            5 => match { let a = wl(0); let b = wl(1); let c = wl(2); let d = wl(3); let f = wl(4); a.with_weighted_item(b).with_weighted_item(c).with_weighted_item(d).with_weighted_item(f) } { Ok($s) => $body, Err(e) => be(e) },
            6 => match (|| { let a = wl(0); let b = wl(1); let c = wl(2); WeightedPair::new(a, WeightedPair::new(b, c)?) })() { Ok($s) => $body, Err(e) => be(e) },
            7 => match (|| { let a = wl(0); let b = wl(1); let c = wl(2); let d = wl(3); WeightedPair::new(WeightedPair::new(a, b)?, WeightedPair::new(c, d)?) })() { Ok($s) => $body, Err(e) => be(e) },
            8 => match (|| { let a = wl(0); let b = wl(1); let c = wl(2); WeightedPair::new(Weighted::new(WeightedPair::new(a, b)?, st.extra), c) })() { Ok($s) => $body, Err(e) => be(e) },
            9 => match (|| { let a = wl(0); let b = wl(1); let c = wl(2); let d = wl(3); let f = wl(4); WeightedPair::new(WeightedPair::new(a, WeightedPair::new(b, c)?)?, WeightedPair::new(d, f)?) })() { Ok($s) => $body, Err(e) => be(e) },
            _ => unreachable!(),
        }
    }};
}

/// shape 10: the repository's own leaf types, no harness wrapper (as in the crate's `several_selectors` test)
fn run_direct<R: Ord + 'static>(st: &Static, wrap: Wrap, pop: &Vec<Ind<R>>, rng: &mut SplitMix) -> String {
    let k = match st.leaves[3].0 { Leaf::Tournament(k) => k, _ => 1 };
    let s = Weighted::new(Best, st.leaves[0].1)
        .with_item_and_weight(Worst, st.leaves[1].1)
        .with_item_and_weight(Random, st.leaves[2].1)
        .with_item_and_weight(Tournament::new(NonZeroUsize::new(k).unwrap()), st.leaves[3].1);
    match s {
        Ok(s) => finish(s, wrap, pop, rng),
        Err(e) => format!("builderr {} {}", e.0, e.1),
    }
}

fn res<T, E: Canon>(pop: &[T], r: Result<&T, E>) -> String {
    match r {
        Ok(x) => match index_of(pop, x) { Some(i) => format!("ok {i}"), None => "err NOT-A-MEMBER".into() },
        Err(e) => format!("err {}", e.canon()),
    }
}

/// select through the requested wrapper
fn finish<R, S>(s: S, wrap: Wrap, pop: &Vec<Ind<R>>, rng: &mut SplitMix) -> String
where
    R: Ord + 'static,
    S: Selector<Vec<Ind<R>>> + Send + Sync + 'static,
    S::Error: Canon + std::error::Error + Send + Sync + 'static,
{
    type P<R> = Vec<Ind<R>>;
    match wrap {
        Wrap::None => res(pop, s.select(pop, rng)),
        Wrap::Ref => res(pop, (&s).select(pop, rng)),
        Wrap::SelectOp => res(pop, Select::new(&s).apply(pop, rng)),
        Wrap::BoxDyn => { let b: Box<dyn DynSelector<P<R>>> = Box::new(s); res(pop, b.select(pop, rng)) }
        Wrap::RefDyn => { let b: &dyn DynSelector<P<R>> = &s; res(pop, b.select(pop, rng)) }
        Wrap::ArcDyn => { let b: Arc<dyn DynSelector<P<R>> + Send + Sync> = Arc::new(s); res(pop, b.select(pop, rng)) }
        Wrap::RcDyn => { let b: std::rc::Rc<dyn DynSelector<P<R>>> = std::rc::Rc::new(s); res(pop, b.select(pop, rng)) }
        Wrap::RefBoxDyn => { let b: Box<dyn DynSelector<P<R>> + Send + Sync> = Box::new(s); res(pop, (&b).select(pop, rng)) }
    }
}

/// `DynWeighted` from a node list (items: static shapes 0..=3, nested lists)
fn build_dyn<R: Ord + 'static>(items: &[(Node, usize)], log: &Log, next: &mut usize) -> Result<DynWeighted<Vec<Ind<R>>>, String> {
    let mut dw: Option<DynWeighted<Vec<Ind<R>>>> = None;
    for (node, w) in items {
        let w = *w;
        macro_rules! push { ($x:expr) => {{ let x = $x; dw = Some(match dw.take() { None => DynWeighted::new(x, w), Some(d) => d.with_selector(x, w) }); String::new() }}; }
        let msg = match node {
            Node::S(st) => with_static!(st, log, next, s => push!(s)),
            Node::Dyn(inner) => match build_dyn::<R>(inner, log, next) { Ok(d) => push!(d), Err(e) => e },
        };
        if !msg.is_empty() { return Err(msg); }
        // incremental building with use in between ("select, then add a selector, then select"): on about half
        // of the lists the partly built combination is used once on an empty population before it is extended;
        // a stateless combination cannot notice (the call log is restored)
        if (w.wrapping_add(items.len())) % 2 == 0 {
            if let Some(d) = dw.as_ref() {
                let keep = log.lock().unwrap().len();
                let emp: Vec<Ind<R>> = Vec::new();
                let mut t = SplitMix::new(w as u64 ^ 0x5EED);
                let _ = d.select(&emp, &mut t);
                log.lock().unwrap().truncate(keep);
            }
        }
    }
    Ok(dw.expect("DynWeighted needs at least one selector"))
}

pub fn run_real<R: Ord + 'static>(node: &Node, wrap: Wrap, pop: &Vec<Ind<R>>, rng: &mut SplitMix, log: &Log) -> String {
    let r = std::panic::catch_unwind(std::panic::AssertUnwindSafe(|| {
        let mut next = 0usize;
        if let Some(s) = mutants::weighted(node, pop, rng, log) { return s; }
        match node {
            Node::S(st) if st.code == 10 => run_direct(st, wrap, pop, rng),
            Node::S(st) => with_static!(st, log, &mut next, s => finish(s, wrap, pop, rng)),
            Node::Dyn(items) => match build_dyn::<R>(items, log, &mut next) { Ok(d) => finish(d, wrap, pop, rng), Err(e) => e },
        }
    }));
    r.unwrap_or_else(|_| "panic".into())
}

// ---------------------------------------------------------------------------------------------

const RULE: &str = "weighted selector combinations: a catalogue of 11 statically typed shapes (bare leaf, Weighted, WeightedPair chains of 2-5 built \
with with_item_and_weight on Results, right-nested / balanced / depth-4 trees built with WeightedPair::new, a Weighted around a pair, the crate's own leaf \
types) and DynWeighted lists (nested, items of static shapes), through no wrapper / &S / Select::new(&s).apply / Box, &, Arc, Rc of dyn DynSelector; leaves \
best/worst/random/tournament/lexicase/probe with real configurations around the population size; weights from {0,1,2,3,2^31,2^32-2,2^32-1,random} \
(usize::MAX for DynWeighted); populations empty/singleton/duplicates/random with Score and Error results. The model's requests are answered by the same rand \
call on a shadow generator. Compared: build result (WeightSumOverflow payload), selected index (pointer identity), nested error, generator state after the call. \
Oracles on the real code: member or error, no panic, exactly one member called on success (none on zero-weight errors), the member called has positive \
weight on its whole path, build fails iff a pair total exceeds u32::MAX, zero-weight error at the root iff the root total is 0, two runs agree; measured \
delegation frequencies against w_i/W. non-trivial = at least two members and a successful build; distinct by request line and seed";

fn gen_weight(rng: &mut SplitMix, big: bool) -> u32 {
    match rng.below(if big { 12 } else { 9 }) {
        0 | 1 => 0,
        2 | 3 => 1,
        4 => 2,
        5 => 3,
        6 | 7 | 8 => 1 + rng.below(20) as u32,
        9 => 1 << 31,
        10 => u32::MAX - 1,
        _ => u32::MAX,
    }
}
fn gen_leaf(rng: &mut SplitMix, n: usize, cases: usize) -> Leaf {
    match rng.below(9) {
        0 => Leaf::Best,
        1 => Leaf::Worst,
        2 => Leaf::Random,
        3 | 4 => Leaf::Tournament(match rng.below(10) { 0 => 1, 1 => n.max(1), 2 => n + 1, _ => 1 + rng.below(n.max(1) as u64) as usize }),
        5 | 6 => Leaf::Lexicase(match rng.below(10) { 0 => 0, 1 => cases + 1, _ => rng.below(cases as u64 + 1) as usize }),
        _ => Leaf::Probe(if rng.chance(1, 10) { n + rng.below(2) as usize } else { rng.below(n.max(1) as u64) as usize }),
    }
}
fn gen_static(rng: &mut SplitMix, n: usize, cases: usize, max_code: u8, big: bool) -> Static {
    let code = rng.below(max_code as u64 + 1) as u8;
    let mut leaves: Vec<(Leaf, u32)> = (0..N_LEAVES[code as usize]).map(|_| (gen_leaf(rng, n, cases), gen_weight(rng, big))).collect();
    if code == 10 {
        leaves[0].0 = Leaf::Best; leaves[1].0 = Leaf::Worst; leaves[2].0 = Leaf::Random;
        leaves[3].0 = Leaf::Tournament(1 + rng.below(n as u64 + 1) as usize);
    }
    if rng.chance(1, 12) { for l in leaves.iter_mut() { l.1 = 0; } }
    Static { code, leaves, extra: gen_weight(rng, false) }
}
fn gen_dyn(rng: &mut SplitMix, n: usize, cases: usize, depth: u32) -> Node {
    let len = 1 + rng.below(if depth == 0 { 8 } else { 3 }) as usize;
    let allzero = rng.chance(1, 12);
    let items = (0..len).map(|_| {
        let node = if depth < 2 && rng.chance(1, 5) { gen_dyn(rng, n, cases, depth + 1) } else { Node::S(gen_static(rng, n, cases, 3, false)) };
        let w = if allzero { 0 } else { match rng.below(40) { 0..=7 => 0, 39 => usize::MAX, 38 => usize::MAX / 2 + 1, _ => 1 + rng.below(9) as usize } };
        (node, w)
    }).collect();
    Node::Dyn(items)
}

/// leaves of a node in call-id order with (kind, whether every weight on the path is positive)
fn leaf_paths(node: &Node, path_ok: bool, out: &mut Vec<(Leaf, bool)>) {
    match node {
        Node::S(st) => {
            let w = |i: usize| st.leaves[i].1 > 0;
            for i in 0..st.leaves.len() {
                let ok = match st.code { 0 => true, 8 if i < 2 => w(i) && st.extra > 0, _ => w(i) };
                out.push((st.leaves[i].0.clone(), path_ok && ok));
            }
        }
        Node::Dyn(items) => for (n, w) in items { leaf_paths(n, path_ok && *w > 0, out); },
    }
}
/// does some `WeightedPair::new` overflow u32?
fn build_overflows(node: &Node) -> bool {
    match node {
        Node::S(st) => {
            let w: Vec<u64> = st.leaves.iter().map(|x| x.1 as u64).collect();
            let m = u32::MAX as u64;
            match st.code {
                0 | 1 => false,
                2..=5 | 10 => { let mut s = w[0]; w[1..].iter().any(|x| { s += x; s > m }) }
                6 => w[1] + w[2] > m || w[0] + w[1] + w[2] > m,
                7 => w[0] + w[1] > m || w[2] + w[3] > m || w.iter().sum::<u64>() > m,
                8 => w[0] + w[1] > m || st.extra as u64 + w[2] > m,
                9 => w[1] + w[2] > m || w[0] + w[1] + w[2] > m || w[3] + w[4] > m || w.iter().sum::<u64>() > m,
                _ => unreachable!(),
            }
        }
        Node::Dyn(items) => items.iter().any(|(n, _)| build_overflows(n)),
    }
}
fn root_total_zero(node: &Node) -> bool {
    match node {
        Node::S(st) => match st.code { 0 => false, 8 => st.extra as u64 + st.leaves[2].1 as u64 == 0, _ => st.leaves.iter().all(|x| x.1 == 0) },
        Node::Dyn(items) => items.iter().all(|(_, w)| *w == 0),
    }
}

/// can a `ZeroWeight` (SelectionError) legitimately be reported: is there a combination of total weight 0
/// that is the root or reachable through positive weights only?
fn legit_zero(node: &Node) -> bool {
    match node {
        Node::S(st) => {
            let w = |i: usize| st.leaves[i].1 as u64;
            match st.code {
                0 => false,
                1 => w(0) == 0,
                8 => (st.extra as u64 + w(2) == 0) || (st.extra > 0 && w(0) + w(1) == 0),
                _ => st.leaves.iter().all(|x| x.1 == 0),
            }
        }
        Node::Dyn(items) => items.iter().any(|(n, w)| *w > 0 && legit_zero(n)),
    }
}
/// the same for `DynWeighted`'s all-zero error
fn legit_dynzero(node: &Node) -> bool {
    match node {
        Node::S(_) => false,
        Node::Dyn(items) => items.iter().all(|(_, w)| *w == 0) || items.iter().any(|(n, w)| *w > 0 && legit_dynzero(n)),
    }
}

fn wrap_token(w: Wrap, t: &str) -> String {
    match w {
        Wrap::None => t.to_string(),
        Wrap::Ref | Wrap::SelectOp => format!("ref {t}"),
        Wrap::BoxDyn | Wrap::RefDyn | Wrap::ArcDyn | Wrap::RcDyn => format!("erased {t}"),
        Wrap::RefBoxDyn => format!("ref erased {t}"),
    }
}

fn one_case(d: &mut crate::driver::Driver, r: &mut Report, prop: &str, i: u64, seed: u64) {
    let c13 = prop.is_empty() || prop == "C13";
    let mut g = SplitMix::derive(seed ^ 0x5E1, i);
    let score = g.chance(1, 2);
    let cases = 2usize;
    let ragged = g.chance(1, 4);
    let pop = gen_pop(&mut g, 8, cases, ragged);
    let n = pop.len();
    let big = g.chance(1, 3);
    let node = if g.chance(2, 5) { gen_dyn(&mut g, n, cases, 0) } else { Node::S(gen_static(&mut g, n, cases, 10, big)) };
    let wrap = *g.pick(&[Wrap::None, Wrap::None, Wrap::None, Wrap::Ref, Wrap::SelectOp, Wrap::BoxDyn, Wrap::RefDyn, Wrap::ArcDyn, Wrap::RcDyn, Wrap::RefBoxDyn]);
    let req = format!("sel {} {} | {}", if score { "score" } else { "error" }, wrap_token(wrap, &node.token()), pop_tokens(&pop));
    let mut real_rng = SplitMix::derive(seed ^ 0xBEEF, i);
    let mut shadow = real_rng.clone();
    let mut second = real_rng.clone();
    let log: Log = Arc::new(Mutex::new(Vec::new()));
    let log2: Log = Arc::new(Mutex::new(Vec::new()));
    let (real, again) = if score {
        let p = mk_score(&pop);
        (run_real(&node, wrap, &p, &mut real_rng, &log), run_real(&node, wrap, &p, &mut second, &log2))
    } else {
        let p = mk_error(&pop);
        (run_real(&node, wrap, &p, &mut real_rng, &log), run_real(&node, wrap, &p, &mut second, &log2))
    };
    let det_ok = real == again && real_rng == second;
    let model = d.ask_with(&req, |p| prims::answer(p, &mut shadow, &mut prims::no_user));
    let calls = log.lock().unwrap().clone();
    let mut paths = Vec::new();
    leaf_paths(&node, true, &mut paths);
    let is_static10 = matches!(&node, Node::S(st) if st.code == 10);
    let kind = match &node { Node::S(st) => format!("static{}", st.code), Node::Dyn(_) => "dyn".into() };
    let outcome = if let Some(e) = real.strip_prefix("err ") { format!("err {}", e.split(|c| c == '(' || c == ' ').next().unwrap()) } else { real.split(' ').next().unwrap().to_string() };
    r.case(&format!("{req}#{i}"), paths.len() >= 2 && !real.starts_with("builderr"));
    r.hit(&format!("wsel {kind} -> {outcome}"));
    r.hit(&format!("wrap {wrap:?}"));
    if let Some(&c) = calls.first() { r.hit(&format!("delegated-to {}", paths[c].0.kind())); }
    r.sample(json!({"request": req, "real": real, "leaf_calls": calls}));
    let same_stream = real_rng.next_u64() == shadow.next_u64();
    if real != model || !same_stream {
        r.disagree(json!({"case": req, "seed_index": i, "real": real, "impl": model, "same_generator_state_after": same_stream}));
    }
    // ---- oracles on the real result ----
    let viol = |r: &mut Report, what: &str| r.violate(json!({"case": req, "seed_index": i, "what": what, "real": real, "leaf_calls": calls}));
    if !det_ok { viol(r, "two runs from equal generator states differ (C16)"); }
    if real == "panic" { viol(r, "selector panicked"); return; }
    if real.contains("NOT-A-MEMBER") { viol(r, "returned reference is not an element of the population"); return; }
    if real.contains("Unknown(") || real.contains("DynWeightError") || real.contains("DynEmptyPopulation") { viol(r, "an undocumented error was reported"); }
    let overflow = build_overflows(&node);
    if c13 && overflow != real.starts_with("builderr") { viol(r, "WeightedPair::new must fail exactly when a pair total exceeds u32::MAX"); }
    if real.starts_with("builderr") { return; }
    let zero_root = real == "err ZeroWeight" || real == "err DynZeroWeight" || real == "err Boxed(ZeroWeight)" || real == "err Boxed(DynZeroWeight)";
    let dyn_overflow = real.contains("DynOverflow");
    let root_is_leaf = matches!(&node, Node::S(st) if st.code == 0);
    if !root_is_leaf && !dyn_overflow && root_total_zero(&node) != zero_root && !matches!(&node, Node::Dyn(it) if it.iter().map(|x| x.1 as u128).sum::<u128>() > usize::MAX as u128) {
        viol(r, "a zero-weight error must be reported exactly when the root's total weight is 0");
    }
    let stripped = real.replace("DynZeroWeight", "");
    if stripped.contains("ZeroWeight") && !legit_zero(&node) {
        viol(r, "ZeroWeight reported although every combination that can be reached has positive total weight (a zero-weight member was used)");
    }
    if real.contains("DynZeroWeight") && !legit_dynzero(&node) {
        viol(r, "DynWeighted's zero-weight error reported although no reachable DynWeighted has all weights zero");
    }
    if !is_static10 && c13 {
        let is_zero_err = real.ends_with("ZeroWeight") || real.contains("ZeroWeight)") || dyn_overflow;
        if is_zero_err {
            // the zero-weight error may come from an inner combination after outer delegation; but no *leaf* may have run
            if !calls.is_empty() { viol(r, "a zero-weight / weight error was reported although a member selector had been called"); }
        } else if calls.len() != 1 {
            viol(r, "a selection must delegate to exactly one member");
        }
        for &c in &calls {
            if !paths[c].1 { viol(r, "a member of weight zero (or below a zero-weight branch) was used"); }
        }
    }
}

/// measured delegation frequencies on probe leaves (real code), exact-law test |z| <= 7
fn law_block(r: &mut Report, seed: u64, runs: u64) {
    let pop: PopRaw = (0..6).map(|i| (i as i64, vec![0, 0])).collect();
    let p = mk_score(&pop);
    let pl = |ws: &[u32]| -> Vec<(Leaf, u32)> { ws.iter().enumerate().map(|(i, w)| (Leaf::Probe(i), *w)).collect() };
    let configs: Vec<(&str, Node, Vec<f64>)> = vec![
        ("pair(1,3)", Node::S(Static { code: 2, leaves: pl(&[1, 3]), extra: 0 }), vec![]),
        ("chain(1,1,0,2)", Node::S(Static { code: 4, leaves: pl(&[1, 1, 0, 2]), extra: 0 }), vec![]),
        ("chain(5,4,3,2,1)", Node::S(Static { code: 5, leaves: pl(&[5, 4, 3, 2, 1]), extra: 0 }), vec![]),
        ("right(2,(1,3))", Node::S(Static { code: 6, leaves: pl(&[2, 1, 3]), extra: 0 }), vec![]),
        ("balanced((1,2),(3,0))", Node::S(Static { code: 7, leaves: pl(&[1, 2, 3, 0]), extra: 0 }), vec![]),
        ("deep((1,(2,3)),(4,5))", Node::S(Static { code: 9, leaves: pl(&[1, 2, 3, 4, 5]), extra: 0 }), vec![]),
        ("override(W((1,3),6),2)", Node::S(Static { code: 8, leaves: pl(&[1, 3, 2]), extra: 6 }), vec![]),
        ("pair(max-1,1)", Node::S(Static { code: 2, leaves: pl(&[u32::MAX - 1, 1]), extra: 0 }), vec![]),
        ("dyn[3,0,1,4]", Node::Dyn(pl(&[3, 0, 1, 4]).into_iter().map(|(l, w)| (Node::S(Static { code: 0, leaves: vec![(l, 1)], extra: 0 }), w as usize)).collect()), vec![3.0 / 8.0, 0.0, 1.0 / 8.0, 0.5]),
        ("dyn[2,[1,1]]", Node::Dyn(vec![
            (Node::S(Static { code: 0, leaves: vec![(Leaf::Probe(0), 1)], extra: 0 }), 2),
            (Node::Dyn(vec![(Node::S(Static { code: 0, leaves: vec![(Leaf::Probe(1), 1)], extra: 0 }), 1), (Node::S(Static { code: 0, leaves: vec![(Leaf::Probe(2), 1)], extra: 0 }), 1)]), 2),
        ]), vec![0.5, 0.25, 0.25]),
    ];
    for (ci, (name, node, probs)) in configs.iter().enumerate() {
        let probs = if probs.is_empty() { match node { Node::S(st) => st.leaf_probs().unwrap(), _ => unreachable!() } } else { probs.clone() };
        let mut counts = vec![0u64; probs.len()];
        let mut rng = SplitMix::derive(seed ^ 0x1A77, ci as u64);
        let log: Log = Arc::new(Mutex::new(Vec::new()));
        for _ in 0..runs {
            log.lock().unwrap().clear();
            let s = run_real(node, Wrap::None, &p, &mut rng, &log);
            let calls = log.lock().unwrap().clone();
            if s.starts_with("ok") && calls.len() == 1 { counts[calls[0]] += 1; }
        }
        for (leaf, pr) in probs.iter().enumerate() {
            let exp = pr * runs as f64;
            let sd = (runs as f64 * pr * (1.0 - pr)).sqrt();
            let diff = counts[leaf] as f64 - exp;
            let z = if sd > 0.0 { diff / sd } else if diff.abs() < 0.5 { 0.0 } else { f64::INFINITY };
            r.hit_n(&format!("law {name} member={leaf} expected={exp:.1}"), counts[leaf]);
            r.case(&format!("law {name} {leaf}"), true);
            if z.abs() > 7.0 {
                r.violate(json!({"case": format!("{name}: {} x{runs}, seed {seed}", node.token()), "what": format!("member {leaf} was delegated to {} times, w_i/W gives {exp:.1} (z = {z:.1})", counts[leaf]), "real": counts}));
            }
        }
    }
}

pub fn run(cfg: &Cfg) -> Report {
    let n: u64 = if cfg.thorough { 4000000 } else { 80000 };
    let seed = cfg.seed;
    let prop = cfg.prop.as_str();
    let mut rep = run_sharded(&cfg.driver, cfg.threads, n, || Report::new("wsel", RULE), |d, r, i| one_case(d, r, prop, i, seed));
    if prop.is_empty() || prop == "C13" { law_block(&mut rep, seed, if cfg.thorough { 1000000 } else { 50000 }); }
    rep
}
