//! C10: ec-linear recombinators (`TwoPointXo`, `UniformXo` on `Vec<T>` / `Bitstring`, array and tuple
//! flavours) and the exchange primitives `Bitstring::crossover_gene` / `crossover_segment`,
//! real code vs. the Lean Impl model (tape-level) + model-free property oracles.
use crate::prims;
use crate::report::Report;
use crate::rng::SplitMix;
use crate::shard::run_sharded;
use crate::Cfg;
use ec_core::operator::recombinator::Recombinator;
use ec_linear::genome::bitstring::Bitstring;
use ec_linear::recombinator::crossover::Crossover;
use ec_linear::recombinator::errors::{CrossoverGeneError, DifferentGenomeLength};
use ec_linear::recombinator::two_point_xo::TwoPointXo;
use ec_linear::recombinator::uniform_xo::UniformXo;
use rand::RngCore;
use serde_json::json;
use std::collections::BTreeSet;
use std::panic::{catch_unwind, AssertUnwindSafe};

const RULE: &str = "C10 xo: (a) exhaustive exchange scope: Bitstring::crossover_gene / crossover_segment on all genome length pairs 0..=L x all \
indices in [0,max+2] resp. all (start,end) in [0,max+2]^2, marker patterns (all-true vs all-false) and seeded random bits, compared with the Lean Impl AND \
the Lean Spec (both genomes after the call + error payload; oracle: error => both genomes unchanged); (b) seeded recombinations: TwoPointXo/UniformXo x \
Vec<u32>/Bitstring x array/tuple flavour on tagged parents (gene encodes parent and position; bitstring parents complementary), lengths 0..12 (some to 64), \
equal and different, model requests answered by the same rand call on a shadow generator; compared: child / error payload / panic, next generator word, second run; \
model-free oracles: equal lengths => Ok child of that length whose every gene is one parent's gene at that position, two-point => second-parent positions \
form one contiguous segment, different lengths => DifferentGenomeLength(l1,l2), never a panic; (c) coverage oracle on the real code alone: for n<=5 every \
two-point segment 0<=lo<hi<=n (incl. those touching either end) and for n<=4 every uniform mask occurs within K seeds. non-trivial = both genomes non-empty \
(exchanges: also at least one index/bound inside a genome); distinct by request line and seed";

fn gtok(v: &[u32]) -> String {
    if v.is_empty() { "-".into() } else { v.iter().map(|x| x.to_string()).collect::<Vec<_>>().join(",") }
}
fn btok(v: &[bool]) -> String {
    if v.is_empty() { "-".into() } else { v.iter().map(|x| if *x { "1" } else { "0" }).collect::<Vec<_>>().join(",") }
}
fn nums(s: &str) -> Vec<String> {
    s.split(|c: char| !c.is_ascii_digit()).filter(|x| !x.is_empty()).map(|x| x.to_string()).collect()
}
fn dgl(e: &DifferentGenomeLength) -> String {
    format!("DifferentGenomeLength({},{})", e.0, e.1)
}
/// `CrossoverGeneError<E>` canonical form; the payload of `E` (private fields) is read from its Display text
fn cge<E: std::fmt::Display>(e: &CrossoverGeneError<E>, kind: &str) -> String {
    match e {
        CrossoverGeneError::DifferentGenomeLength(d) => dgl(d),
        CrossoverGeneError::Crossover(inner) => format!("{kind}({})", nums(&inner.to_string()).join(",")),
    }
}

#[derive(Clone, Copy, Debug, PartialEq)]
pub enum Op { TpVec, TpG, UniVec, UniG }
impl Op {
    fn tok(self) -> &'static str {
        match self { Op::TpVec => "tpvec", Op::TpG => "tpg", Op::UniVec => "univec", Op::UniG => "unig" }
    }
    fn two_point(self) -> bool { matches!(self, Op::TpVec | Op::TpG) }
}

/// Self-test mutants: re-implementations of the real operators with one realistic defect each
/// (used only with `--tier selftest-…`; see `run`). `None` = the real code.
#[derive(Clone, Copy, Debug, PartialEq)]
pub enum Mutant { None, CutExclusive, NoSwapCuts, UniformInverted, UniformFirstOnly, SegmentNoCheck, GeneSelfOnly }

fn mutant_tp_vec(m: Mutant, mut a: Vec<u32>, mut b: Vec<u32>, rng: &mut SplitMix) -> Result<Vec<u32>, String> {
    use rand::Rng;
    let len = a.len();
    if len != b.len() { return Err(format!("DifferentGenomeLength({},{})", len, b.len())); }
    let (mut first, mut second) = match m {
        Mutant::CutExclusive => (rng.random_range(0..len), rng.random_range(0..len)),
        _ => (rng.random_range(0..=len), rng.random_range(0..=len)),
    };
    if m != Mutant::NoSwapCuts && second < first { (first, second) = (second, first); }
    a[first..second].swap_with_slice(&mut b[first..second]);
    Ok(a)
}
fn mutant_uni_vec(m: Mutant, a: Vec<u32>, b: Vec<u32>, rng: &mut SplitMix) -> Result<Vec<u32>, String> {
    use rand::Rng;
    let len = a.len();
    if len != b.len() { return Err(format!("DifferentGenomeLength({},{})", len, b.len())); }
    Ok((0..len).map(|pos| {
        let c = rng.random::<bool>();
        match m {
            Mutant::UniformInverted => if c { b[pos] } else { a[pos] },
            Mutant::UniformFirstOnly => if c { a[pos] } else { a[pos.min(len - 1)] },
            _ => if c { a[pos] } else { b[pos] },
        }
    }).collect())
}

fn run_recomb(op: Op, tuple: bool, p1: &[u32], p2: &[u32], rng: &mut SplitMix, mutant: Mutant) -> String {
    let res = catch_unwind(AssertUnwindSafe(|| -> Result<Vec<u32>, String> {
        match op {
            Op::TpVec if mutant != Mutant::None => mutant_tp_vec(mutant, p1.to_vec(), p2.to_vec(), rng),
            Op::UniVec if mutant != Mutant::None => mutant_uni_vec(mutant, p1.to_vec(), p2.to_vec(), rng),
            Op::TpVec => if tuple { TwoPointXo.recombine((p1.to_vec(), p2.to_vec()), rng) } else { TwoPointXo.recombine([p1.to_vec(), p2.to_vec()], rng) }.map_err(|e| dgl(&e)),
            Op::UniVec => if tuple { UniformXo.recombine((p1.to_vec(), p2.to_vec()), rng) } else { UniformXo.recombine([p1.to_vec(), p2.to_vec()], rng) }.map_err(|e| dgl(&e)),
            Op::TpG => {
                let a = Bitstring { bits: p1.iter().map(|x| *x != 0).collect() };
                let b = Bitstring { bits: p2.iter().map(|x| *x != 0).collect() };
                if tuple { TwoPointXo.recombine((a, b), rng) } else { TwoPointXo.recombine([a, b], rng) }
                    .map(|c| c.bits.iter().map(|x| *x as u32).collect())
                    .map_err(|e| cge(&e, "GeneAccessRange"))
            }
            Op::UniG => {
                let a = Bitstring { bits: p1.iter().map(|x| *x != 0).collect() };
                let b = Bitstring { bits: p2.iter().map(|x| *x != 0).collect() };
                if tuple { UniformXo.recombine((a, b), rng) } else { UniformXo.recombine([a, b], rng) }
                    .map(|c| c.bits.iter().map(|x| *x as u32).collect())
                    .map_err(|e| cge(&e, "GeneAccess"))
            }
        }
    }));
    match res {
        Ok(Ok(c)) => format!("ok {}", gtok(&c)),
        Ok(Err(e)) => format!("err {e}"),
        Err(_) => "panic".into(),
    }
}

/// model-free property oracle for one recombination result
fn recomb_oracle(op: Op, p1: &[u32], p2: &[u32], real: &str) -> Option<String> {
    if real == "panic" { return Some("recombination panicked (misuse must be reported as an error, empty parents give an empty child)".into()); }
    if p1.len() != p2.len() {
        let want = format!("err DifferentGenomeLength({},{})", p1.len(), p2.len());
        return if real == want { None } else { Some(format!("parents of different lengths must be reported as {want}")) };
    }
    let Some(ctok) = real.strip_prefix("ok ") else { return Some("equal-length parents must yield a child".into()) };
    let child: Vec<u32> = if ctok == "-" { vec![] } else { ctok.split(',').map(|x| x.parse().unwrap()).collect() };
    if child.len() != p1.len() { return Some("child length differs from the parents' length".into()); }
    for i in 0..child.len() {
        if child[i] != p1[i] && child[i] != p2[i] { return Some(format!("gene {i} of the child is neither parent's gene at that position")); }
    }
    if op.two_point() && (0..p1.len()).all(|i| p1[i] != p2[i]) {
        // origins identifiable: positions taken from the second parent must be one contiguous segment
        let from2: Vec<usize> = (0..child.len()).filter(|i| child[*i] == p2[*i]).collect();
        if let (Some(f), Some(l)) = (from2.first(), from2.last()) {
            if l - f + 1 != from2.len() { return Some("genes taken from the second parent do not form one contiguous segment".into()); }
        }
    }
    None
}

fn exch_real(seg: bool, a: &[bool], b: &[bool], x: usize, y: usize, mutant: Mutant) -> String {
    let mut ga = Bitstring { bits: a.to_vec() };
    let mut gb = Bitstring { bits: b.to_vec() };
    let res = catch_unwind(AssertUnwindSafe(|| -> Result<(), String> {
        match mutant {
            Mutant::SegmentNoCheck if seg => {
                // the pre-fix shape: index first, check never
                let (s, e) = (x, y);
                let (l, r) = (&mut ga.bits[s..e], &mut gb.bits[s..e]);
                l.swap_with_slice(r);
                Ok(())
            }
            Mutant::GeneSelfOnly if !seg => {
                // checks only `self`, swaps through a clamped index on `other`
                if x < ga.bits.len() {
                    if gb.bits.is_empty() { return Err(format!("GeneAccess({},{})", x, ga.bits.len())); }
                    let j = x.min(gb.bits.len() - 1);
                    std::mem::swap(&mut ga.bits[x], &mut gb.bits[j]);
                    Ok(())
                } else { Err(format!("GeneAccess({},{})", x, ga.bits.len())) }
            }
            _ => if seg {
                ga.crossover_segment(&mut gb, x..y).map_err(|e| format!("GeneAccessRange({})", nums(&e.to_string()).join(",")))
            } else {
                ga.crossover_gene(&mut gb, x).map_err(|e| format!("GeneAccess({})", nums(&e.to_string()).join(",")))
            },
        }
    }));
    match res {
        Ok(Ok(())) => format!("ok {} {}", btok(&ga.bits), btok(&gb.bits)),
        Ok(Err(e)) => format!("err:{e} {} {}", btok(&ga.bits), btok(&gb.bits)),
        Err(_) => "panic".into(),
    }
}

/// strip the error payload: `err:GeneAccess(1,2) a b` → `err a b` (the Spec reply has no payload)
fn strip_payload(s: &str) -> String {
    let mut it = s.splitn(2, ' ');
    let head = it.next().unwrap_or("");
    let rest = it.next().unwrap_or("");
    format!("{} {}", head.split(':').next().unwrap(), rest)
}

fn check_exchange(d: &mut crate::driver::Driver, r: &mut Report, seg: bool, a: &[bool], b: &[bool], x: usize, y: usize, mutant: Mutant) {
    let req = if seg { format!("xo seg {} {} {x} {y}", btok(a), btok(b)) } else { format!("xo gene {} {} {x}", btok(a), btok(b)) };
    let reply = d.ask(&req);
    let (impl_s, spec_s) = reply.split_once(" ## ").unwrap_or((&reply, ""));
    let real = exch_real(seg, a, b, x, y, mutant);
    let inside = if seg { x < a.len().min(b.len()) || y <= a.len().min(b.len()) } else { x < a.len().max(b.len()) };
    r.case(&req, !a.is_empty() && !b.is_empty() && inside);
    r.hit(&format!("{} -> {}", if seg { "crossover_segment" } else { "crossover_gene" }, real.split(|c| c == ' ' || c == '(').next().unwrap()));
    r.sample(json!({"request": req, "real": real}));
    if real == "panic" {
        r.violate(json!({"case": req, "real": real, "what": "exchange primitive panicked; an exchange addressed outside either genome must be reported as an error"}));
        return;
    }
    if real.starts_with("err") {
        let unchanged = format!("{} {}", btok(a), btok(b));
        if !real.ends_with(&unchanged) {
            r.violate(json!({"case": req, "real": real, "what": "exchange reported an error but changed a genome"}));
        }
    }
    if strip_payload(&real) != spec_s {
        r.violate(json!({"case": req, "real": real, "spec": spec_s, "what": "exchange differs from the Spec: it must swap exactly the addressed genes (error and no change when addressed outside either genome)"}));
    } else if real != impl_s {
        r.disagree(json!({"case": req, "real": real, "impl": impl_s}));
    }
}

fn gen_recomb(g: &mut SplitMix) -> (Op, bool, Vec<u32>, Vec<u32>) {
    let op = *g.pick(&[Op::TpVec, Op::TpG, Op::UniVec, Op::UniG]);
    let tuple = g.chance(1, 2);
    let l1 = match g.below(14) { 0 => 0, 1 => 1, 2 => 2, 3 => 13 + g.below(52), 4 => *g.pick(&[63u64, 64, 65, 127, 128, 129, 200]), _ => g.below(13) } as usize;
    let l2 = if g.chance(4, 5) { l1 } else { match g.below(4) { 0 => 0, 1 => l1 + 1, 2 => l1.saturating_sub(1), _ => g.below(14) as usize } };
    let bits = matches!(op, Op::TpG | Op::UniG);
    let (p1, p2): (Vec<u32>, Vec<u32>) = if bits {
        let a: Vec<u32> = (0..l1).map(|_| g.below(2) as u32).collect();
        let compl = g.chance(7, 10);
        let b: Vec<u32> = (0..l2).map(|i| if compl && i < l1 { 1 - a[i] } else { g.below(2) as u32 }).collect();
        (a, b)
    } else {
        let dup = g.chance(1, 10); // occasionally equal genes at some positions
        ((0..l1).map(|i| 1000 + i as u32).collect(), (0..l2).map(|i| if dup && i % 3 == 0 { 1000 + i as u32 } else { 2000 + i as u32 }).collect())
    };
    (op, tuple, p1, p2)
}

fn check_recomb(d: &mut crate::driver::Driver, r: &mut Report, seed: u64, i: u64, mutant: Mutant) {
    let mut g = SplitMix::derive(seed, i);
    let (op, tuple, p1, p2) = gen_recomb(&mut g);
    let req = format!("xo {} {} {}", op.tok(), gtok(&p1), gtok(&p2));
    let mut real_rng = SplitMix::derive(seed ^ 0xC10C10, i);
    let mut shadow = real_rng.clone();
    let mut second = real_rng.clone();
    let real = run_recomb(op, tuple, &p1, &p2, &mut real_rng, mutant);
    let again = run_recomb(op, !tuple, &p1, &p2, &mut second, mutant);
    if again != real || second != real_rng {
        r.violate(json!({"case": req, "seed_index": i, "what": "array and tuple flavour (or two runs) from equal generator states differ", "first": real, "second": again}));
    }
    let model = d.ask_with(&req, |p| prims::answer(p, &mut shadow, &mut prims::no_user));
    r.case(&format!("{req}#{i}"), !p1.is_empty() && !p2.is_empty());
    r.hit(&format!("{}{} len {} -> {}", op.tok(), if tuple { "(tuple)" } else { "[array]" },
        if p1.len() != p2.len() { "different" } else if p1.is_empty() { "0" } else if p1.len() == 1 { "1" } else { "2+" },
        real.split(' ').next().unwrap()));
    r.sample(json!({"request": req, "real": real, "rng_words": real_rng.words}));
    let same_stream = real_rng.next_u64() == shadow.next_u64();
    if let Some(what) = recomb_oracle(op, &p1, &p2, &real) {
        r.violate(json!({"case": req, "seed_index": i, "real": real, "what": what}));
    }
    if real != model || !same_stream {
        r.disagree(json!({"case": req, "seed_index": i, "real": real, "impl": model, "same_generator_state_after": same_stream}));
    }
}

/// (c) every segment / every mask occurs (real code only)
fn coverage_oracle(r: &mut Report, seed: u64, k: u64, mutant: Mutant) {
    for n in 0..=5usize {
        let p1: Vec<u32> = (0..n).map(|i| 1000 + i as u32).collect();
        let p2: Vec<u32> = (0..n).map(|i| 2000 + i as u32).collect();
        for op in [Op::TpVec, Op::TpG, Op::UniVec, Op::UniG] {
            if !op.two_point() && n > 4 { continue; }
            let bits = matches!(op, Op::TpG | Op::UniG);
            let (q1, q2): (Vec<u32>, Vec<u32>) = if bits { (vec![1; n], vec![0; n]) } else { (p1.clone(), p2.clone()) };
            let mut seen: BTreeSet<Vec<bool>> = BTreeSet::new();
            for s in 0..k {
                let mut rng = SplitMix::derive(seed ^ 0x5E6, s * 64 + n as u64 * 4 + op as u64);
                let real = run_recomb(op, s % 2 == 0, &q1, &q2, &mut rng, mutant);
                if let Some(ctok) = real.strip_prefix("ok ") {
                    let child: Vec<u32> = if ctok == "-" { vec![] } else { ctok.split(',').map(|x| x.parse().unwrap()).collect() };
                    if child.len() == n { seen.insert((0..n).map(|i| child[i] == q2[i]).collect()); }
                }
            }
            r.case(&format!("coverage {} n={n}", op.tok()), n > 0);
            let mut missing = Vec::new();
            if op.two_point() {
                for lo in 0..=n { for hi in lo..=n {
                    let m: Vec<bool> = (0..n).map(|j| lo <= j && j < hi).collect();
                    if !seen.contains(&m) { missing.push(format!("[{lo},{hi})")); }
                } }
            } else {
                for m in 0..(1u32 << n) {
                    let mask: Vec<bool> = (0..n).map(|j| m >> j & 1 == 1).collect();
                    if !seen.contains(&mask) { missing.push(format!("mask {m:0w$b}", w = n)); }
                }
            }
            r.hit_n(&format!("coverage {} n={n}: distinct children", op.tok()), seen.len() as u64);
            if !missing.is_empty() {
                r.violate(json!({"case": format!("coverage {} n={n} over {k} seeds", op.tok()), "real": format!("{} distinct children", seen.len()),
                    "what": format!("{} that the property says can occur never occurred in {k} seeded recombinations (chance of a false alarm < 1e-9): {}",
                        if op.two_point() { "segments" } else { "masks" }, missing.join(" "))}));
            }
        }
    }
}

/// `UEC_LIN_MUTANT=<name>` (testing the check itself, never set by `./check`): replace the real operators by a
/// harness-side mutant so that the whole pipeline can be seen to fail; the report carries a SELFTEST note.
/// (d) uniform crossover decides every position independently: on long genomes (beyond one machine word of coins)
/// the decisions at positions `i` and `i + lag` must agree half of the time.  For independent fair coins the
/// agreement indicators along a lag form a forest of XORs and are mutually independent, so Hoeffding's bound applies
/// to their sum (false-alarm budget 1e-12 over all tests).  Per-position frequencies are checked as well.
fn independence_oracle(r: &mut Report, seed: u64, trials: u64, mutant: Mutant) {
    let len = 200usize;
    let lags = [1usize, 2, 31, 32, 33, 63, 64, 65, 96, 127, 128, 129];
    let tests = (2 * 2 * (lags.len() + 1)) as f64;
    for op in [Op::UniVec, Op::UniG] {
        for tuple in [false, true] {
            let bits = op == Op::UniG;
            let p1: Vec<u32> = if bits { vec![0; len] } else { (0..len as u32).map(|i| 1000 + i).collect() };
            let p2: Vec<u32> = if bits { vec![1; len] } else { (0..len as u32).map(|i| 2000 + i).collect() };
            let mut agree = vec![0u64; lags.len()];
            let mut from_second = vec![0u64; len];
            let mut ok_runs = 0u64;
            for t in 0..trials {
                let mut rng = SplitMix::derive(seed ^ 0x1DE9, t * 4 + tuple as u64 * 2 + bits as u64);
                let real = run_recomb(op, tuple, &p1, &p2, &mut rng, mutant);
                let Some(child) = real.strip_prefix("ok ") else { continue };
                let c: Vec<bool> = nums(child).iter().zip(&p2).map(|(x, y)| x.parse::<u32>().ok() == Some(*y)).collect();
                if c.len() != len { continue; }
                ok_runs += 1;
                for (j, b) in c.iter().enumerate() { if *b { from_second[j] += 1; } }
                for (li, lag) in lags.iter().enumerate() {
                    for i in 0..len - lag { if c[i] == c[i + lag] { agree[li] += 1; } }
                }
            }
            r.case(&format!("independence {} tuple={tuple}", op.tok()), true);
            if ok_runs < trials { r.violate(json!({"case": format!("independence {} tuple={tuple}", op.tok()), "what": "uniform crossover of equal-length parents of length 200 did not return a child of that length", "real": ok_runs})); continue; }
            for (li, lag) in lags.iter().enumerate() {
                let n = (trials * (len - lag) as u64) as f64;
                let tol = (n * (2.0 * tests / 1e-12f64).ln() / 2.0).sqrt();
                let dev = (agree[li] as f64 - n / 2.0).abs();
                if dev > tol {
                    r.violate(json!({"case": format!("independence {} tuple={tuple} length {len}: positions i and i+{lag} over {trials} seeded recombinations", op.tok()),
                        "real": format!("{} agreements of {}", agree[li], n), "what": format!("uniform crossover does not decide the positions independently: decisions {lag} apart agree {:.1}% of the time (expected 50%, tolerance {:.0} of {} at a 1e-12 false-alarm budget)", 100.0 * agree[li] as f64 / n, tol, n)}));
                }
            }
            let tol1 = (trials as f64 * (2.0 * tests * len as f64 / 1e-12f64).ln() / 2.0).sqrt();
            if let Some((j, c)) = from_second.iter().enumerate().find(|(_, c)| (**c as f64 - trials as f64 / 2.0).abs() > tol1) {
                r.violate(json!({"case": format!("independence {} tuple={tuple} length {len}: position {j}", op.tok()), "real": format!("{c} of {trials} from the second parent"),
                    "what": "a position of a long genome does not take its gene from either parent with probability 1/2"}));
            }
            r.hit_n("independence trials", trials);
        }
    }
    r.notes.push(format!("independence oracle: uniform crossover on genomes of length {len}, {trials} recombinations per flavour, agreement of decisions at lags {lags:?} and per-position frequencies (Hoeffding, 1e-12)"));
}

/// (f) a caller-defined `Crossover` genome whose exchange primitives refuse some positions: the recombinators hand that
/// refusal on as `Crossover(e)` exactly when the exchange is attempted (uniform: the first position in genome order
/// whose coin says "take from the second parent"; two-point: a drawn segment containing the frozen position), and
/// otherwise return the child the coins / cut points prescribe.  The draws are read off a clone of the generator with
/// the model's rule (one `bool` per position; two `0..=len` cut points, ordered).  Model-free.
fn refusing_genomes(r: &mut Report, seed: u64) {
    use rand::Rng;
    #[derive(Clone, Debug, PartialEq)]
    struct Track { genes: Vec<u8>, frozen: Option<usize> }
    #[derive(Debug, PartialEq)]
    struct Frozen(usize);
    impl std::fmt::Display for Frozen { fn fmt(&self, f: &mut std::fmt::Formatter<'_>) -> std::fmt::Result { write!(f, "gene {} is frozen", self.0) } }
    impl std::error::Error for Frozen {}
    impl ec_core::genome::Genome for Track { type Gene = u8; }
    impl ec_linear::genome::Linear for Track {
        fn size(&self) -> usize { self.genes.len() }
        fn gene_mut(&mut self, index: usize) -> Option<&mut u8> { self.genes.get_mut(index) }
    }
    impl Crossover for Track {
        type GeneCrossoverError = Frozen;
        type SegmentCrossoverError = Frozen;
        fn crossover_gene(&mut self, other: &mut Self, index: usize) -> Result<(), Frozen> {
            if self.frozen == Some(index) { return Err(Frozen(index)); }
            std::mem::swap(&mut self.genes[index], &mut other.genes[index]);
            Ok(())
        }
        fn crossover_segment(&mut self, other: &mut Self, range: std::ops::Range<usize>) -> Result<(), Frozen> {
            if let Some(f) = self.frozen { if range.contains(&f) { return Err(Frozen(f)); } }
            self.genes[range.clone()].swap_with_slice(&mut other.genes[range]);
            Ok(())
        }
    }
    let mut bad: Vec<String> = vec![];
    let mut n = 0u64;
    for len in [1usize, 2, 5, 9] {
        for frozen in [None, Some(0usize), Some(len / 2), Some(len - 1)] {
            for s in 0..40u64 {
                n += 1;
                let base = SplitMix::derive(seed ^ 0xF20, (len as u64) << 16 | (frozen.map_or(99, |f| f as u64)) << 8 | s);
                let a = Track { genes: (0..len as u8).collect(), frozen };
                let b = Track { genes: (0..len as u8).map(|x| 100 + x).collect(), frozen: None };
                // uniform: one coin per position, in order; the first refused exchange ends it
                let mut sh = base.clone();
                let mut want: Result<Vec<u8>, usize> = Ok(a.genes.clone());
                for i in 0..len {
                    if sh.random::<bool>() {
                        if frozen == Some(i) { want = Err(i); break; }
                        if let Ok(g) = &mut want { g[i] = b.genes[i]; }
                    }
                }
                for tuple in [false, true] {
                    let mut rng = base.clone();
                    let got = catch_unwind(AssertUnwindSafe(|| if tuple { UniformXo.recombine((a.clone(), b.clone()), &mut rng) } else { UniformXo.recombine([a.clone(), b.clone()], &mut rng) }));
                    let got = match got {
                        Err(_) => { bad.push(format!("UniformXo on a caller-defined genome of length {len} (frozen {frozen:?}) panicked")); continue; }
                        Ok(Ok(child)) => Ok(child.genes),
                        Ok(Err(CrossoverGeneError::Crossover(Frozen(i)))) => Err(i),
                        Ok(Err(e)) => { bad.push(format!("UniformXo on equal-length caller-defined genomes reported {e:?}")); continue; }
                    };
                    if got != want { bad.push(format!("UniformXo ({}) on a genome of length {len} whose position {frozen:?} refuses exchanges: got {got:?}, the coins of this stream prescribe {want:?} (Ok = child genes, Err = refused position)", if tuple { "tuple" } else { "array" })); }
                }
                // two-point: two cut points in 0..=len, ordered; the segment between them comes from the second parent
                let mut sh = base.clone();
                let (mut c1, mut c2) = (sh.random_range(0..=len), sh.random_range(0..=len));
                if c2 < c1 { std::mem::swap(&mut c1, &mut c2); }
                let want2: Result<Vec<u8>, usize> = match frozen { Some(f) if (c1..c2).contains(&f) => Err(f), _ => { let mut g = a.genes.clone(); g[c1..c2].copy_from_slice(&b.genes[c1..c2]); Ok(g) } };
                let mut rng = base.clone();
                let got2 = catch_unwind(AssertUnwindSafe(|| TwoPointXo.recombine([a.clone(), b.clone()], &mut rng)));
                match got2 {
                    Err(_) => bad.push(format!("TwoPointXo on a caller-defined genome of length {len} (frozen {frozen:?}) panicked")),
                    Ok(res) => {
                        let got2: Result<Vec<u8>, usize> = match res { Ok(child) => Ok(child.genes), Err(e) => { let t = format!("{e:?}"); match frozen { Some(f) if t.contains(&format!("Frozen({f})")) => Err(f), _ => Err(usize::MAX) } } };
                        if got2 != want2 { bad.push(format!("TwoPointXo on a genome of length {len} whose position {frozen:?} refuses exchanges, cut points {c1}..{c2}: got {got2:?}, expected {want2:?}")); }
                    }
                }
            }
        }
    }
    r.case("caller-defined Crossover genome with refusing positions", true);
    r.hit_n("recombinations of a refusing caller-defined genome (oracle only)", n);
    for what in bad.into_iter().take(6) {
        r.violate(json!({"case": "UniformXo / TwoPointXo over a caller-defined Crossover genome whose exchange primitives refuse one position", "what": what}));
    }
}

/// (e) parents of astronomic length (zero-sized genes, so they cost nothing): two-point crossover of equal-length
/// parents returns a child of that length - cut points range over 0..=len also when len + 1 does not exist
fn astronomic_parents(r: &mut Report, seed: u64) {
    for (k, len) in [usize::MAX, usize::MAX - 1, usize::MAX / 2 + 1].into_iter().enumerate() {
        for tuple in [false, true] {
            let mut rng = SplitMix::derive(seed ^ 0xA57, k as u64 * 2 + tuple as u64);
            let res = catch_unwind(AssertUnwindSafe(|| {
                let (p1, p2): (Vec<()>, Vec<()>) = (vec![(); len], vec![(); len]);
                let child = if tuple { TwoPointXo.recombine((p1, p2), &mut rng) } else { TwoPointXo.recombine([p1, p2], &mut rng) };
                child.map(|c| c.len()).map_err(|e| dgl(&e))
            }));
            r.case(&format!("astronomic parents {len} tuple={tuple}"), true);
            r.hit("two-point crossover of parents of astronomic length (zero-sized genes)");
            let bad = match res { Ok(Ok(n)) if n == len => None, Ok(other) => Some(format!("{other:?}")), Err(_) => Some("panic".to_string()) };
            if let Some(b) = bad {
                r.violate(json!({"case": format!("TwoPointXo on two parents of {len} zero-sized genes (tuple form: {tuple})"), "real": b, "spec": format!("Ok(child of length {len})"),
                    "what": "recombining equal-length parents must give a child of that length, never an error or a panic"}));
            }
        }
        // different astronomic lengths are still a length mismatch
        let mut rng = SplitMix::derive(seed ^ 0xA58, k as u64);
        let res = catch_unwind(AssertUnwindSafe(|| TwoPointXo.recombine([vec![(); len], vec![(); len - 1]], &mut rng).map(|c| c.len()).map_err(|e| dgl(&e))));
        if !matches!(&res, Ok(Err(e)) if e.starts_with("DifferentGenomeLength")) {
            r.violate(json!({"case": format!("TwoPointXo on parents of {len} and {} zero-sized genes", len - 1), "real": format!("{res:?}"), "what": "parents of different lengths must be reported as DifferentGenomeLength"}));
        }
    }
}

fn env_mutant() -> Mutant {
    match std::env::var("UEC_LIN_MUTANT").as_deref() {
        Ok("CutExclusive") => Mutant::CutExclusive, Ok("NoSwapCuts") => Mutant::NoSwapCuts, Ok("UniformInverted") => Mutant::UniformInverted,
        Ok("UniformFirstOnly") => Mutant::UniformFirstOnly, Ok("SegmentNoCheck") => Mutant::SegmentNoCheck, Ok("GeneSelfOnly") => Mutant::GeneSelfOnly,
        _ => Mutant::None,
    }
}

pub fn run(cfg: &Cfg) -> Report { run_with(cfg, env_mutant()) }

pub fn run_with(cfg: &Cfg, mutant: Mutant) -> Report {
    let seed = cfg.seed;
    let l_max: usize = if cfg.thorough { 8 } else { 6 };
    // exhaustive exchange scope: (la, lb, pattern) triples; inner loops over indices
    let patterns: u64 = if cfg.thorough { 3 } else { 2 };
    let n_pairs = ((l_max + 1) * (l_max + 1)) as u64 * patterns;
    let n_rand: u64 = if cfg.thorough { 1_500_000 } else { 40_000 };
    let mut rep = run_sharded(&cfg.driver, cfg.threads, n_pairs + n_rand, || Report::new("xo", RULE), |d, r, i| {
        if i < n_pairs {
            let pat = i % patterns;
            let la = ((i / patterns) as usize) % (l_max + 1);
            let lb = ((i / patterns) as usize) / (l_max + 1);
            let mut g = SplitMix::derive(seed ^ 0xE8C4, i);
            let (a, b): (Vec<bool>, Vec<bool>) = if pat == 0 { (vec![true; la], vec![false; lb]) }
                else { ((0..la).map(|_| g.chance(1, 2)).collect(), (0..lb).map(|_| g.chance(1, 2)).collect()) };
            let top = la.max(lb) + 2;
            // every index / range end up to two past the longer genome, and the extremes of usize (an index + 1 or a
            // range length computed without care overflows there)
            let idx: Vec<usize> = (0..=top).chain([usize::MAX / 2, usize::MAX - 1, usize::MAX]).collect();
            for &x in &idx {
                check_exchange(d, r, false, &a, &b, x, 0, mutant);
                for &y in &idx { check_exchange(d, r, true, &a, &b, x, y, mutant); }
            }
        } else {
            check_recomb(d, r, seed, i, mutant);
        }
    });
    coverage_oracle(&mut rep, seed, if cfg.thorough { 4000 } else { 1200 }, mutant);
    independence_oracle(&mut rep, seed, if cfg.thorough { 6000 } else { 1500 }, mutant);
    if mutant == Mutant::None { crate::watch::guarded("xo: parents of astronomic length (zero-sized genes); caller-defined genome with refusing positions", || { astronomic_parents(&mut rep, seed); refusing_genomes(&mut rep, seed); }); }
    rep.exhaustive = false;
    rep.notes.push(format!("exchange scope exhaustive: lengths 0..={l_max} x 0..={l_max}, {patterns} bit patterns, every index in [0,max+2], every (start,end) in [0,max+2]^2; {n_rand} seeded recombinations; coverage oracle for n<=5"));
    if mutant != Mutant::None { rep.notes.push(format!("SELFTEST: the real operators were replaced by the mutant {mutant:?}")); }
    rep
}

/// `uec-harness xo-selftest`: every mutant must be caught (by an oracle => violation, or at least by the
/// correspondence => disagreement).  Not part of `./check`; run by hand to validate the check's teeth.
pub fn selftest(cfg: &Cfg) -> Report {
    let mut rep = Report::new("xo-selftest", "each built-in mutant of the ec-linear recombinators must be detected");
    for m in [Mutant::CutExclusive, Mutant::NoSwapCuts, Mutant::UniformInverted, Mutant::UniformFirstOnly, Mutant::SegmentNoCheck, Mutant::GeneSelfOnly] {
        let r = run_with(cfg, m);
        let j = r.to_json();
        let (v, d) = (j["n_violations"].as_u64().unwrap_or(0), j["n_disagreements"].as_u64().unwrap_or(0));
        rep.case(&format!("{m:?}"), true);
        rep.notes.push(format!("mutant {m:?}: violations={v} disagreements={d} first_violation={}", j["violations"].get(0).map(|x| x["what"].to_string()).unwrap_or_default()));
        if v + d == 0 { rep.violate(json!({"case": format!("{m:?}"), "what": "mutant not detected"})); }
    }
    rep
}
