//! C18: collection generators and uniform choices — the REAL ec-core / ec-linear / push code against
//! the Lean Impl model (`Uec.Gen`, tape level) and against the property (Lean Spec + model-free oracles).
//!
//! `UEC_GEN_MUTANT=<name>` replaces the call into the real code by a deliberately broken copy kept in
//! this file (self-test of the check's sensitivity; never set in a normal run).
use crate::driver::Driver;
use crate::prims;
use crate::report::Report;
use crate::rng::SplitMix;
use crate::shard::run_sharded;
use crate::Cfg;
use ec_core::distributions::choices::ChoicesDistribution;
use ec_core::distributions::collection::ConvertToCollectionGenerator;
use ec_core::distributions::conversion::{IntoDistribution, ToDistribution};
use ec_core::distributions::wrappers::choose_cloning::{ChooseCloning, EmptySlice};
use ec_core::distributions::wrappers::owned::OneOfCloning;
use ec_core::individual::ec::{EcIndividual, WithScorer};
use ec_core::individual::scorer::FnScorer;
use ec_core::population::Population;
use ec_linear::genome::bitstring::{Bitstring, BoolGenerator};
use push::genome::plushy::{ConvertToGeneGenerator, GeneGenerator, Plushy, PushGene};
use push::instruction::{IntInstruction, PushInstruction};
use rand::distr::{Distribution, StandardUniform, Uniform};
use rand::{Rng, RngCore};
use serde_json::json;
use std::cell::RefCell;
use std::num::NonZeroUsize;

// ---------------------------------------------------------------------------------------------
// canonical values
// ---------------------------------------------------------------------------------------------

#[derive(Clone, Debug, PartialEq)]
pub enum RVal {
    Int(i64),
    List(Vec<RVal>),
}
impl RVal {
    fn show(&self) -> String {
        match self {
            RVal::Int(i) => i.to_string(),
            RVal::List(l) => format!("[{}]", l.iter().map(|x| x.show()).collect::<Vec<_>>().join(",")),
        }
    }
    fn shape(&self) -> String {
        match self {
            RVal::Int(_) => ".".into(),
            RVal::List(l) => format!("[{}]", l.iter().map(|x| x.shape()).collect::<Vec<_>>().join(",")),
        }
    }
    fn leaves(&self, out: &mut Vec<i64>) {
        match self {
            RVal::Int(i) => out.push(*i),
            RVal::List(l) => l.iter().for_each(|x| x.leaves(out)),
        }
    }
}
fn ints(l: &[i64]) -> RVal { RVal::List(l.iter().map(|x| RVal::Int(*x)).collect()) }
fn bits(l: &[bool]) -> RVal { RVal::List(l.iter().map(|x| RVal::Int(*x as i64)).collect()) }

// ---------------------------------------------------------------------------------------------
// probes (caller-supplied distributions), identical on the model side (`Prim.user d`)
// ---------------------------------------------------------------------------------------------

/// value of the probe drawing `d` words
pub fn probe_value<R: RngCore + ?Sized>(rng: &mut R, d: u64) -> i64 {
    let mut acc: u64 = 0x9E37_79B9_7F4A_7C15;
    for _ in 0..d {
        acc = (acc ^ rng.next_u64()).wrapping_mul(0x0000_0100_0000_01B3);
    }
    (acc >> 33) as i64
}

/// `Distribution<i64>` probe: draws `d` words, logs what it returned
struct Probe {
    d: u64,
    log: RefCell<Vec<i64>>,
}
impl Probe {
    fn new(d: u64) -> Self { Self { d, log: RefCell::new(vec![]) } }
}
impl Distribution<i64> for Probe {
    fn sample<R: Rng + ?Sized>(&self, rng: &mut R) -> i64 {
        let v = probe_value(rng, self.d);
        self.log.borrow_mut().push(v);
        v
    }
}
/// `Distribution<PushInstruction>` probe (one word)
struct InstrProbe;
impl Distribution<PushInstruction> for InstrProbe {
    fn sample<R: Rng + ?Sized>(&self, rng: &mut R) -> PushInstruction {
        PushInstruction::IntInstruction(IntInstruction::push(probe_value(rng, 1)))
    }
}

fn user_answer(tag: u64, rng: &mut SplitMix) -> String {
    format!("n {}", probe_value(rng, tag))
}

fn instr(j: i64) -> PushInstruction { PushInstruction::IntInstruction(IntInstruction::push(j)) }
fn gene_code(g: &PushGene) -> Option<i64> {
    match g {
        PushGene::Close => Some(-1),
        PushGene::Instruction(PushInstruction::IntInstruction(IntInstruction::Push(v))) => Some(v.0),
        _ => None,
    }
}

// ---------------------------------------------------------------------------------------------
// self-test mutants
// ---------------------------------------------------------------------------------------------

fn mutant() -> String { std::env::var("UEC_GEN_MUTANT").unwrap_or_default() }

/// copy of collection.rs `Generator::sample` with the mutation applied
fn mutant_collect<T: Clone, C: Distribution<T>, R: Rng + ?Sized>(m: &str, c: &C, size: usize, rng: &mut R) -> Vec<T> {
    match m {
        "coll_take_plus_one" => c.sample_iter(rng).take(size + 1).collect(),
        "coll_take_minus_one" => c.sample_iter(rng).take(size.saturating_sub(1)).collect(),
        "coll_one_draw_repeated" => {
            if size == 0 { vec![] } else { let x = c.sample(rng); vec![x; size] }
        }
        _ => unreachable!(),
    }
}
fn is_coll_mutant(m: &str) -> bool { m.starts_with("coll_") }

/// copy of owned.rs `OneOfCloning` with a mutation
struct MutOneOf<T> {
    collection: Vec<T>,
    range: Uniform<usize>,
    num_choices: NonZeroUsize,
    broken_empty: bool,
}
impl<T: Clone> MutOneOf<T> {
    fn new(m: &str, collection: Vec<T>) -> Result<Self, EmptySlice> {
        let len = collection.len();
        match m {
            "choice_empty_accepted" => {
                let n = NonZeroUsize::new(len.max(1)).unwrap();
                Ok(Self { collection, range: Uniform::new(0, n.get()).unwrap(), num_choices: n, broken_empty: len == 0 })
            }
            _ => {
                let n = NonZeroUsize::new(len).ok_or(EmptySlice)?;
                let range = match m {
                    "choice_range_minus_one" => Uniform::new(0, n.get() - 1).map_err(|_| EmptySlice)?,
                    "choice_range_inclusive" => Uniform::new_inclusive(0, n.get()).map_err(|_| EmptySlice)?,
                    "choice_range_from_one" => Uniform::new(1.min(n.get() - 1), n.get()).map_err(|_| EmptySlice)?,
                    _ => Uniform::new(0, n.get()).map_err(|_| EmptySlice)?,
                };
                let num_choices = if m == "choice_num_plus_one" { NonZeroUsize::new(len + 1).unwrap() } else { n };
                Ok(Self { collection, range, num_choices, broken_empty: false })
            }
        }
    }
}
impl<T> ChoicesDistribution for MutOneOf<T> {
    fn num_choices(&self) -> NonZeroUsize { self.num_choices }
}
impl<T: Clone> Distribution<T> for MutOneOf<T> {
    fn sample<R: Rng + ?Sized>(&self, rng: &mut R) -> T {
        let _ = self.broken_empty;
        let idx = self.range.sample(rng);
        self.collection.get(idx).unwrap().clone()
    }
}
fn is_choice_mutant(m: &str) -> bool { m.starts_with("choice_") }

// ---------------------------------------------------------------------------------------------
// collection cases
// ---------------------------------------------------------------------------------------------

#[derive(Clone, Debug)]
enum Leaf {
    Probe(u64),
    Bool,
    BoolP(f64),
    /// close probability bits (f32), instruction set size, kind 0 = OneOfCloning, 1 = ChooseCloning, 2 = probe, uniform-close flag
    Gene(u32, usize, u8, bool),
}
impl Leaf {
    fn token(&self) -> String {
        match self {
            Leaf::Probe(d) => format!("probe {d}"),
            Leaf::Bool => "bool".into(),
            Leaf::BoolP(p) => format!("boolp {}", p.to_bits()),
            Leaf::Gene(cp, m, k, _) => format!("gene {cp} {m} {}", ["oneof", "choosecloning", "probe"][*k as usize]),
        }
    }
}

/// shape: `coll n leaf` | `coll m (coll n leaf)` | `coll m (ind (coll n leaf))`, with API variants
#[derive(Clone, Debug)]
struct CollCase {
    leaf: Leaf,
    n: usize,
    outer: Option<usize>,
    scored: bool,
    /// which of the equivalent public entry points is used
    variant: u8,
}
impl CollCase {
    fn token(&self) -> String {
        let inner = format!("coll {} {}", self.n, self.leaf.token());
        match (self.outer, self.scored) {
            (None, _) => inner,
            (Some(m), false) => format!("coll {m} {inner}"),
            (Some(m), true) => format!("coll {m} ind {inner}"),
        }
    }
    fn expected_shape(&self) -> String {
        let inner = format!("[{}]", vec!["."; self.n].join(","));
        match (self.outer, self.scored) {
            (None, _) => inner,
            (Some(m), false) => format!("[{}]", vec![inner; m].join(",")),
            (Some(m), true) => format!("[{}]", vec![format!("[{inner},.]"); m].join(",")),
        }
    }
}

struct CollReal {
    value: RVal,
    /// everything the probes handed out, in call order (None when the leaf is not a logging probe)
    probe_log: Option<Vec<i64>>,
    /// `Population::size()` of the outer collection where one exists
    pop_size: Option<usize>,
    /// genes outside {Close} ∪ instruction set, scores that are not the score of the carried genome, …
    complaints: Vec<String>,
}

fn plushy_val(p: &Plushy, m: usize, kind: u8, complaints: &mut Vec<String>) -> RVal {
    RVal::List(p.get_genes().iter().map(|g| match gene_code(g) {
        Some(c) => {
            if c != -1 && kind != 2 && !(0 <= c && (c as usize) < m) { complaints.push(format!("gene {c} is not a member of the instruction set of size {m}")); }
            RVal::Int(c)
        }
        None => { complaints.push(format!("gene {g:?} is not a member of the instruction set")); RVal::Int(-99) }
    }).collect())
}

/// Run the real generator for one case on `rng`.
fn coll_real(c: &CollCase, rng: &mut SplitMix) -> CollReal {
    let mt = mutant();
    let mutated = is_coll_mutant(&mt);
    let mut complaints = vec![];
    let mut pop_size = None;
    let (value, probe_log) = match (&c.leaf, c.outer, c.scored) {
        // ---- flat collections -------------------------------------------------------------
        (Leaf::Probe(d), None, _) => {
            let p = Probe::new(*d);
            let v: Vec<i64> = if mutated { mutant_collect(&mt, &p, c.n, rng) } else {
                match c.variant % 4 {
                    0 => p.to_collection_generator(c.n).sample(rng),
                    1 => rng.sample(p.to_collection_generator(c.n)),
                    2 => ec_core::distributions::collection::Generator::new(&p, c.n).sample(rng),
                    _ => {
                        // one Generator value used, resized through its public field, and used again
                        let mut gen = ec_core::distributions::collection::Generator::new(&p, (c.n + 3) % 7);
                        let mut scratch = SplitMix::derive(0xFEED, c.n as u64);
                        let _: Vec<i64> = gen.sample(&mut scratch);
                        p.log.borrow_mut().clear();
                        gen.size = c.n;
                        gen.sample(rng)
                    }
                }
            };
            pop_size = Some(Population::size(&v));
            (ints(&v), Some(p.log.into_inner()))
        }
        (Leaf::Bool, None, _) => {
            let b: Vec<bool> = if mutated { mutant_collect(&mt, &StandardUniform, c.n, rng) } else {
                match c.variant % 3 {
                    0 => Bitstring::random(c.n, rng).bits,
                    1 => { let b: Bitstring = StandardUniform.into_collection_generator(c.n).sample(rng); b.bits }
                    _ => StandardUniform.to_collection_generator(c.n).sample(rng),
                }
            };
            (bits(&b), None)
        }
        (Leaf::BoolP(p), None, _) => {
            let g = BoolGenerator::new(*p);
            let b: Vec<bool> = if mutated { mutant_collect(&mt, &g, c.n, rng) } else {
                match c.variant % 4 {
                    0 => Bitstring::random_with_probability(c.n, *p, rng).bits,
                    1 => { let b: Bitstring = g.to_collection_generator(c.n).sample(rng); b.bits }
                    2 => {
                        // an element generator that was used with another probability before and reconfigured through its public field
                        let mut g2 = BoolGenerator::new(if *p > 0.5 { 0.0 } else { 1.0 });
                        let mut scratch = SplitMix::derive(0xB001, c.n as u64);
                        let _: Vec<bool> = g2.to_collection_generator(3).sample(&mut scratch);
                        g2.true_probability = *p;
                        let b: Bitstring = g2.to_collection_generator(c.n).sample(rng); b.bits
                    }
                    _ => {
                        // ... and the same through a collection generator value that is used, reconfigured (element generator and size) and used again
                        let mut cg = BoolGenerator::new(if *p > 0.5 { 0.0 } else { 1.0 }).into_collection_generator((c.n + 2) % 5);
                        let mut scratch = SplitMix::derive(0xB002, c.n as u64);
                        let _: Vec<bool> = cg.sample(&mut scratch);
                        cg.element_generator.true_probability = *p;
                        cg.size = c.n;
                        cg.sample(rng)
                    }
                }
            };
            (bits(&b), None)
        }
        (Leaf::Gene(cp, m, kind, uniform_close), None, _) => {
            let set: Vec<PushInstruction> = (0..*m as i64).map(instr).collect();
            let cpf = f32::from_bits(*cp);
            let p: Plushy = match kind {
                0 => {
                    let d: OneOfCloning<Vec<PushInstruction>, PushInstruction> = set.clone().into_distribution().expect("non-empty");
                    let gg = if *uniform_close { GeneGenerator::with_uniform_close_probability(d) } else { d.into_gene_generator_with_close_probability(cpf) };
                    if mutated { Plushy::new(mutant_collect::<PushGene, _, _>(&mt, &gg, c.n, rng)) } else if c.variant % 2 == 0 { gg.to_collection_generator(c.n).sample(rng) } else { rng.sample(gg.into_collection_generator(c.n)) }
                }
                1 => {
                    let d: ChooseCloning<'_, PushInstruction> = ToDistribution::<PushInstruction>::to_distribution(&set).expect("non-empty");
                    if *uniform_close && c.variant % 2 == 1 && !mutated {
                        // the borrowing default: `to_gene_generator()` = uniform close probability 1/(n+1)
                        d.to_gene_generator().to_collection_generator(c.n).sample(rng)
                    } else {
                        let gg = if *uniform_close { d.into_gene_generator() } else { GeneGenerator::new(cpf, d) };
                        if mutated { Plushy::new(mutant_collect::<PushGene, _, _>(&mt, &gg, c.n, rng)) } else { gg.to_collection_generator(c.n).sample(rng) }
                    }
                }
                _ => {
                    let gg = InstrProbe.to_gene_generator_with_close_probability(cpf);
                    if mutated { Plushy::new(mutant_collect::<PushGene, _, _>(&mt, &gg, c.n, rng)) } else { gg.into_collection_generator(c.n).sample(rng) }
                }
            };
            use ec_linear::genome::Linear;
            pop_size = Some(p.size());
            (plushy_val(&p, *m, *kind, &mut complaints), None)
        }
        // ---- populations of genomes -------------------------------------------------------
        (Leaf::Probe(d), Some(m), false) => {
            let p = Probe::new(*d);
            let inner = p.to_collection_generator(c.n);
            let v: Vec<Vec<i64>> = if mutated { mutant_collect(&mt, &inner, m, rng) } else { inner.into_collection_generator(m).sample(rng) };
            pop_size = Some(Population::size(&v));
            (RVal::List(v.iter().map(|x| ints(x)).collect()), Some(p.log.into_inner()))
        }
        (Leaf::Bool, Some(m), false) => {
            let inner = StandardUniform.into_collection_generator(c.n);
            let v: Vec<Bitstring> = if mutated { mutant_collect(&mt, &inner, m, rng) } else { inner.into_collection_generator(m).sample(rng) };
            pop_size = Some(Population::size(&v));
            (RVal::List(v.iter().map(|x| bits(&x.bits)).collect()), None)
        }
        (Leaf::BoolP(p), Some(m), false) => {
            let inner = BoolGenerator::new(*p).into_collection_generator(c.n);
            let v: Vec<Bitstring> = if mutated { mutant_collect(&mt, &inner, m, rng) } else { inner.to_collection_generator(m).sample(rng) };
            pop_size = Some(Population::size(&v));
            (RVal::List(v.iter().map(|x| bits(&x.bits)).collect()), None)
        }
        (Leaf::Gene(cp, mm, kind, _), Some(m), false) => {
            let set: Vec<PushInstruction> = (0..*mm as i64).map(instr).collect();
            let cpf = f32::from_bits(*cp);
            let v: Vec<Plushy> = match kind {
                0 => {
                    let gg = GeneGenerator::new(cpf, OneOfCloning::new(set.clone()).expect("non-empty"));
                    let inner = gg.to_collection_generator(c.n);
                    if mutated { mutant_collect(&mt, &inner, m, rng) } else { inner.into_collection_generator(m).sample(rng) }
                }
                1 => {
                    let gg = GeneGenerator::new(cpf, ChooseCloning::new(&set).expect("non-empty"));
                    let inner = gg.to_collection_generator(c.n);
                    if mutated { mutant_collect(&mt, &inner, m, rng) } else { inner.into_collection_generator(m).sample(rng) }
                }
                _ => {
                    let gg = GeneGenerator::new(cpf, InstrProbe);
                    let inner = gg.to_collection_generator(c.n);
                    if mutated { mutant_collect(&mt, &inner, m, rng) } else { inner.into_collection_generator(m).sample(rng) }
                }
            };
            pop_size = Some(Population::size(&v));
            (RVal::List(v.iter().map(|x| plushy_val(x, *mm, *kind, &mut complaints)).collect()), None)
        }
        // ---- populations of scored individuals --------------------------------------------
        (Leaf::Probe(d), Some(m), true) => {
            let p = Probe::new(*d);
            let scorer = FnScorer(|g: &Vec<i64>| g.iter().sum::<i64>());
            let ig = p.to_collection_generator(c.n).with_scorer(scorer);
            let v: Vec<EcIndividual<Vec<i64>, i64>> = if mutated { mutant_collect(&mt, &ig, m, rng) } else { ig.into_collection_generator(m).sample(rng) };
            pop_size = Some(Population::size(&v));
            for i in &v { if i.test_results != i.genome.iter().sum::<i64>() { complaints.push("individual does not carry the score of its genome".into()); } }
            (RVal::List(v.iter().map(|i| RVal::List(vec![ints(&i.genome), RVal::Int(i.test_results)])).collect()), Some(p.log.into_inner()))
        }
        (leaf, Some(m), true) => {
            // bitstring individuals scored by the number of ones (hiff / count_ones examples)
            let scorer = FnScorer(|g: &Bitstring| g.bits.iter().filter(|b| **b).count() as i64);
            let v: Vec<EcIndividual<Bitstring, i64>> = match leaf {
                Leaf::BoolP(p) => {
                    let ig = BoolGenerator::new(*p).into_collection_generator(c.n).with_scorer(scorer);
                    if mutated { mutant_collect(&mt, &ig, m, rng) } else { ig.into_collection_generator(m).sample(rng) }
                }
                _ => {
                    let ig = StandardUniform.into_collection_generator(c.n).with_scorer(scorer);
                    if mutated { mutant_collect(&mt, &ig, m, rng) } else { ig.into_collection_generator(m).sample(rng) }
                }
            };
            pop_size = Some(Population::size(&v));
            for i in &v { if i.test_results != i.genome.bits.iter().filter(|b| **b).count() as i64 { complaints.push("individual does not carry the score of its genome".into()); } }
            (RVal::List(v.iter().map(|i| RVal::List(vec![bits(&i.genome.bits), RVal::Int(i.test_results)])).collect()), None)
        }
    };
    CollReal { value, probe_log, pop_size, complaints }
}

fn gen_coll_case(g: &mut SplitMix, thorough: bool) -> CollCase {
    let big = if thorough { 2000 } else { 64 };
    let size = |g: &mut SplitMix| -> usize {
        (match g.below(10) { 0 => 0, 1 => 1, 2 => 2, 3 => big, 4 => g.below(big + 1), _ => g.below(12) }) as usize
    };
    let leaf = match g.below(10) {
        0..=2 => Leaf::Probe(g.below(4)),
        3..=4 => Leaf::Bool,
        5..=6 => Leaf::BoolP(*g.pick(&[0.0, 1.0, 0.5, 0.25, 0.999, 1e-9])),
        _ => {
            let m = 1 + g.below(6) as usize;
            let uniform_close = g.chance(1, 3);
            let cp: f32 = if uniform_close { 1.0 / ((m + 1) as f32) } else { *g.pick(&[0.0f32, 1.0, 0.5, 0.1, 0.9, 1.0e-7]) };
            let kind = g.below(3) as u8;
            // with_uniform_close_probability needs a ChoicesDistribution: not the probe
            let (kind, uniform_close) = if kind == 2 { (2, false) } else { (kind, uniform_close) };
            let cp = if uniform_close { 1.0 / ((m + 1) as f32) } else { cp };
            Leaf::Gene(cp.to_bits(), m, kind, uniform_close)
        }
    };
    let nested = g.chance(2, 5);
    let n = size(g);
    let (outer, scored) = if nested {
        let m = (match g.below(8) { 0 => 0, 1 => 1, 2 => if thorough { 300 } else { 40 }, _ => g.below(9) }) as usize;
        let scored = !matches!(leaf, Leaf::Gene(..)) && g.chance(1, 2);
        (Some(m), scored)
    } else { (None, false) };
    // keep nested cases small enough for the line protocol
    let n = if outer.is_some() { n.min(if thorough { 200 } else { 24 }) } else { n };
    CollCase { leaf, n, outer, scored, variant: g.below(6) as u8 }
}

fn run_coll_case(d: &mut Driver, r: &mut Report, c: &CollCase, seed: u64, i: u64) {
    let req = format!("gen coll {}", c.token());
    let mut real_rng = SplitMix::derive(seed ^ 0xC18, i);
    let mut shadow = real_rng.clone();
    let mut second = real_rng.clone();
    let real = std::panic::catch_unwind(std::panic::AssertUnwindSafe(|| coll_real(c, &mut real_rng)));
    let again = std::panic::catch_unwind(std::panic::AssertUnwindSafe(|| coll_real(c, &mut second)));
    let model = d.ask_with(&req, |p| prims::answer(p, &mut shadow, &mut user_answer));
    let consumed = real_rng.words;
    let total = c.outer.unwrap_or(1) * c.n;
    r.case(&format!("{req}#{i}"), total >= 2 && consumed > 0);
    let leafk = c.leaf.token().split(' ').next().unwrap().to_string();
    r.hit(&format!("coll leaf={leafk} nesting={}", match (c.outer, c.scored) { (None, _) => "flat", (Some(_), false) => "population-of-genomes", _ => "population-of-individuals" }));
    r.hit(&format!("coll size {}", match c.n { 0 => "0", 1 => "1", 2 => "2", 3..=12 => "3-12", 13..=64 => "13-64", _ => ">64" }));
    if let Some(m) = c.outer { r.hit(&format!("coll outer size {}", match m { 0 => "0", 1 => "1", 2..=8 => "2-8", _ => ">8" })); }
    match real {
        Err(_) => {
            r.violate(json!({"case": req, "seed_index": i, "what": "the generator panicked", "real": "panic"}));
            r.disagree(json!({"case": req, "seed_index": i, "real": "panic", "impl": model}));
        }
        Ok(real) => {
            let shown = real.value.show();
            let parts: Vec<&str> = model.split(" | ").collect();
            let impl_val = parts.first().and_then(|s| s.strip_prefix("ok ")).unwrap_or("?");
            let spec_val = parts.get(1).and_then(|s| s.strip_prefix("spec ")).unwrap_or("?");
            if r.samples.len() < 3 && total <= 12 { r.sample(json!({"request": req, "real": shown, "model": model, "rng_words": consumed})); }
            let same_stream = real_rng.next_u64() == shadow.next_u64();
            if shown != impl_val || !same_stream {
                r.disagree(json!({"case": req, "seed_index": i, "real": clip(&shown), "impl": clip(impl_val), "same_generator_state_after": same_stream}));
            }
            // determinism (C16): a second run from an equal generator state
            match again {
                Ok(a) if a.value == real.value && second.words == consumed => {}
                _ => r.violate(json!({"case": req, "seed_index": i, "what": "two runs from equal generator states differ (C16)"})),
            }
            // --- property oracles ---------------------------------------------------------
            let shape = real.value.shape();
            if shape != c.expected_shape() {
                r.violate(json!({"case": req, "seed_index": i, "what": "generated collection does not have exactly the configured size(s)", "real_shape": clip(&shape), "spec": clip(&c.expected_shape())}));
            }
            // the Lean Spec (n successive draws) run on the very answers the shadow generator gave
            let spec_shape = shape_of_shown(spec_val);
            if spec_shape != shape {
                r.violate(json!({"case": req, "seed_index": i, "what": "size(s) differ from the Lean Spec's collection", "real_shape": clip(&shape), "spec": clip(&spec_shape)}));
            }
            if let Some(log) = &real.probe_log {
                let mut leaves = vec![];
                real.value.leaves(&mut leaves);
                let leaves: Vec<i64> = if c.scored { strip_scores(&real.value) } else { leaves };
                if &leaves != log {
                    r.violate(json!({"case": req, "seed_index": i, "what": "the elements are not exactly the successive draws of the element generator (one draw per element, in order)", "draws": log.len(), "elements": leaves.len()}));
                }
            }
            if let Some(ps) = real.pop_size {
                let want = c.outer.unwrap_or(c.n);
                if ps != want { r.violate(json!({"case": req, "seed_index": i, "what": "Population::size()/Linear::size() differs from the configured size", "real": ps, "spec": want})); }
            }
            for w in real.complaints { r.violate(json!({"case": req, "seed_index": i, "what": w})); }
        }
    }
}

fn strip_scores(v: &RVal) -> Vec<i64> {
    let mut out = vec![];
    if let RVal::List(inds) = v {
        for ind in inds {
            if let RVal::List(pair) = ind { if let Some(g) = pair.first() { g.leaves(&mut out); } }
        }
    }
    out
}

/// shape of a printed value: digits and signs dropped
fn shape_of_shown(s: &str) -> String {
    let mut out = String::new();
    let mut in_num = false;
    for ch in s.chars() {
        match ch {
            '[' | ']' | ',' => { in_num = false; out.push(ch); }
            _ => { if !in_num { out.push('.'); in_num = true; } }
        }
    }
    out
}

fn clip(s: &str) -> String { if s.len() > 300 { format!("{}…({} chars)", &s[..300], s.len()) } else { s.to_string() } }

// ---------------------------------------------------------------------------------------------
// choice cases
// ---------------------------------------------------------------------------------------------

pub const FLAVOURS: [(&str, &str); 17] = [
    ("vecIntoOwned", "OneOfCloning"), ("refVecIntoRef", "Choose"), ("refVecIntoOwned", "ChooseCloning"),
    ("vecToOwned", "ChooseCloning"), ("vecToRef", "Choose"),
    ("arrIntoOwned", "OneOfCloning"), ("refArrIntoRef", "Choose"), ("refArrIntoOwned", "ChooseCloning"),
    ("arrToOwned", "ChooseCloning"), ("arrToRef", "Choose"),
    ("sliceIntoRef", "Choose"), ("sliceIntoOwned", "ChooseCloning"), ("sliceToRef", "Choose"), ("sliceToOwned", "ChooseCloning"),
    ("oneOfNew", "OneOfCloning"), ("chooseCloningNew", "ChooseCloning"), ("macroOf", "OneOfCloning"),
];
pub const MAX_ARR: usize = 6;

#[derive(Debug, Clone, PartialEq)]
pub struct RealChoice {
    /// "ok" | "err EmptySlice" | "panic"
    pub built: String,
    pub num: usize,
    /// (index if known by identity, value)
    pub samples: Vec<(Option<usize>, i64)>,
    pub panicked_in_sample: bool,
    pub type_name: String,
}

fn short_type<T>(_: &T) -> String {
    let t = std::any::type_name::<T>();
    if t.contains("OneOfCloning") || t.contains("MutOneOf") { "OneOfCloning".into() } else if t.contains("ChooseCloning") { "ChooseCloning".into() } else if t.contains("Choose<") { "Choose".into() } else { t.into() }
}

fn drive_owned<D: Distribution<i64> + ChoicesDistribution>(built: Result<D, EmptySlice>, k: usize, rng: &mut SplitMix) -> RealChoice {
    match built {
        Err(EmptySlice) => RealChoice { built: "err EmptySlice".into(), num: 0, samples: vec![], panicked_in_sample: false, type_name: String::new() },
        Ok(mut d) => {
            // num_choices through a shared and an exclusive reference reports the same number (0 signals a mismatch)
            let n0 = d.num_choices().get();
            let n1 = ChoicesDistribution::num_choices(&&d).get();
            let n2 = ChoicesDistribution::num_choices(&&mut d).get();
            let mut out = RealChoice { built: "ok".into(), num: if n0 == n1 && n1 == n2 { n0 } else { 0 }, samples: vec![], panicked_in_sample: false, type_name: short_type(&d) };
            for _ in 0..k {
                match std::panic::catch_unwind(std::panic::AssertUnwindSafe(|| d.sample(&mut *rng))) {
                    Ok(v) => out.samples.push((None, v)),
                    Err(_) => { out.panicked_in_sample = true; break; }
                }
            }
            out
        }
    }
}
fn drive_ref<'a, D: Distribution<&'a i64> + ChoicesDistribution>(built: Result<D, EmptySlice>, src: &'a [i64], k: usize, rng: &mut SplitMix) -> RealChoice {
    match built {
        Err(EmptySlice) => RealChoice { built: "err EmptySlice".into(), num: 0, samples: vec![], panicked_in_sample: false, type_name: String::new() },
        Ok(d) => {
            let mut out = RealChoice { built: "ok".into(), num: d.num_choices().get(), samples: vec![], panicked_in_sample: false, type_name: short_type(&d) };
            for _ in 0..k {
                match std::panic::catch_unwind(std::panic::AssertUnwindSafe(|| d.sample(&mut *rng))) {
                    Ok(v) => out.samples.push((src.iter().position(|x| std::ptr::eq(x, v)), *v)),
                    Err(_) => { out.panicked_in_sample = true; break; }
                }
            }
            out
        }
    }
}

fn arr_case<const N: usize>(fl: &str, v: &[i64], k: usize, rng: &mut SplitMix) -> RealChoice {
    let a: [i64; N] = v.try_into().expect("array length");
    match fl {
        "arrIntoOwned" => drive_owned(IntoDistribution::<i64>::into_distribution(a), k, rng),
        "refArrIntoRef" => drive_ref(IntoDistribution::<&i64>::into_distribution(&a), &a, k, rng),
        "refArrIntoOwned" => drive_owned(IntoDistribution::<i64>::into_distribution(&a), k, rng),
        "arrToOwned" => drive_owned(<[i64; N] as ToDistribution<i64>>::to_distribution(&a), k, rng),
        "arrToRef" => drive_ref(<[i64; N] as ToDistribution<&i64>>::to_distribution(&a), &a, k, rng),
        "oneOfNew" => drive_owned(OneOfCloning::<[i64; N], i64>::new(a), k, rng),
        _ => unreachable!(),
    }
}
fn arr_dispatch(fl: &str, v: &[i64], k: usize, rng: &mut SplitMix) -> RealChoice {
    match v.len() {
        0 => arr_case::<0>(fl, v, k, rng), 1 => arr_case::<1>(fl, v, k, rng), 2 => arr_case::<2>(fl, v, k, rng),
        3 => arr_case::<3>(fl, v, k, rng), 4 => arr_case::<4>(fl, v, k, rng), 5 => arr_case::<5>(fl, v, k, rng),
        6 => arr_case::<6>(fl, v, k, rng),
        _ => panic!("array sources are generated up to length {MAX_ARR}"),
    }
}

/// the macro needs its items spelled out; both forms (plain, and `<T>` with `.into()` from i32)
fn macro_case(v: &[i64], typed: bool, k: usize, rng: &mut SplitMix) -> RealChoice {
    use ec_core::uniform_distribution_of;
    macro_rules! go {
        ($($i:expr),+) => {{
            if typed {
                let d = uniform_distribution_of![<i64> $(v[$i] as i32),+];
                drive_owned(Ok(d), k, rng)
            } else {
                let d = uniform_distribution_of![$(v[$i]),+];
                drive_owned(Ok(d), k, rng)
            }
        }};
    }
    match v.len() {
        1 => go!(0), 2 => go!(0, 1), 3 => go!(0, 1, 2), 4 => go!(0, 1, 2, 3), 5 => go!(0, 1, 2, 3, 4), 6 => go!(0, 1, 2, 3, 4, 5),
        _ => panic!("macro sources are generated with 1..=6 items (0 items do not compile)"),
    }
}

/// Build the distribution of flavour `fl` from source `v` with the REAL code and take `k` samples.
pub fn choice_real(fl: &str, sub: u8, v: &[i64], k: usize, rng: &mut SplitMix) -> RealChoice {
    let mt = mutant();
    // the mutants are broken copies of `OneOfCloning`: only the flavours that yield one are replaced
    if is_choice_mutant(&mt) && matches!(fl, "vecIntoOwned" | "arrIntoOwned" | "oneOfNew" | "macroOf") {
        return drive_owned(MutOneOf::new(&mt, v.to_vec()), k, rng);
    }
    let vec: Vec<i64> = v.to_vec();
    let res = std::panic::catch_unwind(std::panic::AssertUnwindSafe(|| match fl {
        "vecIntoOwned" => drive_owned(IntoDistribution::<i64>::into_distribution(vec.clone()), k, rng),
        "refVecIntoRef" => drive_ref(IntoDistribution::<&i64>::into_distribution(&vec), &vec, k, rng),
        "refVecIntoOwned" => drive_owned(IntoDistribution::<i64>::into_distribution(&vec), k, rng),
        "vecToOwned" => drive_owned(<Vec<i64> as ToDistribution<i64>>::to_distribution(&vec), k, rng),
        "vecToRef" => drive_ref(<Vec<i64> as ToDistribution<&i64>>::to_distribution(&vec), &vec, k, rng),
        "sliceIntoRef" => drive_ref(IntoDistribution::<&i64>::into_distribution(&vec[..]), &vec, k, rng),
        "sliceIntoOwned" => drive_owned(IntoDistribution::<i64>::into_distribution(&vec[..]), k, rng),
        "sliceToRef" => drive_ref(<[i64] as ToDistribution<&i64>>::to_distribution(&vec[..]), &vec, k, rng),
        "sliceToOwned" => drive_owned(<[i64] as ToDistribution<i64>>::to_distribution(&vec[..]), k, rng),
        "oneOfNew" => match sub % 4 {
            0 => drive_owned(OneOfCloning::<Vec<i64>, i64>::new(vec.clone()), k, rng),
            1 => drive_owned(OneOfCloning::<&[i64], i64>::new(&vec[..]), k, rng),
            2 => drive_owned(OneOfCloning::<Box<[i64]>, i64>::new(vec.clone().into_boxed_slice()), k, rng),
            _ => if v.len() <= MAX_ARR { arr_dispatch(fl, v, k, rng) } else { drive_owned(OneOfCloning::<Vec<i64>, i64>::new(vec.clone()), k, rng) },
        },
        "chooseCloningNew" => drive_owned(ChooseCloning::new(&vec), k, rng),
        "macroOf" => macro_case(v, sub % 2 == 1, k, rng),
        _ => arr_dispatch(fl, v, k, rng),
    }));
    res.unwrap_or(RealChoice { built: "panic".into(), num: 0, samples: vec![], panicked_in_sample: false, type_name: String::new() })
}

fn is_ref_flavour(fl: &str) -> bool { fl.ends_with("Ref") }

struct ChoiceCase {
    fl: &'static str,
    kind: &'static str,
    sub: u8,
    src: Vec<i64>,
    k: usize,
}

fn gen_source(g: &mut SplitMix, len: usize) -> Vec<i64> {
    match g.below(4) {
        0 => (0..len as i64).map(|x| 10 * x + 3).collect(),                 // distinct
        1 => (0..len).map(|_| g.below(3) as i64).collect(),                 // many repeated members
        2 => vec![7; len],                                                  // all equal
        _ => (0..len).map(|_| g.below(1000) as i64 - 500).collect(),
    }
}

fn run_choice_case(d: &mut Driver, r: &mut Report, c: &ChoiceCase, seed: u64, i: u64) {
    let vals = c.src.iter().map(|x| x.to_string()).collect::<Vec<_>>().join(" ");
    let req = format!("gen choice {} {} | {}", c.fl, c.k, vals);
    let mut real_rng = SplitMix::derive(seed ^ 0xC18C, i);
    let mut shadow = real_rng.clone();
    let mut second = real_rng.clone();
    let real = choice_real(c.fl, c.sub, &c.src, c.k, &mut real_rng);
    let again = choice_real(c.fl, c.sub, &c.src, c.k, &mut second);
    let model = d.ask_with(&req, |p| prims::answer(p, &mut shadow, &mut prims::no_user));
    r.case(&format!("{req}#{i}"), c.src.len() >= 2 && c.k >= 1);
    r.hit(&format!("choice {} len={} -> {}", c.fl, match c.src.len() { 0 => "0", 1 => "1", 2 => "2", 3..=6 => "3-6", _ => ">6" }, real.built));
    if c.src.len() == 4 { for (ix, _) in &real.samples { if let Some(ix) = ix { r.hit(&format!("choice index histogram (len 4, by identity): {ix}")); } } }
    // real result in the model's format
    let distinct = { let mut s = c.src.clone(); s.sort(); s.dedup(); s.len() == c.src.len() };
    let model_toks: Vec<&str> = model.split(' ').filter(|x| !x.is_empty()).collect();
    let mut agree = true;
    if real.built != "ok" {
        agree = model == real.built;
    } else if real.panicked_in_sample {
        agree = false;
    } else {
        if model_toks.first() != Some(&"ok") || model_toks.get(1).and_then(|x| x.parse::<usize>().ok()) != Some(real.num) || model_toks.len() != 2 + real.samples.len() {
            agree = false;
        } else {
            for (j, (ix, v)) in real.samples.iter().enumerate() {
                let mut it = model_toks[2 + j].split(':');
                let mi: Option<usize> = it.next().and_then(|x| x.parse().ok());
                let mv: Option<i64> = it.next().and_then(|x| x.parse().ok());
                let real_ix = ix.or_else(|| if distinct { c.src.iter().position(|x| x == v) } else { None });
                if mv != Some(*v) || (real_ix.is_some() && real_ix != mi) { agree = false; }
            }
        }
    }
    let same_stream = real_rng.next_u64() == shadow.next_u64();
    let shown = format!("{} num={} samples={:?}{}", real.built, real.num, real.samples, if real.panicked_in_sample { " then panic" } else { "" });
    r.sample(json!({"request": req, "real": shown, "model": model}));
    if !agree || !same_stream {
        r.disagree(json!({"case": req, "seed_index": i, "real": shown, "impl": model, "same_generator_state_after": same_stream}));
    }
    if again != real || second.words + 1 != real_rng.words {
        r.violate(json!({"case": req, "seed_index": i, "what": "two runs from equal generator states differ (C16)"}));
    }
    if real.built == "ok" && !real.type_name.is_empty() && real.type_name != c.kind && mutant().is_empty() {
        r.disagree(json!({"case": req, "what": "the conversion yields a different distribution type than the model's inventory says", "real": real.type_name, "impl": c.kind}));
    }
    // --- property oracles (model-free) ---------------------------------------------------
    let mut why: Vec<String> = vec![];
    if real.built == "panic" { why.push("building the distribution panicked".into()); }
    if c.src.is_empty() && real.built == "ok" { why.push("an empty collection was accepted instead of being rejected with an error".into()); }
    if !c.src.is_empty() && real.built != "ok" { why.push("a non-empty collection was rejected".into()); }
    if real.built == "ok" && real.num != c.src.len() { why.push(format!("num_choices reports {} for a collection of {} members", real.num, c.src.len())); }
    if real.panicked_in_sample { why.push("sampling panicked".into()); }
    for (ix, v) in &real.samples {
        if !c.src.contains(v) { why.push(format!("sample {v} is not a member of the collection")); }
        if is_ref_flavour(c.fl) && ix.is_none() { why.push("borrowing flavour returned a reference that does not point into the source collection".into()); }
    }
    // --- the Lean Spec as oracle for the real result -------------------------------------
    let b = real.built.split(' ').next().unwrap();
    let ss = if real.samples.is_empty() { "-".to_string() } else {
        real.samples.iter().map(|(ix, v)| {
            // position: by identity where available, else any position holding the value (or 0: not a member)
            let p = ix.or_else(|| c.src.iter().position(|x| x == v)).unwrap_or(usize::MAX >> 8);
            format!("{p}:{v}")
        }).collect::<Vec<_>>().join(",")
    };
    let verdict = d.ask(&format!("gen specchoice {} {} {} | {}", if real.panicked_in_sample { "panic" } else { b }, real.num, ss, vals));
    if verdict != "t" { why.push(format!("Lean Spec: {verdict}")); }
    why.sort(); why.dedup();
    if !why.is_empty() {
        r.violate(json!({"case": req, "seed_index": i, "real": shown, "what": why}));
    }
}

/// Collections of zero-sized elements (unit genes, markers): the size is still exactly the requested one and every
/// element is still one draw of the element generator (model-free; a size computed from `size_of::<T>()` breaks here).
fn zero_sized_elements(r: &mut Report, seed: u64) {
    #[derive(Clone, Copy, Debug, PartialEq)]
    struct Unit;
    struct UnitGen;
    impl Distribution<Unit> for UnitGen { fn sample<R: Rng + ?Sized>(&self, rng: &mut R) -> Unit { let _ = rng.next_u64(); Unit } }
    impl Distribution<()> for UnitGen { fn sample<R: Rng + ?Sized>(&self, rng: &mut R) { let _ = rng.next_u64(); } }
    for n in [0usize, 1, 2, 7, 64, 1000] {
        let mut rng = SplitMix::derive(seed ^ 0x25E, n as u64);
        let mut shadow = rng.clone();
        let res = std::panic::catch_unwind(std::panic::AssertUnwindSafe(|| {
            let a: Vec<Unit> = ec_core::distributions::collection::Generator::new(UnitGen, n).sample(&mut rng);
            let b: Vec<()> = UnitGen.to_collection_generator(n).sample(&mut rng);
            let c: Vec<Vec<()>> = UnitGen.to_collection_generator(n).into_collection_generator(3).sample(&mut rng);
            (a.len(), b.len(), c.iter().map(Vec::len).collect::<Vec<_>>())
        }));
        for _ in 0..(5 * n) { shadow.next_u64(); }
        r.case(&format!("zero-sized elements {n}"), n > 0);
        r.hit("collection of zero-sized elements");
        match res {
            Ok((a, b, c)) => {
                if a != n || b != n || c != vec![n; 3] || rng.next_u64() != shadow.next_u64() {
                    r.violate(json!({"case": format!("collection generator of {n} zero-sized elements"), "real": format!("sizes {a}, {b}, {c:?}"), "what": "a collection of zero-sized elements does not have exactly the requested size, or its elements are not one draw of the element generator each"}));
                }
            }
            Err(_) => r.violate(json!({"case": format!("collection generator of {n} zero-sized elements"), "real": "panic", "what": "generating a collection of zero-sized elements panicked"})),
        }
    }
}

/// Collections with 2^32 and more members (zero-sized members cost nothing): a non-empty collection is accepted, reports
/// its full number of members and can be sampled - in every flavour.  (An index type narrower than usize breaks here.)
fn astronomic_collections(r: &mut Report, seed: u64) {
    for len in [1usize << 32, (1usize << 32) + 5, 1usize << 33, (1usize << 32) - 1, usize::MAX] {
        let res = std::panic::catch_unwind(|| {
            let mut out: Vec<String> = vec![];
            let v: Vec<()> = vec![(); len];
            let mut rng = SplitMix::derive(seed ^ 0xA57C, len as u64);
            let mut check = |name: &str, built: Result<usize, EmptySlice>| match built {
                Ok(n) => if n != len { out.push(format!("{name}: num_choices = {n}")); },
                Err(EmptySlice) => out.push(format!("{name}: rejected as an empty collection")),
            };
            check("Vec::into_distribution (owning)", IntoDistribution::<()>::into_distribution(v.clone()).map(|d: OneOfCloning<Vec<()>, ()>| { d.sample(&mut rng); d.num_choices().get() }));
            check("&Vec::into_distribution (borrowing)", IntoDistribution::<&()>::into_distribution(&v).map(|d| { let _: &() = d.sample(&mut rng); d.num_choices().get() }));
            check("&Vec::into_distribution (cloning)", IntoDistribution::<()>::into_distribution(&v).map(|d| { let _: () = d.sample(&mut rng); d.num_choices().get() }));
            check("OneOfCloning::new(&[..])", OneOfCloning::<&[()], ()>::new(&v[..]).map(|d| { d.sample(&mut rng); d.num_choices().get() }));
            check("ChooseCloning::new", ChooseCloning::new(&v).map(|d| { let _: () = d.sample(&mut rng); d.num_choices().get() }));
            out
        });
        r.case(&format!("astronomic collection {len}"), true);
        r.hit("choice from a collection of 2^32 or more members");
        let bad = match res { Ok(v) => v, Err(_) => vec!["panicked".to_string()] };
        for b in bad {
            r.violate(json!({"case": format!("uniform choice built from {len} zero-sized members"), "real": b, "what": "a choice built from a non-empty collection must be accepted and report the number of members it was built from"}));
        }
    }
}

// ---------------------------------------------------------------------------------------------
// uniformity oracle (model-free, on the real code alone)
// ---------------------------------------------------------------------------------------------

/// Every member must come up with frequency 1/n.  Decided with Hoeffding's bound at a total
/// false-alarm budget of 1e-12 for the whole run (for a truly uniform source); the generator is a
/// fixed-seed SplitMix64, so the verdict is reproducible.
fn uniformity(r: &mut Report, seed: u64, thorough: bool) {
    let k: usize = if thorough { 400_000 } else { 40_000 };
    let lens = [1usize, 2, 3, 5, 6];
    let tests = (FLAVOURS.len() * lens.len() * 6) as f64;
    let delta = 1e-12 / tests;
    let eps = ((2.0f64 / delta).ln() / (2.0 * k as f64)).sqrt();
    for (fi, (fl, _)) in FLAVOURS.iter().enumerate() {
        for &n in &lens {
            let src: Vec<i64> = (0..n as i64).map(|x| 100 + x).collect();
            let mut rng = SplitMix::derive(seed ^ 0x0D15_7, (fi * 16 + n) as u64);
            let real = choice_real(fl, 0, &src, k, &mut rng);
            r.case(&format!("uniformity {fl} {n}"), n >= 2);
            if real.built != "ok" || real.samples.len() != k {
                r.violate(json!({"case": format!("uniformity {fl} len={n} samples={k}"), "what": "could not build / sample a non-empty collection", "real": real.built}));
                continue;
            }
            let mut counts = vec![0usize; n];
            for (_, v) in &real.samples { if let Some(p) = src.iter().position(|x| x == v) { counts[p] += 1; } }
            let freqs: Vec<f64> = counts.iter().map(|c| *c as f64 / k as f64).collect();
            let worst = freqs.iter().map(|f| (f - 1.0 / n as f64).abs()).fold(0.0, f64::max);
            if n == 5 { r.notes.push(format!("measured frequencies {fl} len=5 ({k} samples): {:?}", freqs.iter().map(|f| (f * 1e4).round() / 1e4).collect::<Vec<_>>())); }
            r.hit_n(&format!("uniformity samples len={n}"), k as u64);
            if worst > eps {
                r.violate(json!({"case": format!("uniformity {fl} len={n} samples={k}"), "what": "members are not chosen with equal probability (Hoeffding bound at 1e-12 exceeded)", "real": freqs, "spec": 1.0 / n as f64, "tolerance": eps}));
            }
        }
    }
    r.notes.push(format!("uniformity oracle: {} samples per (flavour, length), tolerance {:.4} on each member frequency (Hoeffding, total false-alarm budget 1e-12)", k, eps));
}

/// Large collections: a per-member frequency count is useless there (tens of thousands of members), but a sampler
/// that is not uniform changes the number of *collisions* (pairs of equal draws): for a uniform choice among n
/// members, k draws have C(k,2)/n colliding pairs on average with variance C(k,2)(1/n)(1-1/n) (pairs are pairwise
/// independent).  A multiply-shift / modulo sampler without rejection, or a sampler without replacement, shifts that
/// count by many standard deviations.  Two-sided test at 10 sigma (normal approximation), fixed seeds.
fn uniformity_large(r: &mut Report, seed: u64, thorough: bool) {
    let k: usize = if thorough { 400_000 } else { 120_000 };
    // non-powers of two below and above 2^16, and one far from any power of two
    let lens = [40_000usize, 49_152, 65_535, 100_003];
    let jobs: Vec<(usize, &str, usize)> = FLAVOURS.iter().enumerate()
        .filter(|(_, (fl, _))| !(fl.contains("rr") || *fl == "macroOf")) // array / macro sources are limited to MAX_ARR items
        .flat_map(|(fi, (fl, _))| lens.iter().map(move |n| (fi, *fl, *n))).collect();
    let parts: Vec<Report> = std::thread::scope(|sc| {
        let hs: Vec<_> = jobs.iter().map(|&(fi, fl, n)| sc.spawn(move || {
            let mut r = Report::new("gen", RULE);
            let src: Vec<i64> = (0..n as i64).collect();
            let mut rng = SplitMix::derive(seed ^ 0xB16_C011, (fi * 8) as u64 + n as u64);
            let start = rng.clone();
            let real = choice_real(fl, (n % 3) as u8, &src, k, &mut rng);
            r.case(&format!("uniformity-large {fl} {n}"), true);
            // The model of every flavour is "ask the uniform index primitive for an index below n, hand out that member"
            // (Uniform<usize> for the owning wrapper, rand's slice::Choose for the borrowing ones; checked request by
            // request on small collections).  Replay that on a clone of the generator: same members, same state after.
            if real.built == "ok" && real.samples.len() == k && mutant().is_empty() {
                let got: Vec<i64> = real.samples.iter().map(|(_, v)| *v).collect();
                let mut sa = start.clone();
                let ua = Uniform::new(0usize, n).expect("range");
                let a_ok = got.iter().all(|v| ua.sample(&mut sa) as i64 == *v) && sa == rng;
                let b_ok = a_ok || {
                    let idx: Vec<usize> = (0..n).collect();
                    let mut sb = start.clone();
                    let ub = rand::distr::slice::Choose::new(&idx).expect("non-empty");
                    got.iter().all(|v| *ub.sample(&mut sb) as i64 == *v) && sb == rng
                };
                if !b_ok {
                    let mut sa = start.clone();
                    let first = got.iter().position(|v| ua.sample(&mut sa) as i64 != *v);
                    r.disagree(json!({"case": format!("uniformity-large {fl} len={n} samples={k}"), "real": format!("draw #{first:?} and/or the generator state afterwards differ"),
                        "impl": "member at the index that the uniform index primitive (Uniform<usize> / slice::Choose below n) yields on the same stream",
                        "what": "the members drawn from a large collection are not the ones the model's index primitive selects on the same stream"}));
                }
            }
            if real.built != "ok" || real.samples.len() != k {
                r.violate(json!({"case": format!("uniformity-large {fl} len={n} samples={k}"), "what": "could not build / sample a non-empty collection", "real": real.built}));
                return r;
            }
            let mut vals: Vec<i64> = real.samples.iter().map(|(_, v)| *v).collect();
            if vals.iter().any(|v| *v < 0 || *v >= n as i64) {
                r.violate(json!({"case": format!("uniformity-large {fl} len={n}"), "what": "a sample is not a member of the collection"}));
                return r;
            }
            vals.sort_unstable();
            let mut coll: f64 = 0.0;
            let mut run = 1u64;
            for w in 1..=vals.len() {
                if w < vals.len() && vals[w] == vals[w - 1] { run += 1; } else { coll += (run * (run - 1) / 2) as f64; run = 1; }
            }
            let pairs = (k as f64) * (k as f64 - 1.0) / 2.0;
            let mean = pairs / n as f64;
            let sd = (pairs * (1.0 / n as f64) * (1.0 - 1.0 / n as f64)).sqrt();
            let z = (coll - mean) / sd;
            r.hit_n("uniformity-large samples", k as u64);
            if z.abs() > 10.0 {
                r.violate(json!({"case": format!("uniformity-large {fl} len={n} samples={k}"), "what": "members of a large collection are not chosen with equal probability: the number of colliding pairs of draws is more than 10 standard deviations from that of a uniform choice", "real": coll, "spec": mean, "z": z}));
            }
            r
        })).collect();
        hs.into_iter().map(|h| h.join().expect("uniformity worker")).collect()
    });
    for p in parts { r.merge(p); }
    r.notes.push(format!("uniformity of large collections: collision count of {k} draws from 40000 / 49152 / 65535 / 100003 members per non-array flavour, two-sided at 10 sigma"));
}

// ---------------------------------------------------------------------------------------------
// family entry
// ---------------------------------------------------------------------------------------------

const RULE: &str = "C18 `gen` family. (a) choice cases: each of the 14 conversion impls of conversion.rs, OneOfCloning::new (Vec / &[T] / Box<[T]> / array), \
ChooseCloning::new and both forms of uniform_distribution_of! on sources of length 0..=6 exhaustively (x several seeds, arrays by const generics) and seeded random sources up to 40 \
(distinct, repeated, all-equal members); built with the real code, num_choices read, k samples drawn from a SplitMix generator; the Lean model's `uniform n` / `chooseDistr n` requests are \
answered by the same rand call on a shadow clone; compared: Ok/Err(EmptySlice), num_choices, every sampled value and position (pointer identity for borrowing flavours), next generator word. \
(b) collection cases: collection::Generator through into_/to_collection_generator, Bitstring::random / random_with_probability, Plushy via GeneGenerator (OneOfCloning / ChooseCloning / probe instruction \
distributions, explicit and uniform close probability), populations of genomes and of scored individuals (nested generators), sizes 0,1,2,..,64 (thorough 2000); compared: the whole generated value and the next generator word. \
Property oracles (violations): exact sizes at every level vs configuration and vs the Lean Spec run on the same answers, elements = successive probe draws, genes within the instruction set, Population::size, \
empty rejected / non-empty accepted, num_choices = len, samples are members (by identity for references), Lean Spec verdict on the real result, member frequencies within a Hoeffding bound. \
non-trivial = at least 2 elements/members and at least one random draw; distinct by request line and seed index";

pub fn run(cfg: &Cfg) -> Report {
    let seed = cfg.seed;
    let thorough = cfg.thorough;
    // inventory cross-check
    let mut pre = Report::new("gen", RULE);
    {
        let mut d = Driver::spawn(&cfg.driver);
        let inv = d.ask("gen inventory");
        let mine = FLAVOURS.iter().map(|(f, k)| format!("{f}={k}")).collect::<Vec<_>>().join(" ");
        pre.case("inventory", true);
        if inv != mine { pre.disagree(json!({"case": "gen inventory", "real": mine, "impl": inv})); }
    }
    if !mutant().is_empty() { pre.notes.push(format!("SELF-TEST: real code replaced by mutant `{}`", mutant())); }
    // exhaustive small scope for choices: flavours x lengths 0..=6 x source kinds x seeds
    let reps: u64 = if thorough { 40 } else { 6 };
    let mut exh: Vec<(usize, usize, u64)> = vec![];
    for fi in 0..FLAVOURS.len() { for len in 0..=MAX_ARR { for rep in 0..reps { exh.push((fi, len, rep)); } } }
    let n_exh = exh.len() as u64;
    let n_rand_choice: u64 = if thorough { 600_000 } else { 30_000 };
    let n_coll: u64 = if thorough { 80_000 } else { 15_000 };
    let total = n_exh + n_rand_choice + n_coll;
    let mut rep = run_sharded(&cfg.driver, cfg.threads, total, || Report::new("gen", RULE), |d, r, i| {
        let mut g = SplitMix::derive(seed, i);
        if i < n_exh + n_rand_choice {
            let (fi, len) = if i < n_exh { let (fi, len, _) = exh[i as usize]; (fi, len) } else {
                let fi = g.below(FLAVOURS.len() as u64) as usize;
                let len = match g.below(6) { 0 => 0, 1 => 1, 2 => 7 + g.below(34) as usize, _ => g.below(7) as usize };
                (fi, len)
            };
            let (fl, kind) = FLAVOURS[fi];
            // arrays and the macro exist for the lengths compiled into the harness only
            let is_arr = fl.contains("Arr") || fl.starts_with("arr");
            let len = if is_arr { len.min(MAX_ARR) } else { len };
            if fl == "macroOf" && (len == 0 || len > MAX_ARR) {
                // zero items do not compile (`$(...)+`): nothing to run; counted so the scope stays visible
                r.hit("choice macroOf with 0 or >6 items: not expressible / not generated");
                return;
            }
            let sub = g.below(8) as u8;
            let mut src = gen_source(&mut g, len);
            if fl == "macroOf" && sub % 2 == 1 { for x in src.iter_mut() { *x = *x % 1000; } }
            let k = match g.below(5) { 0 => 0, 1 => 1, _ => 1 + g.below(8) as usize };
            run_choice_case(d, r, &ChoiceCase { fl, kind, sub, src, k }, seed, i);
        } else {
            let c = gen_coll_case(&mut g, thorough);
            run_coll_case(d, r, &c, seed, i);
        }
    });
    rep.merge(pre);
    crate::watch::guarded("gen: uniformity oracles", || { uniformity(&mut rep, seed, thorough); uniformity_large(&mut rep, seed, thorough); });
    crate::watch::guarded("gen: collections of zero-sized elements (a handful, 2^32 and more members)", || { zero_sized_elements(&mut rep, seed); astronomic_collections(&mut rep, seed); });
    rep.exhaustive = true;
    rep.notes.push(format!("exhaustive scope: {} flavours x source lengths 0..={} x {} seeds (all agree unless listed); random: {} choice cases, {} collection cases", FLAVOURS.len(), MAX_ARR, reps, n_rand_choice, n_coll));
    rep
}
