//! Run `n` independent cases over several worker threads, each with its own model driver.
use crate::driver::Driver;
use crate::report::Report;

pub fn run_sharded<F>(driver_path: &str, threads: usize, n: u64, mk: impl Fn() -> Report + Sync, f: F) -> Report
where
    F: Fn(&mut Driver, &mut Report, u64) + Sync,
{
    let threads = threads.max(1).min(n.max(1) as usize);
    let mut total = mk();
    let parts: Vec<Report> = std::thread::scope(|sc| {
        let hs: Vec<_> = (0..threads)
            .map(|w| {
                let f = &f;
                let mk = &mk;
                sc.spawn(move || {
                    let mut d = Driver::spawn(driver_path);
                    let mut r = mk();
                    let mut i = w as u64;
                    while i < n {
                        crate::watch::begin(w, i);
                        f(&mut d, &mut r, i);
                        crate::watch::end(w);
                        i += threads as u64;
                    }
                    r
                })
            })
            .collect();
        hs.into_iter().map(|h| h.join().expect("worker panicked")).collect()
    });
    for p in parts {
        total.merge(p);
    }
    total
}
