//! Family `sel` (C07, part of C06): Best / Worst / Random / Tournament of ec-core vs. the Lean model,
//! tape-level, plus the property oracles of C07 on the real code.
use crate::mutants;
use crate::prims;
use crate::report::Report;
use crate::rng::SplitMix;
use crate::selcommon::*;
use crate::shard::run_sharded;
use crate::Cfg;
use ec_core::individual::ec::EcIndividual;
use ec_core::test_results::{Score, TestResults};
use ec_core::operator::selector::{best::Best, random::Random, tournament::Tournament, worst::Worst, Selector};
use rand::prelude::IndexedRandom;
use rand::RngCore;
use serde_json::json;
use std::num::NonZeroUsize;

fn run_real<R: Ord>(leaf: &Leaf, pop: &Vec<Ind<R>>, rng: &mut SplitMix) -> String {
    let res = std::panic::catch_unwind(std::panic::AssertUnwindSafe(|| -> Result<usize, String> {
        if let Some(r) = mutants::basic(leaf, pop, rng) {
            return r.map(|x| index_of(pop, x).expect("not a member"));
        }
        let idx = |r: &Ind<R>| index_of(pop, r).map_or_else(|| Err("NOT-A-MEMBER".to_string()), Ok);
        match leaf {
            Leaf::Best => Best.select(pop, rng).map_err(|e| e.canon()).and_then(idx),
            Leaf::Worst => Worst.select(pop, rng).map_err(|e| e.canon()).and_then(idx),
            Leaf::Random => Random.select(pop, rng).map_err(|e| e.canon()).and_then(idx),
            Leaf::Tournament(k) => {
                // the named constructors must build the tournament they are named after: `binary()` = size 2,
                // `of_size::<N>()` = size N (used for the sizes for which they exist, `new` otherwise)
                let t = match *k { 2 if pop.len() % 2 == 0 => Tournament::binary(), 1 => Tournament::of_size::<1>(), 2 => Tournament::of_size::<2>(), 3 => Tournament::of_size::<3>(),
                    5 => Tournament::of_size::<5>(), 8 => Tournament::of_size::<8>(), _ => Tournament::new(NonZeroUsize::new(*k).unwrap()) };
                let mut w = rng.clone(); warm_up(&t, pop, &mut w); t.select(pop, rng).map_err(|e| e.canon()).and_then(idx)
            }
            _ => unreachable!(),
        }
    }));
    match res {
        Ok(Ok(i)) => format!("ok {i}"),
        Ok(Err(e)) => format!("err {e}"),
        Err(_) => "panic".into(),
    }
}

const RULE: &str = "seeded selector configurations (best/worst/random/tournament k in 1..=n and n+1) on populations of \
EcIndividual with Score and Error results (empty, singleton, all-equal, duplicate-laden, random); the model's requests are \
answered by the same rand call on a shadow generator; compared: selected index (pointer identity), error, and the next word \
of the real and the shadow generator; property oracles on the real result: best/worst is a maximum/minimum under the real Ord, \
tournament winner is at least as good as k-1 others, equals the best of the drawn sample, k=n gives a maximum, k=1 gives the \
drawn individual, error iff empty / k>n; plus exhaustive tournaments over all populations of <=4 individuals with keys in {0,1,2} \
and a measured rank histogram of tournament winners against C(r,k-1)/C(n,k); non-trivial = population of at least 2 individuals; \
distinct by request line and seed";

fn gen_case(rng: &mut SplitMix) -> (bool, Leaf, PopRaw) {
    let score = rng.chance(1, 2);
    // mostly small populations; one case in eight is large (implementations switch strategy with the ratio of
    // population to tournament size, or with word-sized bit sets: 24 .. 300 individuals, many tied scores)
    let big = rng.chance(1, 8);
    // ... and one in four hundred is huge (thresholds at 2^12, 2^13, 2^14 individuals)
    let huge = rng.chance(1, 400);
    let pop = if huge { crate::selcommon::gen_pop_n(rng, *rng.clone().pick(&[4097usize, 8193, 16_385]), 2, false) }
        else if big { gen_pop(rng, *rng.clone().pick(&[24u64, 40, 65, 130, 300]), 2, false) } else { gen_pop(rng, 12, 2, false) };
    let big = big || huge;
    let n = pop.len();
    let sel = match rng.below(7) {
        0 => Leaf::Best,
        1 => Leaf::Worst,
        2 => Leaf::Random,
        _ => {
            let k = if big && rng.chance(2, 3) { 1 + rng.below(8) as usize } else { match rng.below(6) { 0 => 1, 1 => n.max(1), 2 => n + 1, _ => 1 + rng.below(n as u64 + 1) as usize } };
            Leaf::Tournament(k)
        }
    };
    (score, sel, pop)
}

/// value by which the individuals are ordered (bigger = better)
fn value(score: bool, pop: &PopRaw, i: usize) -> i64 {
    if score { pop[i].0 } else { -pop[i].0 }
}

/// One tape-level case: real vs. model, plus oracles. `sample` is what `choose_multiple` yields on
/// this stream (computed by the harness itself, independently of the model).
fn one_case(d: &mut crate::driver::Driver, r: &mut Report, prop: &str, tag: &str, score: bool, sel: &Leaf, pop: &PopRaw, mut real_rng: SplitMix, count: bool) {
    // which property's oracles may raise a violation (the Impl comparison always runs)
    let c06 = prop.is_empty() || prop == "C06";
    let c07 = prop.is_empty() || prop == "C07";
    let req = format!("sel {} {} | {}", if score { "score" } else { "error" }, sel.token(), pop_tokens(pop));
    let mut shadow = real_rng.clone();
    let mut second = real_rng.clone();
    let mut oracle_rng = real_rng.clone();
    let start = real_rng.clone();
    let real = if score {
        let p = mk_score(pop);
        let a = run_real(sel, &p, &mut real_rng);
        let b = run_real(sel, &p, &mut second);
        if a != b || real_rng != second {
            r.violate(json!({"case": req, "what": "two runs from equal generator states differ (C16)", "first": a, "second": b}));
        }
        a
    } else {
        run_real(sel, &mk_error(pop), &mut real_rng)
    };
    let model = d.ask_with(&req, |p| prims::answer(p, &mut shadow, &mut prims::no_user));
    let consumed = real_rng.words;
    if count {
        r.case(&format!("{req}#{tag}"), pop.len() >= 2);
        r.hit(&format!("sel {} -> {}", sel.kind(), real.split(' ').next().unwrap()));
        r.sample(json!({"request": req, "real": real, "rng_words": consumed - start.words}));
    }
    let same_stream = real_rng.next_u64() == shadow.next_u64();
    if real != model || !same_stream {
        r.disagree(json!({"case": req, "tag": tag, "real": real, "impl": model, "same_generator_state_after": same_stream}));
    }
    // ---- property oracles (real result only) ----
    let n = pop.len();
    let viol = |r: &mut Report, what: &str| r.violate(json!({"case": req, "tag": tag, "what": what, "real": real}));
    if real == "panic" {
        viol(r, "selector panicked");
        return;
    }
    if real.contains("NOT-A-MEMBER") {
        viol(r, "returned reference is not an element of the population");
        return;
    }
    let ok: Option<usize> = real.strip_prefix("ok ").map(|x| x.parse().unwrap());
    if c06 { match sel {
        Leaf::Best | Leaf::Worst | Leaf::Random => {
            if (n == 0) != (real == "err EmptyPopulation") { viol(r, "EmptyPopulation must be reported exactly for the empty population"); }
        }
        Leaf::Tournament(k) => {
            let exp = format!("err TournamentSize({k},{n})");
            if (n < *k) != (real == exp) { viol(r, "TournamentSize(k,n) must be reported exactly when k > n"); }
        }
        _ => {}
    } }
    if !c07 { return; }
    if let Some(w) = ok {
        let v = |i: usize| value(score, pop, i);
        match sel {
            Leaf::Best => if (0..n).any(|j| v(j) > v(w)) { viol(r, "Best returned a non-maximal individual"); },
            Leaf::Worst => if (0..n).any(|j| v(j) < v(w)) { viol(r, "Worst returned a non-minimal individual"); },
            Leaf::Tournament(k) => {
                let others = (0..n).filter(|&j| j != w && v(j) <= v(w)).count();
                if others + 1 < *k { viol(r, "tournament winner is not at least as good as k-1 other members"); }
                if *k == n && (0..n).any(|j| v(j) > v(w)) { viol(r, "tournament over the whole population did not return a maximum"); }
                let idx: Vec<usize> = (0..n).collect();
                let sample: Vec<usize> = idx.choose_multiple(&mut oracle_rng, *k).copied().collect();
                let best = sample.iter().map(|&j| v(j)).max();
                if Some(v(w)) != best { viol(r, &format!("winner is not the best of the k individuals drawn by choose_multiple on this stream (sample {sample:?})")); }
                if *k == 1 && sample != vec![w] { viol(r, "tournament of size 1 is not the drawn individual"); }
            }
            _ => {}
        }
    }
}

fn choose(n: u64, k: u64) -> f64 {
    if k > n { return 0.0; }
    (0..k).fold(1.0, |a, i| a * (n - i) as f64 / (i + 1) as f64)
}

/// Measured distribution of the tournament winner's rank on distinct values (real code only):
/// recorded in the histogram, and an exact-law test with a tiny false-alarm budget (|z| > 7).
fn law_block(r: &mut Report, seed: u64, runs: u64) {
    for &(n, k) in &[(6usize, 1usize), (6, 2), (6, 3), (6, 6), (9, 4)] {
        // values are a fixed permutation so that position and rank differ
        let keys: Vec<i64> = (0..n).map(|i| ((i * 5 + 2) % n) as i64).collect();
        let pop: PopRaw = keys.iter().map(|&k| (k, vec![])).collect();
        let p = mk_score(&pop);
        let mut counts = vec![0u64; n];
        let mut rng = SplitMix::derive(seed ^ 0x7A11, (n * 100 + k) as u64);
        for _ in 0..runs {
            let s = run_real(&Leaf::Tournament(k), &p, &mut rng);
            if let Some(w) = s.strip_prefix("ok ") { counts[keys[w.parse::<usize>().unwrap()] as usize] += 1; }
        }
        for rank in 0..n {
            let pr = choose(rank as u64, k as u64 - 1) / choose(n as u64, k as u64);
            let exp = pr * runs as f64;
            let sd = (runs as f64 * pr * (1.0 - pr)).sqrt();
            let z = if sd > 0.0 { (counts[rank] as f64 - exp) / sd } else if (counts[rank] as f64 - exp).abs() < 0.5 { 0.0 } else { f64::INFINITY };
            r.hit_n(&format!("law n={n} k={k} rank={rank} expected={:.1}", exp), counts[rank]);
            r.case(&format!("law {n} {k} {rank}"), true);
            if z.abs() > 7.0 {
                r.violate(json!({"case": format!("tournament {k} on {n} distinct values, {runs} runs, seed {seed}"), "what": format!("winner of rank {rank} observed {} times, the law C(r,k-1)/C(n,k) gives {:.1} (z = {:.1})", counts[rank], exp, z), "real": counts}));
            }
        }
    }
}

pub fn run(cfg: &Cfg) -> Report {
    let n: u64 = if cfg.thorough { 3000000 } else { 60000 };
    let seed = cfg.seed;
    let prop = cfg.prop.as_str();
    let mut rep = run_sharded(&cfg.driver, cfg.threads, n, || Report::new("sel", RULE), |d, r, i| {
        let mut g = SplitMix::derive(seed, i);
        let (score, sel, pop) = gen_case(&mut g);
        one_case(d, r, prop, &i.to_string(), score, &sel, &pop, SplitMix::derive(seed ^ 0xABCD, i), true);
    });
    // exhaustive small scope: all populations of 1..=4 individuals with keys in {0,1,2}, every k, several streams
    let pops: Vec<Vec<i64>> = (1..=4usize).flat_map(|n| (0..3usize.pow(n as u32)).map(move |c| (0..n).map(|j| ((c / 3usize.pow(j as u32)) % 3) as i64).collect())).collect();
    let streams: u64 = if cfg.thorough { 24 } else { 4 };
    let total = pops.len() as u64;
    let ex = run_sharded(&cfg.driver, cfg.threads, total, || Report::new("sel", RULE), |d, r, i| {
        let keys = &pops[i as usize];
        let pop: PopRaw = keys.iter().map(|&k| (k, vec![])).collect();
        for k in 1..=keys.len() {
            for s in 0..streams {
                for score in [true, false] {
                    one_case(d, r, prop, &format!("ex{i}-{s}"), score, &Leaf::Tournament(k), &pop, SplitMix::derive(seed ^ 0xE0E0, i * 64 + s), s == 0);
                }
            }
        }
        for sel in [Leaf::Best, Leaf::Worst] {
            for score in [true, false] {
                one_case(d, r, prop, &format!("ex{i}"), score, &sel, &pop, SplitMix::derive(seed ^ 0xE0E1, i), true);
            }
        }
        r.hit("exhaustive population (<=4 individuals, keys in {0,1,2}) x every k");
    });
    rep.merge(ex);
    if prop.is_empty() || prop == "C07" { law_block(&mut rep, seed, if cfg.thorough { 1000000 } else { 50000 }); }
    rep.notes.push("exhaustive scope: all 120 populations of 1..=4 individuals with keys in {0,1,2}, every tournament size, both polarities".into());
    crate::watch::guarded("sel: tournaments / best / worst on 2^16 .. 2^17 tied individuals", || large_tied_populations(&mut rep, seed));
    rep
}

/// Populations of 2^16 and more individuals with few distinct scores (ties everywhere, every individual a different
/// genome): (a) three runs from equal generator states select the *same individual* and leave equal states (nothing but
/// the generator decides ties); (b) the individual is the one the model's rule gives on the same stream - the best of
/// the sample `choose_multiple` draws, the last one among equals (`Iterator::max`), Best / Worst: last maximum / first
/// minimum.  Model-free (the rule is replayed here on a clone of the generator).
fn large_tied_populations(rep: &mut Report, seed: u64) {
    for (ci, n) in [65_535usize, 65_536, 70_001, 131_073].into_iter().enumerate() {
        let mut g = SplitMix::derive(seed ^ 0x7A11, ci as u64);
        let pop: Vec<IndS> = (0..n).map(|j| { let k = g.below(3) as i64; EcIndividual::new(j, TestResults { results: vec![Score(k)], total_result: Score(k) }) }).collect();
        let idx = |r: &IndS| r.genome;   // genomes are the positions
        for k in [1usize, 2, 7, 16, 40] {
            let t = Tournament::new(NonZeroUsize::new(k).unwrap());
            let base = SplitMix::derive(seed ^ 0x7A12, (ci * 64 + k) as u64);
            let runs: Vec<(Result<usize, String>, u64)> = (0..3).map(|_| { let mut r = base.clone(); let v = t.select(&pop, &mut r).map(idx).map_err(|e| e.to_string()); (v, r.next_u64()) }).collect();
            rep.case(&format!("large tied population {n} tournament {k}"), true);
            rep.hit("large tied population (oracle only)");
            if runs[1] != runs[0] || runs[2] != runs[0] {
                rep.violate(json!({"prop": "C16", "case": format!("Tournament of size {k} on {n} individuals with scores in {{0,1,2}} and pairwise different genomes, three runs from equal generator states"),
                    "first": format!("{:?}", runs[0]), "other": format!("{:?} / {:?}", runs[1], runs[2]), "what": "runs from equal generator states select different individuals (something other than the generator breaks the ties)"}));
            }
            let mut shadow = base.clone();
            let sample: Vec<&IndS> = pop.choose_multiple(&mut shadow, k).collect();
            let want = sample.into_iter().max().map(idx);
            let same_state = shadow.next_u64() == runs[0].1;
            if runs[0].0.as_ref().ok() != want.as_ref() || !same_state {
                rep.disagree(json!({"case": format!("Tournament of size {k} on {n} tied individuals"), "real": format!("{:?}", runs[0].0), "impl": format!("{want:?} (best of the choose_multiple sample, last among equals); same generator state afterwards: {same_state}")}));
            }
        }
        let mut r1 = SplitMix::derive(seed, 1);
        let best = Best.select(&pop, &mut r1).map(idx).ok();
        let worst = Worst.select(&pop, &mut r1).map(idx).ok();
        let want_best = pop.iter().enumerate().filter(|(_, i)| i.test_results.total_result.0 == 2).map(|(j, _)| j).last();
        let want_worst = pop.iter().position(|i| i.test_results.total_result.0 == 0);
        if best != want_best || worst != want_worst {
            rep.disagree(json!({"case": format!("Best / Worst on {n} tied individuals"), "real": format!("{best:?} / {worst:?}"), "impl": format!("{want_best:?} / {want_worst:?} (Iterator::max keeps the last maximum, min the first minimum)")}));
        }
    }
}
