//! Selectors (C06/C07/…): real ec-core selectors vs. the Lean model, tape-level.
use crate::prims;
use crate::report::Report;
use crate::rng::SplitMix;
use crate::shard::run_sharded;
use crate::Cfg;
use ec_core::individual::ec::EcIndividual;
use ec_core::operator::selector::{best::Best, random::Random, tournament::Tournament, worst::Worst, Selector};
use ec_core::test_results::{Error, Score, TestResults};
use rand::RngCore;
use serde_json::json;
use std::num::NonZeroUsize;

type IndS = EcIndividual<usize, TestResults<Score<i64>>>;
type IndE = EcIndividual<usize, TestResults<Error<i64>>>;

#[derive(Clone, Debug)]
pub enum SelCfg {
    Best,
    Worst,
    Random,
    Tournament(usize),
}
impl SelCfg {
    fn token(&self) -> String {
        match self {
            SelCfg::Best => "best".into(),
            SelCfg::Worst => "worst".into(),
            SelCfg::Random => "random".into(),
            SelCfg::Tournament(k) => format!("tournament {k}"),
        }
    }
}

/// index of the returned reference inside the population slice (identity, not equality)
fn index_of<T>(pop: &[T], r: &T) -> Option<usize> {
    pop.iter().position(|x| std::ptr::eq(x, r))
}

fn run_real<I: Ord>(sel: &SelCfg, pop: &Vec<I>, rng: &mut SplitMix) -> String {
    let res = std::panic::catch_unwind(std::panic::AssertUnwindSafe(|| -> Result<usize, String> {
        match sel {
            SelCfg::Best => Best.select(pop, rng).map(|r| index_of(pop, r).expect("not a member")).map_err(|_| "EmptyPopulation".to_string()),
            SelCfg::Worst => Worst.select(pop, rng).map(|r| index_of(pop, r).expect("not a member")).map_err(|_| "EmptyPopulation".to_string()),
            SelCfg::Random => Random.select(pop, rng).map(|r| index_of(pop, r).expect("not a member")).map_err(|_| "EmptyPopulation".to_string()),
            SelCfg::Tournament(k) => Tournament::new(NonZeroUsize::new(*k).unwrap())
                .select(pop, rng)
                .map(|r| index_of(pop, r).expect("not a member"))
                .map_err(|e| {
                    let s = format!("{e}");
                    // "Tournament size {k} was larger than population size {n}"
                    let nums: Vec<&str> = s.split(|c: char| !c.is_ascii_digit()).filter(|x| !x.is_empty()).collect();
                    format!("TournamentSize({},{})", nums[0], nums[1])
                }),
        }
    }));
    match res {
        Ok(Ok(i)) => format!("ok {i}"),
        Ok(Err(e)) => format!("err {e}"),
        Err(_) => "panic".into(),
    }
}

const RULE: &str = "seeded selector configurations (best/worst/random/tournament k around the population size) on \
populations of EcIndividual with Score and Error results (empty, singleton, all-equal, tie-laden, random); the model's \
requests are answered by the same rand call on a shadow generator; compared: selected index (pointer identity), error, \
and the next word of the real and the shadow generator; non-trivial = population of at least 2 individuals and a random draw consumed; \
distinct by request line and seed";

fn gen_case(rng: &mut SplitMix) -> (bool, SelCfg, Vec<(i64, Vec<i64>)>) {
    let score = rng.chance(1, 2);
    let n = match rng.below(10) { 0 => 0, 1 => 1, 2 => 2, _ => 1 + rng.below(12) } as usize;
    let spread = *rng.pick(&[1u64, 2, 3, 5, 100]);
    let pop: Vec<(i64, Vec<i64>)> = (0..n).map(|_| {
        let rs: Vec<i64> = (0..rng.below(4)).map(|_| rng.below(spread) as i64 - 1).collect();
        (rs.iter().sum::<i64>() + if rng.chance(1, 4) { rng.below(3) as i64 } else { 0 }, rs)
    }).collect();
    let sel = match rng.below(6) {
        0 => SelCfg::Best,
        1 => SelCfg::Worst,
        2 => SelCfg::Random,
        _ => {
            let k = match rng.below(6) { 0 => 1, 1 => n.max(1), 2 => n + 1, _ => 1 + rng.below(n as u64 + 1) as usize };
            SelCfg::Tournament(k)
        }
    };
    (score, sel, pop)
}

pub fn run(cfg: &Cfg) -> Report {
    let n: u64 = if cfg.thorough { 200_000 } else { 8_000 };
    let seed = cfg.seed;
    run_sharded(&cfg.driver, cfg.threads, n, || Report::new("sel", RULE), |d, r, i| {
        let mut g = SplitMix::derive(seed, i);
        let (score, sel, pop) = gen_case(&mut g);
        let req = format!(
            "sel {} {} | {}",
            if score { "score" } else { "error" },
            sel.token(),
            pop.iter().map(|(k, rs)| format!("{k}:{}", rs.iter().map(|x| x.to_string()).collect::<Vec<_>>().join(","))).collect::<Vec<_>>().join(" ")
        );
        let mut real_rng = SplitMix::derive(seed ^ 0xABCD, i);
        let mut shadow = real_rng.clone();
        let mut second = real_rng.clone();
        let real = if score {
            let p: Vec<IndS> = pop.iter().enumerate().map(|(j, (k, rs))| EcIndividual::new(j, TestResults { results: rs.iter().map(|x| Score(*x)).collect(), total_result: Score(*k) })).collect();
            let a = run_real(&sel, &p, &mut real_rng);
            let b = run_real(&sel, &p, &mut second);
            if a != b || real_rng != second { r.violate(json!({"case": req, "what": "two runs from equal generator states differ (C16)", "first": a, "second": b})); }
            a
        } else {
            let p: Vec<IndE> = pop.iter().enumerate().map(|(j, (k, rs))| EcIndividual::new(j, TestResults { results: rs.iter().map(|x| Error(*x)).collect(), total_result: Error(*k) })).collect();
            run_real(&sel, &p, &mut real_rng)
        };
        let model = d.ask_with(&req, |p| prims::answer(p, &mut shadow, &mut prims::no_user));
        let consumed = real_rng.words;
        r.case(&format!("{req}#{i}"), pop.len() >= 2 && consumed > 0);
        r.hit(&format!("sel {} -> {}", sel.token().split(' ').next().unwrap(), real.split(' ').next().unwrap()));
        r.sample(json!({"request": req, "real": real, "rng_words": consumed}));
        let same_stream = real_rng.next_u64() == shadow.next_u64();
        if real != model || !same_stream {
            r.disagree(json!({"case": req, "seed_index": i, "real": real, "impl": model, "same_generator_state_after": same_stream}));
        }
        if real == "panic" {
            r.violate(json!({"case": req, "what": "selector panicked", "real": real}));
        }
    })
}
