//! Deterministic, cloneable, counting generator used for every random choice of the harness and
//! as the generator handed to the code under test (so a shadow clone can replay it).
use rand::RngCore;

#[derive(Clone, Debug, PartialEq, Eq)]
pub struct SplitMix {
    pub state: u64,
    pub words: u64,
}

impl SplitMix {
    pub fn new(seed: u64) -> Self {
        Self { state: seed, words: 0 }
    }
    pub fn derive(seed: u64, stream: u64) -> Self {
        let mut s = Self::new(seed ^ stream.wrapping_mul(0x9E37_79B9_7F4A_7C15).rotate_left(17));
        s.next_u64();
        s.words = 0;
        s
    }
    pub fn below(&mut self, n: u64) -> u64 {
        if n == 0 { 0 } else { self.next_u64() % n }
    }
    pub fn chance(&mut self, num: u64, den: u64) -> bool {
        self.below(den) < num
    }
    pub fn pick<'a, T>(&mut self, xs: &'a [T]) -> &'a T {
        &xs[self.below(xs.len() as u64) as usize]
    }
}

impl RngCore for SplitMix {
    fn next_u32(&mut self) -> u32 {
        (self.next_u64() >> 32) as u32
    }
    fn next_u64(&mut self) -> u64 {
        self.words += 1;
        self.state = self.state.wrapping_add(0x9E37_79B9_7F4A_7C15);
        let mut z = self.state;
        z = (z ^ (z >> 30)).wrapping_mul(0xBF58_476D_1CE4_E5B9);
        z = (z ^ (z >> 27)).wrapping_mul(0x94D0_49BB_1331_11EB);
        z ^ (z >> 31)
    }
    fn fill_bytes(&mut self, dst: &mut [u8]) {
        for chunk in dst.chunks_mut(8) {
            let w = self.next_u64().to_le_bytes();
            chunk.copy_from_slice(&w[..chunk.len()]);
        }
    }
}
