//! C15: orders of Score / Error / TestResult / TestResults / EcIndividual, totals, scoring generators.
//! Real ec-core types vs. the Lean Impl model (`res` driver family) and the Spec; model-free law
//! oracles (exhaustive over i8 triples) on the real code alone.
use crate::prims;
use crate::probe::{self, Ind, ProbeSel, ToV, V};
use crate::report::Report;
use crate::rng::SplitMix;
use crate::shard::run_sharded;
use crate::Cfg;
use ec_core::individual::ec::{EcIndividual, IndividualGenerator, WithScorer};
use ec_core::individual::scorer::{FnScorer, Scorer};
use ec_core::operator::genome_scorer::GenomeScorer;
use ec_core::operator::selector::Select;
use ec_core::operator::Operator;
use ec_core::test_results::{Error, Score, TestResult, TestResults};
use rand::distr::Distribution;
use rand::{Rng, RngCore};
use serde_json::json;
use std::cmp::Ordering;

fn selftest() -> u8 {
    std::env::var("UEC_SELFTEST").ok().and_then(|s| s.parse().ok()).unwrap_or(0)
}

fn oc(o: Option<Ordering>, none: char) -> char {
    match o { Some(Ordering::Less) => 'l', Some(Ordering::Equal) => 'e', Some(Ordering::Greater) => 'g', None => none }
}
fn bc(b: bool) -> char { if b { 't' } else { 'f' } }

/// seven characters for a type with `Ord`: cmp partial_cmp == < <= > >=
fn code_ord<X: Ord>(a: &X, b: &X) -> String {
    [oc(Some(a.cmp(b)), '-'), oc(a.partial_cmp(b), 'n'), bc(a == b), bc(a < b), bc(a <= b), bc(a > b), bc(a >= b)].iter().collect()
}
/// … and for one with `PartialOrd` only; also checks `!=` against `==`
fn code_partial<X: PartialOrd>(a: &X, b: &X) -> String {
    let ne_ok = (a != b) == !(a == b);
    [if ne_ok { '-' } else { '!' }, oc(a.partial_cmp(b), 'n'), bc(a == b), bc(a < b), bc(a <= b), bc(a > b), bc(a >= b)].iter().collect()
}

// ---- harness-side mutants of the real impls (UEC_SELFTEST), never touching /repo ------------------
/// selftest 1: `Error` whose `cmp`/`partial_cmp` forget to reverse
#[derive(PartialEq, Eq)]
struct BadError<T>(T);
impl<T: Ord> Ord for BadError<T> { fn cmp(&self, o: &Self) -> Ordering { self.0.cmp(&o.0) } }
impl<T: Ord> PartialOrd for BadError<T> { fn partial_cmp(&self, o: &Self) -> Option<Ordering> { Some(self.cmp(o)) } }
/// selftest 2: `TestResults` with derived (lexicographic: results first) ordering
#[derive(PartialEq, Eq, PartialOrd, Ord)]
struct BadResults<R> { results: Vec<R>, total_result: R }

/// the subjects compared for one pair (mirrors `ResFam.implCodes`)
fn codes<T: Ord + Copy + From<i8>>(a: T, c: T, st: u8) -> String {
    let mut s = String::new();
    s += &code_ord(&Score(a), &Score(c));
    s += &if st == 1 { code_ord(&BadError(a), &BadError(c)) } else { code_ord(&Error(a), &Error(c)) };
    type TR<T> = TestResult<T, T>;
    s += &code_partial::<TR<T>>(&TestResult::Score(Score(a)), &TestResult::Score(Score(c)));
    s += &code_partial::<TR<T>>(&TestResult::Error(Error(a)), &TestResult::Error(Error(c)));
    s += &code_partial::<TR<T>>(&TestResult::Score(Score(a)), &TestResult::Error(Error(c)));
    s += &code_partial::<TR<T>>(&TestResult::Error(Error(a)), &TestResult::Score(Score(c)));
    let rs_a = TestResults { results: vec![Score(c)], total_result: Score(a) };
    let rs_c = TestResults { results: vec![Score(a)], total_result: Score(c) };
    let re_a = TestResults { results: vec![Error(c)], total_result: Error(a) };
    let re_c = TestResults { results: vec![Error(a)], total_result: Error(c) };
    s += &if st == 2 {
        code_ord(&BadResults { results: vec![Score(c)], total_result: Score(a) }, &BadResults { results: vec![Score(a)], total_result: Score(c) })
    } else { code_ord(&rs_a, &rs_c) };
    s += &code_ord(&re_a, &re_c);
    let seven: T = T::from(7i8);
    s += &code_ord(&EcIndividual::new(seven, rs_a.clone()), &EcIndividual::new(seven, rs_c.clone()));
    s += &code_ord(&EcIndividual::new(seven, re_a.clone()), &EcIndividual::new(seven, re_c.clone()));
    s += &code_ord(&EcIndividual::new(T::from(1i8), rs_a), &EcIndividual::new(T::from(2i8), rs_c));
    s
}

/// blank the positions the property leaves open (`_` in the Spec's code)
fn mask(real: &str, spec: &str) -> String {
    real.chars().zip(spec.chars()).map(|(r, s)| if s == '_' { '_' } else { r }).collect()
}

/// genome distribution of the generator cases: `d` words
struct WordGenome { d: usize }
impl Distribution<Vec<u64>> for WordGenome {
    fn sample<R: Rng + ?Sized>(&self, rng: &mut R) -> Vec<u64> { (0..self.d).map(|_| rng.next_u64()).collect() }
}
struct OffsetScorer { c: i64 }
impl Scorer<Vec<u64>> for OffsetScorer {
    type Score = TestResults<Score<i64>>;
    fn score(&self, g: &Vec<u64>) -> Self::Score { g.iter().map(|w| (w % 100) as i64 + self.c).into() }
}

const RULE: &str = "(a) every pair of i8 values and every pair from an i64 boundary pool: cmp, partial_cmp, ==, <, <=, >, >= of Score, Error, \
TestResult (all four variant combinations), TestResults and EcIndividual (totals a/b with per-case results in the opposite order, equal and different genomes) \
against the Lean Impl model and the Spec; (b) model-free order laws on the real code for every i8 triple; (c) seeded result vectors (empty, extremes, random) \
through From/collect for Score and Error against model and Spec; (d) IndividualGenerator / with_scorer(_fn) / GenomeScorer with probe genome makers and scorers \
(tape level, generator state after the call compared); non-trivial = pair of different values, non-empty vector, or a generator that draws; distinct by request line";

const I64_POOL: [i64; 11] = [i64::MIN, i64::MIN + 1, -(1 << 40), -2, -1, 0, 1, 2, 1 << 40, i64::MAX - 1, i64::MAX];

fn list<T: ToString>(l: &[T]) -> String { l.iter().map(|x| x.to_string()).collect::<Vec<_>>().join(",") }

pub fn run(cfg: &Cfg) -> Report {
    let st = selftest();
    let seed = cfg.seed;
    let n_pairs_rows: u64 = 256 + I64_POOL.len() as u64;
    let n_sum: u64 = if cfg.thorough { 60_000 } else { 3_000 };
    let n_gen: u64 = if cfg.thorough { 40_000 } else { 2_000 };
    let n = n_pairs_rows + n_sum + n_gen;
    let mut rep = run_sharded(&cfg.driver, cfg.threads, n, || Report::new("res", RULE), |d, r, i| {
        if i < n_pairs_rows {
            // ---- (a) one row of the comparison table per request
            let (a_s, cs_s, real): (String, String, Vec<String>) = if i < 256 {
                let a = (i as i64 - 128) as i8;
                let cs: Vec<i8> = (-128i16..=127).map(|x| x as i8).collect();
                (a.to_string(), list(&cs), cs.iter().map(|c| codes::<i8>(a, *c, st)).collect())
            } else {
                let a = I64_POOL[(i - 256) as usize];
                (a.to_string(), list(&I64_POOL), I64_POOL.iter().map(|c| codes::<i64>(a, *c, st)).collect())
            };
            let req = format!("res cmp {a_s} {cs_s}");
            let reply = d.ask(&req);
            let (impl_s, spec_s) = reply.split_once(" ## ").unwrap_or((&reply, ""));
            let impls: Vec<&str> = impl_s.split(' ').collect();
            let specs: Vec<&str> = spec_s.split(' ').collect();
            let cs: Vec<&str> = cs_s.split(',').collect();
            for (k, real) in real.iter().enumerate() {
                let case = format!("cmp {a_s} {}", cs[k]);
                r.case(&case, a_s != cs[k]);
                r.hit(if a_s == cs[k] { "pair equal" } else { "pair different" });
                if k < 2 { r.sample(json!({"pair": case, "real": real})); }
                let spec = specs.get(k).copied().unwrap_or("");
                let imp = impls.get(k).copied().unwrap_or("");
                if real.contains('!') {
                    r.violate(json!({"case": case, "real": real, "what": "`!=` is not the negation of `==` on TestResult"}));
                } else if mask(real, spec) != spec {
                    r.violate(json!({"case": case, "real": real, "spec": spec,
                        "what": "comparison verdicts (7 per subject: cmp partial_cmp == < <= > >=; subjects Score, Error, TestResult ss/ee/se/es, TestResults S/E, EcIndividual S/E/different genomes) contradict the Spec"}));
                } else if real != imp {
                    r.disagree(json!({"case": case, "real": real, "impl": imp}));
                }
            }
        } else if i < n_pairs_rows + n_sum {
            // ---- (c) totals
            let mut g = SplitMix::derive(seed ^ 0xC15, i);
            if i % 3 == 2 {
                // float results: the order of summation is observable through rounding, so "the sum of the per-case
                // results kept in the order given" is the left fold; lengths around and beyond typical block sizes
                let len = match g.below(6) { 0 => 1 + g.below(8), 1 => 60 + g.below(12), 2 => 120 + g.below(20), 3 => 250 + g.below(60), _ => 1 + g.below(40) } as usize;
                let style = g.below(4);
                let vs: Vec<f64> = (0..len).map(|j| match style {
                    0 => if j == 0 { 1e16 } else { 1.0 },
                    1 => { let k = g.below(120) as i32 - 60; let m = 1.0 + (g.below(1 << 20) as f64) / (1u64 << 20) as f64; (if g.chance(1, 2) { -m } else { m }) * 2f64.powi(k) }
                    2 => 0.1 * (1 + g.below(9)) as f64,
                    _ => *g.pick(&[1e16, -1e16, 1.0, 3.0, 1e-3, 0.1, -0.0, 0.0]),
                }).collect();
                let subject = g.below(3);
                let via_collect = g.chance(1, 2);
                let real = std::panic::catch_unwind(|| {
                    let (rs, t): (Vec<f64>, f64) = match subject {
                        0 => { let t: TestResults<Score<f64>> = if via_collect { vs.iter().copied().collect() } else { vs.clone().into() }; (t.results.iter().map(|s| s.0).collect(), t.total_result.0) }
                        1 => { let t: TestResults<Error<f64>> = if via_collect { vs.iter().copied().collect() } else { vs.clone().into() }; (t.results.iter().map(|s| s.0).collect(), t.total_result.0) }
                        _ => { let t: TestResults<f64> = if via_collect { vs.iter().copied().collect() } else { vs.clone().into() }; (t.results.clone(), t.total_result) }
                    };
                    format!("r={} t={}", list(&rs.iter().map(|x| x.to_bits()).collect::<Vec<_>>()), if t.is_nan() { "nan".to_string() } else { t.to_bits().to_string() })
                });
                let req = format!("res fsum {}", list(&vs.iter().map(|x| x.to_bits()).collect::<Vec<_>>()));
                let model = d.ask(&req);
                r.case(&req, len >= 2);
                r.hit(&format!("float vector len {}", match len { 1 => "1", 2..=64 => "2-64", 65..=128 => "65-128", _ => "129+" }));
                match real {
                    Ok(s) => if s != model {
                        r.violate(json!({"case": if req.len() > 600 { format!("{}… ({} values, style {style}, subject {subject})", &req[..600], len) } else { req.clone() }, "real": s.split(" t=").nth(1), "spec": model.split(" t=").nth(1),
                            "what": "float results: the results are not the values given in order, or the total is not their sum taken in that order (left fold)"}));
                    },
                    Err(_) => r.violate(json!({"case": "float vector", "what": "building TestResults panicked"})),
                }
                return;
            }
            let len = match g.below(12) { 0 => 0, 1 => 1, 2 => 2, 3 => 60 + g.below(80), 4 => 200 + g.below(200), _ => g.below(40) } as usize;
            // long vectors of extreme values could overflow the i64 sum (std behaviour, outside the property)
            let style = { let st0 = g.below(4); if st0 == 3 && len > 48 { 1 } else { st0 } };
            let mut vs: Vec<i64> = (0..len).map(|_| match style {
                0 => g.below(20) as i64 - 10,
                1 => (g.next_u64() >> 24) as i64 - (1 << 39),
                2 => *g.pick(&[0i64, 1, -1, 5, 8, 9]),
                _ => *g.pick(&[i64::MAX / 64, i64::MIN / 64, 0, 1, -1]),
            }).collect();
            if style == 3 && len == 2 && g.chance(1, 2) { vs = vec![i64::MAX, i64::MIN]; }
            let score = g.chance(1, 2);
            let via_collect = g.chance(1, 2);
            let real = std::panic::catch_unwind(|| {
                let skip = if st == 3 { 1 } else { 0 };
                if score {
                    let mut t: TestResults<Score<i64>> = if via_collect { vs.iter().copied().collect() } else { vs.clone().into() };
                    if st == 3 { t.total_result = t.results.iter().skip(skip).sum(); }
                    if st == 4 { t.results.reverse(); }
                    // the three `Sum` impls of Score (over owned scores, over plain values, over references) agree
                    let sums = [t.results.iter().cloned().sum::<Score<i64>>().0, vs.iter().copied().sum::<Score<i64>>().0, t.results.iter().sum::<Score<i64>>().0];
                    let tag = if st == 0 && sums.iter().any(|x| *x != vs.iter().sum::<i64>()) { format!(" SUM-IMPLS={sums:?}") } else { String::new() };
                    (t.len(), t.is_empty(), format!("r={} t={}{tag}", list(&t.results.iter().map(|s| s.0).collect::<Vec<_>>()), t.total_result.0))
                } else {
                    let t: TestResults<Error<i64>> = if via_collect { vs.iter().copied().collect() } else { vs.clone().into() };
                    let sums = [t.results.iter().cloned().sum::<Error<i64>>().0, vs.iter().copied().sum::<Error<i64>>().0, t.results.iter().sum::<Error<i64>>().0];
                    let tag = if st == 0 && sums.iter().any(|x| *x != vs.iter().sum::<i64>()) { format!(" SUM-IMPLS={sums:?}") } else { String::new() };
                    (t.len(), t.is_empty(), format!("r={} t={}{tag}", list(&t.results.iter().map(|s| s.0).collect::<Vec<_>>()), t.total_result.0))
                }
            });
            let req = format!("res sum {} {}", if score { "score" } else { "error" }, list(&vs));
            let reply = d.ask(&req);
            let (impl_s, spec_s) = reply.split_once(" ## ").unwrap_or((&reply, ""));
            r.case(&req, !vs.is_empty());
            r.hit(&format!("vector len {}", match len { 0 => "0", 1 => "1", 2 => "2", 3..=9 => "3-9", _ => "10+" }));
            r.hit(if via_collect { "built by collect()" } else { "built by into()" });
            r.sample(json!({"request": req, "real": format!("{real:?}")}));
            match real {
                Ok((l, e, s)) => {
                    if l != vs.len() || e != vs.is_empty() {
                        r.violate(json!({"case": req, "what": "len()/is_empty() do not describe the results given", "real": s}));
                    }
                    if s != spec_s {
                        r.violate(json!({"case": req, "real": s, "spec": spec_s, "what": "results are not the values given in order, or the total is not their sum"}));
                    } else if s != impl_s {
                        r.disagree(json!({"case": req, "real": s, "impl": impl_s}));
                    }
                }
                Err(_) => r.violate(json!({"case": req, "what": "building TestResults panicked", "spec": spec_s})),
            }
        } else {
            // ---- (d) scoring generators
            let mut g = SplitMix::derive(seed ^ 0x6E6, i);
            let dd = g.below(6) as usize;
            let c = g.below(2000) as i64 - 1000;
            let flavour = g.below(3);
            let mut real_rng = SplitMix::derive(seed ^ 0xABCD, i);
            let mut shadow = real_rng.clone();
            let ind: EcIndividual<Vec<u64>, TestResults<Score<i64>>> = match flavour {
                0 => IndividualGenerator::new(WordGenome { d: dd }, OffsetScorer { c }).sample(&mut real_rng),
                1 => WordGenome { d: dd }.with_scorer(&OffsetScorer { c }).sample(&mut real_rng),
                _ => WordGenome { d: dd }.with_scorer_fn(|gm: &Vec<u64>| -> TestResults<Score<i64>> { gm.iter().map(|w| (w % 100) as i64 + c).into() }).sample(&mut real_rng),
            };
            if st == 5 { real_rng.next_u64(); }
            let real = format!("g={} r={} t={}", list(&ind.genome), list(&ind.test_results.results.iter().map(|s| s.0).collect::<Vec<_>>()), ind.test_results.total_result.0);
            let req = format!("res gen {dd} {c}");
            let mut user = |_tag: u64, rng: &mut SplitMix| format!("n {}", rng.next_u64());
            let reply = d.ask_with(&req, |p| prims::answer(p, &mut shadow, &mut user));
            let (impl_s, spec_s) = reply.split_once(" ## ").unwrap_or((&reply, ""));
            r.case(&format!("{req}#{i}"), dd > 0);
            r.hit(match flavour { 0 => "generator IndividualGenerator::new", 1 => "generator with_scorer(&scorer)", _ => "generator with_scorer_fn" });
            r.sample(json!({"request": req, "real": real}));
            let same_stream = real_rng.next_u64() == shadow.next_u64();
            // model-free: the individual carries its genome's score
            let want: Vec<i64> = ind.genome.iter().map(|w| (w % 100) as i64 + c).collect();
            let oracle_ok = ind.test_results.results.iter().map(|s| s.0).collect::<Vec<_>>() == want && ind.test_results.total_result.0 == want.iter().sum::<i64>();
            if !oracle_ok || real != spec_s {
                r.violate(json!({"case": req, "real": real, "spec": spec_s, "what": "the individual does not carry the generated genome with that genome's score"}));
            } else if real != impl_s || !same_stream {
                r.disagree(json!({"case": req, "real": real, "impl": impl_s, "same_generator_state_after": same_stream}));
            }
            // `EcIndividual::from((genome, results))` / `new` carry exactly what they were given
            {
                let from_pair: EcIndividual<Vec<u64>, TestResults<Score<i64>>> = (ind.genome.clone(), ind.test_results.clone()).into();
                let by_new = EcIndividual::new(ind.genome.clone(), ind.test_results.clone());
                if from_pair != ind || by_new != ind || from_pair.genome != ind.genome || from_pair.test_results != ind.test_results {
                    r.violate(json!({"case": req, "what": "EcIndividual::from((genome, results)) / new does not carry exactly the genome and the results it was created from"}));
                }
            }
            // GenomeScorer as an operator (model-free oracle here; its stream behaviour is tied in the `ops` family)
            let pop: Vec<Ind> = (0..1 + g.below(5)).map(|k| Ind::new(V::Leaf(g.below(100)), V::Leaf(k))).collect();
            probe::set_script(None, 0);
            let gs = GenomeScorer::new(Select::new(ProbeSel { id: 1, d: 1 }), FnScorer(|i: &&Ind| probe::hash(&i.to_v())));
            let mut rng2 = SplitMix::derive(seed ^ 0x77, i);
            let mut rng3 = rng2.clone();
            let made = gs.apply(&pop, &mut rng2).expect("non-empty population");
            let sel = Select::new(ProbeSel { id: 1, d: 1 }).apply(&pop, &mut rng3).expect("non-empty population");
            probe::take_log();
            r.hit("GenomeScorer oracle");
            if !std::ptr::eq(made.genome, sel) || made.test_results != probe::hash(&sel.to_v()) || rng2 != rng3 {
                r.violate(json!({"case": format!("GenomeScorer #{i}"), "what": "GenomeScorer's individual does not carry the made genome and its score, or drew more than the genome maker"}));
            }
        }
    });
    // ---- (b) order laws on the real code alone, every i8 triple
    let vals: Vec<i8> = (-128i16..=127).map(|x| x as i8).collect();
    let sc: Vec<Score<i8>> = vals.iter().map(|v| Score(*v)).collect();
    let er: Vec<Error<i8>> = vals.iter().map(|v| Error(*v)).collect();
    let ts: Vec<TestResults<Score<i8>>> = vals.iter().map(|v| TestResults { results: vec![Score(v.wrapping_neg())], total_result: Score(*v) }).collect();
    let ie: Vec<EcIndividual<i8, TestResults<Error<i8>>>> = vals.iter().map(|v| EcIndividual::new(v.wrapping_mul(3), TestResults { results: vec![Error(v.wrapping_neg())], total_result: Error(*v) })).collect();
    let mut law_fail: Vec<String> = Vec::new();
    fn laws<X: Ord>(name: &str, xs: &[X], vals: &[i8], reversed: bool, fails: &mut Vec<String>) -> u64 {
        let mut n = 0u64;
        for (i, a) in xs.iter().enumerate() {
            if a.cmp(a) != Ordering::Equal { fails.push(format!("{name}: not reflexive at {}", vals[i])); }
            for (j, b) in xs.iter().enumerate() {
                let ab = a.cmp(b);
                let want = if reversed { vals[j].cmp(&vals[i]) } else { vals[i].cmp(&vals[j]) };
                if ab != want { fails.push(format!("{name}: cmp({}, {}) = {ab:?}, the order demands {want:?}", vals[i], vals[j])); }
                if b.cmp(a) != ab.reverse() { fails.push(format!("{name}: cmp not antisymmetric at ({}, {})", vals[i], vals[j])); }
                if a.partial_cmp(b) != Some(ab) { fails.push(format!("{name}: partial_cmp disagrees with cmp at ({}, {})", vals[i], vals[j])); }
                if a.max(b).cmp(b) == Ordering::Less || a.min(b).cmp(b) == Ordering::Greater { fails.push(format!("{name}: max/min inconsistent at ({}, {})", vals[i], vals[j])); }
                if ab != Ordering::Greater {
                    for (k, c) in xs.iter().enumerate() {
                        n += 1;
                        if b.cmp(c) != Ordering::Greater && a.cmp(c) == Ordering::Greater {
                            fails.push(format!("{name}: not transitive at ({}, {}, {})", vals[i], vals[j], vals[k]));
                        }
                    }
                }
                if fails.len() > 20 { return n; }
            }
        }
        n
    }
    let mut n_laws = 0;
    n_laws += laws("Score<i8>", &sc, &vals, false, &mut law_fail);
    n_laws += laws("Error<i8>", &er, &vals, true, &mut law_fail);
    n_laws += laws("TestResults<Score<i8>>", &ts, &vals, false, &mut law_fail);
    n_laws += laws("EcIndividual<_, TestResults<Error<i8>>>", &ie, &vals, true, &mut law_fail);
    rep.hit_n("order-law triples checked on the real code (reflexive, antisymmetric, transitive, partial_cmp/cmp/max/min agree)", n_laws);
    for f in law_fail.into_iter().take(20) {
        rep.violate(json!({"case": "order laws over all i8 triples", "what": f}));
    }
    // ---- (e) individuals compare exactly as their results do - also when the results are incomparable
    // (a score against an error; float totals that are NaN): every operator false, partial_cmp = None, never Equal
    {
        let mut bad: Vec<String> = vec![];
        type IndR = EcIndividual<u8, TestResult<i64, i64>>;
        let vals = [i64::MIN, -1, 0, 1, 7, i64::MAX];
        for &x in &vals { for &y in &vals { for (ga, gb) in [(1u8, 1u8), (1, 2)] {
            let a: IndR = EcIndividual::new(ga, TestResult::Score(Score(x)));
            let b: IndR = EcIndividual::new(gb, TestResult::Error(Error(y)));
            for (p, q) in [(&a, &b), (&b, &a)] {
                let want = p.test_results.partial_cmp(&q.test_results);
                if want.is_some() { bad.push(format!("TestResult: a score ({x}) is comparable to an error ({y})")); }
                if p.partial_cmp(q) != want || p < q || p <= q || p > q || p >= q || p == q {
                    bad.push(format!("individuals with results Score({x}) / Error({y}) (genomes {ga},{gb}): partial_cmp = {:?}, < {} <= {} > {} >= {} == {}; their results are incomparable", p.partial_cmp(q), p < q, p <= q, p > q, p >= q, p == q));
                }
            }
            // same-variant individuals compare as the values do
            let c: IndR = EcIndividual::new(gb, TestResult::Score(Score(y)));
            if a.partial_cmp(&c) != Some(x.cmp(&y)) { bad.push(format!("individuals with Score({x}) / Score({y}): partial_cmp = {:?}", a.partial_cmp(&c))); }
            let e1: IndR = EcIndividual::new(ga, TestResult::Error(Error(x)));
            if e1.partial_cmp(&b) != Some(y.cmp(&x)) { bad.push(format!("individuals with Error({x}) / Error({y}): partial_cmp = {:?}", e1.partial_cmp(&b))); }
        } } }
        type IndF = EcIndividual<u8, TestResults<Score<f64>>>;
        let fl = [f64::NAN, -1.0, 0.0, -0.0, 2.5, f64::INFINITY];
        for &x in &fl { for &y in &fl {
            let a: IndF = EcIndividual::new(1, TestResults { results: vec![Score(x)], total_result: Score(x) });
            let b: IndF = EcIndividual::new(2, TestResults { results: vec![Score(y)], total_result: Score(y) });
            let want = x.partial_cmp(&y);
            if a.partial_cmp(&b) != want || a.test_results.partial_cmp(&b.test_results) != want || (a < b) != (x < y) || (a <= b) != (x <= y) || (a > b) != (x > y) || (a >= b) != (x >= y) {
                bad.push(format!("individuals with float totals {x} / {y}: partial_cmp = {:?}, the totals give {want:?}", a.partial_cmp(&b)));
            }
        } }
        // every comparison operator of the float-valued wrappers agrees with `partial_cmp` (also `<=` / `>=` on incomparable
        // values - operators a type may override one by one), scores in the direction of the values, errors reversed
        {
            fn agree<X: PartialOrd>(what: &str, a: &X, b: &X, want: Option<Ordering>, xs: (f64, f64), bad: &mut Vec<String>) {
                let pc = a.partial_cmp(b);
                let ok = pc == want && (a < b) == (pc == Some(Ordering::Less)) && (a > b) == (pc == Some(Ordering::Greater))
                    && (a <= b) == matches!(pc, Some(Ordering::Less | Ordering::Equal)) && (a >= b) == matches!(pc, Some(Ordering::Greater | Ordering::Equal))
                    && (a == b) == (pc == Some(Ordering::Equal)) && (a != b) == !(a == b)
                    && a.lt(b) == (a < b) && a.le(b) == (a <= b) && a.gt(b) == (a > b) && a.ge(b) == (a >= b);
                if !ok { bad.push(format!("{what} of {} / {}: partial_cmp = {pc:?} (the values give {want:?}), < {} <= {} > {} >= {} == {} != {}: the operators do not agree", xs.0, xs.1, a < b, a <= b, a > b, a >= b, a == b, a != b)); }
            }
            let fl2 = [f64::NAN, -f64::NAN, f64::NEG_INFINITY, -1.0, -0.0, 0.0, f64::MIN_POSITIVE, 2.5, f64::MAX, f64::INFINITY];
            for &x in &fl2 { for &y in &fl2 {
                let (up, down) = (x.partial_cmp(&y), y.partial_cmp(&x));
                agree("Score<f64>", &Score(x), &Score(y), up, (x, y), &mut bad);
                agree("Error<f64>", &Error(x), &Error(y), down, (x, y), &mut bad);
                agree("Score<f32>", &Score(x as f32), &Score(y as f32), (x as f32).partial_cmp(&(y as f32)), (x, y), &mut bad);
                agree("Error<f32>", &Error(x as f32), &Error(y as f32), (y as f32).partial_cmp(&(x as f32)), (x, y), &mut bad);
                type TF = TestResult<f64, f64>;
                agree::<TF>("TestResult::Score<f64>", &TestResult::Score(Score(x)), &TestResult::Score(Score(y)), up, (x, y), &mut bad);
                agree::<TF>("TestResult::Error<f64>", &TestResult::Error(Error(x)), &TestResult::Error(Error(y)), down, (x, y), &mut bad);
                agree::<TF>("TestResult score / error <f64>", &TestResult::Score(Score(x)), &TestResult::Error(Error(y)), None, (x, y), &mut bad);
                agree::<TF>("TestResult error / score <f64>", &TestResult::Error(Error(x)), &TestResult::Score(Score(y)), None, (x, y), &mut bad);
                let (sa, sb): (TestResults<Score<f64>>, TestResults<Score<f64>>) = (vec![x].into(), vec![y].into());
                let (ea, eb): (TestResults<Error<f64>>, TestResults<Error<f64>>) = (vec![x].into(), vec![y].into());
                agree("TestResults<Score<f64>> (one result)", &sa, &sb, up, (x, y), &mut bad);
                agree("TestResults<Error<f64>> (one result)", &ea, &eb, down, (x, y), &mut bad);
                agree("individuals with TestResults<Error<f64>>", &EcIndividual::new(1u8, ea.clone()), &EcIndividual::new(1u8, eb.clone()), down, (x, y), &mut bad);
                agree("individuals with TestResult<f64, f64> score / error", &EcIndividual::new(1u8, TF::Score(Score(x))), &EcIndividual::new(1u8, TF::Error(Error(y))), None, (x, y), &mut bad);
            } }
        }
        // incomparable totals stay incomparable whatever the per-case results look like (no falling back on them)
        for (ra, rb) in [(vec![1.0, f64::NAN], vec![2.0, f64::NAN]), (vec![3.0, f64::INFINITY, f64::NEG_INFINITY], vec![5.0, 1.0]), (vec![f64::NAN], vec![f64::NAN, 1.0]),
                         (vec![1.0, f64::NAN], vec![1.0, f64::NAN, 7.0]), (vec![0.0, f64::NAN], vec![9.0])] {
            let a: TestResults<Score<f64>> = ra.clone().into();
            let b: TestResults<Score<f64>> = rb.clone().into();
            let ea: TestResults<Error<f64>> = ra.clone().into();
            let eb: TestResults<Error<f64>> = rb.clone().into();
            let (ta, tb) = (a.total_result.0, b.total_result.0);
            let want = ta.partial_cmp(&tb);
            let ia = EcIndividual::new(1u8, a.clone());
            let ib = EcIndividual::new(2u8, b.clone());
            if a.partial_cmp(&b) != want || b.partial_cmp(&a) != want.map(Ordering::reverse) || (a < b) != (ta < tb) || (a >= b) != (ta >= tb)
                || ea.partial_cmp(&eb) != tb.partial_cmp(&ta) || ia.partial_cmp(&ib) != want || (ia <= ib) != (ta <= tb) {
                bad.push(format!("result collections {ra:?} (total {ta}) and {rb:?} (total {tb}): partial_cmp = {:?} / {:?} (errors) / {:?} (individuals), the totals give {want:?}", a.partial_cmp(&b), ea.partial_cmp(&eb), ia.partial_cmp(&ib)));
            }
        }
        // the same individual compared with itself *through the same reference* is compared like any two individuals:
        // a NaN total is not comparable to itself (no pointer-equality shortcut)
        for &x in &fl {
            let a: IndF = EcIndividual::new(1, TestResults { results: vec![Score(x)], total_result: Score(x) });
            let r = &a;
            #[allow(clippy::eq_op)]
            let (pc, le, ge, lt, gt, eq) = (r.partial_cmp(r), r <= r, r >= r, r < r, r > r, r == r);
            let want = x.partial_cmp(&x);
            #[allow(clippy::eq_op)]
            if pc != want || le != (x <= x) || ge != (x >= x) || lt || gt || eq != (x == x) || r.test_results.partial_cmp(&r.test_results) != want {
                bad.push(format!("an individual with float total {x} compared with itself (same reference): partial_cmp = {pc:?}, <= {le}, >= {ge}, == {eq}; its total gives {want:?}"));
            }
            let e: EcIndividual<u8, TestResults<Error<f64>>> = EcIndividual::new(1, TestResults { results: vec![Error(x)], total_result: Error(x) });
            let re = &e;
            #[allow(clippy::eq_op)]
            if re.partial_cmp(re) != want || (re <= re) != (x <= x) || (re >= re) != (x >= x) {
                bad.push(format!("an individual with float error total {x} compared with itself (same reference): partial_cmp = {:?}; its total gives {want:?}", re.partial_cmp(re)));
            }
            let pf: EcIndividual<u8, f64> = EcIndividual::new(1, x);
            let rp = &pf;
            #[allow(clippy::eq_op)]
            if rp.partial_cmp(rp) != want || (rp <= rp) != (x <= x) {
                bad.push(format!("an individual with float result {x} compared with itself (same reference): partial_cmp = {:?}; its result gives {want:?}", rp.partial_cmp(rp)));
            }
        }
        for &x in &vals {
            let a: IndR = EcIndividual::new(1, TestResult::Score(Score(x)));
            let r = &a;
            #[allow(clippy::eq_op)]
            if r.partial_cmp(r) != Some(Ordering::Equal) || !(r <= r) || !(r >= r) || r < r || r > r || r != r {
                bad.push(format!("an individual with result Score({x}) compared with itself: partial_cmp = {:?}", r.partial_cmp(r)));
            }
        }
        // ---- (f) a TestResults value overwritten by clone_from is the value it was cloned from (total included)
        for (n1, n2) in [(0usize, 3usize), (3, 0), (2, 5), (4, 4)] {
            let src: TestResults<Score<i64>> = (0..n2 as i64).map(|k| 10 * k + 1).collect();
            let mut dst: TestResults<Score<i64>> = (0..n1 as i64).map(|k| 1000 - k).collect();
            dst.clone_from(&src);
            let mut dv: Vec<TestResults<Error<i64>>> = vec![(0..n1 as i64).collect(), vec![5i64, 5].into()];
            let sv: Vec<TestResults<Error<i64>>> = vec![(0..n2 as i64).map(|k| 3 * k).collect(), vec![7i64].into()];
            dv.clone_from(&sv);
            let sum_ok = |t: &TestResults<Error<i64>>| t.total_result.0 == t.results.iter().map(|r| r.0).sum::<i64>();
            if dst != src || dst.total_result.0 != src.results.iter().map(|r| r.0).sum::<i64>() || dv != sv || !dv.iter().all(sum_ok) {
                bad.push(format!("clone_from: a TestResults with {n1} results overwritten from one with {n2} results has total {} for results {:?}", dst.total_result.0, dst.results.iter().map(|r| r.0).collect::<Vec<_>>()));
            }
        }
        // ---- (g) result collections with different numbers of cases still compare as their totals do
        for (ra, rb) in [(vec![1i64, 2, 3], vec![9i64]), (vec![], vec![0i64]), (vec![5], vec![2, 3]), (vec![4, 4], vec![1, 1, 1, 1, 1, 1, 1, 1]), (vec![], vec![]), (vec![-7], vec![])] {
            let a: TestResults<Score<i64>> = ra.clone().into();
            let b: TestResults<Score<i64>> = rb.clone().into();
            let (ta, tb): (i64, i64) = (ra.iter().sum(), rb.iter().sum());
            let ea: TestResults<Error<i64>> = ra.clone().into();
            let eb: TestResults<Error<i64>> = rb.clone().into();
            let ia = EcIndividual::new(1u8, a.clone());
            let ib = EcIndividual::new(2u8, b.clone());
            let ok = a.partial_cmp(&b) == Some(ta.cmp(&tb)) && a.cmp(&b) == ta.cmp(&tb) && (a < b) == (ta < tb) && (a <= b) == (ta <= tb) && (a > b) == (ta > tb) && (a >= b) == (ta >= tb)
                && ea.partial_cmp(&eb) == Some(tb.cmp(&ta)) && (ea < eb) == (tb < ta) && (ea >= eb) == (tb >= ta)
                && ia.partial_cmp(&ib) == Some(ta.cmp(&tb)) && (ia <= ib) == (ta <= tb) && (ia > ib) == (ta > tb);
            if !ok { bad.push(format!("result collections {ra:?} (total {ta}) and {rb:?} (total {tb}) do not compare as their totals do: partial_cmp = {:?}", a.partial_cmp(&b))); }
        }
        // ---- (h) collect() from any iterator keeps every value, in order, and totals them - also from lazy iterators
        // whose size hint has lower bound 0 (filter, flat_map, take_while, from_fn)
        for vs in [vec![3i64, -1, 4], vec![7], vec![], vec![1, 1, 1, 1, 1, 1, 1, 1, 1, 1]] {
            let want: TestResults<Score<i64>> = vs.clone().into();
            let c1: TestResults<Score<i64>> = vs.iter().copied().filter(|_| true).collect();
            let c2: TestResults<Score<i64>> = vs.iter().flat_map(|x| std::iter::once(*x)).collect();
            let c3: TestResults<Score<i64>> = vs.iter().copied().take_while(|_| true).collect();
            let mut it = vs.iter().copied();
            let c4: TestResults<Score<i64>> = std::iter::from_fn(|| it.next()).collect();
            let c5: TestResults<Error<i64>> = vs.iter().copied().skip_while(|_| false).collect();
            let want_e: TestResults<Error<i64>> = vs.clone().into();
            if c1 != want || c2 != want || c3 != want || c4 != want || c5 != want_e || want.total_result.0 != vs.iter().sum::<i64>() || want.results.len() != vs.len() {
                bad.push(format!("collect() of the values {vs:?} through a lazy iterator (filter / flat_map / take_while / from_fn / skip_while) does not give the results in order with their total: e.g. {:?} total {}", c1.results.iter().map(|r| r.0).collect::<Vec<_>>(), c1.total_result.0));
            }
        }
        rep.hit_n("incomparable-results / clone_from oracles", 1);
        for f in bad.into_iter().take(10) {
            rep.violate(json!({"case": "individuals and result collections compare / aggregate as their totals do", "what": f}));
        }
    }
    // ---- (i) `Ord`'s provided methods max / min / clamp on every result type, against the model (`res ord3`): which
    // operand comes back (ties: max the second, min the first), clamp within valid bounds, panic on invalid bounds -
    // in the type's own order (errors: reversed)
    {
        let mut d = crate::driver::Driver::spawn(&cfg.driver);
        let pool: [i64; 7] = [i64::MIN, -3, 0, 5, 6, 9, i64::MAX];
        let mut n_ord = 0u64;
        fn o3<X: Ord + Clone + std::panic::RefUnwindSafe>(x: &X, lo: &X, hi: &X, sh: &dyn Fn(&X) -> String) -> String {
            let mx = x.clone().max(lo.clone());
            let mn = x.clone().min(lo.clone());
            let (x2, l2, h2) = (x.clone(), lo.clone(), hi.clone());
            let prev = std::panic::take_hook();
            std::panic::set_hook(Box::new(|_| {}));
            let c = std::panic::catch_unwind(std::panic::AssertUnwindSafe(move || x2.clamp(l2, h2)));
            std::panic::set_hook(prev);
            format!("{} {} {}", sh(&mx), sh(&mn), match c { Ok(v) => sh(&v), Err(_) => "panic".to_string() })
        }
        for &x in &pool { for &lo in &pool { for &hi in &pool {
            n_ord += 1;
            let rs = |tag: i64, v: i64| TestResults { results: vec![Score(tag)], total_result: Score(v) };
            let re = |tag: i64, v: i64| TestResults { results: vec![Error(tag)], total_result: Error(v) };
            let real = [
                o3(&Score(x), &Score(lo), &Score(hi), &|a: &Score<i64>| a.0.to_string()),
                o3(&Error(x), &Error(lo), &Error(hi), &|a: &Error<i64>| a.0.to_string()),
                o3(&rs(1, x), &rs(2, lo), &rs(3, hi), &|a: &TestResults<Score<i64>>| format!("{}:{}", a.results[0].0, a.total_result.0)),
                o3(&re(1, x), &re(2, lo), &re(3, hi), &|a: &TestResults<Error<i64>>| format!("{}:{}", a.results[0].0, a.total_result.0)),
                o3(&EcIndividual::new(1i64, rs(0, x)), &EcIndividual::new(2i64, rs(0, lo)), &EcIndividual::new(3i64, rs(0, hi)), &|a: &EcIndividual<i64, TestResults<Score<i64>>>| format!("{}:{}", a.genome, a.test_results.total_result.0)),
                o3(&EcIndividual::new(1i64, re(0, x)), &EcIndividual::new(2i64, re(0, lo)), &EcIndividual::new(3i64, re(0, hi)), &|a: &EcIndividual<i64, TestResults<Error<i64>>>| format!("{}:{}", a.genome, a.test_results.total_result.0)),
            ].join(" | ");
            let req = format!("res ord3 {x} {lo} {hi}");
            let imp = d.ask(&req);
            rep.case(&req, x != lo && lo != hi);
            if real != imp {
                // the model is the property here (theorems max_min_follow_cmp, clamp_spec, error_clamp): a difference is a violation
                rep.violate(json!({"case": format!("max(x, lo), min(x, lo), clamp(x, lo, hi) for x = {x}, lo = {lo}, hi = {hi} on Score | Error | TestResults<Score> | TestResults<Error> | EcIndividual<_, TestResults<Score>> | EcIndividual<_, TestResults<Error>> (tag:total)"),
                    "real": real, "spec": imp, "what": "Ord::max / min / clamp do not follow the type's order (errors: smaller is better; clamp panics exactly when lo > hi in that order)"}));
                rep.disagree(json!({"case": req, "real": real, "impl": imp}));
            }
        } } }
        rep.hit_n("max / min / clamp triples against the model", n_ord);
    }
    rep.exhaustive = true;
    rep.notes.push(format!("exhaustive: all 65536 i8 pairs and all {} i64 boundary pairs through the model; all i8 triples ({} transitivity instances) as model-free oracle; sampled: {n_sum} result vectors, {n_gen} generator runs", I64_POOL.len() * I64_POOL.len(), n_laws));
    rep
}
