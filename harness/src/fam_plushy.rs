//! C05: `Vec::<PushProgram>::from(Plushy)` against the Lean recursive-descent model and the
//! open-block automaton (Spec), plus model-free oracles (depth-first reading, well-shapedness).
use crate::report::Report;
use crate::rng::SplitMix;
use crate::shard::run_sharded;
use crate::Cfg;
use push::genome::plushy::{Plushy, PushGene};
use push::instruction::{BoolInstruction, ExecInstruction, FloatInstruction, IntInstruction, NumOpens, PushInstruction};
use push::push_vm::program::PushProgram;
use serde_json::json;
use strum::IntoEnumIterator;

pub fn instr_name(i: &PushInstruction) -> String {
    let s = match i {
        PushInstruction::IntInstruction(IntInstruction::Push(v)) => format!("n{}", v.0),
        other => format!("{other}"),
    };
    s.chars().map(|c| if c.is_whitespace() || c == '(' || c == ')' || c == '/' || c == '|' || c == '#' { '_' } else { c }).collect()
}

/// the documented table of block openers: `IfElse` opens two blocks, `DupBlock` / `When` / `Unless` one, everything
/// else - literals included, whatever they carry - none.  The model is told *this*, not what the real `num_opens` says.
pub fn documented_opens(i: &PushInstruction) -> usize {
    match i {
        PushInstruction::Exec(ExecInstruction::IfElse(_)) => 2,
        PushInstruction::Exec(ExecInstruction::DupBlock(_) | ExecInstruction::When(_) | ExecInstruction::Unless(_)) => 1,
        _ => 0,
    }
}

fn gene_token(g: &PushGene) -> String {
    match g {
        PushGene::Close => "c".into(),
        PushGene::Instruction(i) => format!("{}/{}", instr_name(i), documented_opens(i)),
    }
}

fn show(p: &[PushProgram], out: &mut Vec<String>) {
    for t in p {
        match t {
            PushProgram::Instruction(i) => out.push(instr_name(i)),
            PushProgram::Block(b) => {
                out.push("(".into());
                show(b, out);
                out.push(")".into());
            }
        }
    }
}

fn flatten<'a>(p: &'a [PushProgram], out: &mut Vec<&'a PushInstruction>) {
    for t in p {
        match t {
            PushProgram::Instruction(i) => out.push(i),
            PushProgram::Block(b) => flatten(b, out),
        }
    }
}

/// "each instruction that opens k blocks is immediately followed by exactly k blocks"
fn well_shaped(p: &[PushProgram]) -> bool {
    let mut i = 0;
    while i < p.len() {
        match &p[i] {
            PushProgram::Block(_) => return false, // a block nobody opened
            PushProgram::Instruction(ins) => {
                let k = documented_opens(ins);
                for j in 1..=k {
                    match p.get(i + j) {
                        Some(PushProgram::Block(b)) => {
                            if !well_shaped(b) {
                                return false;
                            }
                        }
                        _ => return false,
                    }
                }
                i += k + 1;
            }
        }
    }
    true
}

fn inventory() -> Vec<PushInstruction> {
    let mut v: Vec<PushInstruction> = Vec::new();
    v.extend(IntInstruction::iter().map(Into::into));
    v.extend(FloatInstruction::iter().map(Into::into));
    v.extend(BoolInstruction::iter().map(Into::into));
    v.extend(ExecInstruction::iter().filter(|e| !matches!(e, ExecInstruction::Push(_))).map(Into::into));
    // exec literals: `Exec::Push(payload)` opens no block, whatever the payload is (an opener, a block holding openers)
    let lit = |p: PushProgram| -> PushInstruction {
        let mut e = ExecInstruction::iter().find(|e| matches!(e, ExecInstruction::Push(_))).expect("Exec::Push variant");
        if let ExecInstruction::Push(b) = &mut e { b.0 = p; }
        e.into()
    };
    let ins = |e: ExecInstruction| PushProgram::Instruction(e.into());
    v.push(lit(PushProgram::Block(vec![])));
    v.push(lit(ins(ExecInstruction::when())));
    v.push(lit(ins(ExecInstruction::unless())));
    v.push(lit(ins(ExecInstruction::dup_block())));
    v.push(lit(ins(ExecInstruction::if_else())));
    v.push(lit(PushProgram::Block(vec![ins(ExecInstruction::if_else()), PushProgram::Block(vec![])])));
    v.push(lit(PushProgram::Instruction(PushInstruction::push_int(5))));
    v
}

const RULE: &str = "exhaustive: every gene sequence over {close, 0-opener (fresh int literal), 1-opener (When), 2-opener (IfElse)} \
up to a length bound; random: long genomes over the crates' whole instruction inventory (strum EnumIter) with biased close/opener \
density, up to 2000 genes; real Vec::<PushProgram>::from(Plushy) compared structurally with the Lean model and the automaton; \
non-trivial = the genome contains an opener and a close marker; distinct by gene sequence";

fn check_case(d: &mut crate::driver::Driver, r: &mut Report, genes: Vec<PushGene>) {
    let req = format!("plushy {}", genes.iter().map(gene_token).collect::<Vec<_>>().join(" "));
    let reply = d.ask(&req);
    let (impl_s, spec_s) = reply.split_once(" ## ").unwrap_or((&reply, ""));
    let instrs: Vec<PushInstruction> = genes.iter().filter_map(|g| if let PushGene::Instruction(i) = g { Some(i.clone()) } else { None }).collect();
    let has_open = instrs.iter().any(|i| documented_opens(i) > 0);
    let has_close = genes.iter().any(|g| matches!(g, PushGene::Close));
    let short = if req.len() > 400 { format!("{}… ({} genes)", &req[..400], genes.len()) } else { req.clone() };
    r.case(&req, has_open && has_close);
    r.hit(&format!("genes {}", match genes.len() { 0..=3 => "0-3", 4..=7 => "4-7", 8..=9 => "8-9", 10..=99 => "10-99", _ => "100+" }));
    let real = std::panic::catch_unwind(|| Vec::<PushProgram>::from(Plushy::new(genes)));
    let Ok(prog) = real else {
        r.violate(json!({"case": short, "what": "conversion panicked"}));
        return;
    };
    let mut toks = Vec::new();
    show(&prog, &mut toks);
    let real_s = toks.join(" ");
    r.sample(json!({"request": short, "real": if real_s.len() > 300 { format!("{}…", &real_s[..300]) } else { real_s.clone() }}));
    let mut flat = Vec::new();
    flatten(&prog, &mut flat);
    if flat.len() != instrs.len() || flat.iter().zip(instrs.iter()).any(|(a, b)| *a != b) {
        r.violate(json!({"case": short, "real": real_s, "what": "depth-first reading of the program is not the genome's instruction sequence"}));
    }
    if !well_shaped(&prog) {
        r.violate(json!({"case": short, "real": real_s, "what": "an opener is not followed by exactly num_opens blocks"}));
    }
    if real_s != spec_s {
        r.violate(json!({"case": short, "real": real_s, "spec": spec_s, "what": "program differs from the open-block automaton (close markers / end of genome)"}));
    }
    if real_s != impl_s {
        r.disagree(json!({"case": short, "real": real_s, "impl": impl_s}));
    }
}

pub fn run(cfg: &Cfg) -> Report {
    let maxlen: u32 = if cfg.thorough { 9 } else { 7 };
    let mut n_exh = 0u64;
    for l in 0..=maxlen { n_exh += 4u64.pow(l); }
    let n_rand: u64 = if cfg.thorough { 6000 } else { 400 };
    let seed = cfg.seed;
    let inv = inventory();
    let mut rep = run_sharded(&cfg.driver, cfg.threads, n_exh + n_rand, || Report::new("plushy", RULE), |d, r, i| {
        if i < n_exh {
            let mut j = i;
            let mut len = 0;
            for l in 0..=maxlen { let c = 4u64.pow(l); if j < c { len = l; break; } j -= c; }
            let mut genes = Vec::new();
            for pos in 0..len {
                genes.push(match j % 4 {
                    0 => PushGene::Close,
                    1 => PushGene::Instruction(PushInstruction::push_int(pos as i64)),
                    2 => PushGene::Instruction(ExecInstruction::when().into()),
                    _ => PushGene::Instruction(ExecInstruction::if_else().into()),
                });
                j /= 4;
            }
            check_case(d, r, genes);
        } else {
            let mut g = SplitMix::derive(seed, i);
            let len = match g.below(4) { 0 => g.below(20), 1 => g.below(200), _ => g.below(2000) };
            let close_pct = *g.pick(&[0u64, 5, 15, 30, 60]);
            let open_pct = *g.pick(&[0u64, 5, 20, 50, 90]);
            let openers: Vec<&PushInstruction> = inv.iter().filter(|i| documented_opens(i) > 0).collect();
            let mut genes = Vec::new();
            for k in 0..len {
                if g.below(100) < close_pct { genes.push(PushGene::Close); }
                else if g.below(100) < open_pct { genes.push(PushGene::Instruction((*g.pick(&openers)).clone())); }
                else if g.chance(1, 2) { genes.push(PushGene::Instruction(PushInstruction::push_int(k as i64))); }
                else { genes.push(PushGene::Instruction(g.pick(&inv).clone())); }
            }
            check_case(d, r, genes);
        }
    });
    rep.exhaustive = false;
    rep.notes.push(format!("exhaustive part: all {n_exh} gene sequences of length 0..={maxlen} over 4 gene kinds; random part: {n_rand} genomes up to 2000 genes over {} inventory instructions", inv.len()));
    // inventory cross-check of num_opens (DupBlock/When/Unless = 1, IfElse = 2, everything else 0)
    // ... and the Lean model's own table (`Prog.numOpens`, theorems opener_table / literal_opens_nothing) says the same
    {
        let mut d = crate::driver::Driver::spawn(&cfg.driver);
        let progs: Vec<PushProgram> = inv.iter().map(|i| PushProgram::Instruction(i.clone())).collect();
        let reply = d.ask(&format!("push opens {}", crate::fam_push::progs_string(&progs)));
        let model: Vec<&str> = reply.split(' ').collect();
        if model.len() != inv.len() {
            rep.disagree(json!({"case": "num_opens table of the inventory", "real": format!("{} instructions", inv.len()), "impl": reply.chars().take(200).collect::<String>()}));
        } else {
            for (i, m) in inv.iter().zip(model.iter()) {
                if *m != documented_opens(i).to_string() {
                    rep.disagree(json!({"case": format!("num_opens of {i}"), "real": i.num_opens(), "impl": m, "what": "the model's table of block openers differs from the table the harness tells it"}));
                }
            }
        }
    }
    for i in &inv {
        let name = format!("{i}");
        let expect = documented_opens(i);
        if i.num_opens() != expect {
            rep.violate(json!({"case": name, "what": "num_opens differs from the documented table", "real": i.num_opens(), "expected": expect}));
        }
    }
    rep
}
