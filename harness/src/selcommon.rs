//! Shared pieces of the selector families (`sel`, `lex`, `wsel`): populations, the leaf selector
//! wrapper, canonical forms of the (nested) error types, identity of the selected individual.
use ec_core::individual::ec::EcIndividual;
use ec_core::operator::selector::{
    best::Best, dyn_weighted::DynWeightedError, error::EmptyPopulation, lexicase::{Lexicase, LexicaseError}, random::Random,
    tournament::{Tournament, TournamentSizeError}, worst::Worst, Selector,
};
use ec_core::test_results::{Error, Score, TestResults};
use ec_core::weighted::error::{SelectionError, WeightedPairError};
use crate::rng::SplitMix;
use rand::seq::WeightError;
use rand::Rng;
use std::num::NonZeroUsize;

pub type Ind<R> = EcIndividual<usize, TestResults<R>>;
pub type IndS = Ind<Score<i64>>;
pub type IndE = Ind<Error<i64>>;
/// (ordering key = total result, per-case results)
pub type PopRaw = Vec<(i64, Vec<i64>)>;

pub fn pop_tokens(pop: &PopRaw) -> String {
    pop.iter().map(|(k, rs)| format!("{k}:{}", rs.iter().map(|x| x.to_string()).collect::<Vec<_>>().join(","))).collect::<Vec<_>>().join(" ")
}
pub fn mk_score(pop: &PopRaw) -> Vec<IndS> {
    let g = genome_of(pop);
    pop.iter().enumerate().map(|(j, (k, rs))| EcIndividual::new(g(j), TestResults { results: rs.iter().map(|x| Score(*x)).collect(), total_result: Score(*k) })).collect()
}
pub fn mk_error(pop: &PopRaw) -> Vec<IndE> {
    let g = genome_of(pop);
    pop.iter().enumerate().map(|(j, (k, rs))| EcIndividual::new(g(j), TestResults { results: rs.iter().map(|x| Error(*x)).collect(), total_result: Error(*k) })).collect()
}

/// index of the returned reference inside the population slice (identity, not equality)
pub fn index_of<T>(pop: &[T], r: &T) -> Option<usize> {
    pop.iter().position(|x| std::ptr::eq(x, r))
}

/// Populations: empty, singleton, pairs, all-equal, duplicate-laden, random; `cases` results each
/// (individuals may have fewer/more when `ragged`).
pub fn gen_pop(rng: &mut SplitMix, max_n: u64, cases: usize, ragged: bool) -> PopRaw {
    let n = match rng.below(12) { 0 => 0, 1 => 1, 2 => 2, _ => 1 + rng.below(max_n) } as usize;
    gen_pop_n(rng, n, cases, ragged)
}

/// a population of exactly `n` individuals
pub fn gen_pop_n(rng: &mut SplitMix, n: usize, cases: usize, ragged: bool) -> PopRaw {
    let spread = *rng.pick(&[1u64, 2, 2, 3, 5, 100]);
    let dup = rng.chance(1, 4);
    let mut pop: PopRaw = Vec::new();
    for j in 0..n {
        if dup && j > 0 && rng.chance(1, 2) {
            let c = pop[rng.below(j as u64) as usize].clone();
            pop.push(c);
            continue;
        }
        let len = if ragged && rng.chance(1, 6) { rng.below(cases as u64 + 2) as usize } else { cases };
        let rs: Vec<i64> = (0..len).map(|_| rng.below(spread) as i64 - 1).collect();
        let key = rs.iter().sum::<i64>() + if rng.chance(1, 4) { rng.below(3) as i64 - 1 } else { 0 };
        pop.push((key, rs));
    }
    pop
}

// ---------------------------------------------------------------------------------------------
// leaves

#[derive(Clone, Debug, PartialEq)]
pub enum Leaf {
    Best,
    Worst,
    Random,
    Tournament(usize),
    Lexicase(usize),
    /// harness-defined deterministic selector returning the individual at position i
    Probe(usize),
}
impl Leaf {
    pub fn token(&self) -> String {
        match self {
            Leaf::Best => "best".into(),
            Leaf::Worst => "worst".into(),
            Leaf::Random => "random".into(),
            Leaf::Tournament(k) => format!("tournament {k}"),
            Leaf::Lexicase(n) => format!("lexicase {n}"),
            Leaf::Probe(i) => format!("probe {i}"),
        }
    }
    pub fn kind(&self) -> &'static str {
        match self {
            Leaf::Best => "best",
            Leaf::Worst => "worst",
            Leaf::Random => "random",
            Leaf::Tournament(_) => "tournament",
            Leaf::Lexicase(_) => "lexicase",
            Leaf::Probe(_) => "probe",
        }
    }
}

/// The `Probe` selector (the documentation's `First`, generalised to position `i`).
pub struct Probe(pub usize);
impl<T> Selector<Vec<T>> for Probe {
    type Error = EmptyPopulation;
    fn select<'pop, R: Rng + ?Sized>(&self, population: &'pop Vec<T>, _: &mut R) -> Result<&'pop T, EmptyPopulation> {
        population.get(self.0).ok_or(EmptyPopulation)
    }
}

/// One type for all leaf selectors, so that the nested `WeightedPair` types depend on the shape
/// only. Dispatches to the real selectors; counts its calls.
pub struct AnyLeaf {
    pub leaf: Leaf,
    pub id: usize,
    pub log: std::sync::Arc<std::sync::Mutex<Vec<usize>>>,
}
#[derive(Debug)]
pub enum LeafErr {
    Empty(EmptyPopulation),
    Tournament(TournamentSizeError),
    Lexicase(LexicaseError),
}
impl std::fmt::Display for LeafErr {
    fn fmt(&self, f: &mut std::fmt::Formatter<'_>) -> std::fmt::Result {
        match self {
            LeafErr::Empty(e) => e.fmt(f),
            LeafErr::Tournament(e) => e.fmt(f),
            LeafErr::Lexicase(e) => e.fmt(f),
        }
    }
}
impl std::error::Error for LeafErr {}

/// C16 "repeated / interleaved call histories on one operator value": on about half of the cases the
/// operator value is used once before the compared call, on a throw-away clone of nothing the compared
/// call reads (its own generator) — a stateless operator cannot notice, one that keeps hidden state between
/// calls (a cached order, a lazily initialised table) then differs from the model.
/// genomes of the individuals: distinct (the position) for most populations; for about a third all equal, and
/// for some pairwise equal — the ordering of individuals must look at the results only, never at the genome
pub fn genome_of(pop: &PopRaw) -> impl Fn(usize) -> usize {
    let h: i64 = pop.iter().map(|(k, rs)| k.wrapping_mul(7).wrapping_add(rs.len() as i64)).sum::<i64>().wrapping_add(pop.len() as i64);
    let mode = h.rem_euclid(6);
    move |j| match mode { 0 | 1 => 0, 2 => j / 2, _ => j }
}

pub fn warm_up<P, S: Selector<P>>(s: &S, pop: &P, throwaway: &mut SplitMix) where P: ec_core::population::Population {
    if throwaway.state & 8 == 0 {
        let mut t = SplitMix::derive(throwaway.state, 77);
        let _ = s.select(pop, &mut t);
        let _ = s.select(pop, &mut t);
    }
}

impl<R: Ord> Selector<Vec<Ind<R>>> for AnyLeaf {
    type Error = LeafErr;
    fn select<'pop, G: Rng + ?Sized>(&self, pop: &'pop Vec<Ind<R>>, rng: &mut G) -> Result<&'pop Ind<R>, LeafErr> {
        self.log.lock().unwrap().push(self.id);
        match &self.leaf {
            Leaf::Best => Best.select(pop, rng).map_err(LeafErr::Empty),
            Leaf::Worst => Worst.select(pop, rng).map_err(LeafErr::Empty),
            Leaf::Random => Random.select(pop, rng).map_err(LeafErr::Empty),
            Leaf::Tournament(k) => Tournament::new(NonZeroUsize::new(*k).expect("k>0")).select(pop, rng).map_err(LeafErr::Tournament),
            Leaf::Lexicase(n) => { let l = Lexicase::new(*n); let mut w = SplitMix::new(*n as u64 ^ pop.len() as u64); warm_up(&l, pop, &mut w); l.select(pop, rng).map_err(LeafErr::Lexicase) }
            Leaf::Probe(i) => Probe(*i).select(pop, rng).map_err(LeafErr::Empty),
        }
    }
}

// ---------------------------------------------------------------------------------------------
// canonical forms of errors

pub trait Canon {
    fn canon(&self) -> String;
}
impl Canon for EmptyPopulation {
    fn canon(&self) -> String {
        "EmptyPopulation".into()
    }
}
impl Canon for TournamentSizeError {
    fn canon(&self) -> String {
        // fields are private: "Tournament size {k} was larger than population size {n}"
        let s = format!("{self}");
        let nums: Vec<&str> = s.split(|c: char| !c.is_ascii_digit()).filter(|x| !x.is_empty()).collect();
        format!("TournamentSize({},{})", nums[0], nums[1])
    }
}
impl Canon for LexicaseError {
    fn canon(&self) -> String {
        match self {
            LexicaseError::EmptyPopulation(_) => "LexEmpty".into(),
            LexicaseError::MissingTestCase { total_cases, current_index } => format!("MissingTestCase({total_cases},{current_index})"),
        }
    }
}
impl Canon for LeafErr {
    fn canon(&self) -> String {
        match self {
            LeafErr::Empty(e) => e.canon(),
            LeafErr::Tournament(e) => e.canon(),
            LeafErr::Lexicase(e) => e.canon(),
        }
    }
}
impl<E: Canon> Canon for SelectionError<E> {
    fn canon(&self) -> String {
        match self {
            SelectionError::Selector(e) => format!("Selector({})", e.canon()),
            SelectionError::ZeroWeight(_) => "ZeroWeight".into(),
        }
    }
}
impl<A: Canon, B: Canon> Canon for WeightedPairError<A, B> {
    fn canon(&self) -> String {
        match self {
            WeightedPairError::A(e) => format!("A({})", e.canon()),
            WeightedPairError::B(e) => format!("B({})", e.canon()),
        }
    }
}
impl Canon for DynWeightedError {
    fn canon(&self) -> String {
        match self {
            DynWeightedError::EmptyPopulation(_) => "DynEmptyPopulation".into(),
            DynWeightedError::ZeroWeightSum(WeightError::InsufficientNonZero) => "DynZeroWeight".into(),
            DynWeightedError::ZeroWeightSum(WeightError::Overflow) => "DynOverflow".into(),
            DynWeightedError::ZeroWeightSum(e) => format!("DynWeightError({e:?})"),
            DynWeightedError::Other(b) => format!("DynOther({})", canon_dyn(&**b)),
        }
    }
}
impl Canon for Box<dyn std::error::Error + Send + Sync> {
    fn canon(&self) -> String {
        format!("Boxed({})", canon_dyn(&**self))
    }
}

pub type W<T> = ec_core::weighted::Weighted<T>;
pub type SE<E> = SelectionError<E>;
pub type PE<A, B> = WeightedPairError<A, B>;
/// error types of the static shapes that are put into boxes (`DynWeighted` items, erased forms)
pub type ErrW = SE<LeafErr>;
pub type ErrP2 = SE<PE<ErrW, ErrW>>;
pub type ErrP3 = SE<PE<ErrP2, ErrW>>;
pub type ErrP4 = SE<PE<ErrP3, ErrW>>;
pub type ErrP5 = SE<PE<ErrP4, ErrW>>;
pub type ErrP6 = SE<PE<ErrW, ErrP2>>;
pub type ErrP7 = SE<PE<ErrP2, ErrP2>>;
pub type ErrP8 = SE<PE<SE<ErrP2>, ErrW>>;
pub type ErrP9 = SE<PE<ErrP6, ErrP2>>;
type EW = SE<EmptyPopulation>;
pub type ErrP10 = SE<PE<SE<PE<SE<PE<EW, EW>>, EW>>, SE<TournamentSizeError>>>;

/// canonical form of a type-erased error: downcast through the catalogue of error types that the
/// harness ever boxes
pub fn canon_dyn(e: &(dyn std::error::Error + 'static)) -> String {
    macro_rules! try_types {
        ($($t:ty),*) => { $( if let Some(x) = e.downcast_ref::<$t>() { return x.canon(); } )* };
    }
    try_types!(EmptyPopulation, TournamentSizeError, LexicaseError, LeafErr, DynWeightedError, ErrW, ErrP2, ErrP3, ErrP4, ErrP5, ErrP6, ErrP7, ErrP8, ErrP9, ErrP10);
    format!("Unknown({e})")
}
