//! C04: histories of operations on the real `push::push_vm::stack::Stack` against the Lean
//! Impl model (correspondence) and the list Spec (property oracle).
use crate::report::Report;
use crate::rng::SplitMix;
use crate::shard::run_sharded;
use crate::Cfg;
use collectable::TryExtend;
use push::push_vm::stack::{Stack, StackError};
use serde_json::json;

#[derive(Clone, Debug)]
pub enum Op {
    Push(i64),
    Pop,
    Pop2,
    Pop3,
    Top,
    Top2,
    Top3,
    Discard(usize),
    PushMany(Vec<i64>),
    TryExtend(Vec<i64>),
    SetMax(usize),
    Size,
    IsEmpty,
    IsFull,
    MaxSize,
}

fn list(l: &[i64]) -> String {
    l.iter().map(|x| x.to_string()).collect::<Vec<_>>().join(",")
}

impl Op {
    pub fn token(&self) -> String {
        match self {
            Op::Push(v) => format!("push:{v}"),
            Op::Pop => "pop".into(),
            Op::Pop2 => "pop2".into(),
            Op::Pop3 => "pop3".into(),
            Op::Top => "top".into(),
            Op::Top2 => "top2".into(),
            Op::Top3 => "top3".into(),
            Op::Discard(n) => format!("discard:{n}"),
            Op::PushMany(l) => format!("pushMany:{}", list(l)),
            Op::TryExtend(l) => format!("tryExtend:{}", list(l)),
            Op::SetMax(m) => format!("setMax:{m}"),
            Op::Size => "size".into(),
            Op::IsEmpty => "isEmpty".into(),
            Op::IsFull => "isFull".into(),
            Op::MaxSize => "maxSize".into(),
        }
    }
}

fn err(e: &StackError) -> String {
    match e {
        StackError::Underflow { num_requested, num_present } => format!("underflow({num_requested},{num_present})"),
        StackError::Overflow { .. } => "overflow".into(),
    }
}

/// Element types the histories are replayed on.
pub trait Elem: Clone + PartialEq + std::fmt::Debug {
    fn of(v: i64) -> Self;
    fn back(&self) -> i64;
}
impl Elem for i64 {
    fn of(v: i64) -> Self { v }
    fn back(&self) -> i64 { *self }
}
impl Elem for String {
    fn of(v: i64) -> Self { format!("s{v}") }
    fn back(&self) -> i64 { self[1..].parse().unwrap() }
}

struct Counting<I> {
    inner: I,
    taken: usize,
}
impl<I: Iterator> Iterator for Counting<I> {
    type Item = I::Item;
    fn next(&mut self) -> Option<I::Item> {
        let x = self.inner.next();
        if x.is_some() {
            self.taken += 1;
        }
        x
    }
}

fn contents<T: Elem>(s: &Stack<T>) -> Vec<i64> {
    let mut c = s.clone();
    let mut v = Vec::new();
    while let Ok(x) = c.pop() {
        v.push(x.back());
    }
    v.reverse();
    v
}

/// Run a history on the real stack; the result uses the driver's output format.
pub fn run_real<T: Elem>(max: usize, ops: &[Op]) -> String {
    let mut s: Stack<T> = Stack::default();
    s.set_max_stack_size(max);
    let mut outs = Vec::new();
    for op in ops {
        let before = (contents(&s), s.max_stack_size());
        let mut failed = false;
        let o = match op {
            Op::Push(v) => match s.push(T::of(*v)) {
                Ok(()) => "ok".to_string(),
                Err(e) => { failed = true; format!("err:{}", err(&e)) }
            },
            Op::Pop => match s.pop() {
                Ok(x) => format!("v:{}", x.back()),
                Err(e) => { failed = true; format!("err:{}", err(&e)) }
            },
            Op::Pop2 => match s.pop2() {
                Ok((x, y)) => format!("v:{},{}", x.back(), y.back()),
                Err(e) => { failed = true; format!("err:{}", err(&e)) }
            },
            Op::Pop3 => match s.pop3() {
                Ok((x, y, z)) => format!("v:{},{},{}", x.back(), y.back(), z.back()),
                Err(e) => { failed = true; format!("err:{}", err(&e)) }
            },
            Op::Top => match s.top() {
                Ok(x) => format!("v:{}", x.back()),
                Err(e) => { failed = true; format!("err:{}", err(&e)) }
            },
            Op::Top2 => match s.top2() {
                Ok((x, y)) => format!("v:{},{}", x.back(), y.back()),
                Err(e) => { failed = true; format!("err:{}", err(&e)) }
            },
            Op::Top3 => match s.top3() {
                Ok((x, y, z)) => format!("v:{},{},{}", x.back(), y.back(), z.back()),
                Err(e) => { failed = true; format!("err:{}", err(&e)) }
            },
            Op::Discard(n) => match s.discard(*n) {
                Ok(()) => "ok".to_string(),
                Err(e) => { failed = true; format!("err:{}", err(&e)) }
            },
            Op::PushMany(l) => match s.push_many(l.iter().map(|v| T::of(*v)).collect::<Vec<_>>()) {
                Ok(()) => "ok".to_string(),
                Err(e) => { failed = true; format!("err:{}", err(&e)) }
            },
            Op::TryExtend(l) => {
                let mut it = Counting { inner: l.iter().map(|v| T::of(*v)), taken: 0 };
                match s.try_extend(&mut it) {
                    Ok(()) => format!("ext:ok:{}", it.taken),
                    Err(e) => { failed = true; format!("ext:{}:{}", err(&e), it.taken) }
                }
            }
            Op::SetMax(m) => { s.set_max_stack_size(*m); "ok".to_string() }
            Op::Size => format!("n:{}", s.size()),
            Op::IsEmpty => format!("b:{}", s.is_empty()),
            Op::IsFull => format!("b:{}", s.is_full()),
            Op::MaxSize => format!("n:{}", s.max_stack_size()),
        };
        // model-free property oracle: an operation that reports an error leaves everything as it was
        if failed && (contents(&s), s.max_stack_size()) != before {
            outs.push(format!("{o}!STATE-CHANGED"));
        } else {
            outs.push(o);
        }
    }
    // the comparisons of a stack with vectors, slices and arrays (how states are usually observed) say what the
    // pop-out of the contents says: equal to its own contents bottom first, unequal to anything else
    let items: Vec<T> = { let mut c = s.clone(); let mut v = Vec::new(); while let Ok(x) = c.pop() { v.push(x); } v.reverse(); v };
    let mut other = items.clone();
    if let Some(x) = other.first_mut() { *x = T::of(x.back() + 1_000_000); } else { other.push(T::of(1)); }
    let mut copy = items.clone();
    let mut eq_ok = s == items && s == items[..] && s == &items[..] && s == &mut copy[..] && !(s == other) && !(s == &other[..]);
    match items.len() {
        0 => { let a: [T; 0] = []; eq_ok &= s == a && s == &a; }
        1 => { let a: [T; 1] = [items[0].clone()]; eq_ok &= s == a && s == &a; }
        2 => { let a: [T; 2] = [items[0].clone(), items[1].clone()]; eq_ok &= s == a && s == &a; let b: [T; 2] = [items[1].clone(), T::of(items[0].back() + 7)]; eq_ok &= !(s == b); }
        _ => { let a: [T; 1] = [items[0].clone()]; eq_ok &= !(s == a); }
    }
    // bulk insertion from a slice (`TryExtend::try_extend_from_slice`, a provided method of the collectable trait) is
    // bulk insertion: same verdict and same contents as `try_extend` of the same values (first value = new top)
    let mut slice_ok = true;
    for vals in [vec![], vec![101i64], vec![101, 102, 103]] {
        let items: Vec<T> = vals.iter().map(|v| T::of(*v)).collect();
        let (mut a, mut b) = (s.clone(), s.clone());
        let ra = collectable::TryExtend::try_extend_from_slice(&mut a, &items).map_err(|e| err(&e));
        let rb = collectable::TryExtend::try_extend(&mut b, &mut items.clone().into_iter()).map_err(|e| err(&e));
        slice_ok &= ra == rb && contents(&a) == contents(&b) && a.max_stack_size() == b.max_stack_size();
    }
    format!("{} | vals:{} max:{}{}{}", outs.join(" "), list(&contents(&s)), s.max_stack_size(), if eq_ok { "" } else { " !EQ-IMPLS" }, if slice_ok { "" } else { " !SLICE" })
}

/// capacities near `usize::MAX` and exact-size iterators of astronomic length: the overflow test must not itself
/// overflow, and nothing may be reserved or inserted before it (model-free; the values are zero-sized or never produced)
fn huge_scenarios(r: &mut Report) {
    let mut fails: Vec<String> = vec![];
    let res = std::panic::catch_unwind(|| {
        let mut out = vec![];
        for (max, pre, n) in [(usize::MAX, 1usize, usize::MAX), (usize::MAX, 2, usize::MAX - 1), (usize::MAX - 1, 1, usize::MAX - 1), (usize::MAX, 0, usize::MAX),
                              (usize::MAX / 2, 3, usize::MAX / 2), (10, 1, usize::MAX)] {
            let mut s: Stack<()> = Stack::default();
            s.set_max_stack_size(max);
            for _ in 0..pre { s.push(()).expect("room"); }
            let fits = n.checked_add(pre).is_some_and(|t| t <= max);
            if fits { continue; } // would really insert n elements
            let verdict = s.push_many((0..n).map(|_| ()));
            if !matches!(verdict, Err(StackError::Overflow { .. })) || s.size() != pre {
                out.push(format!("Stack<()> max={max} size={pre}: push_many of an exact-size iterator of length {n} gave {verdict:?}, size afterwards {}", s.size()));
            }
            let mut t: Stack<u64> = Stack::default();
            t.set_max_stack_size(max);
            for k in 0..pre { t.push(k as u64).expect("room"); }
            let verdict = t.push_many((0..n).map(|k| k as u64));
            if !matches!(verdict, Err(StackError::Overflow { .. })) || t.size() != pre {
                out.push(format!("Stack<u64> max={max} size={pre}: push_many of an exact-size iterator of length {n} gave {verdict:?}, size afterwards {}", t.size()));
            }
        }
        // a huge finite capacity is just a capacity: ordinary operations work and nothing is reserved up front
        for max in [usize::MAX - 1, usize::MAX / 2, 1usize << 62] {
            let mut s: Stack<u64> = Stack::default();
            s.set_max_stack_size(max);
            if s.push(1).is_err() || s.push_many(vec![2, 3]).is_err() || s.size() != 3 || s.pop().ok() != Some(2) { out.push(format!("Stack<u64> with capacity {max}: push / push_many / pop misbehave")); }
        }
        out
    });
    match res {
        Ok(v) => fails.extend(v),
        Err(_) => fails.push("an insertion into a stack with a capacity near usize::MAX / from an iterator of astronomic length panicked".into()),
    }
    // iterators that are not fused (None, then values again) or whose size hint is astronomic / infinite: try_extend must
    // still be all or nothing - Ok with exactly the values yielded before the first None on top (first value = new top),
    // or an error with the contents unchanged - and must not reserve by the size hint
    let res2 = std::panic::catch_unwind(|| {
        let mut out: Vec<String> = vec![];
        for (max, pre) in [(5usize, vec![10i64, 20]), (10, vec![10]), (3, vec![]), (2, vec![1, 2]), (0, vec![])] {
            for gap_after in [0usize, 1, 2, 4] {
                let mut s: Stack<i64> = Stack::default();
                s.set_max_stack_size(max);
                s.push_many(pre.clone().into_iter().rev().collect::<Vec<_>>()).expect("fits");
                let before = contents(&s);
                // yields `gap_after` values, then None once, then keeps yielding values
                let mut k = 0usize;
                let mut unfused = std::iter::from_fn(|| { k += 1; if k == gap_after + 1 { None } else { Some(100 + k as i64) } });
                let verdict = s.try_extend(&mut unfused);
                let after = contents(&s);
                match verdict {
                    Ok(()) => {
                        let mut want = before.clone();
                        want.extend((1..=gap_after as i64).rev().map(|j| 100 + j));
                        if after != want || after.len() > max { out.push(format!("try_extend from a non-fused iterator ({gap_after} values, None, more values) into max={max} {before:?}: Ok with contents {after:?}, expected {want:?}")); }
                    }
                    Err(e) => if after != before { out.push(format!("try_extend from a non-fused iterator into max={max} {before:?}: {} but contents became {after:?}", err(&e))); },
                }
            }
            // infinite / astronomically long inputs: overflow, nothing changed, no panic
            let mut s: Stack<i64> = Stack::default();
            s.set_max_stack_size(max);
            s.push_many(pre.clone().into_iter().rev().collect::<Vec<_>>()).expect("fits");
            let before = contents(&s);
            let v1 = s.try_extend(&mut std::iter::repeat(7i64));
            let v2 = s.try_extend(&mut (0i64..i64::MAX));
            let v3 = s.try_extend(&mut (0u64..u64::MAX).map(|x| x as i64));
            for (name, v) in [("repeat", &v1), ("0..i64::MAX", &v2), ("(0..u64::MAX).map", &v3)] {
                if !matches!(v, Err(StackError::Overflow { .. })) { out.push(format!("try_extend of the endless input `{name}` into max={max}: {v:?}")); }
            }
            if contents(&s) != before { out.push(format!("try_extend of an endless input changed the contents of max={max} {before:?} to {:?}", contents(&s))); }
        }
        out
    });
    match res2 {
        Ok(v) => fails.extend(v),
        Err(_) => fails.push("try_extend from a non-fused iterator or from an iterator with an astronomic size hint panicked".into()),
    }
    // plain iterators whose size hint is loose (filter, flat_map, take_while, skip_while, chain with an unbounded hint):
    // what counts is what the iterator yields, not what it announces - the result is that of try_extend from the
    // collected values (all or nothing, first yielded value = new top)
    let res3 = std::panic::catch_unwind(|| {
        let mut out: Vec<String> = vec![];
        for (max, pre) in [(4usize, vec![10i64, 20]), (2, vec![1, 2]), (6, vec![]), (3, vec![5]), (0, vec![]), (1, vec![9])] {
            for src_len in [0usize, 1, 2, 3, 6, 9] {
                for keep_mod in [1usize, 2, 3, 100] {
                    let src: Vec<i64> = (0..src_len as i64).map(|j| 100 + j).collect();
                    let kept: Vec<i64> = src.iter().copied().filter(|v| (*v as usize) % keep_mod == 0).collect();
                    let makers: Vec<(&str, Box<dyn Fn() -> Box<dyn Iterator<Item = i64>>>)> = vec![
                        ("filter", Box::new({ let s = src.clone(); move || Box::new(s.clone().into_iter().filter(move |v| (*v as usize) % keep_mod == 0)) })),
                        ("flat_map", Box::new({ let s = src.clone(); move || Box::new(s.clone().into_iter().flat_map(move |v| if (v as usize) % keep_mod == 0 { vec![v] } else { vec![] })) })),
                        ("filter_map", Box::new({ let s = src.clone(); move || Box::new(s.clone().into_iter().filter_map(move |v| if (v as usize) % keep_mod == 0 { Some(v) } else { None })) })),
                        ("skip_while+filter", Box::new({ let s = src.clone(); move || Box::new(s.clone().into_iter().skip_while(|_| false).filter(move |v| (*v as usize) % keep_mod == 0)) })),
                        ("chain(empty filter)", Box::new({ let k = kept.clone(); move || Box::new(k.clone().into_iter().chain((0..1000i64).filter(|_| false))) })),
                    ];
                    for (name, mk) in &makers {
                        let mut s: Stack<i64> = Stack::default();
                        s.set_max_stack_size(max);
                        s.push_many(pre.clone().into_iter().rev().collect::<Vec<_>>()).expect("fits");
                        let mut reference = s.clone();
                        let before = contents(&s);
                        let verdict = s.try_extend(&mut mk());
                        let want = reference.try_extend(&mut kept.clone().into_iter());
                        let fits = kept.len() <= max.saturating_sub(before.len());
                        if verdict.is_ok() != want.is_ok() || verdict.is_ok() != fits || contents(&s) != contents(&reference) {
                            out.push(format!("try_extend from a `{name}` iterator over {src_len} values of which {} are yielded ({kept:?}) into max={max} {before:?}: {verdict:?} with contents {:?}; from the collected values: {want:?} with contents {:?}", kept.len(), contents(&s), contents(&reference)));
                        }
                        if verdict.is_err() && contents(&s) != before { out.push(format!("a failed try_extend from a `{name}` iterator changed the contents of max={max} {before:?}")); }
                    }
                }
            }
        }
        out
    });
    match res3 {
        Ok(v) => fails.extend(v.into_iter().take(8)),
        Err(_) => fails.push("try_extend from a filter / flat_map / chain iterator panicked".into()),
    }
    r.case("stack huge capacities", true);
    r.hit("huge capacity / iterator scenarios");
    for f in fails {
        r.violate(json!({"case": "stack huge", "real": f, "what": "overflow must be reported (and the stack left unchanged) without panicking, also when capacity or iterator length are near usize::MAX"}));
    }
}

/// drop what the property does not fix (how many items a failing `try_extend` consumed)
fn mask(s: &str) -> String {
    s.split(' ')
        .map(|t| if let Some(rest) = t.strip_prefix("ext:") {
            let kind = rest.split(':').next().unwrap_or("");
            if kind == "ok" { t.to_string() } else { format!("ext:{kind}:_") }
        } else { t.to_string() })
        .collect::<Vec<_>>()
        .join(" ")
}

const RULE: &str = "histories of stack operations replayed on real Stack<i64> and Stack<String>; \
exhaustive over a reduced alphabet up to a length bound for initial capacities 0..3, plus seeded random \
histories with fresh increasing values; non-trivial = at least one successful and one failing operation \
in the history; distinct by the canonical request line";

fn alphabet() -> Vec<Op> {
    vec![
        Op::Push(1), Op::Push(2), Op::Pop, Op::Pop2, Op::Pop3, Op::Top, Op::Top2, Op::Top3,
        Op::Discard(0), Op::Discard(1), Op::Discard(2), Op::PushMany(vec![]), Op::PushMany(vec![3, 4]),
        Op::PushMany(vec![5]), Op::TryExtend(vec![]), Op::TryExtend(vec![6]), Op::TryExtend(vec![7, 8, 9]),
        Op::SetMax(0), Op::SetMax(1), Op::SetMax(2), Op::Size, Op::IsEmpty, Op::IsFull, Op::MaxSize,
    ]
}

fn random_history(rng: &mut SplitMix, maxlen: u64) -> (usize, Vec<Op>) {
    // small capacities mostly; now and then a huge finite one (beyond isize::MAX, just below usize::MAX) or unlimited
    let max = if rng.chance(1, 12) { *rng.pick(&[usize::MAX, usize::MAX - 1, (usize::MAX >> 1) + 1, usize::MAX >> 1]) } else { *rng.pick(&[0usize, 1, 2, 3, 4, 5, 8, 16, 1000]) };
    let len = 1 + rng.below(maxlen);
    let mut next = 10i64;
    let mut fresh = |rng: &mut SplitMix, k: u64| -> Vec<i64> {
        let n = rng.below(k);
        (0..n).map(|_| { next += 1; next }).collect()
    };
    let mut ops = Vec::new();
    for _ in 0..len {
        let op = match rng.below(20) {
            0..=4 => Op::Push(fresh(rng, 2).first().copied().unwrap_or(7)),
            5 => Op::Pop,
            6 => Op::Pop2,
            7 => Op::Pop3,
            8 => Op::Top,
            9 => Op::Top2,
            10 => Op::Top3,
            11 => Op::Discard(rng.below(5) as usize),
            12 | 13 => Op::PushMany(fresh(rng, 5)),
            14 | 15 => Op::TryExtend(fresh(rng, 6)),
            16 => Op::SetMax(*rng.pick(&[0usize, 1, 2, 3, 5, 8, 1000, usize::MAX, (usize::MAX >> 1) + 1])),
            17 => Op::Size,
            18 => Op::IsFull,
            _ => rng.pick(&[Op::IsEmpty, Op::MaxSize]).clone(),
        };
        ops.push(op.clone());
    }
    (max, ops)
}

fn check_case(d: &mut crate::driver::Driver, r: &mut Report, max: usize, ops: &[Op]) {
    let req = format!("stack {max} {}", ops.iter().map(Op::token).collect::<Vec<_>>().join(" "));
    let reply = d.ask(&req);
    let (impl_s, spec_s) = reply.split_once(" ## ").unwrap_or((&reply, ""));
    let real_i = run_real::<i64>(max, ops);
    let real_s = run_real::<String>(max, ops);
    let has_err = real_i.contains("err:") || real_i.contains("ext:overflow");
    let has_ok = real_i.contains("ok") || real_i.contains("v:");
    r.case(&req, has_err && has_ok);
    for t in real_i.split(' ') {
        let k = t.split(':').take(2).collect::<Vec<_>>().join(":");
        if t.starts_with("err:") || t.starts_with("ext:") { r.hit(&format!("out {}", k.split('(').next().unwrap())); }
    }
    for op in ops { r.hit(&format!("op {}", op.token().split(':').next().unwrap())); }
    r.sample(json!({"request": req, "real": real_i}));
    for (ty, real) in [("i64", &real_i), ("String", &real_s)] {
        if real.contains(" !SLICE") {
            r.violate(json!({"case": req, "elem": ty, "real": real, "what": "try_extend_from_slice does not insert like try_extend of the same values (verdict or contents differ): bulk insertion must make the first supplied value the new top, all or nothing"}));
        }
        if real.contains(" !EQ-IMPLS") {
            r.disagree(json!({"case": req, "elem": ty, "real": real, "impl": "a stack equals (==) exactly the vector / slice / array of its contents, bottom first"}));
        }
        let real = &real.replace(" !EQ-IMPLS", "").replace(" !SLICE", "");
        if real.contains("!STATE-CHANGED") {
            r.violate(json!({"case": req, "elem": ty, "real": real, "what": "an operation reported an error but changed the stack"}));
        }
        if real != impl_s {
            if mask(real) != mask(spec_s) {
                r.violate(json!({"case": req, "elem": ty, "real": real, "spec": spec_s,
                    "what": "the real stack contradicts the list specification of C04 on this history"}));
            } else {
                r.disagree(json!({"case": req, "elem": ty, "real": real, "impl": impl_s}));
            }
        }
    }
}

pub fn run(cfg: &Cfg) -> Report {
    let alpha = alphabet();
    let maxlen_exh: u32 = if cfg.thorough { 4 } else { 3 };
    let k = alpha.len() as u64;
    // number of histories of length 1..=L over k symbols, times 4 capacities
    let mut counts = Vec::new();
    let mut tot = 0u64;
    for l in 1..=maxlen_exh { counts.push((l, k.pow(l))); tot += k.pow(l); }
    let n_exh = tot * 4;
    let n_rand: u64 = if cfg.thorough { 300_000 } else { 6_000 };
    let rand_len: u64 = if cfg.thorough { 200 } else { 60 };
    let seed = cfg.seed;
    let mut rep = run_sharded(&cfg.driver, cfg.threads, n_exh + n_rand, || Report::new("stack", RULE), |d, r, i| {
        if i < n_exh {
            let max = (i % 4) as usize;
            let mut j = i / 4;
            let mut len = 0;
            for (l, c) in &counts { if j < *c { len = *l; break; } j -= *c; }
            let mut ops = Vec::new();
            for _ in 0..len { ops.push(alpha[(j % k) as usize].clone()); j /= k; }
            check_case(d, r, max, &ops);
        } else {
            let mut rng = SplitMix::derive(seed, i);
            let (max, ops) = random_history(&mut rng, rand_len);
            check_case(d, r, max, &ops);
        }
    });
    crate::watch::guarded("stack: capacities and iterators near usize::MAX, non-fused / endless / loosely hinted iterators", || huge_scenarios(&mut rep));
    crate::watch::guarded("stack: the state-level insertion helpers (with_push, with_stack_push, push_onto, with_replace, replace_on) on stacks at, below and above a lowered maximum", || helper_scenarios(&mut rep));
    rep.notes.push(format!("exhaustive part: all histories of length 1..={maxlen_exh} over a {k}-operation alphabet, initial capacities 0..3 ({n_exh} histories); random part: {n_rand} histories of length <= {rand_len}"));
    rep
}

/// Every public way of inserting into a stack *of a state* (`HasStack::with_push`, `InstructionResult::with_stack_push`,
/// `PushOnto::push_onto`, `HasStack::with_replace`, `PushOnto::replace_on`) is an insertion in the sense of the property:
/// it gives the verdict `Stack::push` gives on the same stack (tied to the model by the histories above), a success never
/// leaves the stack above its current maximum - also when that maximum was lowered below the present size -, the pushed
/// value is on top of the untouched rest, and a refused push hands back the untouched contents with an overflow.
fn helper_scenarios(r: &mut Report) {
    use push::error::into_state::IntoState;
    use push::error::InstructionResult;
    use push::push_vm::push_state::PushState;
    use push::push_vm::stack::{PushOnto, StackPush};
    use push::push_vm::HasStack;
    let mut fails: Vec<String> = vec![];
    let res = std::panic::catch_unwind(std::panic::AssertUnwindSafe(|| {
        let mut out: Vec<String> = vec![];
        let mut n = 0u64;
        for size in 0usize..=5 { for max in 0usize..=6 {
            let make = || -> PushState {
                let mut s = PushState::builder().with_max_stack_size(16).with_no_program().with_instruction_step_limit(1).build();
                for v in 0..size as i64 { s.stack_mut::<i64>().push(10 + v).expect("roomy"); }
                s.stack_mut::<i64>().set_max_stack_size(max);
                s
            };
            let ints = |s: &PushState| -> Vec<i64> { let st = s.stack::<i64>(); let mut c = st.clone(); let mut v = vec![]; while let Ok(x) = c.pop() { v.push(x); } v };
            let before = ints(&make());
            // the reference verdict: `Stack::push` itself
            let mut reference = make();
            let ref_ok = reference.stack_mut::<i64>().push(99).is_ok();
            let ref_after = ints(&reference);
            if ref_ok != (size < max) { out.push(format!("Stack::push on size={size} max={max}: ok = {ref_ok}")); }
            type R = InstructionResult<PushState, StackError>;
            let paths: Vec<(&str, Box<dyn Fn() -> R>)> = vec![
                ("with_push", Box::new(|| make().with_push(99i64))),
                ("with_stack_push", Box::new(|| { let r: R = Ok(make()); r.with_stack_push(99i64) })),
                ("push_onto", Box::new(|| { let v: Result<i64, StackError> = Ok(99); v.push_onto(make()) })),
                ("with_replace(0, _)", Box::new(|| make().with_replace(0, 99i64))),
                ("replace_on(0, _)", Box::new(|| { let v: Result<i64, StackError> = Ok(99); v.replace_on(0, make()) })),
            ];
            for (name, f) in &paths {
                n += 1;
                match f() {
                    Ok(s) => {
                        let after = ints(&s);
                        if !ref_ok || after != ref_after || after.len() > max || s.stack::<i64>().max_stack_size() != max {
                            out.push(format!("{name} on an integer stack of size {size} with maximum {max} (lowered after the values were pushed) succeeds and leaves {after:?}; Stack::push on the same stack: ok = {ref_ok}, leaving {ref_after:?}"));
                        }
                    }
                    Err(e) => {
                        let overflow = matches!(e.error(), StackError::Overflow { .. });
                        let s = e.into_state();
                        if ref_ok || !overflow || ints(&s) != before {
                            out.push(format!("{name} on an integer stack of size {size} with maximum {max} fails (overflow: {overflow}) leaving {:?}; before: {before:?}; Stack::push on the same stack: ok = {ref_ok}", ints(&s)));
                        }
                    }
                }
            }
            // replacing k >= 1 values: a success never leaves the stack above its maximum, and what is left is the rest under the new value
            for k in 1usize..=3 {
                for (name, res) in [("with_replace", make().with_replace(k, 99i64)), ("replace_on", { let v: Result<i64, StackError> = Ok(99); v.replace_on(k, make()) })] {
                    n += 1;
                    if let Ok(s) = res {
                        let after = ints(&s);
                        let mut want = vec![99i64]; want.extend(before.iter().skip(k));
                        if after.len() > max || k > size || after != want {
                            out.push(format!("{name}({k}, _) on an integer stack {before:?} with maximum {max} succeeds and leaves {after:?}"));
                        }
                    }
                }
            }
        } }
        (out, n)
    }));
    match res {
        Ok((v, n)) => { r.hit_n("state-level insertion helper calls on stacks at / below / above a lowered maximum", n); fails.extend(v.into_iter().take(8)); }
        Err(_) => fails.push("a state-level insertion helper panicked".into()),
    }
    r.case("stack state-level helpers", true);
    for f in fails {
        r.violate(json!({"case": "stack helpers", "real": f, "what": "an insertion through a state-level helper must behave like Stack::push: refused with an overflow (contents untouched) when the stack is at or above its current maximum, never leaving the stack larger than that maximum"}));
    }
}
