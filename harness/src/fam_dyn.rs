//! C17: the type-erased (dyn) forms.  For each of the five erasable traits, each of the 28 pointer
//! flavours `ec_macros::dyn_ref_impls` generates, and three erased error types, a wrapped
//! implementation is called concretely and through the erased pointer from equal generator states;
//! both are compared with each other (model-free) and with the Lean model (`ops … (dyn …)`).
#[allow(unused_imports)]
use crate::fam_ops::{leak, op};
use crate::prims;
use crate::probe::*;
use crate::report::Report;
use crate::rng::SplitMix;
use crate::shard::run_sharded;
use crate::Cfg;
use ec_core::child_maker::{ChildMaker, DynChildMaker};
use ec_core::individual::ec::EcIndividual;
#[allow(unused_imports)]
use ec_core::individual::scorer::FnScorer;
#[allow(unused_imports)]
use ec_core::operator::constant::Constant;
#[allow(unused_imports)]
use ec_core::operator::genome_extractor::GenomeExtractor;
#[allow(unused_imports)]
use ec_core::operator::genome_scorer::GenomeScorer;
#[allow(unused_imports)]
use ec_core::operator::identity::Identity;
#[allow(unused_imports)]
use ec_core::operator::mutator::{DynMutator, Mutate, Mutator};
#[allow(unused_imports)]
use ec_core::operator::recombinator::{DynRecombinator, Recombinator, Recombine};
#[allow(unused_imports)]
use ec_core::operator::selector::{best::Best, random::Random, tournament::Tournament, worst::Worst, DynSelector, Select, Selector};
use ec_core::operator::{Composable, DynOperator, Operator};
use ec_core::test_results::{Score, TestResults};
use rand::{Rng, RngCore};
use serde_json::json;
use std::cell::{Ref, RefCell, RefMut};
use std::rc::Rc;
use std::sync::Arc;

type Pop = Vec<Ind>;
type BoxErr = Box<dyn std::error::Error + Send + Sync>;

/// a caller-defined erased error type (`E` with `From<every operator error>`); deliberately not a
/// `std::error::Error` itself
#[derive(Debug)]
pub struct MyErr(pub String);
impl<E: std::error::Error + 'static> From<E> for MyErr {
    fn from(e: E) -> Self { MyErr(canon_err(&e).0) }
}

/// `ProbeChildMaker`: select a parent with the given selector, derive the child genome from the
/// parent's genome with a probe call, score it (twin of `Probe.pchild`)
#[derive(Clone, Copy, Debug)]
pub struct ProbeChildMaker { pub id: u64, pub d: u32 }
impl<S: Selector<Pop, Error = ProbeErr>> ChildMaker<Pop, S> for ProbeChildMaker {
    type Error = ProbeErr;
    fn make_child<R: Rng + ?Sized>(&self, rng: &mut R, population: &Pop, selector: &S) -> Result<Ind, ProbeErr> {
        let parent = selector.select(population, rng)?;
        let m = body(self.id, self.d, &parent.genome, rng)?;
        let child = V::Leaf(m);
        let score = score_c::<11>(&child);
        Ok(Ind::new(child, score))
    }
}

#[derive(Clone, Debug, PartialEq)]
pub struct Out {
    /// `ok <value>` / `err <canonical error>` (erased runs: wrapped in the conversion's tag)
    pub res: String,
    /// Display text of the error; for a selected individual its position in the population (by identity)
    pub disp: String,
    pub next: u64,
    pub log: Vec<Call>,
}

fn finish<T, E>(r: std::thread::Result<Result<T, E>>, rng: &mut SplitMix, show_ok: impl Fn(&T) -> (String, String), canon: &dyn Fn(&E) -> (String, String)) -> Out {
    let log = take_log();
    let (res, disp) = match r {
        Ok(Ok(v)) => { let (s, id) = show_ok(&v); (format!("ok {s}"), id) }
        Ok(Err(e)) => { let (c, d) = canon(&e); (format!("err {c}"), d) }
        Err(_) => ("panic".into(), String::new()),
    };
    Out { res, disp, next: rng.next_u64(), log }
}

type Script = (Option<usize>, u8);

fn sel_call<S: Selector<Pop>>(s: &S, pop: &Pop, base: &SplitMix, sc: Script, canon: &dyn Fn(&S::Error) -> (String, String)) -> Out {
    let mut rng = base.clone();
    set_script(sc.0, sc.1);
    let r = std::panic::catch_unwind(std::panic::AssertUnwindSafe(|| s.select(pop, &mut rng)));
    // the *same individual*: identity, reported as its position
    finish(r, &mut rng, |i: &&Ind| (show(&i.to_v()), format!("@{}", pop.iter().position(|x| std::ptr::eq(x, *i)).map_or("not-a-member".into(), |p| p.to_string()))), canon)
}
fn mut_call<M: Mutator<V>>(m: &M, g: &V, base: &SplitMix, sc: Script, canon: &dyn Fn(&M::Error) -> (String, String)) -> Out {
    let mut rng = base.clone();
    set_script(sc.0, sc.1);
    let r = std::panic::catch_unwind(std::panic::AssertUnwindSafe(|| m.mutate(g.clone(), &mut rng)));
    finish(r, &mut rng, |v: &V| (show(v), String::new()), canon)
}
fn rec_call<Rc_: Recombinator<(V, V), Output = V>>(m: &Rc_, g: &(V, V), base: &SplitMix, sc: Script, canon: &dyn Fn(&Rc_::Error) -> (String, String)) -> Out {
    let mut rng = base.clone();
    set_script(sc.0, sc.1);
    let r = std::panic::catch_unwind(std::panic::AssertUnwindSafe(|| m.recombine(g.clone(), &mut rng)));
    finish(r, &mut rng, |v: &V| (show(v), String::new()), canon)
}
fn op_call<O: Operator<V>>(o: &O, x: &V, base: &SplitMix, sc: Script, canon: &dyn Fn(&O::Error) -> (String, String)) -> Out
where O::Output: ToV {
    let mut rng = base.clone();
    set_script(sc.0, sc.1);
    let r = std::panic::catch_unwind(std::panic::AssertUnwindSafe(|| o.apply(x.clone(), &mut rng)));
    finish(r, &mut rng, |v: &O::Output| (show(&v.to_v()), String::new()), canon)
}
fn cm_call<C: ChildMaker<Pop, ProbeSel>>(c: &C, pop: &Pop, sel: &ProbeSel, base: &SplitMix, sc: Script, canon: &dyn Fn(&C::Error) -> (String, String)) -> Out {
    let mut rng = base.clone();
    set_script(sc.0, sc.1);
    let r = std::panic::catch_unwind(std::panic::AssertUnwindSafe(|| c.make_child(&mut rng, pop, sel)));
    finish(r, &mut rng, |v: &Ind| (show(&v.to_v()), String::new()), canon)
}

/// Build `$mk()` behind every pointer flavour of the erased trait `$tr` and evaluate `$call` with
/// `$p` bound to the pointer; pushes `(flavour, outcome)`.  The order is the macro's
/// (`SHARED_ALTERNATIVES` × `PRELIMINARY_MODIFICATIONS`).
macro_rules! each_flavour {
    ($out:ident, $mk:expr, [$($tr:tt)+], |$p:ident| $call:expr) => {
        each_flavour!(@ptrs $out, $mk, [$($tr)+], |$p| $call);
    };
    (@ptrs $out:ident, $mk:expr, [$($tr:tt)+], |$p:ident| $call:expr) => {
        each_flavour!(@auto $out, $mk, "ref", [$($tr)+], |$p| $call, v, { let $p: &dyn $($tr)+ = &v; $call }, { let $p: &(dyn $($tr)+ + Send) = &v; $call }, { let $p: &(dyn $($tr)+ + Sync) = &v; $call }, { let $p: &(dyn $($tr)+ + Send + Sync) = &v; $call });
        each_flavour!(@auto $out, $mk, "mutref", [$($tr)+], |$p| $call, v, { let mut v = v; let $p: &mut (dyn $($tr)+) = &mut v; $call }, { let mut v = v; let $p: &mut (dyn $($tr)+ + Send) = &mut v; $call }, { let mut v = v; let $p: &mut (dyn $($tr)+ + Sync) = &mut v; $call }, { let mut v = v; let $p: &mut (dyn $($tr)+ + Send + Sync) = &mut v; $call });
        each_flavour!(@auto $out, $mk, "cellrefmut", [$($tr)+], |$p| $call, v,
            { let cell = RefCell::new(v); let $p: RefMut<'_, dyn $($tr)+> = RefMut::map(cell.borrow_mut(), |x| { let y: &mut (dyn $($tr)+) = x; y }); $call },
            { let cell = RefCell::new(v); let $p: RefMut<'_, dyn $($tr)+ + Send> = RefMut::map(cell.borrow_mut(), |x| { let y: &mut (dyn $($tr)+ + Send) = x; y }); $call },
            { let cell = RefCell::new(v); let $p: RefMut<'_, dyn $($tr)+ + Sync> = RefMut::map(cell.borrow_mut(), |x| { let y: &mut (dyn $($tr)+ + Sync) = x; y }); $call },
            { let cell = RefCell::new(v); let $p: RefMut<'_, dyn $($tr)+ + Send + Sync> = RefMut::map(cell.borrow_mut(), |x| { let y: &mut (dyn $($tr)+ + Send + Sync) = x; y }); $call });
        each_flavour!(@auto $out, $mk, "box", [$($tr)+], |$p| $call, v, { let $p: Box<dyn $($tr)+> = Box::new(v); $call }, { let $p: Box<dyn $($tr)+ + Send> = Box::new(v); $call }, { let $p: Box<dyn $($tr)+ + Sync> = Box::new(v); $call }, { let $p: Box<dyn $($tr)+ + Send + Sync> = Box::new(v); $call });
        each_flavour!(@auto $out, $mk, "arc", [$($tr)+], |$p| $call, v, { let $p: Arc<dyn $($tr)+> = Arc::new(v); $call }, { let $p: Arc<dyn $($tr)+ + Send> = Arc::new(v); $call }, { let $p: Arc<dyn $($tr)+ + Sync> = Arc::new(v); $call }, { let $p: Arc<dyn $($tr)+ + Send + Sync> = Arc::new(v); $call });
        each_flavour!(@auto $out, $mk, "rc", [$($tr)+], |$p| $call, v, { let $p: Rc<dyn $($tr)+> = Rc::new(v); $call }, { let $p: Rc<dyn $($tr)+ + Send> = Rc::new(v); $call }, { let $p: Rc<dyn $($tr)+ + Sync> = Rc::new(v); $call }, { let $p: Rc<dyn $($tr)+ + Send + Sync> = Rc::new(v); $call });
        each_flavour!(@auto $out, $mk, "cellref", [$($tr)+], |$p| $call, v,
            { let cell = RefCell::new(v); let $p: Ref<'_, dyn $($tr)+> = Ref::map(cell.borrow(), |x| { let y: &(dyn $($tr)+) = x; y }); $call },
            { let cell = RefCell::new(v); let $p: Ref<'_, dyn $($tr)+ + Send> = Ref::map(cell.borrow(), |x| { let y: &(dyn $($tr)+ + Send) = x; y }); $call },
            { let cell = RefCell::new(v); let $p: Ref<'_, dyn $($tr)+ + Sync> = Ref::map(cell.borrow(), |x| { let y: &(dyn $($tr)+ + Sync) = x; y }); $call },
            { let cell = RefCell::new(v); let $p: Ref<'_, dyn $($tr)+ + Send + Sync> = Ref::map(cell.borrow(), |x| { let y: &(dyn $($tr)+ + Send + Sync) = x; y }); $call });
    };
    (@auto $out:ident, $mk:expr, $pn:literal, [$($tr:tt)+], |$p:ident| $call:expr, $v:ident, $b0:block, $b1:block, $b2:block, $b3:block) => {
        { let $v = ($mk)(); $out.push((concat!($pn, "/none"), $b0)); }
        { let $v = ($mk)(); $out.push((concat!($pn, "/send"), $b1)); }
        { let $v = ($mk)(); $out.push((concat!($pn, "/sync"), $b2)); }
        { let $v = ($mk)(); $out.push((concat!($pn, "/sendsync"), $b3)); }
    };
}

/// the flavour names in the order the proc-macro generates them, read from its source
fn macro_inventory() -> Result<Vec<String>, String> {
    let src = std::fs::read_to_string("/repo/packages/ec-macros/src/dyn_ref_impls/mod.rs").map_err(|e| e.to_string())?;
    let section = |name: &str| -> Result<Vec<String>, String> {
        let start = src.find(name).ok_or(format!("{name} not found"))?;
        let rest = &src[start..];
        let open = rest.find("vec![").ok_or("no vec!")?;
        let close = rest[open..].find("]").ok_or("no ]")?;
        Ok(rest[open + 5..open + close].split("Box::new(").skip(1).map(|s| s.split(')').next().unwrap_or("").trim().to_string() + if s.contains("parse_quote!(") { ")" } else { "" }).collect())
    };
    let ptr_name = |s: &str| -> Result<&'static str, String> {
        Ok(match s { "Pointer" => "ref", "MutPointer" => "mutref", "RefMut" => "cellrefmut", "BoxMod" => "box", "Arc" => "arc", "Rc" => "rc", "Ref" => "cellref", o => return Err(format!("unknown pointer modification {o}")) })
    };
    let auto_name = |s: &str| -> Result<&'static str, String> {
        let t: String = s.chars().filter(|c| !c.is_whitespace()).collect();
        Ok(if t == "Passthrough" { "none" } else if t.contains("(Send+Sync)") { "sendsync" } else if t.contains("(Send)") { "send" } else if t.contains("(Sync)") { "sync" } else { return Err(format!("unknown auto-trait modification {s}")) })
    };
    let ptrs = section("SHARED_ALTERNATIVES")?;
    let autos = section("PRELIMINARY_MODIFICATIONS")?;
    let mut v = Vec::new();
    for p in &ptrs { for a in &autos { v.push(format!("{}/{}", ptr_name(p)?, auto_name(a)?)); } }
    Ok(v)
}

const RULE: &str = "five erasable traits (Selector, Mutator, Recombinator, Operator, ChildMaker) x all 28 generated pointer flavours x three erased error types \
(the error type itself, Box<dyn Error + Send + Sync>, a caller-defined type) x probe implementations (and C14 pipeline shapes for Operator) x seeded arguments x every \
failure position; per flavour: the erased call from a clone of the generator is compared with the concrete call (same individual by identity / same value, converted \
error incl. Display text, same next generator word, same component call log) and with the Lean model; real ec-core selectors (Best, Worst, Random, Tournament) erased vs \
concrete as model-free oracle; flavour inventory read from the proc-macro source, the Lean model and what compiles; non-trivial = the call draws or fails; distinct by request, flavour, seed, script";

struct Acc<'a> {
    d: &'a mut crate::driver::Driver,
    r: &'a mut Report,
    i: u64,
    selftest: u8,
}

/// compare the 28 erased outcomes with the concrete one and with the model
fn judge(acc: &mut Acc, kind: &str, wrapped: &str, input: &V, conv: &str, sc: Script, base: &SplitMix, concrete: &Out, erased: &mut Vec<(&'static str, Out)>, compare_calls: bool) {
    // expected erased outcome from the concrete one
    let want_res = match concrete.res.strip_prefix("err ") { Some(e) => format!("err {conv}({e})"), None => concrete.res.clone() };
    // one model request per case, the flavour rotating
    let fl = erased[(acc.i as usize) % erased.len()].0;
    let (pn, an) = fl.split_once('/').unwrap();
    let req = format!("ops {} | (dyn {pn} {an} {conv} {wrapped})", show(input));
    let mut shadow = base.clone();
    let mut n_enter = 0usize;
    let mut user = |tag: u64, rng: &mut SplitMix| -> String {
        if tag & 3 == 0 { let j = n_enter; n_enter += 1; format!("n {}", if sc.0 == Some(j) { sc.1 } else { 0 }) } else { format!("n {}", rng.next_u64()) }
    };
    let reply = acc.d.ask_with(&req, |p| prims::answer(p, &mut shadow, &mut user));
    let (impl_s, spec_s) = reply.split_once(" ## ").unwrap_or((&reply, ""));
    let mut sp = spec_s.split(" ; ");
    let spec_res = sp.next().unwrap_or("");
    let _ = sp.next();
    let spec_calls = sp.next().unwrap_or("").strip_prefix("calls=").unwrap_or("");
    let shadow_next = shadow.next_u64();
    let calls = |o: &Out| o.log.iter().map(|c| format!("{}:{}:{}:{}", c.id, c.hash48, 1 + c.drawn, c.failed as u8)).collect::<Vec<_>>().join(",");
    let nontrivial = concrete.log.iter().any(|c| c.drawn > 0 || c.failed);
    if acc.selftest == 1 { for (_, o) in erased.iter_mut().skip(5).step_by(7) { o.next = o.next.wrapping_add(1); } }
    if acc.selftest == 2 { for (_, o) in erased.iter_mut().skip(3).step_by(9) { if o.res.starts_with("err") { o.res = want_res.replace("(1,", "(9,"); } } }
    if acc.selftest == 3 { for (_, o) in erased.iter_mut().skip(2).step_by(11) { let extra = o.log.clone(); o.log.extend(extra); } }
    for (fl, o) in erased.iter() {
        let case = json!({"kind": kind, "flavour": fl, "conv": conv, "request": req, "fail_at": sc.0, "mode": sc.1, "case": acc.i});
        acc.r.case(&format!("{kind}|{fl}|{req}|{:?}|{}", sc, acc.i), nontrivial);
        acc.r.hit(&format!("{kind} x {fl}"));
        acc.r.hit(&format!("{kind} conv={conv} -> {}", if o.res.starts_with("ok") { "ok" } else if o.res.starts_with("err") { "err" } else { "panic" }));
        let mut what: Vec<String> = Vec::new();
        if o.res != want_res { what.push(format!("erased result `{}` is not the wrapped implementation's `{}` (converted)", o.res, want_res)); }
        if o.disp != concrete.disp && (conv != "custom" || o.res.starts_with("ok")) { what.push(format!("erased error text / selected position `{}` differs from the original `{}`", o.disp, concrete.disp)); }
        if o.disp == "@not-a-member" { what.push("the erased selector returned something that is not a member of the population".into()); }
        if o.next != concrete.next { what.push("the generator is left in a different state than by the wrapped implementation".into()); }
        if o.log != concrete.log { what.push(format!("component calls differ: erased {} vs wrapped {}", calls(o), calls(concrete))); }
        if !same_err_text(&o.res, spec_res) { what.push(format!("differs from the Spec: {spec_res}")); }
        if compare_calls && calls(o) != spec_calls { what.push(format!("component calls differ from the Spec: {spec_calls}")); }
        if !what.is_empty() {
            acc.r.violate(json!({"case": case, "real_erased": o.res, "real_wrapped": concrete.res, "spec": spec_res, "what": what}));
        } else if !same_err_text(&o.res, impl_s) || o.next != shadow_next {
            acc.r.disagree(json!({"case": case, "real": o.res, "impl": impl_s, "same_generator_state_after": o.next == shadow_next}));
        }
    }
    acc.r.sample(json!({"request": req, "fail_at": sc.0, "mode": sc.1, "wrapped": concrete.res, "erased(28 flavours)": want_res}));
}

fn scripts_for(n_calls: usize) -> Vec<Script> {
    let mut v = vec![(None, 0u8)];
    for j in 0..n_calls { v.push((Some(j), 1)); v.push((Some(j), 2)); }
    v
}

fn canon_same<E: std::error::Error + 'static>(e: &E) -> (String, String) { (format!("same({})", canon_err(e).0), e.to_string()) }
fn canon_plain<E: std::error::Error + 'static>(e: &E) -> (String, String) { (canon_err(e).0, e.to_string()) }
fn canon_boxed(e: &BoxErr) -> (String, String) { let d: &(dyn std::error::Error + 'static) = &**e; (format!("boxed({})", canon_err(d).0), e.to_string()) }
fn canon_custom(e: &MyErr) -> (String, String) { (format!("custom({})", e.0), String::new()) }

fn gen_pop(g: &mut SplitMix) -> Pop {
    let n = match g.below(6) { 0 => 0, 1 => 1, _ => 2 + g.below(5) };
    (0..n).map(|_| Ind::new(V::Leaf(g.below(1000)), V::Leaf(g.below(50)))).collect()
}

fn selector_flavours<E: 'static>(acc: &mut Acc, mk: impl Fn() -> ProbeSel, term: &str, pop: &Pop, base: &SplitMix, sc: Script, concrete: &Out, conv: &str, canon: &dyn Fn(&E) -> (String, String))
where ProbeErr: Into<E> {
    let mut outs: Vec<(&'static str, Out)> = Vec::new();
    each_flavour!(outs, mk, [DynSelector<Pop, E>], |p| sel_call(&p, pop, base, sc, canon));
    judge(acc, "Selector", term, &pop.to_v(), conv, sc, base, concrete, &mut outs, true);
}

fn selector_cases(acc: &mut Acc, g: &mut SplitMix, base: &SplitMix) {
    let (id, d) = *g.pick(&[(1u64, 1u32), (2, 0), (3, 3)]);
    let pop = gen_pop(g);
    let mk = move || ProbeSel { id, d };
    let term = format!("(ps {id} {d})");
    let free = sel_call(&mk(), &pop, base, (None, 0), &canon_plain);
    for sc in scripts_for(free.log.len()) {
        let concrete = sel_call(&mk(), &pop, base, sc, &canon_plain);
        selector_flavours::<ProbeErr>(acc, mk, &term, &pop, base, sc, &concrete, "same", &canon_same);
        selector_flavours::<BoxErr>(acc, mk, &term, &pop, base, sc, &concrete, "boxed", &canon_boxed);
        selector_flavours::<MyErr>(acc, mk, &term, &pop, base, sc, &concrete, "custom", &canon_custom);
    }
}

/// harness-side mutants of a generated pointer impl (UEC_SELFTEST=4,5): forwarding twice, and
/// touching the generator before forwarding
struct DoubleApply<M>(M);
impl<M: Mutator<V>> Mutator<V> for DoubleApply<M> {
    type Error = M::Error;
    fn mutate<R: Rng + ?Sized>(&self, genome: V, rng: &mut R) -> Result<V, M::Error> {
        let once = self.0.mutate(genome, rng)?;
        self.0.mutate(once, rng)
    }
}
struct ExtraDraw<M>(M);
impl<M: Mutator<V>> Mutator<V> for ExtraDraw<M> {
    type Error = M::Error;
    fn mutate<R: Rng + ?Sized>(&self, genome: V, rng: &mut R) -> Result<V, M::Error> {
        let _ = rng.next_u32();
        self.0.mutate(genome, rng)
    }
}

fn mutator_flavours<E: 'static>(acc: &mut Acc, mk: impl Fn() -> ProbeMut, term: &str, genome: &V, base: &SplitMix, sc: Script, concrete: &Out, conv: &str, canon: &dyn Fn(&E) -> (String, String))
where ProbeErr: Into<E> {
    let mut outs: Vec<(&'static str, Out)> = Vec::new();
    each_flavour!(outs, mk, [DynMutator<V, E>], |p| mut_call(&p, genome, base, sc, canon));
    if acc.selftest == 4 { let b: Box<dyn DynMutator<V, E>> = Box::new(mk()); outs.push(("mutant/double-application", mut_call(&DoubleApply(b), genome, base, sc, canon))); }
    if acc.selftest == 5 { let b: Box<dyn DynMutator<V, E>> = Box::new(mk()); outs.push(("mutant/extra-draw", mut_call(&ExtraDraw(b), genome, base, sc, canon))); }
    judge(acc, "Mutator", term, genome, conv, sc, base, concrete, &mut outs, true);
}

fn mutator_cases(acc: &mut Acc, g: &mut SplitMix, base: &SplitMix) {
    let (id, d) = *g.pick(&[(1u64, 1u32), (2, 0), (3, 2)]);
    let genome = V::Leaf(g.below(1000));
    let mk = move || ProbeMut { id, d };
    let term = format!("(pm {id} {d})");
    for sc in scripts_for(1) {
        let concrete = mut_call(&mk(), &genome, base, sc, &canon_plain);
        mutator_flavours::<ProbeErr>(acc, mk, &term, &genome, base, sc, &concrete, "same", &canon_same);
        mutator_flavours::<BoxErr>(acc, mk, &term, &genome, base, sc, &concrete, "boxed", &canon_boxed);
        mutator_flavours::<MyErr>(acc, mk, &term, &genome, base, sc, &concrete, "custom", &canon_custom);
    }
}

fn recombinator_flavours<E: 'static>(acc: &mut Acc, mk: impl Fn() -> ProbeRec, term: &str, genomes: &(V, V), base: &SplitMix, sc: Script, concrete: &Out, conv: &str, canon: &dyn Fn(&E) -> (String, String))
where ProbeErr: Into<E> {
    let mut outs: Vec<(&'static str, Out)> = Vec::new();
    each_flavour!(outs, mk, [DynRecombinator<(V, V), E, Output = V>], |p| rec_call(&p, genomes, base, sc, canon));
    judge(acc, "Recombinator", term, &genomes.to_v(), conv, sc, base, concrete, &mut outs, true);
}

fn recombinator_cases(acc: &mut Acc, g: &mut SplitMix, base: &SplitMix) {
    let (id, d) = *g.pick(&[(1u64, 1u32), (2, 0), (3, 2)]);
    let genomes = (V::Leaf(g.below(1000)), V::Leaf(g.below(1000)));
    let mk = move || ProbeRec { id, d };
    let term = format!("(pr {id} {d})");
    for sc in scripts_for(1) {
        let concrete = rec_call(&mk(), &genomes, base, sc, &canon_plain);
        recombinator_flavours::<ProbeErr>(acc, mk, &term, &genomes, base, sc, &concrete, "same", &canon_same);
        recombinator_flavours::<BoxErr>(acc, mk, &term, &genomes, base, sc, &concrete, "boxed", &canon_boxed);
        recombinator_flavours::<MyErr>(acc, mk, &term, &genomes, base, sc, &concrete, "custom", &canon_custom);
    }
}

fn childmaker_flavours<E: 'static>(acc: &mut Acc, mk: impl Fn() -> ProbeChildMaker, term: &str, pop: &Pop, sel: &ProbeSel, base: &SplitMix, sc: Script, concrete: &Out, conv: &str, canon: &dyn Fn(&E) -> (String, String))
where ProbeErr: Into<E> {
    let mut outs: Vec<(&'static str, Out)> = Vec::new();
    each_flavour!(outs, mk, [DynChildMaker<Pop, ProbeSel, E>], |p| cm_call(&p, pop, sel, base, sc, canon));
    judge(acc, "ChildMaker", term, &pop.to_v(), conv, sc, base, concrete, &mut outs, false);
}

fn childmaker_cases(acc: &mut Acc, g: &mut SplitMix, base: &SplitMix) {
    let (id, d, sid, sd) = *g.pick(&[(1u64, 1u32, 2u64, 1u32), (1, 0, 2, 2), (3, 2, 4, 0)]);
    let pop = gen_pop(g);
    let sel = ProbeSel { id: sid, d: sd };
    let mk = move || ProbeChildMaker { id, d };
    let term = format!("(pc {id} {d} {sid} {sd})");
    let free = cm_call(&mk(), &pop, &sel, base, (None, 0), &canon_plain);
    for sc in scripts_for(free.log.len()) {
        let concrete = cm_call(&mk(), &pop, &sel, base, sc, &canon_plain);
        childmaker_flavours::<ProbeErr>(acc, mk, &term, &pop, &sel, base, sc, &concrete, "same", &canon_same);
        childmaker_flavours::<BoxErr>(acc, mk, &term, &pop, &sel, base, sc, &concrete, "boxed", &canon_boxed);
        childmaker_flavours::<MyErr>(acc, mk, &term, &pop, &sel, base, sc, &concrete, "custom", &canon_custom);
    }
}

fn operator_flavours<O, E: 'static>(acc: &mut Acc, mk: impl Fn() -> O, term: &str, x: &V, base: &SplitMix, sc: Script, concrete: &Out, conv: &str, canon: &dyn Fn(&E) -> (String, String))
where
    O: Operator<V> + Send + Sync + 'static,
    O::Output: ToV,
    O::Error: Into<E>,
{
    let mut outs: Vec<(&'static str, Out)> = Vec::new();
    each_flavour!(outs, mk, [DynOperator<V, E, Output = O::Output>], |p| op_call(&p, x, base, sc, canon));
    judge(acc, "Operator", term, x, conv, sc, base, concrete, &mut outs, true);
}

/// one pipeline shape (input `V`) behind the erased `DynOperator` forms
fn operator_shape<O, F>(acc: &mut Acc, g: &mut SplitMix, base: &SplitMix, mk: F, term: &str)
where
    F: Fn() -> O + Copy,
    O: Operator<V> + Send + Sync + 'static,
    O::Output: ToV,
    O::Error: std::error::Error + Send + Sync + 'static,
{
    let x = V::Leaf(g.below(1000));
    let term: String = term.split_whitespace().collect::<Vec<_>>().join(" ");
    let free = op_call(&mk(), &x, base, (None, 0), &canon_plain);
    for sc in scripts_for(free.log.len()) {
        let concrete = op_call(&mk(), &x, base, sc, &canon_plain);
        operator_flavours::<O, O::Error>(acc, mk, &term, &x, base, sc, &concrete, "same", &canon_same);
        operator_flavours::<O, BoxErr>(acc, mk, &term, &x, base, sc, &concrete, "boxed", &canon_boxed);
        operator_flavours::<O, MyErr>(acc, mk, &term, &x, base, sc, &concrete, "custom", &canon_custom);
    }
}

macro_rules! operator_shapes {
    ($acc:ident, $g:ident, $base:ident, $which:expr; $($term:tt;)*) => {{
        let mut k = 0u64;
        $( if $which == k { operator_shape($acc, $g, $base, || op!($term), stringify!($term)); } k += 1; )*
        let _ = k;
    }};
}
const N_OP_SHAPES: u64 = 9;

fn operator_cases(acc: &mut Acc, g: &mut SplitMix, base: &SplitMix) {
    let which = g.below(N_OP_SHAPES);
    operator_shapes!(acc, g, base, which;
        (p 1 1);
        (then (p 1 1) (p 2 2));
        (and (p 1 1) (then (p 2 0) (p 3 1)));
        (then (vp 1 1) (map (p 2 1)));
        (rep 3 (p 1 1));
        (then (and (p 1 1) (p 2 1)) (recombine (pr 3 1)));
        (then (id) (mutate (pm 1 2)));
        (then (constvec 2) (map (then (p 1 1) (p 2 0))));
        (then (twice (p 1 1)) (then (map (p 2 1)) (p 3 1)));
    );
}

/// real ec-core selectors, erased vs concrete (no model): same individual, same error text, same stream
fn real_selector_oracle(acc: &mut Acc, g: &mut SplitMix, base: &SplitMix, forced: Option<u64>) {
    type RI = EcIndividual<u64, TestResults<Score<i64>>>;
    type RP = Vec<RI>;
    // now and then a large population (a size-dependent strategy behind the erased form must still forward the call)
    let n = match forced { Some(n) => n, None => match g.below(5) { 0 => 0, 1 => 1, _ => 2 + g.below(6) } };
    let pop: RP = (0..n).map(|j| { let v = g.below(4) as i64; EcIndividual::new(j, TestResults { results: vec![Score(v)], total_result: Score(v) }) }).collect();
    fn call<S: Selector<Vec<EcIndividual<u64, TestResults<Score<i64>>>>>>(s: &S, pop: &Vec<EcIndividual<u64, TestResults<Score<i64>>>>, base: &SplitMix, disp: &dyn Fn(&S::Error) -> String) -> (String, u64) {
        let mut rng = base.clone();
        let r = std::panic::catch_unwind(std::panic::AssertUnwindSafe(|| s.select(pop, &mut rng)));
        let res = match r {
            Ok(Ok(i)) => format!("ok @{}", pop.iter().position(|x| std::ptr::eq(x, i)).map_or("not-a-member".into(), |p| p.to_string())),
            Ok(Err(e)) => format!("err {}", disp(&e)),
            Err(_) => "panic".into(),
        };
        (res, rng.next_u64())
    }
    macro_rules! one {
        ($name:literal, $mk:expr, $errty:ty) => {{
            let mk = $mk;
            let concrete = call(&mk(), &pop, base, &|e: &$errty| e.to_string());
            let mut outs: Vec<(&'static str, (String, u64))> = Vec::new();
            each_flavour!(outs, mk, [DynSelector<RP, BoxErr>], |p| call(&p, &pop, base, &|e: &BoxErr| e.to_string()));
            for (fl, o) in outs {
                acc.r.case(&format!("real {}|{fl}|{}|{}", $name, n, acc.i), n >= 2);
                acc.r.hit(&format!("real selector {} (oracle only)", $name));
                if o != concrete {
                    acc.r.violate(json!({"case": {"selector": $name, "flavour": fl, "population_size": n, "case": acc.i}, "real_erased": o.0, "real_wrapped": concrete.0,
                        "what": "the erased form of a real selector differs from the selector (individual, error text or generator state)"}));
                }
            }
        }};
    }
    one!("Best", || Best, ec_core::operator::selector::EmptyPopulation);
    one!("Worst", || Worst, ec_core::operator::selector::EmptyPopulation);
    one!("Random", || Random, ec_core::operator::selector::EmptyPopulation);
    let k = 1 + g.below(3) as usize;
    one!("Tournament", move || Tournament::new(std::num::NonZeroUsize::new(k).unwrap()), ec_core::operator::selector::tournament::TournamentSizeError);
}

/// Zero-sized genomes / inputs behind the erased forms: the wrapped implementation is still called - it may fail, draw from
/// the generator or count its calls - and the erased form does exactly what it does (model-free; a handful of flavours).
fn zero_sized_cases(r: &mut Report, seed: u64) {
    use std::sync::atomic::{AtomicUsize, Ordering};
    struct UnitMut { d: usize, fail: bool, calls: AtomicUsize }
    impl Mutator<()> for UnitMut {
        type Error = ProbeErr;
        fn mutate<R: Rng + ?Sized>(&self, _g: (), rng: &mut R) -> Result<(), ProbeErr> {
            self.calls.fetch_add(1, Ordering::SeqCst);
            for _ in 0..self.d { rng.next_u64(); }
            if self.fail { Err(ProbeErr { id: 77, code: 3 }) } else { Ok(()) }
        }
    }
    impl Mutator<[bool; 0]> for UnitMut {
        type Error = ProbeErr;
        fn mutate<R: Rng + ?Sized>(&self, g: [bool; 0], rng: &mut R) -> Result<[bool; 0], ProbeErr> {
            self.calls.fetch_add(1, Ordering::SeqCst);
            for _ in 0..self.d { rng.next_u64(); }
            if self.fail { Err(ProbeErr { id: 78, code: 4 }) } else { Ok(g) }
        }
    }
    impl Recombinator<[(); 2]> for UnitMut {
        type Output = ();
        type Error = ProbeErr;
        fn recombine<R: Rng + ?Sized>(&self, _gs: [(); 2], rng: &mut R) -> Result<(), ProbeErr> {
            self.calls.fetch_add(1, Ordering::SeqCst);
            for _ in 0..self.d { rng.next_u64(); }
            if self.fail { Err(ProbeErr { id: 79, code: 5 }) } else { Ok(()) }
        }
    }
    for (k, (d, fail)) in [(0usize, false), (2, false), (1, true), (0, true), (3, true)].into_iter().enumerate() {
        let m: &'static UnitMut = &*leak(UnitMut { d, fail, calls: AtomicUsize::new(0) });
        let base = SplitMix::derive(seed ^ 0x25D, k as u64);
        let mut why: Vec<String> = vec![];
        let mut compare = |name: &str, direct: (String, u64), erased: (String, u64), calls_ok: bool| {
            if direct != erased || !calls_ok { why.push(format!("{name}: wrapped gives {} (next word {}), erased gives {} (next word {}), wrapped implementation called: {calls_ok}", direct.0, direct.1, erased.0, erased.1)); }
        };
        macro_rules! one {
            ($name:expr, $direct:expr, $erased:expr) => {{
                let mut r1 = base.clone(); let mut r2 = base.clone();
                let a = { let rng = &mut r1; format!("{:?}", $direct(rng)) };
                let before = m.calls.load(Ordering::SeqCst);
                let b = { let rng = &mut r2; format!("{:?}", $erased(rng)) };
                let called = m.calls.load(Ordering::SeqCst) == before + 1;
                compare($name, (a, r1.next_u64()), (b, r2.next_u64()), called);
            }};
        }
        one!("Mutator<()> behind &dyn", |rng: &mut SplitMix| Mutator::<()>::mutate(m, (), rng), |rng: &mut SplitMix| { let e: &dyn DynMutator<(), ProbeErr> = m; e.mutate((), rng) });
        one!("Mutator<()> behind Box<dyn>", |rng: &mut SplitMix| Mutator::<()>::mutate(m, (), rng), |rng: &mut SplitMix| { let e: Box<dyn DynMutator<(), ProbeErr>> = Box::new(m); e.mutate((), rng) });
        one!("Mutator<[bool; 0]> behind Rc<dyn>", |rng: &mut SplitMix| Mutator::<[bool; 0]>::mutate(m, [], rng), |rng: &mut SplitMix| { let e: Rc<dyn DynMutator<[bool; 0], ProbeErr>> = Rc::new(m); e.mutate([], rng) });
        one!("Mutator<()> behind Arc<dyn + Send + Sync>", |rng: &mut SplitMix| Mutator::<()>::mutate(m, (), rng), |rng: &mut SplitMix| { let e: Arc<dyn DynMutator<(), ProbeErr> + Send + Sync> = Arc::new(m); e.mutate((), rng) });
        one!("Recombinator<[(); 2]> behind &dyn", |rng: &mut SplitMix| m.recombine([(), ()], rng), |rng: &mut SplitMix| { let e: &dyn DynRecombinator<[(); 2], ProbeErr, Output = ()> = m; e.recombine([(), ()], rng) });
        r.case(&format!("zero-sized genome d={d} fail={fail}"), true);
        r.hit("zero-sized genome behind erased forms");
        if !why.is_empty() {
            r.violate(json!({"case": format!("erased mutator / recombinator over a zero-sized genome (wrapped implementation draws {d} words, fails: {fail})"), "what": why}));
        }
    }
}

/// History behind the erased forms (model-free): wrapped implementations that *panic* (the panic is caught by the
/// caller, as a rayon worker or a test harness would) and deeply nested erased forms must leave no trace - afterwards an
/// erased call still is the wrapped call: same value, same draws, the wrapped implementation called exactly once.
fn panic_history_cases(r: &mut Report, seed: u64) {
    use std::sync::atomic::{AtomicUsize, Ordering};
    struct M { calls: AtomicUsize }
    impl Mutator<i64> for M {
        type Error = ProbeErr;
        fn mutate<R: Rng + ?Sized>(&self, g: i64, rng: &mut R) -> Result<i64, ProbeErr> {
            self.calls.fetch_add(1, Ordering::SeqCst);
            if g == -1 { panic!("the wrapped mutator panics"); }
            if g == -2 { return Err(ProbeErr { id: 5, code: 9 }); }
            Ok(g ^ (rng.next_u64() & 0xFFFF) as i64)
        }
    }
    impl Operator<i64> for M {
        type Output = i64;
        type Error = ProbeErr;
        fn apply<R: Rng + ?Sized>(&self, g: i64, rng: &mut R) -> Result<i64, ProbeErr> { self.mutate(g, rng) }
    }
    impl Composable for M {}
    let base = SplitMix::derive(seed ^ 0x9A71C, 1);
    let concrete = |g: i64| -> (Result<i64, String>, u64) { let m = M { calls: AtomicUsize::new(0) }; let mut rng = base.clone(); let v = m.mutate(g, &mut rng).map_err(|e| e.to_string()); (v, rng.next_u64()) };
    let prev = std::panic::take_hook();
    std::panic::set_hook(Box::new(|_| {}));
    let mut bad: Vec<String> = vec![];
    {
        let m = M { calls: AtomicUsize::new(0) };
        let by_ref: &dyn DynMutator<i64, ProbeErr> = &m;
        let boxed: Box<dyn DynMutator<i64, ProbeErr>> = Box::new(M { calls: AtomicUsize::new(0) });
        let arc: Arc<dyn DynMutator<i64, ProbeErr> + Send + Sync> = Arc::new(M { calls: AtomicUsize::new(0) });
        let op_box: Box<dyn DynOperator<i64, ProbeErr, Output = i64>> = Box::new(M { calls: AtomicUsize::new(0) });
        let mut caught = 0;
        for k in 0..400 {
            let mut rng = base.clone();
            let res = std::panic::catch_unwind(std::panic::AssertUnwindSafe(|| match k % 4 {
                0 => by_ref.mutate(-1, &mut rng).map_err(|e| e.to_string()),
                1 => boxed.mutate(-1, &mut rng).map_err(|e| e.to_string()),
                2 => arc.mutate(-1, &mut rng).map_err(|e| e.to_string()),
                _ => op_box.apply(-1, &mut rng).map_err(|e| e.to_string()),
            }));
            if res.is_err() { caught += 1; }
        }
        if caught != 400 { bad.push(format!("a panic of the wrapped implementation did not come through the erased form ({caught} of 400 did)")); }
        // errors in between, too
        for _ in 0..600 { let mut rng = base.clone(); let _ = boxed.mutate(-2, &mut rng); let _ = op_box.apply(-2, &mut rng); }
        for g in [5i64, 0, 123_456] {
            let want = concrete(g);
            let before = m.calls.load(Ordering::SeqCst);
            let mut rng = base.clone();
            let got = (by_ref.mutate(g, &mut rng).map_err(|e| e.to_string()), rng.next_u64());
            if got != want || m.calls.load(Ordering::SeqCst) != before + 1 { bad.push(format!("after 400 caught panics and 1200 errors behind erased forms on this thread, &dyn DynMutator on {g} gives {:?}, the mutator itself {:?} (wrapped calls: {})", got.0, want.0, m.calls.load(Ordering::SeqCst) - before)); }
            for (name, res) in [("Box<dyn DynMutator>", { let mut rng = base.clone(); (boxed.mutate(g, &mut rng).map_err(|e| e.to_string()), rng.next_u64()) }),
                                ("Arc<dyn DynMutator + Send + Sync>", { let mut rng = base.clone(); (arc.mutate(g, &mut rng).map_err(|e| e.to_string()), rng.next_u64()) }),
                                ("Box<dyn DynOperator>", { let mut rng = base.clone(); (op_box.apply(g, &mut rng).map_err(|e| e.to_string()), rng.next_u64()) })] {
                if res != want { bad.push(format!("after caught panics behind erased forms, {name} on {g} gives {:?}, the wrapped implementation {:?}", res.0, want.0)); }
            }
        }
        // an error still comes through as the error
        let mut rng = base.clone();
        if boxed.mutate(-2, &mut rng).map_err(|e| e.to_string()) != Err(ProbeErr { id: 5, code: 9 }.to_string()) { bad.push("the wrapped error no longer comes through the erased form".into()); }
    }
    // erased forms nested 300 deep are still the wrapped implementation
    {
        let mut nested: Box<dyn DynMutator<i64, ProbeErr>> = Box::new(M { calls: AtomicUsize::new(0) });
        for _ in 0..300 { nested = Box::new(nested); }
        let want = concrete(77);
        let mut rng = base.clone();
        let got = (nested.mutate(77, &mut rng).map_err(|e| e.to_string()), rng.next_u64());
        if got != want { bad.push(format!("a mutator behind 300 nested erased forms gives {:?} on 77, the mutator itself {:?}", got.0, want.0)); }
        let mut nested_op: Box<dyn DynOperator<i64, ProbeErr, Output = i64>> = Box::new(M { calls: AtomicUsize::new(0) });
        for _ in 0..300 { nested_op = Box::new(nested_op); }
        let mut rng = base.clone();
        let got = (nested_op.apply(77, &mut rng).map_err(|e| e.to_string()), rng.next_u64());
        if got != want { bad.push(format!("an operator behind 300 nested erased forms gives {:?} on 77, the operator itself {:?}", got.0, want.0)); }
    }
    std::panic::set_hook(prev);
    r.case("erased forms after caught panics / deep nesting", true);
    for what in bad.into_iter().take(6) {
        r.violate(json!({"case": "erased Mutator / Operator forms: 400 caught panics and 1200 errors of wrapped implementations on one thread, then ordinary calls; 300 nested erased forms", "what": what}));
    }
}

/// Wrapped implementations that take their randomness in *bytes* (`fill_bytes` / `Rng::fill` on buffers of 0..=17 bytes),
/// as 32-bit and as 64-bit words, interleaved: behind every erased trait the same bytes / words arrive and the caller's
/// generator ends in the same state (model-free: erased vs. concrete from clones of one generator).
fn byte_draw_cases(r: &mut Report, seed: u64) {
    #[derive(Clone)]
    struct ByteUser { n: usize, pattern: u8 }
    impl ByteUser {
        fn draw<R: Rng + ?Sized>(&self, rng: &mut R) -> Vec<u8> {
            let mut out = vec![];
            for round in 0..3u8 {
                match (self.pattern + round) % 4 {
                    0 => { let mut b = vec![0u8; self.n]; rng.fill_bytes(&mut b); out.extend(b); }
                    1 => out.extend(rng.next_u32().to_le_bytes()),
                    2 => out.extend(rng.next_u64().to_le_bytes()),
                    _ => { let mut b = vec![0u8; (self.n + 3) % 7]; rng.fill(&mut b[..]); out.extend(b); }
                }
            }
            out
        }
    }
    impl Mutator<Vec<u8>> for ByteUser {
        type Error = ProbeErr;
        fn mutate<R: Rng + ?Sized>(&self, mut g: Vec<u8>, rng: &mut R) -> Result<Vec<u8>, ProbeErr> { g.extend(self.draw(rng)); Ok(g) }
    }
    impl Operator<Vec<u8>> for ByteUser {
        type Output = Vec<u8>;
        type Error = ProbeErr;
        fn apply<R: Rng + ?Sized>(&self, g: Vec<u8>, rng: &mut R) -> Result<Vec<u8>, ProbeErr> { self.mutate(g, rng) }
    }
    impl Composable for ByteUser {}
    impl Recombinator<[Vec<u8>; 2]> for ByteUser {
        type Output = Vec<u8>;
        type Error = ProbeErr;
        fn recombine<R: Rng + ?Sized>(&self, g: [Vec<u8>; 2], rng: &mut R) -> Result<Vec<u8>, ProbeErr> { let [mut a, b] = g; a.extend(b); a.extend(self.draw(rng)); Ok(a) }
    }
    impl Selector<Vec<Vec<u8>>> for ByteUser {
        type Error = ProbeErr;
        fn select<'pop, R: Rng + ?Sized>(&self, pop: &'pop Vec<Vec<u8>>, rng: &mut R) -> Result<&'pop Vec<u8>, ProbeErr> {
            let d = self.draw(rng);
            let k = d.iter().fold(0usize, |a, b| a.wrapping_mul(31).wrapping_add(*b as usize));
            pop.get(k % pop.len().max(1)).ok_or(ProbeErr { id: 3, code: 1 })
        }
    }
    let mut bad: Vec<String> = vec![];
    let pop: Vec<Vec<u8>> = (0..5u8).map(|j| vec![j; 2]).collect();
    let mut n_cases = 0u64;
    for n in 0..=17usize {
        for pattern in 0..4u8 {
            let u = ByteUser { n, pattern };
            let base = SplitMix::derive(seed ^ 0xB17E5, (n * 4 + pattern as usize) as u64);
            let fin = |v: Result<Vec<u8>, String>, mut rng: SplitMix| (v, rng.next_u64());
            let conc_m = { let mut rng = base.clone(); let v = u.mutate(vec![1, 2], &mut rng).map_err(|e| e.to_string()); fin(v, rng) };
            let conc_r = { let mut rng = base.clone(); let v = u.recombine([vec![1], vec![2]], &mut rng).map_err(|e| e.to_string()); fin(v, rng) };
            let conc_s = { let mut rng = base.clone(); let v = u.select(&pop, &mut rng).cloned().map_err(|e| e.to_string()); fin(v, rng) };
            let checks: Vec<(&str, (Result<Vec<u8>, String>, u64), &(Result<Vec<u8>, String>, u64))> = vec![
                ("&dyn DynMutator", { let p: &dyn DynMutator<Vec<u8>, ProbeErr> = &u; let mut rng = base.clone(); let v = p.mutate(vec![1, 2], &mut rng).map_err(|e| e.to_string()); fin(v, rng) }, &conc_m),
                ("Box<dyn DynMutator + Send>", { let p: Box<dyn DynMutator<Vec<u8>, ProbeErr> + Send> = Box::new(u.clone()); let mut rng = base.clone(); let v = p.mutate(vec![1, 2], &mut rng).map_err(|e| e.to_string()); fin(v, rng) }, &conc_m),
                ("Arc<dyn DynOperator>", { let p: Arc<dyn DynOperator<Vec<u8>, ProbeErr, Output = Vec<u8>>> = Arc::new(u.clone()); let mut rng = base.clone(); let v = p.apply(vec![1, 2], &mut rng).map_err(|e| e.to_string()); fin(v, rng) }, &conc_m),
                ("Rc<dyn DynRecombinator>", { let p: Rc<dyn DynRecombinator<[Vec<u8>; 2], ProbeErr, Output = Vec<u8>>> = Rc::new(u.clone()); let mut rng = base.clone(); let v = p.recombine([vec![1], vec![2]], &mut rng).map_err(|e| e.to_string()); fin(v, rng) }, &conc_r),
                ("&dyn DynSelector", { let p: &dyn DynSelector<Vec<Vec<u8>>, ProbeErr> = &u; let mut rng = base.clone(); let v = p.select(&pop, &mut rng).cloned().map_err(|e| e.to_string()); fin(v, rng) }, &conc_s),
                ("Box<dyn DynSelector + Send + Sync>", { let p: Box<dyn DynSelector<Vec<Vec<u8>>, ProbeErr> + Send + Sync> = Box::new(u.clone()); let mut rng = base.clone(); let v = p.select(&pop, &mut rng).cloned().map_err(|e| e.to_string()); fin(v, rng) }, &conc_s),
            ];
            for (name, got, want) in checks {
                n_cases += 1;
                if &got != want { bad.push(format!("{name} around an implementation that fills {n}-byte buffers (draw pattern {pattern}): erased {:?} (next word {:#x}), wrapped {:?} (next word {:#x})", got.0, got.1, want.0, want.1)); }
            }
        }
    }
    r.case("erased forms around byte-drawing implementations", true);
    r.hit_n("byte-drawing implementations behind erased forms (oracle only)", n_cases);
    for what in bad.into_iter().take(6) {
        r.violate(json!({"case": "wrapped implementations that draw bytes (fill_bytes / fill on 0..=17-byte buffers), u32 and u64 words behind erased forms", "what": what}));
    }
}

pub fn run(cfg: &Cfg) -> Report {
    let selftest: u8 = std::env::var("UEC_SELFTEST").ok().and_then(|s| s.parse().ok()).unwrap_or(0);
    let seed = cfg.seed;
    let per_kind: u64 = if cfg.thorough { 4000 } else { 80 };
    let n = 6 * per_kind;
    let mut rep = run_sharded(&cfg.driver, cfg.threads, n, || Report::new("dyn", RULE), |d, r, i| {
        let mut g = SplitMix::derive(seed ^ 0xD17, i);
        let base = SplitMix::derive(seed ^ 0xABCD, i);
        let mut acc = Acc { d, r, i, selftest };
        match i % 6 {
            0 => selector_cases(&mut acc, &mut g, &base),
            1 => mutator_cases(&mut acc, &mut g, &base),
            2 => recombinator_cases(&mut acc, &mut g, &base),
            3 => operator_cases(&mut acc, &mut g, &base),
            4 => childmaker_cases(&mut acc, &mut g, &base),
            // every few cases a large population (a size-dependent strategy behind the erased form must still forward the call)
            _ => real_selector_oracle(&mut acc, &mut g, &base, if (i / 6) % 10 == 3 { Some([1000u64, 4097, 8192, 8193, 20_000, 70_001, 300_007, 1_048_577][((i / 60) % 8) as usize]) } else { None }),
        }
    });
    crate::watch::guarded("dyn: zero-sized genomes / panic history / byte draws behind erased forms", || { zero_sized_cases(&mut rep, seed); panic_history_cases(&mut rep, seed); byte_draw_cases(&mut rep, seed); });
    // ---- inventory: proc-macro source vs Lean model vs what was compiled here
    let mut d = crate::driver::Driver::spawn(&cfg.driver);
    let model: Vec<String> = d.ask("ops flavours").split(',').map(|s| s.to_string()).collect();
    let mut compiled: Vec<(&'static str, u8)> = Vec::new();
    each_flavour!(compiled, || ProbeMut { id: 1, d: 0 }, [DynMutator<V, ProbeErr>], |p| { let _ = &p; 0u8 });
    let compiled: Vec<String> = compiled.into_iter().map(|(f, _)| f.to_string()).collect();
    // The Lean model's inventory against what this harness builds and exercises (both ours): must agree exactly.
    if model != compiled {
        rep.disagree(json!({"case": "flavour inventory", "impl": model, "compiled": compiled,
            "what": "the pointer flavours of the Lean model differ from the ones the harness exercises"}));
    }
    // The proc-macro's own tables are read from its source text as a cross-check.  That read depends on how the
    // source is written (a harmless rewrite of the tables must not raise an alarm), so failing to read them is a
    // note; a flavour that is generated but not exercised is reported (the property is then not shown for it);
    // a flavour that is exercised but no longer generated does not compile and is reported by the build.
    match macro_inventory() {
        Ok(src) => {
            rep.notes.push(format!("flavour inventory: {} in the proc-macro source, {} in the Lean model, {} compiled and exercised per trait", src.len(), model.len(), compiled.len()));
            let missing: Vec<&String> = src.iter().filter(|f| !compiled.contains(f)).collect();
            if !missing.is_empty() {
                rep.disagree(json!({"case": "flavour inventory", "macro_source": src, "impl": model, "compiled": compiled, "not_exercised": missing,
                    "what": "dyn_ref_impls generates pointer flavours that neither the model nor the harness covers"}));
            }
        }
        Err(e) => rep.notes.push(format!("flavour inventory: the proc-macro's tables could not be read from its source text ({e}); inventory = the {} flavours that compile and are exercised, {} in the Lean model", compiled.len(), model.len())),
    }
    rep.exhaustive = true;
    rep.notes.push("exhaustive over: 5 traits x 28 flavours x 3 erased error types x every failure position of each case; sampled: wrapped implementations (probes, 9 pipeline shapes, 4 real selectors) and seeds".into());
    rep
}
