from props.common import *
PROP = {
    "module": "Uec.Props.C04",
    "model_modules": ["Uec.Model.Stack", "Uec.Model.StackSpec", "Uec.Lemmas.Stack"],
    "families": ["stack"],
    "trusted_base": [KERNEL, AXIOMS, TIE, RUST, HAND,
                     "modelled: every public operation of push_vm/stack.rs::Stack (top/top2/top3, pop/pop2/pop3, discard, push, push_many, try_extend, set_max_stack_size, size/is_empty/is_full/max_stack_size); usize is Nat (checked_add overflow unreachable)"],
    "assumptions": ["Vec<T> behaves as a list (push/pop/extend/truncate/reverse/get)",
                    "element type is irrelevant to stack behaviour (replayed on i64 and String)"],
    "explanation": "Lean theorems: refinement of the code-shaped vector model to a list specification for histories of any length (history), atomicity of every failing operation (atomic), capacity after any history (capacity), underflow payloads, insertion order. Tie: exhaustive short histories + seeded random histories replayed on the real Stack<i64>/Stack<String> and compared output by output and by final contents with the compiled Lean model.",
}
META = {
    "level_text": "Machine-checked Lean theorems about a code-shaped model of Stack<T>: refinement to a list spec for operation histories of any length (history), atomicity of every failing operation incl. try_extend (atomic), capacity after any history (capacity), underflow payloads and insertion order. The model is tied to the Rust by replaying exhaustive short and seeded random histories on the real Stack<i64>/Stack<String> and comparing every output and the final contents with the compiled model.",
    "level_note": COMMON_NOTE + " Vec is assumed to behave as a list.",
    "technique": "Lean 4 refinement proof by induction over histories + differential correspondence check against the real Stack",
}
