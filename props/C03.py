from props.common import *
from props.C01 import PUSH_MODEL, FLOATS
PROP = {
    "module": "Uec.Props.C03",
    "model_modules": ["Uec.Model.PushImpl", "Uec.Model.PushSpec", "Uec.Model.PushWF", "Uec.Lemmas.PushRun", "Uec.Lemmas.PushBound", "Uec.Lemmas.PushWF"],
    "families": ["push-run", "push-instr"],
    "trusted_base": [KERNEL, AXIOMS, TIE, RUST, HAND, PUSH_MODEL, FLOATS],
    "assumptions": ["partial: wall-clock termination, memory per step (block unfold O(block), Flush O(size)), allocator aborts and native stack depth of recursive Drop/Clone are runtime facts no theorem here covers; the real runs are under catch_unwind",
                    "usize overflow of the step counter / push_many length is unreachable on real hardware"],
    "explanation": "Lean theorems about the code-shaped interpreter loop: totality (structural recursion on the step budget), steps_le (at most the configured number of steps), run_WF / run_sizes (for every step budget, hence for every intermediate state: all stacks within their limits, inputs still bound), abort_only_overflow (a run ends in an error only by a stack overflow raised in a well-formed state, which is returned untouched), no_panic (from well-formed states, i.e. all mentioned input variables bound), panic_only_unbound, done_early_exec_empty / done_dichotomy (a normal ending is either 'exec stack empty' or 'exactly the step limit performed': the loop never stops early of its own accord), run_finished (a machine with an empty exec stack is a fixed point: 0 steps, same state). Witness programs (self-replicating DupBlock loop, oversized block, 3-deep nesting) evaluated by the kernel to both endings. Tie: random looping/growing/nested programs with stack limits from 0 and step limits from 0, real run under catch_unwind compared with the model at the configured and at smaller limits; oracles: no panic, sizes within limits, only Overflow aborts.",
}
META = {
    "level_text": "Machine-checked: the interpreter model is total and performs at most max_steps steps; well-formedness (sizes within limits, inputs bound) is an invariant of the loop for every step budget; the only abort is a stack overflow and no panic branch is reachable from well-formed states. Partial for the runtime side (time, memory, native recursion), which no executable model can exhibit. Tied to the Rust by random programs incl. looping and growing ones, compared with the model at several step limits.",
    "level_note": COMMON_NOTE + " Runtime resource behaviour not modelled (partial).",
    "technique": "Lean 4 invariant proof by induction over the interpreter loop (WF preserved, fatal => overflow, no panic) + differential correspondence on random programs",
}
