from props.common import *
PROP = {
    "module": "Uec.Props.C12",
    "model_modules": ["Uec.Model.Floats", "Uec.Model.Rand", "Uec.Model.Crossover", "Uec.Model.Mutate", "Uec.Lemmas.RandLin", "Uec.Lemmas.Floats", "Uec.Lemmas.Mutate", "Uec.Lemmas.Crossover", "Uec.Lemmas.LinDist"],
    "families": ["rates"],
    "trusted_base": [KERNEL, AXIOMS, TIE, RUST, HAND,
                     "rand 0.9.0, the LAWS of the primitives (not verified, only sampled by the frequency oracles): random::<f32>() is uniform on the 2^24 grid points k*2^-24; random::<bool>() is fair; random_bool(p) is true with probability p "
                     "(rand actually uses floor(p*2^64)/2^64); a caller-supplied distribution has an arbitrary finite law",
                     "the exact integer reading of binary32 (F32.decode, <, n as f32, 1.0/x by round-to-nearest-even) is hand-written; cross-checked against hardware Float32 in the driver on every call and bit-for-bit against the real "
                     "with_uniform_close_probability for n=1..10^4 (10^5 thorough) and large n; f64ToRat (value of an f64 probability) is only used symbolically",
                     "modelled: WithRate, WithOneOverLength, Umad (per-gene closure and pass), UniformXo (both flavours), Bitstring::random / random_with_probability via collection::Generator, GeneGenerator::sample, with_uniform_close_probability (conv_approx = `as f32`, release build)"],
    "assumptions": ["distributional statements are exact laws of the modelled functions GIVEN the primitives' laws above; they are not decided by sampling. The frequency oracles (Hoeffding bound, false-alarm budget 1e-12 per test) only guard against gross deviations of the real code",
                    "'1/length, i.e. one expected flip' and 'by default 1/(n+1)': the code computes fl32(1/fl32(n)); exactness is proved for powers of two and the deviation (< 2n*2^-24 expected flips, resp. < 2*2^-24) is machine-checked for n <= 1024 only (theorems *_partial); the general rounding-error bound is not proved",
                    "in debug builds easy_cast's conv_approx panics for instruction counts that are not exactly representable in f32 (> 2^24); the harness builds in release mode like the examples"],
    "explanation": "Lean theorems (exact rational expectations `ev` of the code-shaped Impl under the primitives' laws): P_close (P(r<rate) = ceil(rate*2^24)/2^24, within 2^-24 of the rate), withRate_step_law (one independent decision per gene, factorisation for any observable), flip_law (each gene negated with probability P rate), "
                   "expected_flips, oneOverLength_expected / _pow2 / _one_expected_partial; umadGene_law (order and conditioning of the four draws), umadGene_counts (old kept 1-d, new present a(1-d), size (1-d)(1+a)), umad_expected_size = n(1-d)(1+a), umad_size_preserved (d = a/(1+a)), umad_expected_counts, umad_empty_law; "
                   "uniformVec_step_law / uniformG_step_law / uniformXo_law (1/2 per position, independent, both flavours); collect_step_law / collect_marginal, bitstringRandom_law (1/2), bitstringRandomP_law (p); gene_close_law (P closeProbability), gene_instr_law ((1-P) * law of the instruction distribution), uniformClose_eq / _pow2 / _partial. "
                   "Tie: tape-level replay with exact f32 bits and scripted boundary draws, pairwise distinct rates, close probability bit for bit, frequency oracles on the real code.",
}
META = {
    "level_text": "Machine-checked Lean theorems giving the exact law (rational arithmetic, no sampling) of the code-shaped models of WithRate, WithOneOverLength, Umad, UniformXo, Bitstring::random*, and the Plushy GeneGenerator under the laws of rand's primitives: "
                  "each gene is flipped independently with probability ceil(rate*2^24)/2^24 (within 2^-24 of the configured rate); UMAD keeps a parent gene with probability 1-d and inserts a surviving new gene with probability a(1-d), expected child size n(1-d)(1+a), preserved when d=a/(1+a); "
                  "uniform crossover takes each gene from either parent with probability 1/2 independently (both flavours); random bitstrings set each bit with probability 1/2 resp. p; a random Plushy gene is Close with probability P(closeProbability) and otherwise drawn from the supplied instruction distribution; "
                  "default close probability = fl32(1/fl32(n+1)) (exactly 1/(n+1) for powers of two; deviation bound machine-checked for n<1024 only - stated as *_partial). The model is tied to the Rust tape-level with exact f32 bits, scripted decision-boundary draws, pairwise distinct rates, "
                  "bit-for-bit comparison of with_uniform_close_probability for n=1..10^4 and large n, plus frequency oracles on the real code with an explicit 1e-12 error budget.",
    "level_note": COMMON_NOTE + " The laws of rand's primitives (f32 grid uniform, fair bool, Bernoulli(p)) are trusted inputs of every distribution theorem. The exact binary32 reading is hand-written and cross-checked against hardware Float32 at run time. General rounding-error bounds for fl32(1/n) are not proved (partial: powers of two exact, n<=1024 computed).",
    "technique": "Lean 4 proof: exact expectation semantics of the request tree under the primitives' laws (factorisation = independence, marginals, expected sizes) + differential correspondence with exact f32 bits and scripted boundary draws + exact-budget frequency oracles",
}
