from props.common import *
PROP = {
    "module": "Uec.Props.C16",
    "model_modules": ["Uec.Model.Rand", "Uec.Lemmas.PushFrame"],
    "families": ["push-det", "sel", "wsel", "lex", "xo", "mut", "ops", "gen"],
    # in the shared stochastic families only the determinism / generator-state findings are C16's own
    "violation_filter": r"equal generator states|C16|declaration order|second run|second clone|re-run|determinis",
    "trusted_base": [KERNEL, AXIOMS, TIE, RUST, RAND, HAND,
                     "every stochastic operation is modelled as a Rand tree (free monad of primitive requests): by construction a model has no other access to randomness; that the REAL code has none is established only by the tie"],
    "assumptions": ["absence of ambient influences other than the generator (time, addresses, thread-local rand::rng(), HashMap order) cannot be a theorem about the code; it is what the repeated differential runs sample: every stochastic case is run twice from cloned generator states (results and final generator states must coincide) and the real generator must end in the same state as the shadow generator that answered exactly the model's requests",
                    "Generation::{serial,par}_next use rand::rng() by design and are covered by C09, not here"],
    "explanation": "Lean theorems: run_deterministic / run_bind / run_append (a Rand computation is a function of its answers, reads them strictly left to right and nothing beyond what it read); history_append / next_call_depends_on_state_only (a history of calls on one generator is the concatenation of its parts, and whatever histories ran before - if they leave the generator in the same state, the next call gives the same result); eval_depends_on_lookup_only and impl_eval_depends_on_lookup_only (the latter for the code-shaped interpreter on well-formed states, via bound_congr / run_eq_spec) (Push evaluation depends on the input bindings only through what each name resolves to, for every step budget) and builder_inputs_order_free (call sequences binding the same names to the same values in any order build states that resolve alike). Tie: family push-det builds the real state with the inputs declared in every permutation (up to 4 inputs, 24 orders), runs each twice and demands identical dumps equal to the model's; the stochastic families of C06-C08, C10-C13 are re-run here: each case checks a second run from a cloned generator and the equality of the real and the shadow generator state after the call.",
}
META = {
    "level_text": "The Push half is a machine-checked theorem (evaluation independent of input declaration order; inputs are a passenger of every instruction). For the operators the model is deterministic by construction, so the weight of 'draws randomness only from the supplied generator' rests on the tie: double runs from cloned generator states and comparison of the real generator's final state with a shadow generator advanced by exactly the model's primitive requests, on every stochastic correspondence case; all permutations of input declarations for Push programs.",
    "level_note": COMMON_NOTE + " Absence of other ambient influences is sampled, not proved.",
    "technique": "Lean 4 frame theorem for the interpreter + Rand-tree determinism lemmas; differential double-run / shadow-generator correspondence",
}
