from props.common import *
PROP = {
    "module": "Uec.Props.C11",
    "model_modules": ["Uec.Model.Floats", "Uec.Model.Rand", "Uec.Model.Crossover", "Uec.Model.Mutate", "Uec.Lemmas.RandLin", "Uec.Lemmas.Floats", "Uec.Lemmas.Mutate"],
    "families": ["mut"],
    "trusted_base": [KERNEL, AXIOMS, TIE, RUST, RAND, HAND,
                     "modelled: WithRate (both impls), WithOneOverLength (both impls), Umad::{new,new_with_empty_rate,new_without_empty}+mutate; a genome of any of the four types is a list (into_iter/collect); "
                     "f32 is modelled exactly: bit patterns decoded to integers (F32.decode), `r < rate` computed on them, `n as f32` and `1.0/x` by exact round-to-nearest-even (F32.ofRat) - these hand-written "
                     "IEEE functions are cross-checked against hardware Float32 by the driver on every call and against the real decisions by the tie; random_bool(p) panics outside [0,1] (modelled as one check per pass)"],
    "assumptions": ["contract of rand 0.9.0: random::<f32>() answers a grid point k*2^-24 with 0<=k<2^24; random_bool(0) is false, random_bool(1) is true, otherwise either value; the theorems quantify over all such answers",
                    "usize::to_f32 never fails (num_traits), so WithOneOverLength's error branch is unreachable",
                    "READING: 'with deletion rate 1 the result is empty' is proved for non-empty parents (and for empty parents without empty-genome addition or with empty rate 0); an empty parent with empty-genome addition enabled may receive its one un-deletable new gene, which is the property's own empty-parent clause (DESIGN.md 8/C11, 9)"],
    "explanation": "Lean theorems about the code-shaped Impl, for all genomes, all rate bit patterns and all valid answer sequences: withRate_spec (exact set of outcomes: one grid index per gene, gene flipped iff k*2^-24 < rate), "
                   "withRate_pointwise/length/getElem (same length, each gene unchanged or negated in place), withRate_rate0 (identity), withRate_rate_ge1 (all flipped), withOneOverLength_eq/pointwise/empty/singleton; "
                   "umadPass_shape (+ umadPass_complete: for rates strictly inside (0,1) the Spec shape is exactly the set of outputs), shape_survivors (surviving parent genes form a sublist of the parent; #new <= n; size <= 2n), "
                   "umad_shape (no panic for probabilities), umad_empty / umad_empty_disabled / umad_empty_rate0, umadPass_rate00 (identity), umadPass_del1 (empty), umadPass_add1_del0 (each parent gene followed by exactly one generator gene), umad_degenerate. "
                   "Tie: seeded tape-level replay on Vec<bool>, Vec<i32>, Bitstring, Vector<i32>, Vector<u32>, Plushy with tagged genes, scripted boundary draws, rates from a boundary pool, model-free structure oracles.",
}
META = {
    "level_text": "Machine-checked Lean theorems about a code-shaped model of WithRate, WithOneOverLength and Umad, for genomes of any length, every f32/f64 rate bit pattern and every sequence of valid answers of the rand primitives: "
                  "bit-flip mutation keeps the length and leaves every gene unchanged or negated in place (exact characterisation of the outcome set; rate 0 = identity, rate >= 1 flips all; 1/length variant incl. lengths 0 and 1); "
                  "UMAD's output is the concatenation over parent positions of (kept gene or nothing) ++ (nothing or one generator gene) - survivors in order, at most one insertion per position, new genes only from the supplied generator - "
                  "and for non-degenerate rates every such shape occurs; empty-parent clauses; (0,0) identity, deletion 1 empty, (1,0) every gene followed by exactly one new gene. The f32 comparison is computed exactly on decoded bit patterns, not axiomatised. "
                  "The model is tied to the Rust by seeded tape-level replay (exact f32 bits, scripted decision-boundary draws) on Vec<bool>, Vec<i32>, Bitstring, Vector<T>, Plushy with tagged genes, plus model-free structure oracles.",
    "level_note": COMMON_NOTE + " rand's primitives are trusted to answer within their documented contracts (f32 grid, random_bool(0/1) deterministic). The hand-written exact IEEE-754 reading (decode, <, n as f32, 1/x) is cross-checked against hardware Float32 at run time, not proved against a formal IEEE model. 'Deletion rate 1 => empty' is read as in DESIGN.md (empty parent + empty-genome addition governed by the empty-parent clause).",
    "technique": "Lean 4 proof (outcome-set characterisation over the oracle-tape model of rand with an exact integer model of f32 comparisons; inductive shape Spec for UMAD with soundness and completeness) + differential correspondence check with scripted boundary draws",
}
