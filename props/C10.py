from props.common import *
PROP = {
    "module": "Uec.Props.C10",
    "model_modules": ["Uec.Model.Rand", "Uec.Model.Crossover", "Uec.Lemmas.RandLin", "Uec.Lemmas.Crossover"],
    "families": ["xo"],
    "trusted_base": [KERNEL, AXIOMS, TIE, RUST, RAND, HAND,
                     "modelled: TwoPointXo and UniformXo (impls for [Vec<T>;2], (Vec<T>,Vec<T>), [G;2], (G,G) with G: Crossover = Bitstring), "
                     "Bitstring::crossover_gene / crossover_segment, DifferentGenomeLength / CrossoverGeneError / GeneAccess / GeneAccessRange payloads; "
                     "a genome is a list; slice::swap_with_slice, get_mut(range) and Vec indexing are modelled by take/drop (get_mut(s..e) is Some iff s<=e<=len)"],
    "assumptions": ["random_range(0..=len) answers any value in 0..=len and random::<bool>() either value (contract of rand 0.9.0); the theorems quantify over all such answers",
                    "the tuple impls delegate to the array impls (both are executed and compared on every case)",
                    "gene type is irrelevant to the recombinators (replayed on Vec<u32> with tagged genes and on Bitstring)"],
    "explanation": "Lean theorems about the code-shaped Impl: twoPointVec_shape / twoPointG_shape (for equal lengths the set of outcomes over all random streams is exactly "
                   "{p1[0,lo)++p2[lo,hi)++p1[hi,n) | 0<=lo<=hi<=n}: never an error or panic, and every segment incl. those touching either end occurs), twoPoint_positionwise "
                   "(length, position-wise, one contiguous second-parent segment), twoPoint_empty, uniformVec_spec / uniformG_spec (outcomes = all 2^n position-wise mixtures), "
                   "uniformVec_requests (one bool request per position independent of earlier answers), *_mismatch (different lengths => DifferentGenomeLength(l1,l2) before any draw), "
                   "no_panic, crossoverGene_spec / crossoverSegment_spec (Impl = Spec) with error_iff / error_unchanged / swaps corollaries (exactly the addressed positions are exchanged, "
                   "nothing else; out of range for either genome or reversed => error, both genomes unchanged). Tie: exhaustive exchange scope on real Bitstrings against Impl and Spec, "
                   "seeded tape-level recombinations for all 8 impls with tagged parents, model-free oracles, and a segment/mask coverage oracle on the real code.",
}
META = {
    "level_text": "Machine-checked Lean theorems about a code-shaped model of TwoPointXo, UniformXo and Bitstring's exchange primitives, for genomes of any length and every sequence of valid answers of the rand primitives: "
                  "exact characterisation of the set of possible children (two-point: all and only the children with one contiguous second-parent segment 0<=lo<=hi<=n, so every segment incl. both ends and empty parents; "
                  "uniform: all and only the 2^n position-wise mixtures, one coin per position), length mismatch reported as DifferentGenomeLength before any draw, no panic, and Impl = Spec for crossover_gene / crossover_segment "
                  "(exactly the addressed genes are swapped; out-of-range or reversed => error and both genomes unchanged). The model is tied to the Rust by an exhaustive small scope for the exchange primitives "
                  "(all length pairs x all indices/ranges, compared with Impl and Spec) and by seeded tape-level replay of all eight Recombinator impls on tagged parents (child, error payload, generator state), "
                  "plus model-free oracles incl. 'every segment/mask occurs' on the real code.",
    "level_note": COMMON_NOTE + " rand's primitives are trusted to answer within their documented ranges; which answers they give with which probability is C12's subject, not C10's. Vec/slice operations are assumed to behave as lists.",
    "technique": "Lean 4 proof (set-of-outcomes characterisation over the oracle-tape model of rand, refinement of exchange primitives to a position-wise Spec) + differential correspondence check with exhaustive small scope and coverage oracle",
}
