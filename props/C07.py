from props.common import *
PROP = {
    "module": "Uec.Props.C07",
    "model_modules": ["Uec.Model.Rand", "Uec.Model.Select", "Uec.Lemmas.Select"],
    "families": ["sel"],
    "trusted_base": [KERNEL, AXIOMS, TIE, RUST, RAND, HAND,
                     "modelled: Best/Worst::select (Iterator::max/min as the std folds: last maximum, first minimum), Tournament::select (size check, one choose_multiple(k) request, max of the sample), Ord of EcIndividual/TestResults/Score/Error as an integer key and its dual",
                     "Mathlib (Finset.powersetCard, Nat.choose) in the proof file only"],
    "assumptions": ["choose_multiple(rng,k) yields k distinct positions and every k-subset with equal probability (rand's contract; the order inside the sample is unspecified and shown irrelevant for the winner's value)",
                    "Iterator::max returns the last maximum and Iterator::min the first minimum (std); tie-breaking is compared index by index by the harness",
                    "individuals are ordered by an i64 total result (Score) or its dual (Error); the theorems use only that this is a total preorder"],
    "explanation": "Lean theorems about the code-shaped model: best_is_max / worst_is_min (maximal/minimal, EmptyPopulation iff empty, no randomness), tournament_spec (k distinct drawn positions, winner is the best of them), tournament_every_sample (each k-subset is a possible draw), tournament_beats (winner >= k-1 others), tournament_one (size 1 = the drawn individual, same support as Random), tournament_all (size n = a maximum, agrees with Best), tournament_too_large; distribution: tournament_winner_of_set (winner's value is a function of the sampled set) + counting laws card_subsets_le / card_subsets_max giving P(value<=v)=C(m_v,k)/C(n,k) with ties and P(w wins)=C(r_w,k-1)/C(n,k) for distinct values. Tie: seeded and exhaustive (all populations of <=4 individuals over 3 keys, every k) tape-level replay of the real selectors against the compiled model, pointer identity of the result, generator state after the call, property oracles on the real result, measured rank histogram.",
}
META = {
    "level_text": "Machine-checked Lean theorems about a code-shaped model of Best/Worst/Tournament::select for all populations, sizes and random answers: best/worst return a maximal/minimal individual (EmptyPopulation iff empty); a tournament of size k draws k distinct positions and returns the best of them, beats k-1 others, size 1 is the drawn individual, size n is a maximum; every k-subset is a possible draw; the exact law of the winner under the uniform-k-subset law of choose_multiple is proved by counting (P(value<=v)=C(m_v,k)/C(n,k) with ties, C(r,k-1)/C(n,k) for distinct values). The model is tied to the Rust by replaying the model's rand requests on a shadow generator (same rand call) and comparing selected index (pointer identity), errors and generator state, seeded + exhaustive small scope, plus property oracles and a measured winner-rank histogram on the real code.",
    "level_note": COMMON_NOTE + " The distribution statements are theorems given rand's contract for choose_multiple (uniform k-subsets); the order inside a sample is not assumed.",
    "technique": "Lean 4 proofs (induction over the max/min folds, counting with Finset.powersetCard) + tape-level differential correspondence against the real selectors",
}
