from props.common import *
PROP = {
    "module": "Uec.Props.C19",
    "model_modules": ["Uec.Model.Builder", "Uec.Model.PushWF", "Uec.Model.Stack"],
    "families": ["builder-probes", "builder"],
    "trusted_base": [KERNEL, AXIOMS, TIE, RUST, HAND,
                     "modelled: the builder generated for PushState - its type-state automaton (which of the 14 generated methods exists in which of the 243 type-states, and the type-state it returns) and its effect on partial_state (set_max_stack_size, push_many, HashMap insert, step limit) through the C04 stack model",
                     "the macro's token generation (syn/quote code in push-macros) is not modelled: its *output* for PushState is observed exhaustively by compile probes (every type-state x method), not for every struct a user could write",
                     "rustc's trait resolution decides which probe compiles (E0599 on rejected calls)"],
    "assumptions": ["partial: 'all state structs the macro is applied to' is covered for the struct the repository applies it to (PushState); HasStack<T> addressing the declared field is checked there through the typed accessors used to read the built state back"],
    "explanation": "Lean theorems for every call sequence of any length and order accepted by the type-state: built (each stack = supplied values, first supplied on top, later calls above earlier; maximum = last set globally or individually; exec = program with first element on top; step limit last set; every name resolves to its last binding), inputOf_of_mem (resolution independent of declaration order), overflow_reported / fits_ok, build_requires (an accepted build contains the global size call, a program decision and a step limit), no_resize_after_load, no_values_before_size, built_sizesOk and built_WF (the builder establishes the hypothesis of C02/C03). Tie: (i) the type-state table by observation: 3402 compile probes (243 type-states x 14 methods, predicted result type ascribed) in one cargo check against /repo, exhaustive; (ii) a catalogue of call-sequence shapes with seeded sizes/values/programs executed on the real builder and compared with the model (overflow call index, contents via HasStack, maxima, step limit, input resolution).",
}
META = {
    "level_text": "Machine-checked theorems about a model of the generated builder (type-state automaton + effect on partial_state) for call sequences of any length and order: configured contents/maxima/program/inputs, overflow reporting, build preconditions, no resize after load, and that every built state is well-formed. The type-state automaton is tied to rustc exhaustively (one compile probe per type-state x method); the run-time behaviour by a catalogue of static call-sequence shapes with seeded parameters. Partial: only the struct the repository applies the macro to is observed.",
    "level_note": COMMON_NOTE + " The proc-macro's token generation is observed through its output for PushState, not modelled.",
    "technique": "Lean 4 proof by induction over builder call sequences + exhaustive compile-probe extraction of the type-state table + differential run-time correspondence",
}
