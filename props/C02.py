from props.common import *
from props.C01 import PUSH_MODEL, FLOATS
PROP = {
    "module": "Uec.Props.C02",
    "model_modules": ["Uec.Model.PushImpl", "Uec.Model.PushSpec", "Uec.Lemmas.PushRefine", "Uec.Lemmas.PushFacts", "Uec.Lemmas.PushWF"],
    "families": ["push-instr", "push-run"],
    "trusted_base": [KERNEL, AXIOMS, TIE, RUST, HAND, PUSH_MODEL, FLOATS],
    "assumptions": ["states are within their stack limits (SizesOk): established by the builder and preserved by the interpreter (proved in C03); for over-full stacks, reachable only through Stack::set_max_stack_size on a loaded stack, Swap/with_replace can lose elements before a push fails"],
    "explanation": "Lean theorems about the code-shaped Impl: err_state_eq (every recoverable or fatal error of every instruction, block and input variable carries a state equal to the state before: all stacks, output, inputs, limits), fatal_is_overflow, underflow_recoverable, skip_is_noop / noop_step (after a recoverable error the loop continues exactly as after a Noop). Non-vacuity examples at the boundaries (one operand short, arithmetic fault, destination exactly full). Tie: exhaustive fault-point enumeration against the real code - every instruction x fill levels {0..3} x capacity {full, spare} per stack x boundary values, comparing the state carried by the real error with a clone of the input (PartialEq and canonical dump) and with the model.",
}
META = {
    "level_text": "Machine-checked: for every instruction, in every state within its stack limits, an error outcome of the code-shaped model (which mirrors the Rust's partial updates: discard-then-push, push-then-discard, pop2-then-push-push) carries exactly the input state; fatal errors are overflows; a recoverably failing instruction is skipped like a Noop. Proved through the refinement to the all-or-nothing engine. Tied to the Rust by exhaustive enumeration of fault points (instruction x fill level x capacity relation x boundary values) with a model-free oracle (error state == input clone).",
    "level_note": COMMON_NOTE + " Hypothesis SizesOk excludes over-full stacks (unreachable through builder/interpreter, see C03/C19).",
    "technique": "Lean 4 proof via refinement to an all-or-nothing engine + exhaustive fault-point enumeration against the real code",
}
