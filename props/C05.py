from props.common import *
PROP = {
    "module": "Uec.Props.C05",
    "model_modules": ["Uec.Model.Plushy", "Uec.Model.PlushySpec", "Uec.Lemmas.Plushy"],
    "families": ["plushy"],
    "trusted_base": [KERNEL, AXIOMS, TIE, RUST, HAND,
                     "modelled: PushProgram::parse_from_plushy / From<Plushy> for Vec<PushProgram> as a mutual well-founded recursive descent over one shared cursor, generic in the instruction type and its num_opens table; the iterator protocol (`&mut impl Iterator`) is a list with an explicit rest",
                     "num_opens of the real instructions is read from the real code by the harness for every gene and cross-checked against the documented table over the strum inventory"],
    "assumptions": ["Rust's native recursion depth for pathological nesting (>= ~1e5 nested openers) is a runtime limit outside the model"],
    "explanation": "Lean theorems, for every gene sequence of any length and nesting and every instruction set: totality (termination proof of the mutual recursion), flatten (toProgram g) = instructions of g in order (flatten_parse), well-shapedness: every opener is followed by exactly num_opens blocks, recursively (wellShaped_parse), and equality with the open-block automaton that transcribes the close-marker / end-of-genome rules (parse_eq_automaton). Tie: all gene sequences over 4 gene kinds up to length 7 (quick) / 9 (thorough) plus random genomes up to 2000 genes over the whole strum inventory, real conversion compared structurally with the compiled model; model-free oracles for depth-first order and well-shapedness.",
}
META = {
    "level_text": "Machine-checked Lean theorems about a code-shaped model of the recursive-descent translation (generic in the instruction set): termination, depth-first reading = genome instructions, well-shapedness, and equality with an explicit open-block automaton (close ends the innermost block, ignored at depth 0, open/owed blocks closed at the end, possibly empty) - all for gene sequences of any length and nesting. Tied to the Rust by exhaustive enumeration of short genomes and random long ones through the real From<Plushy> conversion.",
    "level_note": COMMON_NOTE + " num_opens is read from the real instructions; native stack depth of the Rust recursion is not modelled.",
    "technique": "Lean 4 proof by the parser's own (well-founded, mutual) induction + differential correspondence with exhaustive small scope",
}
