"""Per-property configuration of ./check, loaded from props/Cxx.py fragments (PROP, META)."""
import importlib, os, re
PROPS, META = {}, {}
_d = os.path.join(os.path.dirname(os.path.abspath(__file__)), "props")
for _f in sorted(os.listdir(_d)):
    _m = re.fullmatch(r"(C\d+)\.py", _f)
    if _m:
        _mod = importlib.import_module("props." + _m.group(1))
        PROPS[_m.group(1)] = _mod.PROP
        META[_m.group(1)] = _mod.META
