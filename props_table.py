"""Per-property configuration of ./check: Lean module, harness families, trusted base."""

KERNEL = "Lean 4.33.0 kernel (lake build re-elaborates and kernel-checks; thorough tier also runs leanchecker)"
AXIOMS = "axioms used by the theorems: subset of {propext, Classical.choice, Quot.sound}, audited per theorem on every run; no sorry/admit/native_decide/bv_decide/own axioms"
TIE = "correspondence harness (/verif/harness, Rust) + compiled Lean driver (uec-driver): my serialisers, canonical forms and generators; a disagreement the generators do not produce is not seen"
RUST = "rustc/std (Vec, iterators, derive), not modelled"
RAND = "rand 0.9.0: the documented contract and law of each primitive the repository calls (answers are taken from a shadow generator by the same rand call)"
HAND = "the Impl models are written by hand from the Rust source; nothing is verified on the Rust text itself"

PROPS = {
    "C04": {
        "module": "Uec.Props.C04",
        "model_modules": ["Uec.Model.Stack", "Uec.Model.StackSpec", "Uec.Lemmas.Stack"],
        "families": ["stack"],
        "trusted_base": [KERNEL, AXIOMS, TIE, RUST, HAND,
                         "modelled: every public operation of push_vm/stack.rs::Stack (top/top2/top3, pop/pop2/pop3, discard, push, push_many, try_extend, set_max_stack_size, size/is_empty/is_full/max_stack_size); usize is Nat (checked_add overflow unreachable)"],
        "assumptions": ["Vec<T> behaves as a list (push/pop/extend/truncate/reverse/get)",
                        "element type is irrelevant to stack behaviour (replayed on i64 and String)"],
        "explanation": "Lean theorems: refinement of the code-shaped vector model to a list specification for histories of any length (history), atomicity of every failing operation (atomic), capacity after any history (capacity), underflow payloads, insertion order. Tie: exhaustive short histories + seeded random histories replayed on the real Stack<i64>/Stack<String> and compared output by output and by final contents with the compiled Lean model.",
    },
}
