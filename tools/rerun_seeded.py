#!/usr/bin/env python3
"""Re-runs every seeded change against the current checks (regression suite of the machinery).
   tools/rerun_seeded.py [id-prefix]"""
import json, glob, os, subprocess, sys
ROOT = os.path.dirname(os.path.dirname(os.path.abspath(__file__)))
pref = sys.argv[1] if len(sys.argv) > 1 and not sys.argv[1].startswith("--") else ""
own_only = "--own" in sys.argv          # check only the property the change breaks (faster)
skip = [a[len("--skip="):] for a in sys.argv if a.startswith("--skip=")]
only = [a[len("--only="):] for a in sys.argv if a.startswith("--only=")]
missed = []
for mp in sorted(glob.glob(os.path.join(ROOT, "seeded", pref + "*", "meta.json"))):
    m = json.load(open(mp))
    sid = m["seeded_id"]
    props = m.get("properties_checked") or [m["breaks_property"]]
    if own_only and m.get("breaks_property"): props = [m["breaks_property"]]
    if any(k in sid for k in skip): continue
    if only and not any(k in sid for k in only): continue
    d = os.path.dirname(mp)
    out = subprocess.run(["python3", os.path.join(ROOT, "tools", "try_mutant.py"), d, sid] + props + ["--skip-confirm"],
                         capture_output=True, text=True).stdout
    m2 = json.load(open(mp))
    own = m2.get("breaks_property") or sid.split("-")[0]
    r = m2["check_results"].get(own, {})
    ok = r.get("exit", 0) != 0
    print(sid, "CAUGHT" if ok else "MISSED", [p for p, x in m2["check_results"].items() if x["exit"] != 0], flush=True)
    if not ok: missed.append(sid)
print("missed:", missed)
