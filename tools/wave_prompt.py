#!/usr/bin/env python3
"""tools/wave_prompt.py <Cxx> <worktree> [n]  — the brief handed to a fresh sub-agent that seeds changes.
Only the property's own text goes in (statement, quantifier, anchors); nothing of /verif."""
import json, sys

pid, wt = sys.argv[1], sys.argv[2]
n = int(sys.argv[3]) if len(sys.argv) > 3 and not sys.argv[3].startswith("--") else 2
ANGLES = {
 "glue": """
ANGLE FOR THIS ROUND: many earlier rounds already changed the obvious sites (the functions named above). This time put
your changes into code the property depends on only INDIRECTLY - shared helpers, trait impls for references / boxes /
tuples / arrays, blanket impls and provided (default) trait methods, `From` / `Into` / `TryFrom` conversions, constructors
and `Default` impls, `Clone` / `PartialEq` / `Hash` / `Display` impls that other code relies on, error conversions, the
`Population` / `Genome` / `Linear` / `Crossover` / `Composable` / `HasStack` / `HasStdout` plumbing, the proc-macros'
generated code, iterator adapters, or a second call path that reaches the same functionality (e.g. through a wrapper, a
`&T` impl, an erased form, a convenience method) - so that the directly named functions stay untouched but the property
still breaks for a caller who goes through that other path. Text formatting counts where the property talks about
printed output.""",
 "numeric": """
ANGLE FOR THIS ROUND: make the breakage NUMERIC. Candidates: integer extremes (MIN, MAX, -1, 0, 1) and the difference
between wrapping / checked / saturating / overflowing arithmetic; signed vs unsigned; casts between usize / u32 / u64 / i64 /
i128 and between f32 / f64 (truncation, rounding, sign extension, `as` vs `try_from` vs `From`); floats: NaN (payloads,
comparisons, min/max), +0.0 vs -0.0, infinities, subnormals, the largest finite values, values just below / above an integer
or a power of two, rounding direction, fused vs separate operations, summation order; probabilities exactly 0, exactly 1,
the smallest positive value, 1 - epsilon; ratios whose numerator or denominator is 0 or near the type's maximum; sizes and
counts 0, 1, 2 and around 2^8 / 2^16 / 2^32; off-by-one at inclusive / exclusive range ends; remainder and division of
negative numbers; comparison operators that differ only on equality. The change must still look like ordinary code.""",
 "errors": """
ANGLE FOR THIS ROUND: make the breakage live on the FAILURE side. Candidates: which error is reported when two error
conditions hold at once (precedence), the payload of an error (counts, indices, positions, names, the state or value carried
along), an error that should be recoverable reported as fatal or the other way round, an error swallowed and replaced by a
default value or by success, a success reported as an error at an exact boundary, error conversion and wrapping layers
(`From` / `Into` / `map_err` / `source()` chains, which nesting level or position an error is attributed to), partial
effects left behind by an operation that then fails, clean-up that runs only on one of the two paths, early returns placed
before or after a side effect (a draw from the random generator, a push, a counter), and the behaviour for empty inputs.
The success path for ordinary inputs must stay right.""",
 "state": """
ANGLE FOR THIS ROUND: earlier rounds concentrated on single calls with unusual inputs. This time make the breakage depend
on HISTORY: a value that is used more than once (the second call differs from the first), state that leaks from one
call to the next (a cache, a counter, a reused buffer, a `Cell`/`OnceLock`/`static`/thread-local), an object that is
cloned and then both copies used, reconfigured through a public field or setter between uses, moved between threads,
or results that depend on the ORDER in which independent operations are performed. A single fresh use must still be right.""",
}
angle = ""
for a in sys.argv[3:]:
    if a.startswith("--angle="): angle = ANGLES[a[len("--angle="):]]
for l in open("/verif/properties.jsonl"):
    p = json.loads(l)
    if p["id"] == pid:
        break
else:
    sys.exit("unknown property")
a = p.get("anchors", {})
mech = "\n".join(f"  - {m['name']}  ({m['where']})" for m in a.get("mechanism", []))
state = "\n".join(f"  - {m['name']}: {m['meaning']}  ({m['where']})" for m in a.get("state", []))
print(f"""You are helping to test a verification effort for the Rust workspace `unhindered-ec` (an evolutionary-computation
framework: crates ec-core, ec-linear, push, push-macros, ec-macros). You work ONLY inside your own scratch git
worktree `{wt}` (already created; it is a checkout of the repository). Do not read or touch /repo, /verif or any
other directory outside `{wt}`. The sandbox has no network: always use `cargo ... --offline` (set
CARGO_NET_OFFLINE=true). `cargo test --workspace --offline` is the existing test suite and passes on the unchanged
tree (the first build takes a few minutes; other jobs share this machine: pass `-j 3` to every cargo build/test command). A file `packages/push/src/push_vm/verif_mini_state.rs` behind
`cfg(uec_verif)` is inert instrumentation: ignore it and do not modify it.

Here is a semantic property that the library is supposed to satisfy:

  PROPERTY {pid} — {p['title']}
  {p['statement']}
  Quantified: {p['quantifier']['text']}
  Files it is anchored in: {', '.join(a.get('files', []))}
  Mechanisms it rests on:
{mech}
{('  State:' + chr(10) + state) if state else ''}

{angle}
YOUR TASK: produce {n} different, independent, realistic changes ("mutants") to the library source (under
`packages/*/src`, including the proc-macro crates if relevant) such that each change
  (a) still compiles and the WHOLE existing test suite still passes unedited with it (`cargo test --workspace --offline`),
  (b) BREAKS the property above (the property's statement becomes false for some input/history/stream), and
  (c) needs something SPECIFIC to manifest — e.g. a particular boundary value or pair of values, an unusual
      configuration, a multi-step sequence of operations on one value (use, change, use again), a failure at a
      particular position, a particular size relation, a particular thread count/schedule, or two cooperating
      sites that each look fine alone. A change that any ordinary use would expose at once is NOT wanted.
      Changes should look like something a developer could plausibly commit (an "optimisation", a refactor with a
      slip, a fast path, a cache, an off-by-one at a boundary, a swapped argument that only matters when the two
      differ, a relaxed or reordered check), not like sabotage. Prefer different files / mechanisms for the
      different mutants, and prefer sites and triggers that are NOT the most obvious ones.
For each mutant k = 1..{n} write, inside your worktree, the directory `{wt}/MUTANTS/k/` with exactly:
  - `patch.diff`  : output of `git diff -- packages` for the library change ONLY (not the demonstration), applying
                    cleanly with `git apply` to the unchanged tree;
  - `demo.rs`     : a self-contained integration test file that FAILS with the change and PASSES without it. It will
                    be copied to `packages/<crate>/tests/<name>.rs` and run with
                    `cargo test -p <crate> --offline --test <name>`; it may only use the crates' public API and the
                    dev-dependencies already available to that crate. If the effect is distributional, use a fixed
                    seed and a sample large enough that the test is reliable (false-failure probability < 1e-9
                    without the change).
  - `README.md`   : what the change is, why it breaks the property, exactly what is needed for it to manifest, and on
                    a line of its own the path where demo.rs belongs, in the form `packages/<crate>/tests/<name>.rs`
                    (this exact path syntax must appear in the README, it is parsed by a script).
Before you finish, verify all of it yourself for each mutant: apply the patch, run the full suite (must pass), copy the
demo in and run it (must fail), revert the patch (`git apply -R`), run the demo again (must pass). Then leave the
worktree's tracked files unmodified (`git checkout -- .`; remove the copied demo files), keeping only the MUTANTS
directory (and the `target` build directory, which may stay). Do not commit anything. In your final message list, per
mutant: files touched, a one-sentence description, the trigger needed, and the result of your four verification runs.""")
