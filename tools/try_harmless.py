#!/usr/bin/env python3
"""
tools/try_harmless.py [id-prefix] [--all-props]

False-alarm test of the machinery: every /verif/harmless/<id>/patch.diff is a behaviour-preserving rewrite of /repo
(written by a sub-agent that saw only the property text; suite green with it).  Applies each to /repo, runs the quick
check of the property it was written against and of the properties sharing its families (or of all 19 with
--all-props), restores /repo and the evidence.  Every check must exit 0; a check that raises an alarm here is wrong
(or the rewrite is not harmless after all - then it belongs under seeded/, not here).
"""
import glob, json, os, signal, subprocess, sys, time
# a run that is terminated (session end) must still restore /repo: turn the signals into an exception so `finally` runs
for _sig in (signal.SIGTERM, signal.SIGHUP, signal.SIGINT):
    signal.signal(_sig, lambda n, f: (_ for _ in ()).throw(KeyboardInterrupt(f"signal {n}")))
ROOT = os.path.dirname(os.path.dirname(os.path.abspath(__file__)))
ALL = [f"C{i:02d}" for i in range(1, 20)]
# properties served by the same harness families
RELATED = {"C01": ["C02", "C03", "C16", "C19"], "C02": ["C01", "C03"], "C03": ["C01", "C02"], "C04": ["C01", "C02", "C03", "C19"],
           "C05": ["C11"], "C06": ["C07", "C08", "C13", "C16", "C17"], "C07": ["C06", "C16"], "C08": ["C06", "C15"],
           "C09": ["C15"], "C10": ["C12", "C16"], "C11": ["C12", "C05"], "C12": ["C11", "C10", "C18"], "C13": ["C06", "C17"],
           "C14": ["C17", "C16"], "C15": ["C08", "C09"], "C16": ["C01", "C14"], "C17": ["C06", "C14"], "C18": ["C12", "C05"],
           "C19": ["C01", "C04"]}

def sh(cmd, cwd=None, timeout=3000):
    p = subprocess.run(cmd, cwd=cwd, shell=True, stdout=subprocess.PIPE, stderr=subprocess.STDOUT, text=True, timeout=timeout)
    return p.returncode, p.stdout

pref = sys.argv[1] if len(sys.argv) > 1 and not sys.argv[1].startswith("--") else ""
alarms = []
for d in sorted(glob.glob(os.path.join(ROOT, "harmless", pref + "*"))):
    hid = os.path.basename(d)
    patch = os.path.join(d, "patch.diff")
    if not os.path.exists(patch): continue
    own = hid.split("-")[0]
    props = ALL if "--all-props" in sys.argv else [own] + RELATED.get(own, [])
    rc, out = sh("git status --porcelain", "/repo")
    assert out.strip() == "", "/repo is not clean: " + out
    rc, out = sh(f"git apply {patch}", "/repo")
    if rc != 0:
        print(hid, "PATCH DOES NOT APPLY", out[:200]); continue
    results = {}
    try:
        for p in props:
            ev = os.path.join(ROOT, "evidence", f"{p}.json")
            saved = open(ev).read() if os.path.exists(ev) else None
            rc, out = sh(f"./check {p} --tier quick", ROOT)
            if saved is not None: open(ev, "w").write(saved)
            lines = [l for l in out.splitlines() if l.startswith(("VIOLATION", "OK ", "KNOWN"))]
            results[p] = {"exit": rc, "lines": lines[-2:]}
            if rc != 0:
                rp = os.path.join(ROOT, "replays", f"{p}-quick-1.json")
                if os.path.exists(rp):
                    rj = json.load(open(rp))
                    results[p]["first_failing_input"] = (rj.get("failing_inputs") or [None])[0]
                    results[p]["first_disagreement"] = (rj.get("correspondence_disagreements") or [None])[0]
                    results[p]["broken"] = [b["what"] for b in rj.get("broken_obligations", [])]
    finally:
        sh("git checkout -- .", "/repo")
    bad = [p for p, r in results.items() if r["exit"] != 0]
    json.dump({"id": hid, "when": time.strftime("%Y-%m-%d %H:%M:%S"), "written_against": own, "checks_run": props,
               "alarms": bad, "check_results": results}, open(os.path.join(d, "meta.json"), "w"), indent=1)
    print(hid, "QUIET" if not bad else "ALARM " + str(bad), flush=True)
    if bad: alarms.append(hid)
rc, out = sh("git status --porcelain", "/repo")
assert out.strip() == "", "/repo was left dirty: " + out
print("alarms:", alarms)
