#!/usr/bin/env python3
"""List the executable lines of /repo/packages/*/src that the instrumented harness never executed.
Input: directory written by `llvm-cov show -format=text -output-dir`.  Lines inside `#[cfg(test)] mod`s are skipped."""
import os, re, sys

root = sys.argv[1]
for d, _, fs in sorted(os.walk(root)):
    for f in sorted(fs):
        if not f.endswith(".txt"): continue
        p = os.path.join(d, f)
        rel = p[len(root):]
        if "/repo/packages/" not in rel or "/src/" not in rel: continue
        name = rel.split("/repo/")[1][:-4]
        lines = open(p, errors="replace").read().splitlines()
        out, in_test, depth_at = [], False, 0
        for ln in lines:
            m = re.match(r"\s*(\d+)\|\s*([0-9.kMG]*)\|(.*)$", ln)
            if not m: continue
            no, cnt, src = int(m.group(1)), m.group(2), m.group(3)
            if re.search(r"#\[cfg\(test\)\]", src): in_test = True
            if in_test: continue
            if cnt == "0":
                out.append((no, src.rstrip()))
        if out:
            print(f"== {name}  ({len(out)} uncovered lines)")
            for no, src in out:
                print(f"  {no:5d}: {src[:150]}")
