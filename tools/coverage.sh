#!/bin/sh
# tools/coverage.sh [tier]  — which lines of /repo's library crates does the correspondence actually execute?
# Builds the harness with -C instrument-coverage (nightly toolchain: it ships llvm-profdata / llvm-cov), runs every
# family once and writes out/coverage/{summary.txt, uncovered.txt, lines/*.txt}.  Development aid, not a check:
# it shows where a changed line of /repo could hide from the tie.  Scratch build output lives in /tmp and is removed.
set -e
cd "$(dirname "$0")/.."
TIER=${1:-quick}
TD=/tmp/uec-cov-target
PROF=/tmp/uec-cov-prof
BIN=$(ls -d /root/.rustup/toolchains/nightly-x86_64-unknown-linux-gnu/lib/rustlib/*/bin)
rm -rf $PROF; mkdir -p $PROF out/coverage/lines
export CARGO_NET_OFFLINE=true
# proc-macros and build scripts are instrumented too and write profiles while compiling: keep those out of /repo
(cd harness && LLVM_PROFILE_FILE=/tmp/uec-cov-build-%p-%m.profraw RUSTFLAGS="--cfg uec_verif -C instrument-coverage" CARGO_TARGET_DIR=$TD cargo +nightly build --release --offline --quiet)
rm -f /tmp/uec-cov-build-*.profraw
H=$TD/release/uec-harness
D=lean/.lake/build/bin/uec-driver
for fam in stack plushy push-instr push-run push-det builder sel wsel lex xo mut rates ops res dyn gen generation; do
  LLVM_PROFILE_FILE="$PROF/$fam-%p-%m.profraw" $H $fam --tier $TIER --seed 1 --driver $D --threads 8 --out /tmp/uec-cov-$fam.json --prop ALL >/dev/null 2>&1 || echo "family $fam rc=$?"
done
$BIN/llvm-profdata merge -sparse $PROF/*.profraw -o $PROF/all.profdata
$BIN/llvm-cov report $H -instr-profile=$PROF/all.profdata --ignore-filename-regex='(\.cargo|rustc|/verif/|tests?\.rs)' > out/coverage/summary.txt 2>/dev/null || true
$BIN/llvm-cov show $H -instr-profile=$PROF/all.profdata --ignore-filename-regex='(\.cargo|rustc|/verif/)' --show-line-counts-or-regions --format=text -output-dir=out/coverage/show >/dev/null 2>&1 || true
python3 tools/coverage_uncovered.py out/coverage/show > out/coverage/uncovered.txt
rm -rf $PROF /tmp/uec-cov-*.json
[ -n "$KEEP_COV_TARGET" ] || rm -rf $TD
grep -E "TOTAL|Filename" out/coverage/summary.txt || true
echo "see out/coverage/uncovered.txt"
