#!/bin/sh
# tools/confirm_wave.sh <worktree-prefix> <tag> <prop>  — step 1 of try_mutant for the mutants of one worktree (no /repo access)
PFX=$1; TAG=$2; P=$3
for k in 1 2 3 4; do
  d=$PFX$P/MUTANTS/$k
  [ -f $d/patch.diff ] || continue
  demo=$(grep -oE "packages/[a-z-]+/(tests|examples)/[A-Za-z0-9_]+\.rs" $d/README.md | head -1)
  t=$(basename "$demo" .rs); crate=$(echo $demo | cut -d/ -f2)
  python3 /verif/tools/try_mutant.py $d $P-$TAG-m$k-$t $P --confirm-only --wt $PFX$P --demo-path $demo --demo-cmd "cargo test -p $crate --offline --test $t" 2>&1 | grep -E "seeded_id|patch_applies|suite_passes|demo_fails|demo_passes" | tr -d '\n'; echo
done
