#!/bin/bash
# tools/seed_sweep.sh "<seeds>" [tier] — run every check on the unchanged tree under other seeds; all must be OK.
# (false-alarm test of the statistical oracles, the watchdog and the generators; evidence is restored afterwards)
cd /verif
tier=${2:-quick}
mkdir -p /tmp/ev-save && cp evidence/*.json /tmp/ev-save/
for s in $1; do
  for i in $(seq -w 1 19); do
    p=C$i
    t0=$(date +%s)
    out=$(VERIF_SEED=$s ./check $p --tier $tier 2>&1); rc=$?
    t1=$(date +%s)
    echo "seed=$s $p rc=$rc $((t1-t0))s $(echo "$out" | grep -E '^(VIOLATION|KNOWN)' | head -2 | cut -c1-200)"
  done
done
cp /tmp/ev-save/*.json evidence/ && rm -rf /tmp/ev-save
