#!/usr/bin/env python3
"""Prints the markdown table of seeded changes (from seeded/*/meta.json) for DESIGN.md."""
import json, os, glob
ROOT = os.path.dirname(os.path.dirname(os.path.abspath(__file__)))
rows = []
for mp in sorted(glob.glob(os.path.join(ROOT, "seeded", "*", "meta.json"))):
    m = json.load(open(mp))
    sid = m["seeded_id"]
    what = m.get("summary", "")
    res = m.get("check_results", {})
    caught = []
    for p, r in res.items():
        if r["exit"] != 0:
            kind = "failing input" if not any("no-failing-input-found" in l for l in r["lines"]) else "correspondence only"
            fam = (r.get("first_failing_input") or r.get("first_disagreement") or {}).get("family", "")
            caught.append(f"{p} ({fam}: {kind})")
    missed = [p for p, r in res.items() if r["exit"] == 0]
    rows.append((sid, what, "; ".join(caught) or "-", ", ".join(missed) or "-", m.get("strengthened", "")))
print("| seeded change | what it does / what it needs | caught by | checks that stay green | note |")
print("|---|---|---|---|---|")
for r in rows:
    print("| " + " | ".join(x.replace("|", "/") for x in r) + " |")
