#!/usr/bin/env python3
"""tools/refactor_prompt.py <Cxx> <worktree> [n] — the brief handed to a fresh sub-agent that writes HARMLESS changes
(behaviour-preserving refactors) of the code a property is anchored in.  The checks must stay green on them."""
import json, sys

pid, wt = sys.argv[1], sys.argv[2]
n = int(sys.argv[3]) if len(sys.argv) > 3 else 2
for l in open("/verif/properties.jsonl"):
    p = json.loads(l)
    if p["id"] == pid:
        break
else:
    sys.exit("unknown property")
a = p.get("anchors", {})
mech = "\n".join(f"  - {m['name']}  ({m['where']})" for m in a.get("mechanism", []))
print(f"""You are helping to test a verification effort for the Rust workspace `unhindered-ec` (an evolutionary-computation
framework: crates ec-core, ec-linear, push, push-macros, ec-macros). You work ONLY inside your own scratch git
worktree `{wt}` (already created; it is a checkout of the repository). Do not read or touch /repo, /verif or any
other directory outside `{wt}`. The sandbox has no network: always use `cargo ... --offline` (set
CARGO_NET_OFFLINE=true). `cargo test --workspace --offline` is the existing test suite and passes on the unchanged
tree (the first build takes a few minutes; other jobs share this machine: pass `-j 3` to every cargo build/test command). A file `packages/push/src/push_vm/verif_mini_state.rs` behind
`cfg(uec_verif)` is inert instrumentation: ignore it and do not modify it.

Here is a semantic property that the library satisfies and must keep satisfying:

  PROPERTY {pid} — {p['title']}
  {p['statement']}
  Quantified: {p['quantifier']['text']}
  Files it is anchored in: {', '.join(a.get('files', []))}
  Mechanisms it rests on:
{mech}

YOUR TASK: produce {n} different, independent, realistic HARMLESS changes (refactors) of the library source in the
files above (under `packages/*/src`) — the kind of clean-up, restructuring or micro-optimisation a maintainer commits
without changing what the code does. Each change must
  (a) compile, and the whole existing test suite must still pass unedited (`cargo test --workspace --offline`),
  (b) be STRICTLY behaviour-preserving for every input: the same results, the same errors (same variants and payloads,
      same Display text), the same panics (none), the same public API (names, signatures, trait impls, public fields,
      Debug output of PUBLIC types), and — important — exactly the same consumption of the random-number generator
      (the same `rand` calls with the same arguments in the same order), also on boundary inputs (empty collections,
      zero sizes, extreme numbers) and in debug as well as release builds,
  (c) be a real rewrite, not a no-op: e.g. an iterator chain turned into a loop or vice versa, a helper function or
      closure extracted or inlined, a `match` restructured, early returns introduced, private items / private fields /
      local variables renamed or reordered, a private struct's derive replaced by an equivalent manual impl, an
      allocation avoided or a capacity reserved, arithmetic regrouped without changing overflow behaviour, checks
      reordered where the order is unobservable, comments and attributes changed.
      Touch the code the property actually rests on (the mechanisms listed), not unrelated code; 20-80 changed lines
      per refactor is a good size. Prefer different files / mechanisms for the different refactors.
For each refactor k = 1..{n} write, inside your worktree, the directory `{wt}/REFACTORS/k/` with exactly:
  - `patch.diff`  : output of `git diff -- packages` for the change, applying cleanly with `git apply` to the unchanged tree;
  - `README.md`   : what was changed and a short argument why behaviour (including random-stream consumption) is
                    exactly preserved for all inputs.
Before you finish, verify for each refactor: apply the patch, run the full suite (must pass), then revert the patch
(`git apply -R`). Leave the worktree's tracked files unmodified (`git checkout -- .`), keeping only the REFACTORS
directory (and `target`). Do not commit anything. In your final message list, per refactor: files touched, a
one-sentence description, and the result of the suite run.""")
