#!/usr/bin/env python3
"""
tools/try_mutant.py <mutant-dir> <seeded-id> <prop> [<prop> ...] [--wt /tmp/mut-Cxx] [--demo-path rel/path.rs --demo-cmd "cargo test ..."]

1. confirms the mutant in its scratch worktree (--wt): patch applies, the existing suite passes with it,
   the demonstration fails with it and passes without it;
2. applies the patch to /repo, runs ./check for every listed property, reverts /repo;
3. stores patch, demonstration and meta.json under /verif/seeded/<seeded-id>/.
"""
import json, os, shutil, subprocess, sys, time

ROOT = os.path.dirname(os.path.dirname(os.path.abspath(__file__)))

def sh(cmd, cwd=None, timeout=3000):
    p = subprocess.run(cmd, cwd=cwd, shell=True, stdout=subprocess.PIPE, stderr=subprocess.STDOUT, text=True, timeout=timeout)
    return p.returncode, p.stdout

def main():
    a = sys.argv[1:]
    mdir, sid = a[0], a[1]
    props, wt, demo_path, demo_cmd, skip_confirm, confirm_only = [], None, None, None, False, False
    i = 2
    while i < len(a):
        if a[i] == "--wt": wt = a[i+1]; i += 2
        elif a[i] == "--demo-path": demo_path = a[i+1]; i += 2
        elif a[i] == "--demo-cmd": demo_cmd = a[i+1]; i += 2
        elif a[i] == "--skip-confirm": skip_confirm = True; i += 1
        elif a[i] == "--confirm-only": confirm_only = True; i += 1   # step 1 only: /repo is not touched (can run in parallel)
        else: props.append(a[i]); i += 1
    patch = os.path.join(mdir, "patch.diff")
    meta = {"seeded_id": sid, "properties_checked": props, "when": time.strftime("%Y-%m-%d %H:%M:%S")}
    # 1. confirmation in the scratch worktree
    if wt and not skip_confirm:
        sh("git checkout -- . && git clean -fdq packages", wt)
        rc, out = sh(f"git apply --check {patch} && git apply {patch}", wt)
        meta["patch_applies"] = rc == 0
        rc, out = sh("cargo test --workspace --offline 2>&1 | grep -E '^test result|FAILED|panicked' | head -40", wt)
        meta["suite_with_patch"] = out.strip().splitlines()
        meta["suite_passes_with_patch"] = ("FAILED" not in out) and ("test result: ok" in out) and ("failed; " not in out.replace("0 failed;", ""))
        if demo_path and demo_cmd:
            os.makedirs(os.path.dirname(os.path.join(wt, demo_path)), exist_ok=True)
            shutil.copy(os.path.join(mdir, "demo.rs"), os.path.join(wt, demo_path))
            rc1, out1 = sh(demo_cmd + " 2>&1 | tail -15", wt)
            meta["demo_fails_with_patch"] = ("FAILED" in out1) or ("panicked" in out1) or ("error" in out1.lower() and "test result: ok" not in out1)
            sh(f"git apply -R {patch}", wt)
            rc2, out2 = sh(demo_cmd + " 2>&1 | tail -15", wt)
            meta["demo_passes_without_patch"] = ("test result: ok" in out2 or rc2 == 0) and "FAILED" not in out2
            meta["demo_output_with_patch"] = out1[-1200:]
            meta["demo_output_without_patch"] = out2[-600:]
            os.remove(os.path.join(wt, demo_path))
        sh("git checkout -- . && git clean -fdq packages", wt)
    # 2. our checks against the mutated /repo
    results = {}
    if not confirm_only:
        rc, out = sh("git status --porcelain", "/repo")
        assert out.strip() == "", "/repo is not clean: " + out
        rc, out = sh(f"git apply {os.path.abspath(patch)}", "/repo")
        assert rc == 0, "patch does not apply to /repo: " + out
    try:
        for p in ([] if confirm_only else props):
            # the check rewrites evidence/<p>.json: keep the unchanged tree's evidence, not the mutant's
            ev = os.path.join(ROOT, "evidence", f"{p}.json")
            saved = open(ev).read() if os.path.exists(ev) else None
            rc, out = sh(f"./check {p} --tier quick", ROOT)
            if saved is not None: open(ev, "w").write(saved)
            lines = [l for l in out.splitlines() if l.startswith(("VIOLATION", "OK ", "KNOWN", "#"))]
            results[p] = {"exit": rc, "lines": lines}
            rp = os.path.join(ROOT, "replays", f"{p}-quick-1.json")
            if rc != 0 and os.path.exists(rp):
                rj = json.load(open(rp))
                fi = rj.get("failing_inputs", [])
                results[p]["first_failing_input"] = fi[0] if fi else None
                results[p]["first_disagreement"] = (rj.get("correspondence_disagreements") or [None])[0]
                results[p]["broken"] = [b["what"] for b in rj.get("broken_obligations", [])]
    finally:
        if not confirm_only: sh("git checkout -- .", "/repo")
    meta["check_results"] = results
    meta["caught_by"] = [p for p, r in results.items() if r["exit"] != 0]
    # 3. store
    dst = os.path.join(ROOT, "seeded", sid)
    os.makedirs(dst, exist_ok=True)
    if os.path.abspath(mdir) != os.path.abspath(dst):
        shutil.copy(patch, os.path.join(dst, "patch.diff"))
        for f in ("demo.rs", "README.md"):
            if os.path.exists(os.path.join(mdir, f)): shutil.copy(os.path.join(mdir, f), os.path.join(dst, f))
    old = {}
    mp = os.path.join(dst, "meta.json")
    if os.path.exists(mp): old = json.load(open(mp))
    # a partial re-run (fewer properties) keeps the earlier verdicts of the others
    meta["check_results"] = {**old.get("check_results", {}), **results}
    meta["properties_checked"] = sorted(set(old.get("properties_checked", [])) | set(props))
    meta["caught_by"] = [p for p, r in meta["check_results"].items() if r["exit"] != 0]
    old.update(meta)
    json.dump(old, open(mp, "w"), indent=1)
    print(json.dumps({k: meta.get(k) for k in ("seeded_id", "patch_applies", "suite_passes_with_patch", "demo_fails_with_patch", "demo_passes_without_patch", "caught_by")}, indent=1))
    for p, r in results.items():
        print(p, r["exit"], r["lines"][-1:] , json.dumps(r.get("first_failing_input"))[:400] if r.get("first_failing_input") else (json.dumps(r.get("first_disagreement"))[:300] if r.get("first_disagreement") else ""))

if __name__ == "__main__":
    main()
