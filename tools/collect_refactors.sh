#!/bin/bash
# tools/collect_refactors.sh Cxx  — copy REFACTORS/k of /tmp/rf-Cxx to /verif/harmless/Cxx-rk and remove the worktree
p=$1
for k in 1 2 3; do
  [ -f /tmp/rf-$p/REFACTORS/$k/patch.diff ] || continue
  mkdir -p /verif/harmless/$p-r$k
  cp /tmp/rf-$p/REFACTORS/$k/patch.diff /tmp/rf-$p/REFACTORS/$k/README.md /verif/harmless/$p-r$k/
done
git -C /repo worktree remove --force /tmp/rf-$p
ls /verif/harmless
