#!/bin/sh
# tools/try_wave.sh <worktree-prefix> <tag> <prop> "<extra props>"   e.g.  tools/try_wave.sh /tmp/mut2- w4 C01 "C02 C03"
PFX=$1; TAG=$2; P=$3; EXTRA=$4
for k in 1 2 3 4; do
  d=$PFX$P/MUTANTS/$k
  [ -f $d/patch.diff ] || continue
  demo=$(grep -oE "packages/[a-z-]+/(tests|examples)/[A-Za-z0-9_]+\.rs" $d/README.md | head -1)
  t=$(basename "$demo" .rs); crate=$(echo $demo | cut -d/ -f2)
  python3 /verif/tools/try_mutant.py $d $P-$TAG-m$k-$t $P $EXTRA --wt $PFX$P --demo-path $demo --demo-cmd "cargo test -p $crate --offline --test $t" 2>&1 | grep -E "seeded_id|suite_passes|demo_fails|demo_passes|^C[0-9]+ " | cut -c1-460
done
