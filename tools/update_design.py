#!/usr/bin/env python3
"""Regenerates the generated parts of DESIGN.md (§16 as built, §18 seeded table)."""
import os, re, subprocess
ROOT = os.path.dirname(os.path.dirname(os.path.abspath(__file__)))
p = os.path.join(ROOT, "DESIGN.md")
s = open(p).read()
ab = subprocess.run(["python3", os.path.join(ROOT, "tools", "asbuilt.py")], capture_output=True, text=True).stdout
sd = subprocess.run(["python3", os.path.join(ROOT, "tools", "seeded_table.py")], capture_output=True, text=True).stdout
s = re.sub(r"<!-- AS-BUILT:BEGIN -->.*?<!-- AS-BUILT:END -->", lambda m: "<!-- AS-BUILT:BEGIN -->\n" + ab + "<!-- AS-BUILT:END -->", s, flags=re.S)
s = re.sub(r"<!-- SEEDED:BEGIN -->.*?<!-- SEEDED:END -->", lambda m: "<!-- SEEDED:BEGIN -->\n" + sd + "<!-- SEEDED:END -->", s, flags=re.S)
open(p, "w").write(s)
print("DESIGN.md updated:", len(s), "bytes")
