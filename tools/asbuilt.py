#!/usr/bin/env python3
"""Prints the 'as built' per-property section for DESIGN.md from props/*.py and evidence/*.json."""
import json, os, sys
ROOT = os.path.dirname(os.path.dirname(os.path.abspath(__file__)))
sys.path.insert(0, ROOT)
from props_table import PROPS, META
titles = {json.loads(l)["id"]: json.loads(l)["title"] for l in open(os.path.join(ROOT, "properties.jsonl"))}
for pid in sorted(PROPS):
    P, M = PROPS[pid], META[pid]
    ev = {}
    ep = os.path.join(ROOT, "evidence", pid + ".json")
    if os.path.exists(ep): ev = json.load(open(ep))
    cov = ev.get("coverage", {})
    thms = [t.split("  [")[0].split(".")[-1] for t in cov.get("theorems", [])]
    print(f"### {pid} — {titles[pid]}\n")
    print(f"*Lean.* `{P['module']}` ({len(thms)} theorems: {', '.join('`'+t+'`' for t in sorted(thms))}); models: {', '.join('`'+m+'`' for m in P.get('model_modules', []))}.\n")
    print(f"*Tie.* families {', '.join('`'+f+'`' for f in P['families'])}; last {ev.get('tier','?')} run: {cov.get('evaluations','?')} cases, {cov.get('distinct_nontrivial','?')} distinct non-trivial, {ev.get('wall_s','?')} s.\n")
    print(f"*What is shown.* {P['explanation']}\n")
    if P.get("assumptions"): print("*Assumed / partial.* " + " ".join(a if a.endswith('.') else a + '.' for a in P["assumptions"]) + "\n")
