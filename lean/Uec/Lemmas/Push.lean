/-
  Shape lemmas: every Rust-shaped instruction combinator of the Impl model
  (`Uec.Model.PushImpl`) equals the all-or-nothing engine of the Spec (`Uec.Model.PushSpec`)
  applied to the corresponding signature, on every state whose stacks are within their limits.
  States are written `mkS …` (each stack as `ofTop max tops`); `PState.eq_mkS` shows every state
  has this form.
-/
import Uec.Model.PushSpec
import Uec.Lemmas.StackTop
set_option linter.unusedSimpArgs false
set_option linter.unusedVariables false
namespace Uec
open Stack

def mkS (me mi mf mb : Nat) (le : List Prog) (li : List Int64) (lf : List UInt64) (lb : List Bool)
    (inp : List (String × Lit)) (out : List OutTok) (ms : Nat) : PState :=
  { exec := ofTop me le, int := ofTop mi li, float := ofTop mf lf, bool := ofTop mb lb,
    inputs := inp, out := out, maxSteps := ms }

theorem PState.eq_mkS (s : PState) :
    s = mkS s.exec.max s.int.max s.float.max s.bool.max s.exec.tops s.int.tops s.float.tops s.bool.tops
      s.inputs s.out s.maxSteps := by
  cases s with
  | mk e i f b inp out ms =>
    simp only [mkS]
    rw [← eq_ofTop e, ← eq_ofTop i, ← eq_ofTop f, ← eq_ofTop b]

theorem Nat.not_lt2 (n : Nat) : ¬ (n + 1 + 1 < 2) := by omega
theorem Nat.not_lt3 (n : Nat) : ¬ (n + 1 + 1 + 1 < 3) := by omega

/-- unfold everything an instruction shape is made of -/
macro "push_simp" : tactic => `(tactic|
  simp [mkS, Impl.intUnary, Impl.intBinary, Impl.intPred1, Impl.intPred2, Impl.boolFullCheck,
    Impl.replaceOn, Impl.pushOnto, Impl.withReplace, Impl.withPush, Impl.withStackDiscard, Impl.withStackPush,
    Impl.liftS, Impl.popI, Impl.pushV, Impl.dupI, Impl.swapI, Impl.isEmptyI, Impl.stackDepthI, Impl.flushI,
    Impl.printI, Impl.floatBinary, Impl.floatPred2, Impl.boolUnary, Impl.boolBinary,
    Impl.renderInt, Impl.renderBool, Impl.renderFloat, Impl.ln,
    intL, floatL, boolL, execL,
    Spec.apply, Spec.tops, Spec.takeN, Spec.noRoom, Spec.withTops, Spec.liftE, Spec.bad,
    Spec.sInt1, Spec.sInt2, Spec.sInt3, Spec.sIntPred1, Spec.sIntPred2, Spec.sFloat2, Spec.sFloatPred2,
    Spec.sBool1, Spec.sBool2, Spec.sPush, Spec.sPopInt, Spec.sPopFloat, Spec.sPopBool, Spec.sPopExec,
    Spec.sDupInt, Spec.sDupFloat, Spec.sDupBool, Spec.sDupExec, Spec.sSwapInt, Spec.sSwapFloat, Spec.sSwapBool,
    Spec.sSwapExec, Spec.sIsEmpty, Spec.sDepth, Spec.sPrintInt, Spec.sPrintFloat, Spec.sPrintBool, Spec.sOut,
    Spec.flush, bind, Except.bind, Except.map, Nat.not_lt2, Nat.not_lt3])

/-- decide the remaining arithmetic `if`s from the size hypotheses -/
macro "push_arith" : tactic => `(tactic| (
  simp only [List.length_cons, List.length_nil] at *
  try simp (disch := omega) [if_pos, if_neg]))

section
variable (me mi mf mb : Nat) (le : List Prog) (li : List Int64) (lf : List UInt64) (lb : List Bool)
    (inp : List (String × Lit)) (out : List OutTok) (ms : Nat)

local notation "S" => mkS me mi mf mb le li lf lb inp out ms

/-! #### integer shapes -/

theorem intUnary_spec (f : Int64 → Except Err Int64) (hi : li.length ≤ mi) :
    Impl.intUnary f S = Spec.apply (Spec.sInt1 f) S := by
  match li, hi with
  | [], _ => push_simp
  | x :: r, hi =>
    push_simp
    cases f x with
    | error e => simp
    | ok v => simp; push_arith

theorem intBinary_spec (f : Int64 → Int64 → Except Err Int64) (hi : li.length ≤ mi) :
    Impl.intBinary f S = Spec.apply (Spec.sInt2 f) S := by
  match li, hi with
  | [], _ => push_simp
  | [x], _ => push_simp
  | x :: y :: r, hi =>
    push_simp
    cases f x y with
    | error e => simp
    | ok v => simp; push_arith

theorem clamp_spec (hi : li.length ≤ mi) :
    Impl.replaceOn intL 3 ((Impl.liftS (S).int.top3).map fun (v, lo, hi) => Impl.clampF v lo hi) S
      = Spec.apply (Spec.sInt3 Impl.clampF) S := by
  match li, hi with
  | [], _ => push_simp
  | [x], _ => push_simp
  | [x, y], _ => push_simp
  | x :: y :: z :: r, hi => push_simp; push_arith

theorem intPred1_spec (f : Int64 → Bool) (hi : li.length ≤ mi) (hb : lb.length ≤ mb) :
    Impl.intPred1 f S = Spec.apply (Spec.sIntPred1 f) S := by
  by_cases hfull : lb.length = mb
  · push_simp; simp [hfull]
  · match li, hi with
    | [], _ => push_simp; push_arith
    | x :: r, hi => push_simp; push_arith

theorem intPred2_spec (f : Int64 → Int64 → Bool) (hi : li.length ≤ mi) (hb : lb.length ≤ mb) :
    Impl.intPred2 f S = Spec.apply (Spec.sIntPred2 f) S := by
  by_cases hfull : lb.length = mb
  · push_simp; simp [hfull]
  · match li, hi with
    | [], _ => push_simp; push_arith
    | [x], _ => push_simp; push_arith
    | x :: y :: r, hi => push_simp; push_arith

theorem fromBoolean_spec (hi : li.length ≤ mi) (hb : lb.length ≤ mb) :
    Impl.withStackDiscard boolL 1
        (Impl.pushOnto intL ((Impl.liftS (S).bool.top).map fun b => if b then (1 : Int64) else 0) S)
      = Spec.apply { nBool := 1, eff := fun _ o => match o.bool with
          | [b] => .res { int := [if b then 1 else 0] } [] | _ => Spec.bad } S := by
  match lb, hb with
  | [], _ => push_simp
  | b :: r, hb =>
    by_cases hfull : mi ≤ li.length
    · push_simp; simp [hfull]; omega
    · push_simp; push_arith

theorem fromFloatApprox_spec (hi : li.length ≤ mi) (hf : lf.length ≤ mf) :
    Impl.withStackDiscard floatL 1 (Impl.pushOnto intL ((Impl.liftS (S).float.top).map F64.toI64) S)
      = Spec.apply { nFloat := 1, eff := fun _ o => match o.float with
          | [f] => .res { int := [F64.toI64 f] } [] | _ => Spec.bad } S := by
  match lf, hf with
  | [], _ => push_simp
  | b :: r, hf =>
    by_cases hfull : mi ≤ li.length
    · push_simp; simp [hfull]; omega
    · push_simp; push_arith

theorem fromIntApprox_spec (hi : li.length ≤ mi) (hf : lf.length ≤ mf) :
    Impl.withStackDiscard intL 1 (Impl.pushOnto floatL ((Impl.liftS (S).int.top).map F64.ofI64) S)
      = Spec.apply { nInt := 1, eff := fun _ o => match o.int with
          | [i] => .res { float := [F64.ofI64 i] } [] | _ => Spec.bad } S := by
  match li, hi with
  | [], _ => push_simp
  | b :: r, hi =>
    by_cases hfull : mf ≤ lf.length
    · push_simp; simp [hfull]; omega
    · push_simp; push_arith

/-! #### float and bool shapes -/

theorem floatBinary_spec (f : UInt64 → UInt64 → UInt64) (hf : lf.length ≤ mf) :
    Impl.floatBinary f S = Spec.apply (Spec.sFloat2 f) S := by
  match lf, hf with
  | [], _ => push_simp
  | [x], _ => push_simp
  | x :: y :: r, hf => push_simp; push_arith

theorem floatPred2_spec (f : UInt64 → UInt64 → Bool) (hf : lf.length ≤ mf) (hb : lb.length ≤ mb) :
    Impl.floatPred2 f S = Spec.apply (Spec.sFloatPred2 f) S := by
  by_cases hfull : lb.length = mb
  · push_simp; simp [hfull]
  · match lf, hf with
    | [], _ => push_simp; push_arith
    | [x], _ => push_simp; push_arith
    | x :: y :: r, hf => push_simp; push_arith

theorem boolUnary_spec (f : Bool → Bool) (hb : lb.length ≤ mb) :
    Impl.boolUnary f S = Spec.apply (Spec.sBool1 f) S := by
  match lb, hb with
  | [], _ => push_simp
  | x :: r, hb => push_simp; push_arith

theorem boolBinary_spec (f : Bool → Bool → Bool) (hb : lb.length ≤ mb) :
    Impl.boolBinary f S = Spec.apply (Spec.sBool2 f) S := by
  match lb, hb with
  | [], _ => push_simp
  | [x], _ => push_simp
  | x :: y :: r, hb => push_simp; push_arith

theorem fromInt_spec (hi : li.length ≤ mi) (hb : lb.length ≤ mb) :
    (Impl.boolFullCheck S fun s =>
      match s.int.pop with
      | .ok (i, st) => Impl.withPush boolL { s with int := st } (i != 0)
      | .error e => .recoverable s (.stack e))
      = Spec.apply { nInt := 1, boolRoomFirst := true, eff := fun _ o => match o.int with
          | [i] => .res { bool := [i != 0] } [] | _ => Spec.bad } S := by
  by_cases hfull : lb.length = mb
  · push_simp; simp [hfull]
  · match li, hi with
    | [], _ => push_simp; push_arith
    | x :: r, hi => push_simp; push_arith

/-! #### the instructions every stack type has -/

theorem popInt_spec : Impl.popI intL S = Spec.apply Spec.sPopInt S := by
  cases li <;> push_simp
theorem popFloat_spec : Impl.popI floatL S = Spec.apply Spec.sPopFloat S := by
  cases lf <;> push_simp
theorem popBool_spec : Impl.popI boolL S = Spec.apply Spec.sPopBool S := by
  cases lb <;> push_simp
theorem popExec_spec : Impl.popI execL S = Spec.apply Spec.sPopExec S := by
  cases le <;> push_simp

theorem pushInt_spec (v : Int64) : Impl.pushV intL v S = Spec.apply (Spec.sPush { int := [v] }) S := by
  push_simp; by_cases h : mi ≤ li.length <;> simp [h] <;> omega
theorem pushFloat_spec (v : UInt64) : Impl.pushV floatL v S = Spec.apply (Spec.sPush { float := [v] }) S := by
  push_simp; by_cases h : mf ≤ lf.length <;> simp [h] <;> omega
theorem pushBool_spec (v : Bool) : Impl.pushV boolL v S = Spec.apply (Spec.sPush { bool := [v] }) S := by
  push_simp; by_cases h : mb ≤ lb.length <;> simp [h] <;> omega
theorem pushExec_spec (v : Prog) : Impl.pushV execL v S = Spec.apply (Spec.sPush { exec := [v] }) S := by
  push_simp; by_cases h : me ≤ le.length <;> simp [h] <;> omega

theorem dupInt_spec : Impl.dupI intL S = Spec.apply Spec.sDupInt S := by
  match li with
  | [] => push_simp
  | x :: r => push_simp; by_cases h : mi ≤ r.length + 1 <;> simp [h] <;> omega
theorem dupFloat_spec : Impl.dupI floatL S = Spec.apply Spec.sDupFloat S := by
  match lf with
  | [] => push_simp
  | x :: r => push_simp; by_cases h : mf ≤ r.length + 1 <;> simp [h] <;> omega
theorem dupBool_spec : Impl.dupI boolL S = Spec.apply Spec.sDupBool S := by
  match lb with
  | [] => push_simp
  | x :: r => push_simp; by_cases h : mb ≤ r.length + 1 <;> simp [h] <;> omega
theorem dupExec_spec : Impl.dupI execL S = Spec.apply Spec.sDupExec S := by
  match le with
  | [] => push_simp
  | x :: r => push_simp; by_cases h : me ≤ r.length + 1 <;> simp [h] <;> omega

theorem swapInt_spec (hi : li.length ≤ mi) : Impl.swapI intL S = Spec.apply Spec.sSwapInt S := by
  match li, hi with
  | [], _ => push_simp
  | [x], _ => push_simp
  | x :: y :: r, hi => push_simp; push_arith
theorem swapFloat_spec (hf : lf.length ≤ mf) : Impl.swapI floatL S = Spec.apply Spec.sSwapFloat S := by
  match lf, hf with
  | [], _ => push_simp
  | [x], _ => push_simp
  | x :: y :: r, hf => push_simp; push_arith
theorem swapBool_spec (hb : lb.length ≤ mb) : Impl.swapI boolL S = Spec.apply Spec.sSwapBool S := by
  match lb, hb with
  | [], _ => push_simp
  | [x], _ => push_simp
  | x :: y :: r, hb => push_simp; push_arith
theorem swapExec_spec (he : le.length ≤ me) : Impl.swapI execL S = Spec.apply Spec.sSwapExec S := by
  match le, he with
  | [], _ => push_simp
  | [x], _ => push_simp
  | x :: y :: r, he => push_simp; push_arith

theorem isEmpty_spec {α : Type} (L : Lens α) (f : Spec.Tops → Bool)
    (hL : (L.get S).isEmpty = f (Spec.tops S)) :
    Impl.isEmptyI L S = Spec.apply (Spec.sIsEmpty f) S := by
  simp only [Impl.isEmptyI, hL]
  push_simp; by_cases h : mb ≤ lb.length <;> simp [h] <;> omega

theorem stackDepth_spec {α : Type} (L : Lens α) (f : Spec.Tops → Nat)
    (hL : (L.get S).size = f (Spec.tops S)) :
    Impl.stackDepthI L S = Spec.apply (Spec.sDepth f) S := by
  simp only [Impl.stackDepthI, hL]
  push_simp; by_cases h : mi ≤ li.length <;> simp [h] <;> omega

theorem flushInt_spec : Impl.flushI intL S = Spec.flush .int S := by push_simp; rfl
theorem flushFloat_spec : Impl.flushI floatL S = Spec.flush .float S := by push_simp; rfl
theorem flushBool_spec : Impl.flushI boolL S = Spec.flush .bool S := by push_simp; rfl
theorem flushExec_spec : Impl.flushI execL S = Spec.flush .exec S := by push_simp; rfl

theorem printInt_spec (nl : Bool) :
    Impl.printI intL (if nl then Impl.ln Impl.renderInt else Impl.renderInt) S
      = Spec.apply (Spec.sPrintInt nl) S := by
  cases li <;> cases nl <;> push_simp
theorem printFloat_spec (nl : Bool) :
    Impl.printI floatL (if nl then Impl.ln Impl.renderFloat else Impl.renderFloat) S
      = Spec.apply (Spec.sPrintFloat nl) S := by
  cases lf <;> cases nl <;> push_simp
theorem printBool_spec (nl : Bool) :
    Impl.printI boolL (if nl then Impl.ln Impl.renderBool else Impl.renderBool) S
      = Spec.apply (Spec.sPrintBool nl) S := by
  cases lb <;> cases nl <;> push_simp

theorem out_spec (str : String) :
    (Outcome.ok { S with out := (S).out ++ [.str str] } : Outcome PState) = Spec.apply (Spec.sOut str) S := by
  push_simp

/-! #### conditionals: the code's three-way matches against the documented action tables -/

macro "cond_simp" : tactic => `(tactic|
  simp [mkS, Impl.whenI, Impl.unlessI, Impl.ifElseI, Impl.withStackDiscard, Impl.withStackPush, boolL, execL,
    Spec.cond1, Spec.ifElse, Spec.whenTable, Spec.unlessTable, Spec.ifElseTable, Spec.tops, Spec.withTops,
    Spec.dropIf])

theorem when_spec : Impl.whenI S = Spec.cond1 Spec.whenTable S := by
  match lb, le with
  | [], [] => cond_simp
  | [], p :: re => cond_simp
  | true :: rb, [] => cond_simp
  | false :: rb, [] => cond_simp
  | true :: rb, p :: re => cond_simp
  | false :: rb, p :: re => cond_simp

theorem unless_spec : Impl.unlessI S = Spec.cond1 Spec.unlessTable S := by
  match lb, le with
  | [], [] => cond_simp
  | [], p :: re => cond_simp
  | true :: rb, [] => cond_simp
  | false :: rb, [] => cond_simp
  | true :: rb, p :: re => cond_simp
  | false :: rb, p :: re => cond_simp

theorem ifElse_spec (he : le.length ≤ me) : Impl.ifElseI S = Spec.ifElse S := by
  match lb, le, he with
  | [], [], _ => cond_simp
  | [], [p], _ => cond_simp
  | [], p :: q :: re, _ => cond_simp
  | true :: rb, [], _ => cond_simp
  | false :: rb, [], _ => cond_simp
  | true :: rb, [p], _ => cond_simp
  | false :: rb, [p], _ => cond_simp
  | true :: rb, p :: q :: re, he => cond_simp; push_arith
  | false :: rb, p :: q :: re, _ => cond_simp

theorem block_spec (ps : List Prog) :
    (match (S).exec.pushMany ps with
      | .ok st => Outcome.ok { S with exec := st }
      | .error e => .fatal S (.stack e)) =
    (let t := Spec.tops S
     if ps.length + t.exec.length > (S).exec.max then Outcome.fatal S (.stack .overflow)
     else .ok (Spec.withTops S { t with exec := ps ++ t.exec })) := by
  simp [mkS, Spec.tops, Spec.withTops]
  by_cases h : me < ps.length + le.length <;> simp [h]

end
end Uec
