/-
  Distribution reading of `Rand` trees for the ec-linear family (C12): the laws of the primitives
  (`random::<f32>()` uniform on the 2²⁴ grid points, `random::<bool>()` fair, `random_bool(p)` with
  probability `p`, caller-supplied distributions with an arbitrary finite law) are pushed through a
  request tree as an exact rational expectation `ev`.
-/
import Mathlib.Algebra.BigOperators.Ring.Finset
import Mathlib.Algebra.BigOperators.Field
import Mathlib.Algebra.Order.Field.Rat
import Mathlib.Tactic.Ring
import Mathlib.Tactic.FieldSimp
import Mathlib.Tactic.Linarith
import Mathlib.Tactic.NormNum
import Uec.Lemmas.Mutate
import Uec.Lemmas.Crossover
namespace Uec.Lin
open Finset Uec
variable {α β : Type}

/-- the rational value of a non-negative `f64` bit pattern (sign bit ignored: `-0.0 ↦ 0`) -/
def f64ToRat (p : UInt64) : ℚ :=
  let b : ℕ := p.toNat % 2 ^ 63
  let e : ℕ := b / 2 ^ 52
  let m : ℕ := b % 2 ^ 52
  if e = 0 then (m : ℚ) / 2 ^ 1074 else ((2 ^ 52 + m : ℕ) : ℚ) * 2 ^ e / 2 ^ 1075

/-- the law of a caller-supplied distribution `tag`: finitely many outcome codes with weights -/
structure UserLaw where
  n : Nat → Nat
  code : Nat → Nat → Nat
  w : Nat → Nat → ℚ
  norm : ∀ t, ∑ i ∈ range (n t), w t i = 1

/-- number of outcomes of a primitive -/
def primN (U : UserLaw) : Prim → Nat
  | .f32 => 2 ^ 24
  | .bool => 2
  | .boolP _ => 2
  | .user t => U.n t
  | _ => 1

/-- the `i`-th outcome -/
def primAns (U : UserLaw) : Prim → Nat → Ans
  | .f32, k => .bits (F32.gridBits k).toUInt64
  | .bool, i => .bool (i == 0)
  | .boolP _, i => .bool (i == 0)
  | .user t, i => .nat (U.code t i)
  | _, _ => .none

/-- its probability (trusted laws of rand 0.9.0; primitives ec-linear does not use get a dummy
    one-point law and no theorem mentions them) -/
def primW (U : UserLaw) : Prim → Nat → ℚ
  | .f32, _ => 1 / 2 ^ 24
  | .bool, _ => 1 / 2
  | .boolP p, i => if i = 0 then f64ToRat p else 1 - f64ToRat p
  | .user t, i => U.w t i
  | _, _ => 1

/-- expectation of `F` over the outcome of `m` -/
def ev (U : UserLaw) : Rand α → (α → ℚ) → ℚ
  | .pure a, F => F a
  | .ask p k, F => ∑ i ∈ range (primN U p), primW U p i * ev U (k (primAns U p i)) F

/-- probability of an event -/
def prob (U : UserLaw) (m : Rand α) (E : α → Prop) [DecidablePred E] : ℚ :=
  ev U m (fun a => if E a then 1 else 0)

variable (U : UserLaw)

@[simp] theorem ev_pure (a : α) (F : α → ℚ) : ev U (.pure a) F = F a := rfl
theorem ev_ask (p : Prim) (k : Ans → Rand α) (F : α → ℚ) :
    ev U (.ask p k) F = ∑ i ∈ range (primN U p), primW U p i * ev U (k (primAns U p i)) F := rfl

theorem primW_sum (p : Prim) : ∑ i ∈ range (primN U p), primW U p i = 1 := by
  cases p <;> simp [primN, primW, Finset.sum_range_succ, U.norm]
  · norm_num

theorem ev_bind (m : Rand α) (f : α → Rand β) (F : β → ℚ) :
    ev U (Rand.bind m f) F = ev U m (fun a => ev U (f a) F) := by
  induction m with
  | pure a => rfl
  | ask p k ih => simp only [bind_ask, ev_ask, ih]

theorem ev_const (m : Rand α) (c : ℚ) : ev U m (fun _ => c) = c := by
  induction m with
  | pure a => rfl
  | ask p k ih => simp only [ev_ask, ih, ← Finset.sum_mul, primW_sum, one_mul]

theorem ev_add (m : Rand α) (F G : α → ℚ) : ev U m (fun a => F a + G a) = ev U m F + ev U m G := by
  induction m with
  | pure a => rfl
  | ask p k ih => simp only [ev_ask, ih, mul_add, Finset.sum_add_distrib]

theorem ev_mul_left (m : Rand α) (c : ℚ) (F : α → ℚ) : ev U m (fun a => c * F a) = c * ev U m F := by
  induction m with
  | pure a => rfl
  | ask p k ih =>
    simp only [ev_ask, ih, Finset.mul_sum]
    apply Finset.sum_congr rfl; intro i _; ring

theorem ev_mul_right (m : Rand α) (c : ℚ) (F : α → ℚ) : ev U m (fun a => F a * c) = ev U m F * c := by
  have := ev_mul_left U m c F
  simpa [mul_comm] using this

theorem ev_congr (m : Rand α) (F G : α → ℚ) (h : ∀ a, F a = G a) : ev U m F = ev U m G := by
  have : F = G := funext h
  rw [this]

/-! ### the laws of single draws -/

theorem ev_reqBool (F : Bool → ℚ) : ev U reqBool F = (F true + F false) / 2 := by
  simp [reqBool, ev_ask, primN, primW, primAns, ansBool, Finset.sum_range_succ]
  ring

theorem ev_reqBoolP (p : UInt64) (F : Bool → ℚ) :
    ev U (reqBoolP p) F = f64ToRat p * F true + (1 - f64ToRat p) * F false := by
  simp [reqBoolP, ev_ask, primN, primW, primAns, ansBool, Finset.sum_range_succ]

theorem ev_reqUser (t : Nat) (F : Nat → ℚ) :
    ev U (reqUser t) F = ∑ i ∈ range (U.n t), U.w t i * F (U.code t i) := by
  simp [reqUser, ev_ask, primN, primW, primAns, ansNat]

theorem sum_range_ite_lt (c N : ℕ) (h : c ≤ N) (w : ℚ) :
    ∑ k ∈ range N, (if k < c then w else 0) = c * w := by
  rw [Finset.sum_ite, Finset.sum_const_zero, add_zero, Finset.sum_const]
  have : (Finset.filter (fun k => k < c) (range N)) = range c := by
    ext k; simp only [Finset.mem_filter, Finset.mem_range]; omega
  rw [this, card_range]; simp

/-- number of grid points `k·2⁻²⁴` (`0 ≤ k < 2²⁴`) strictly below the `f32` with bits `rate`:
    `⌈rate · 2²⁴⌉` clipped to `[0, 2²⁴]` -/
def cutoff (rate : Nat) : Nat := F32.cutoff rate

theorem cutoff_def (rate : Nat) : cutoff rate =
    match F32.decode rate with
    | .fin s => if s ≤ 0 then 0 else min ((s.toNat + 2 ^ 125 - 1) / 2 ^ 125) (2 ^ 24)
    | .inf false => 2 ^ 24
    | _ => 0 := rfl

theorem cutoff_le (rate : Nat) : cutoff rate ≤ 2 ^ 24 := by
  rw [cutoff_def]
  split
  · split
    · omega
    · exact Nat.min_le_right _ _
  · exact Nat.le_refl _
  · omega

theorem flipsAt_eq (rate k : Nat) (hk : k < 2 ^ 24) : flipsAt rate k = decide (k < cutoff rate) := by
  unfold flipsAt
  rw [cutoff_def]
  cases hd : F32.decode rate with
  | nan => simp [F32.Val.lt]
  | inf neg =>
    cases neg
    · simp [F32.Val.lt]; omega
    · simp [F32.Val.lt]
  | fin s =>
    simp only [F32.Val.lt, F32.gridScaled]
    by_cases hs : s ≤ 0
    · simp only [hs, if_true, Nat.not_lt_zero, decide_false]
      have : (0 : ℤ) ≤ (k : ℤ) * 2 ^ 125 := by positivity
      exact decide_eq_false (not_lt.mpr (le_trans hs this))
    · simp only [hs, if_false]
      have hs' : (s.toNat : ℤ) = s := Int.toNat_of_nonneg (by omega)
      generalize s.toNat = S at hs'
      subst hs'
      congr 1
      apply propext
      constructor
      · intro h
        have h' : k * 2 ^ 125 < S := by exact_mod_cast h
        apply lt_min _ hk
        omega
      · intro h
        have h1 := lt_of_lt_of_le h (Nat.min_le_left _ _)
        have h' : k * 2 ^ 125 < S := by omega
        exact_mod_cast h'

theorem ansBits_grid (k : Nat) (hk : k < 2 ^ 24) : ansBits (.bits (F32.gridBits k).toUInt64) = F32.gridBits k := by
  have := F32.gridBits_lt k hk
  simp only [ansBits, Nat.toUInt64, UInt64.toNat_ofNat']
  exact Nat.mod_eq_of_lt (by omega)

/-- **law of one comparison `random::<f32>() < rate`**: true with probability `cutoff rate / 2²⁴` -/
theorem ev_reqF32_lt (rate : Nat) (G : Bool → ℚ) :
    ev U reqF32 (fun w => G (F32.lt w rate)) =
      (cutoff rate : ℚ) / 2 ^ 24 * G true + (1 - (cutoff rate : ℚ) / 2 ^ 24) * G false := by
  simp only [reqF32, ev_ask, primN, primW, ev_pure, primAns]
  have h : ∀ k ∈ range (2 ^ 24), (1 / 2 ^ 24 : ℚ) * G (F32.lt (ansBits (.bits (F32.gridBits k).toUInt64)) rate)
      = if k < cutoff rate then (1 / 2 ^ 24 : ℚ) * G true else (1 / 2 ^ 24 : ℚ) * G false := by
    intro k hk
    have hk' : k < 2 ^ 24 := Finset.mem_range.mp hk
    rw [ansBits_grid k hk', lt_of_unit (F32.decode_gridBits k hk'), flipsAt_eq rate k hk']
    by_cases hc : k < cutoff rate <;> simp [hc]
  rw [Finset.sum_congr rfl h]
  have h2 : ∀ k ∈ range (2 ^ 24), (if k < cutoff rate then (1 / 2 ^ 24 : ℚ) * G true else (1 / 2 ^ 24 : ℚ) * G false)
      = (1 / 2 ^ 24 : ℚ) * G false + (if k < cutoff rate then (1 / 2 ^ 24 : ℚ) * (G true - G false) else 0) := by
    intro k _; split <;> ring
  rw [Finset.sum_congr rfl h2, Finset.sum_add_distrib, Finset.sum_const, Finset.card_range,
    sum_range_ite_lt _ _ (cutoff_le rate)]
  simp only [nsmul_eq_mul]
  push_cast
  ring

/-- exact probability that one `f32` draw lies below `rate` -/
def P (rate : Nat) : ℚ := (cutoff rate : ℚ) / 2 ^ 24

/-- number of positions at which two genomes differ -/
def diffCount [DecidableEq α] : List α → List α → ℕ
  | x :: xs, y :: ys => (if x = y then 0 else 1) + diffCount xs ys
  | _, _ => 0

end Uec.Lin
