/-
  Helper lemmas for C14: `Rand.exec` is a monad morphism into stream passing; the stream-passing
  form of every typed combinator.
-/
import Uec.Model.OperatorSpec
namespace Uec
namespace Rand
variable {α β : Type}

@[simp] theorem exec_pure (a : α) (t : Tape) : exec (.pure a) t = some (a, [], t) := rfl

theorem exec_bind (m : Rand α) (k : α → Rand β) (t : Tape) :
    exec (m.bind k) t =
      match exec m t with
      | none => none
      | some (a, ps, t') =>
        match exec (k a) t' with
        | none => none
        | some (b, qs, t'') => some (b, ps ++ qs, t'') := by
  induction m generalizing t with
  | pure a =>
    simp only [bind, exec]
    cases exec (k a) t with
    | none => rfl
    | some r => obtain ⟨b, qs, t''⟩ := r; simp
  | ask p k' ih =>
    cases t with
    | nil => simp [bind, exec]
    | cons a t =>
      simp only [bind, exec, ih]
      cases exec (k' a) t with
      | none => rfl
      | some r =>
        obtain ⟨a', ps, t'⟩ := r
        simp only
        cases exec (k a') t' with
        | none => rfl
        | some r' => obtain ⟨b, qs, t''⟩ := r'; simp

/-- `exec` is `run` and `requests` in one pass. -/
theorem exec_eq_some {m : Rand α} {t : Tape} {a : α} {ps : List Prim} {t' : Tape} :
    exec m t = some (a, ps, t') ↔ run m t = some (a, t') ∧ requests m t = ps := by
  induction m generalizing t ps a t' with
  | pure b => simp [exec, run, requests]; constructor <;> (intro h; obtain ⟨h1, h2, h3⟩ := h; simp_all)
  | ask p k ih =>
    cases t with
    | nil => simp [exec, run]
    | cons x t =>
      simp only [exec, run, requests]
      cases h : exec (k x) t with
      | none =>
        simp only [reduceCtorEq, false_iff, not_and]
        intro hr hq
        cases ps with
        | nil => simp at hq
        | cons q qs =>
          simp only [List.cons.injEq] at hq
          have := (ih (t := t) (ps := qs) x).mpr ⟨hr, hq.2⟩
          simp [h] at this
      | some r =>
        obtain ⟨b, qs, t''⟩ := r
        have := (ih (t := t) (ps := qs) (a := b) (t' := t'') x).mp h
        constructor
        · intro hh
          simp only [Option.some.injEq, Prod.mk.injEq] at hh
          obtain ⟨h1, h2, h3⟩ := hh
          subst h1 h2 h3
          exact ⟨this.1, by rw [this.2]⟩
        · intro ⟨hr, hq⟩
          rw [this.1] at hr
          simp only [Option.some.injEq, Prod.mk.injEq] at hr
          simp [hr.1, hr.2, ← hq, this.2]

theorem exec_none {m : Rand α} {t : Tape} : exec m t = none ↔ run m t = none := by
  induction m generalizing t with
  | pure b => simp [exec, run]
  | ask p k ih =>
    cases t with
    | nil => simp [exec, run]
    | cons x t =>
      simp only [exec, run]
      rw [← ih x]
      cases exec (k x) t with
      | none => simp
      | some r => obtain ⟨b, qs, t''⟩ := r; simp

/-- The stream is consumed strictly front to back: what is left is a suffix, and exactly one
    answer was read per request. -/
theorem exec_consumes {m : Rand α} {t : Tape} {a : α} {ps : List Prim} {t' : Tape}
    (h : exec m t = some (a, ps, t')) : ∃ used, t = used ++ t' ∧ used.length = ps.length := by
  induction m generalizing t ps with
  | pure b =>
    simp only [exec, Option.some.injEq, Prod.mk.injEq] at h
    exact ⟨[], by simp [h.2.2], by simp [← h.2.1]⟩
  | ask p k ih =>
    cases t with
    | nil => simp [exec] at h
    | cons x t =>
      simp only [exec] at h
      cases h' : exec (k x) t with
      | none => simp [h'] at h
      | some r =>
        obtain ⟨b, qs, t''⟩ := r
        simp only [h', Option.some.injEq, Prod.mk.injEq] at h
        obtain ⟨h1, h2, h3⟩ := h
        subst h1 h2 h3
        obtain ⟨used, hu, hl⟩ := ih x h'
        exact ⟨x :: used, by simp [hu], by simp [hl]⟩

end Rand
open Rand

/-- `map` / `map_err` on a `Result`. -/
def mapExcept {ε ε' β β' : Type} (he : ε → ε') (hv : β → β') : Except ε β → Except ε' β'
  | .error e => .error (he e)
  | .ok v => .ok (hv v)

theorem Rand.exec_mapRes {ε ε' β β' : Type} (he : ε → ε') (hv : β → β') (m : Rand (Except ε β)) (t : Tape) :
    Rand.exec (m.mapRes he hv) t =
      match Rand.exec m t with
      | none => none
      | some (r, ps, t') => some (mapExcept he hv r, ps, t') := by
  unfold Rand.mapRes
  rw [exec_bind]
  cases exec m t with
  | none => rfl
  | some r => obtain ⟨r, ps, t'⟩ := r; cases r <;> simp [mapExcept]

namespace Oper
variable {ε ε₁ ε₂ α β γ : Type}

theorem thenOp_exec (f : Oper ε₁ α β) (g : Oper ε₂ β γ) (x : α) (t : Tape) :
    Rand.exec (thenOp f g x) t =
      match Rand.exec (f x) t with
      | none => none
      | some (.error e, ps, t') => some (.error (.first e), ps, t')
      | some (.ok y, ps, t') =>
        match Rand.exec (g y) t' with
        | none => none
        | some (.error e, qs, t'') => some (.error (.second e), ps ++ qs, t'')
        | some (.ok z, qs, t'') => some (.ok z, ps ++ qs, t'') := by
  unfold thenOp
  rw [exec_bind]
  cases exec (f x) t with
  | none => rfl
  | some r =>
    obtain ⟨r, ps, t'⟩ := r
    cases r with
    | error e => simp
    | ok y =>
      simp only [exec_bind]
      cases exec (g y) t' with
      | none => rfl
      | some r =>
        obtain ⟨r, qs, t''⟩ := r
        cases r <;> simp

theorem andOp_exec (f : Oper ε₁ α β) (g : Oper ε₂ α γ) (x : α) (t : Tape) :
    Rand.exec (andOp f g x) t =
      match Rand.exec (f x) t with
      | none => none
      | some (.error e, ps, t') => some (.error (.first e), ps, t')
      | some (.ok y, ps, t') =>
        match Rand.exec (g x) t' with
        | none => none
        | some (.error e, qs, t'') => some (.error (.second e), ps ++ qs, t'')
        | some (.ok z, qs, t'') => some (.ok (y, z), ps ++ qs, t'') := by
  unfold andOp
  rw [exec_bind]
  cases exec (f x) t with
  | none => rfl
  | some r =>
    obtain ⟨r, ps, t'⟩ := r
    cases r with
    | error e => simp
    | ok y =>
      simp only [exec_bind]
      cases exec (g x) t' with
      | none => rfl
      | some r =>
        obtain ⟨r, qs, t''⟩ := r
        cases r <;> simp

theorem mapPair_exec (f : Oper ε α β) (x y : α) (t : Tape) :
    Rand.exec (mapPair f (x, y)) t =
      match Rand.exec (f x) t with
      | none => none
      | some (.error e, ps, t') => some (.error ⟨e, 0⟩, ps, t')
      | some (.ok a, ps, t') =>
        match Rand.exec (f y) t' with
        | none => none
        | some (.error e, qs, t'') => some (.error ⟨e, 1⟩, ps ++ qs, t'')
        | some (.ok b, qs, t'') => some (.ok (a, b), ps ++ qs, t'') := by
  unfold mapPair
  simp only
  rw [exec_bind]
  cases exec (f x) t with
  | none => rfl
  | some r =>
    obtain ⟨r, ps, t'⟩ := r
    cases r with
    | error e => simp
    | ok a =>
      simp only [exec_bind]
      cases exec (f y) t' with
      | none => rfl
      | some r =>
        obtain ⟨r, qs, t''⟩ := r
        cases r <;> simp

theorem mapVecFrom_exec_cons (f : Oper ε α β) (i : Nat) (x : α) (xs : List α) (t : Tape) :
    Rand.exec (mapVecFrom f i (x :: xs)) t =
      match Rand.exec (f x) t with
      | none => none
      | some (.error e, ps, t') => some (.error ⟨e, i⟩, ps, t')
      | some (.ok y, ps, t') =>
        match Rand.exec (mapVecFrom f (i + 1) xs) t' with
        | none => none
        | some (.error e, qs, t'') => some (.error e, ps ++ qs, t'')
        | some (.ok ys, qs, t'') => some (.ok (y :: ys), ps ++ qs, t'') := by
  simp only [mapVecFrom]
  rw [exec_bind]
  cases exec (f x) t with
  | none => rfl
  | some r =>
    obtain ⟨r, ps, t'⟩ := r
    cases r with
    | error e => simp
    | ok a =>
      simp only [exec_bind]
      cases exec (mapVecFrom f (i + 1) xs) t' with
      | none => rfl
      | some r =>
        obtain ⟨r, qs, t''⟩ := r
        cases r <;> simp

theorem repeatN_exec_succ (f : Oper ε α β) (n : Nat) (x : α) (t : Tape) :
    Rand.exec (repeatN f (n + 1) x) t =
      match Rand.exec (f x) t with
      | none => none
      | some (.error e, ps, t') => some (.error e, ps, t')
      | some (.ok y, ps, t') =>
        match Rand.exec (repeatN f n x) t' with
        | none => none
        | some (.error e, qs, t'') => some (.error e, ps ++ qs, t'')
        | some (.ok ys, qs, t'') => some (.ok (y :: ys), ps ++ qs, t'') := by
  simp only [repeatN]
  rw [exec_bind]
  cases exec (f x) t with
  | none => rfl
  | some r =>
    obtain ⟨r, ps, t'⟩ := r
    cases r with
    | error e => simp
    | ok a =>
      simp only [exec_bind]
      cases exec (repeatN f n x) t' with
      | none => rfl
      | some r =>
        obtain ⟨r, qs, t''⟩ := r
        cases r <;> simp

/-- Repetition is mapping over `N` copies of the input (without the index tag). -/
theorem repeatN_eq_mapVec (f : Oper ε α β) (n : Nat) (x : α) (t : Tape) (i : Nat) :
    Rand.exec (repeatN f n x) t =
      match Rand.exec (mapVecFrom f i (List.replicate n x)) t with
      | none => none
      | some (r, ps, t') => some (mapExcept (·.err) id r, ps, t') := by
  induction n generalizing t i with
  | zero => simp [repeatN, mapVecFrom, List.replicate, mapExcept]
  | succ n ih =>
    rw [repeatN_exec_succ, List.replicate_succ, mapVecFrom_exec_cons]
    cases exec (f x) t with
    | none => rfl
    | some r =>
      obtain ⟨r, ps, t'⟩ := r
      cases r with
      | error e => simp [mapExcept]
      | ok a =>
        simp only
        rw [ih t' (i + 1)]
        cases exec (mapVecFrom f (i + 1) (List.replicate n x)) t' with
        | none => rfl
        | some r =>
          obtain ⟨r, qs, t''⟩ := r
          cases r <;> simp [mapExcept]


theorem mapVecFrom_ok_iff (f : Oper ε α β) (i : Nat) (xs : List α) (t : Tape) (ys : List β)
    (ps : List Prim) (t' : Tape) :
    Rand.exec (mapVecFrom f i xs) t = some (.ok ys, ps, t') ↔ Chain f xs t ys ps t' := by
  induction xs generalizing i t ys ps with
  | nil =>
    simp only [mapVecFrom, Rand.exec_pure, Option.some.injEq, Prod.mk.injEq, Except.ok.injEq]
    constructor
    · rintro ⟨rfl, rfl, rfl⟩; exact Chain.nil _
    · intro h; cases h; exact ⟨rfl, rfl, rfl⟩
  | cons x xs ih =>
    rw [mapVecFrom_exec_cons]
    constructor
    · intro h
      cases hx : Rand.exec (f x) t with
      | none => simp [hx] at h
      | some r =>
        obtain ⟨r, p1, t1⟩ := r
        cases r with
        | error e => simp [hx] at h
        | ok y =>
          simp only [hx] at h
          cases hr : Rand.exec (mapVecFrom f (i + 1) xs) t1 with
          | none => simp [hr] at h
          | some r2 =>
            obtain ⟨r2, p2, t2⟩ := r2
            cases r2 with
            | error e => simp [hr] at h
            | ok ys2 =>
              simp only [hr, Option.some.injEq, Prod.mk.injEq, Except.ok.injEq] at h
              obtain ⟨rfl, rfl, rfl⟩ := h
              exact Chain.cons hx ((ih (i + 1) t1 ys2 p2).mp hr)
    · intro h
      cases h with
      | cons hx hc =>
        rw [hx]
        simp only
        rw [(ih (i + 1) _ _ _).mpr hc]

theorem mapVecFrom_err_iff (f : Oper ε α β) (i : Nat) (xs : List α) (t : Tape) (e : ε) (j : Nat)
    (ps : List Prim) (t' : Tape) :
    Rand.exec (mapVecFrom f i xs) t = some (.error ⟨e, j⟩, ps, t') ↔
      ∃ pre x post ys qs t1 rs, xs = pre ++ x :: post ∧ j = i + pre.length ∧
        Chain f pre t ys qs t1 ∧ Rand.exec (f x) t1 = some (.error e, rs, t') ∧ ps = qs ++ rs := by
  induction xs generalizing i t ps with
  | nil => simp [mapVecFrom]
  | cons x xs ih =>
    rw [mapVecFrom_exec_cons]
    constructor
    · intro h
      cases hx : Rand.exec (f x) t with
      | none => simp [hx] at h
      | some r =>
        obtain ⟨r, p1, t1⟩ := r
        cases r with
        | error e1 =>
          simp only [hx, Option.some.injEq, Prod.mk.injEq, Except.error.injEq, MapError.mk.injEq] at h
          obtain ⟨⟨rfl, rfl⟩, rfl, rfl⟩ := h
          exact ⟨[], x, xs, [], [], t, p1, rfl, by simp, Chain.nil _, hx, by simp⟩
        | ok y =>
          simp only [hx] at h
          cases hr : Rand.exec (mapVecFrom f (i + 1) xs) t1 with
          | none => simp [hr] at h
          | some r2 =>
            obtain ⟨r2, p2, t2⟩ := r2
            cases r2 with
            | ok ys2 => simp [hr] at h
            | error e2 =>
              simp only [hr, Option.some.injEq, Prod.mk.injEq, Except.error.injEq] at h
              obtain ⟨rfl, rfl, rfl⟩ := h
              obtain ⟨pre, x', post, ys, qs, t1', rs, h1, h2, h3, h4, h5⟩ := (ih (i + 1) t1 p2).mp hr
              exact ⟨x :: pre, x', post, y :: ys, p1 ++ qs, t1', rs, by simp [h1],
                by simp only [List.length_cons]; omega, Chain.cons hx h3, h4, by simp [h5]⟩
    · rintro ⟨pre, x', post, ys, qs, t1, rs, h1, h2, h3, h4, h5⟩
      cases pre with
      | nil =>
        simp only [List.nil_append, List.cons.injEq] at h1
        obtain ⟨rfl, rfl⟩ := h1
        cases h3
        simp only [List.length_nil, Nat.add_zero] at h2
        subst h2 h5
        rw [h4]
      | cons p pre =>
        simp only [List.cons_append, List.cons.injEq] at h1
        obtain ⟨rfl, rfl⟩ := h1
        cases h3 with
        | cons hx hc =>
          rw [hx]
          simp only
          have := (ih (i + 1) _ _).mpr ⟨pre, x', post, _, _, t1, rs, rfl,
            by simp only [List.length_cons] at h2; omega, hc, h4, rfl⟩
          rw [this]
          simp [h5]

/-- results of a successful chain: one per element -/
theorem Chain.length {f : Oper ε α β} {xs : List α} {t : Tape} {ys : List β} {ps : List Prim} {t' : Tape}
    (h : Chain f xs t ys ps t') : ys.length = xs.length := by
  induction h with
  | nil => rfl
  | cons _ _ ih => simp [ih]

end Oper

namespace Spec

def visAll : Except OpErr (List Val) × List Prim × Tape × List Call → Except OpErr (List Val) × List Prim × Tape
  | (r, qs, t, _) => (r, qs, t)

/-- the vector loop against `runAll` -/
theorem mapVecFrom_runAll (F : Oper OpErr Val Val) (S : Val → Tape → Option Out)
    (h : ∀ x t, Rand.exec (F x) t = (S x t).map Out.vis) (i : Nat) (l : List Val) (t : Tape) :
    (Rand.exec (Oper.mapVecFrom F i l) t).map (fun r => (mapExcept OpErr.ofMap id r.1, r.2)) =
      (runAll .map i (l.map S) t).map visAll := by
  induction l generalizing i t with
  | nil => simp [Oper.mapVecFrom, runAll, visAll, mapExcept]
  | cons x xs ih =>
    rw [Oper.mapVecFrom_exec_cons, List.map_cons, runAll, h x t]
    cases S x t with
    | none => rfl
    | some o =>
      obtain ⟨r, ps, t', cs⟩ := o
      cases r with
      | error e => simp [Out.vis, visAll, mapExcept, OpErr.ofMap]
      | ok y =>
        simp only [Option.map_some, Out.vis]
        have := ih (i + 1) t'
        cases h1 : Rand.exec (Oper.mapVecFrom F (i + 1) xs) t' with
        | none =>
          rw [h1] at this
          cases h2 : runAll OpErr.map (i + 1) (List.map S xs) t' with
          | none => simp
          | some r => rw [h2] at this; simp at this
        | some r1 =>
          rw [h1] at this
          cases h2 : runAll OpErr.map (i + 1) (List.map S xs) t' with
          | none => rw [h2] at this; simp at this
          | some r2 =>
            rw [h2] at this
            obtain ⟨r1, qs1, t1⟩ := r1
            obtain ⟨r2, qs2, t2, cs2⟩ := r2
            simp only [Option.map_some, visAll, Option.some.injEq, Prod.mk.injEq] at this
            obtain ⟨e1, e2, e3⟩ := this
            subst e2 e3
            cases r1 with
            | error e =>
              simp only [mapExcept] at e1
              subst e1
              simp [visAll, mapExcept]
            | ok ys =>
              simp only [mapExcept, id] at e1
              subst e1
              simp [visAll, mapExcept]


/-- the repetition loop against `runAll` -/
theorem repeatN_runAll (F : Oper OpErr Val Val) (S : Val → Tape → Option Out)
    (h : ∀ x t, Rand.exec (F x) t = (S x t).map Out.vis) (i n : Nat) (x : Val) (t : Tape) :
    Rand.exec (Oper.repeatN F n x) t =
      (runAll (fun e _ => e) i (List.replicate n (S x)) t).map visAll := by
  induction n generalizing i t with
  | zero => simp [Oper.repeatN, runAll, visAll]
  | succ n ih =>
    rw [Oper.repeatN_exec_succ, List.replicate_succ, runAll, h x t]
    cases S x t with
    | none => rfl
    | some o =>
      obtain ⟨r, ps, t', cs⟩ := o
      cases r with
      | error e => simp [Out.vis, visAll]
      | ok y =>
        simp only [Option.map_some, Out.vis]
        rw [ih (i + 1) t']
        cases runAll (fun e _ => e) (i + 1) (List.replicate n (S x)) t' with
        | none => rfl
        | some r2 =>
          obtain ⟨r2, qs2, t2, cs2⟩ := r2
          cases r2 <;> simp [visAll]


theorem Inv.nil (b : Bool) : Inv b [] [] := by
  refine ⟨rfl, ?_⟩
  intro pre c post h
  simp at h

theorem Inv.append {b : Bool} {r1 r2 : List Prim} {c1 c2 : List Call}
    (h1 : Inv false r1 c1) (h2 : Inv b r2 c2) : Inv b (r1 ++ r2) (c1 ++ c2) := by
  obtain ⟨h1r, h1c⟩ := h1
  obtain ⟨h2r, h2c⟩ := h2
  refine ⟨by simp [h1r, h2r], ?_⟩
  intro pre c post h hf
  rw [List.append_eq_append_iff] at h
  rcases h with ⟨as, rfl, h⟩ | ⟨bs, rfl, h⟩
  · exact h2c as c post h hf
  · cases bs with
    | nil =>
      simp only [List.nil_append] at h
      exact h2c [] c post (by simpa using h.symm) hf
    | cons d ds =>
      simp only [List.cons_append, List.cons.injEq] at h
      obtain ⟨rfl, rfl⟩ := h
      have := h1c pre c ds rfl hf
      simp at this

theorem Inv.weaken {b : Bool} {r : List Prim} {c : List Call} (h : Inv false r c) : Inv b r c := by
  have := Inv.append h (Inv.nil b)
  simpa using this


theorem runAll_inv (tag : OpErr → Nat → OpErr) (parts : List (Tape → Option Out))
    (hp : ∀ p ∈ parts, ∀ t o, p t = some o → Inv (isErr o.result) o.reqs o.calls)
    (i : Nat) (t : Tape) (r : Except OpErr (List Val)) (qs : List Prim) (t' : Tape) (cs : List Call)
    (h : runAll tag i parts t = some (r, qs, t', cs)) : Inv (isErr r) qs cs := by
  induction parts generalizing i t r qs t' cs with
  | nil =>
    simp only [runAll, Option.some.injEq, Prod.mk.injEq] at h
    obtain ⟨rfl, rfl, _, rfl⟩ := h
    exact Inv.nil _
  | cons p ps ih =>
    simp only [runAll] at h
    cases hp1 : p t with
    | none => simp [hp1] at h
    | some o =>
      have hinv := hp p (by simp) t o hp1
      obtain ⟨ro, po, to, co⟩ := o
      simp only [hp1] at h
      cases ro with
      | error e =>
        simp only [Option.some.injEq, Prod.mk.injEq] at h
        obtain ⟨rfl, rfl, _, rfl⟩ := h
        exact hinv
      | ok v =>
        simp only at h
        cases hr : runAll tag (i + 1) ps to with
        | none => simp [hr] at h
        | some r2 =>
          obtain ⟨r2, q2, t2, c2⟩ := r2
          have ih' := ih (fun p hp' => hp p (by simp [hp'])) (i + 1) to r2 q2 t2 c2 hr
          simp only [hr] at h
          cases r2 with
          | error e =>
            simp only [Option.some.injEq, Prod.mk.injEq] at h
            obtain ⟨rfl, rfl, _, rfl⟩ := h
            exact Inv.append hinv ih'
          | ok vs =>
            simp only [Option.some.injEq, Prod.mk.injEq] at h
            obtain ⟨rfl, rfl, _, rfl⟩ := h
            exact Inv.append hinv ih'

theorem pack_inv (mk : List Val → Val) (x : Option (Except OpErr (List Val) × List Prim × Tape × List Call))
    (hx : ∀ r qs t' cs, x = some (r, qs, t', cs) → Inv (isErr r) qs cs) (o : Out) (h : pack mk x = some o) :
    Inv (isErr o.result) o.reqs o.calls := by
  cases x with
  | none => simp [pack] at h
  | some y =>
    obtain ⟨r, qs, t', cs⟩ := y
    have := hx r qs t' cs rfl
    cases r with
    | error e => simp only [pack, Option.some.injEq] at h; subst h; exact this
    | ok vs => simp only [pack, Option.some.injEq] at h; subst h; exact this



theorem runAll_err (tag : OpErr → Nat → OpErr) (P : Nat → OpErr → Prop) (parts : List (Tape → Option Out))
    (i : Nat)
    (hp : ∀ k p, parts[k]? = some p → ∀ t o e, p t = some o → o.result = .error e → P (i + k) e)
    (t : Tape) (e' : OpErr) (qs : List Prim) (t' : Tape) (cs : List Call)
    (h : runAll tag i parts t = some (.error e', qs, t', cs)) :
    ∃ e j, e' = tag e j ∧ P j e ∧ i ≤ j ∧ j < i + parts.length := by
  induction parts generalizing i t qs t' cs with
  | nil => simp [runAll] at h
  | cons p ps ih =>
    simp only [runAll] at h
    cases hp1 : p t with
    | none => simp [hp1] at h
    | some o =>
      obtain ⟨ro, po, to, co⟩ := o
      simp only [hp1] at h
      cases ro with
      | error e =>
        simp only [Option.some.injEq, Prod.mk.injEq, Except.error.injEq] at h
        exact ⟨e, i, h.1.symm, hp 0 p (by simp) t _ e hp1 rfl, Nat.le_refl _, by simp⟩
      | ok v =>
        simp only at h
        cases hr : runAll tag (i + 1) ps to with
        | none => simp [hr] at h
        | some r2 =>
          obtain ⟨r2, q2, t2, c2⟩ := r2
          simp only [hr] at h
          cases r2 with
          | error e =>
            simp only [Option.some.injEq, Prod.mk.injEq, Except.error.injEq] at h
            obtain ⟨rfl, _⟩ := h
            obtain ⟨e0, j, h1, h2, h3, h4⟩ := ih (i + 1) (fun k p hk t o e h he => by
              have := hp (k + 1) p (by simpa using hk) t o e h he
              rwa [show i + (k + 1) = i + 1 + k by omega] at this) to q2 t2 c2 hr
            exact ⟨e0, j, h1, h2, by omega, by simp only [List.length_cons]; omega⟩
          | ok vs => simp at h

theorem pack_err (mk : List Val → Val) (x : Option (Except OpErr (List Val) × List Prim × Tape × List Call))
    (o : Out) (e : OpErr) (h : pack mk x = some o) (he : o.result = .error e) :
    ∃ qs t' cs, x = some (.error e, qs, t', cs) := by
  cases x with
  | none => simp [pack] at h
  | some y =>
    obtain ⟨r, qs, t', cs⟩ := y
    cases r with
    | error e' =>
      simp only [pack, Option.some.injEq] at h
      subst h
      simp only [Except.error.injEq] at he
      subst he
      exact ⟨qs, t', cs, rfl⟩
    | ok vs => simp only [pack, Option.some.injEq] at h; subst h; simp at he


end Spec
end Uec
