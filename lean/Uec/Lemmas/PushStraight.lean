/-
  "Execution proceeds front to back with blocks unfolding in order" for whole programs (C01).

  * the exec stack is a passenger of every instruction outside the exec family (`perform_execFrame`);
  * a program built of such instructions and arbitrarily nested blocks, sitting on top of the exec
    stack with room to unfold, is run by the interpreter exactly as the left fold of its depth-first
    flattening over the data part of the state (`specRun_straight`).
-/
import Uec.Lemmas.PushFrame
set_option linter.unusedSimpArgs false
set_option linter.unusedVariables false
namespace Uec
open Stack

def PState.withExec (s : PState) (e : Stack Prog) : PState := { s with exec := e }

mutual
/-- built of instructions outside the exec family and of (nested) blocks only -/
def Prog.straight : Prog → Bool
  | .instr (.exec _) => false
  | .instr _ => true
  | .execPush _ => false
  | .block ps => Prog.straightList ps
def Prog.straightList : List Prog → Bool
  | [] => true
  | p :: ps => p.straight && Prog.straightList ps
end

mutual
/-- depth-first reading of a program -/
def Prog.flat : Prog → List Instr0
  | .instr i => [i]
  | .execPush _ => []
  | .block ps => Prog.flatList ps
def Prog.flatList : List Prog → List Instr0
  | [] => []
  | p :: ps => p.flat ++ Prog.flatList ps
end

mutual
/-- number of nodes (instructions and blocks): the number of interpreter steps the program costs -/
def Prog.nodes : Prog → Nat
  | .instr _ => 1
  | .execPush _ => 1
  | .block ps => 1 + Prog.nodesList ps
def Prog.nodesList : List Prog → Nat
  | [] => 0
  | p :: ps => p.nodes + Prog.nodesList ps
end

theorem Prog.straightList_append (a b : List Prog) :
    Prog.straightList (a ++ b) = (Prog.straightList a && Prog.straightList b) := by
  induction a with
  | nil => simp [Prog.straightList]
  | cons p ps ih => simp [Prog.straightList, ih, Bool.and_assoc]

theorem Prog.flatList_append (a b : List Prog) :
    Prog.flatList (a ++ b) = Prog.flatList a ++ Prog.flatList b := by
  induction a with
  | nil => simp [Prog.flatList]
  | cons p ps ih => simp [Prog.flatList, ih]

theorem Prog.nodesList_append (a b : List Prog) :
    Prog.nodesList (a ++ b) = Prog.nodesList a + Prog.nodesList b := by
  induction a with
  | nil => simp [Prog.nodesList]
  | cons p ps ih => simp [Prog.nodesList, ih]; omega

theorem Prog.nodes_pos (p : Prog) : 0 < p.nodes := by
  cases p <;> simp [Prog.nodes] <;> omega

theorem Prog.length_le_nodesList (ps : List Prog) : ps.length ≤ Prog.nodesList ps := by
  induction ps with
  | nil => simp [Prog.nodesList]
  | cons p ps ih => have := Prog.nodes_pos p; simp [Prog.nodesList]; omega

namespace Spec

/-- a signature that neither takes operands from, nor pushes onto, nor looks at the exec stack -/
structure ExecFree (sg : Sig) : Prop where
  nExec : sg.nExec = 0
  eff : ∀ s e o, sg.eff (PState.withExec s e) o = sg.eff s o
  res : ∀ s o p out, sg.eff s o = .res p out → p.exec = []

theorem apply_execFrame (sg : Sig) (h : ExecFree sg) (s : PState) (e : Stack Prog) :
    apply sg (s.withExec e) = (apply sg s).map (·.withExec e) := by
  unfold apply
  have e2 : (s.withExec e).int = s.int := rfl
  have e3 : (s.withExec e).float = s.float := rfl
  have e4 : (s.withExec e).bool = s.bool := rfl
  have t2 : (tops (s.withExec e)).int = (tops s).int := rfl
  have t3 : (tops (s.withExec e)).float = (tops s).float := rfl
  have t4 : (tops (s.withExec e)).bool = (tops s).bool := rfl
  simp only [e2, e3, e4, t2, t3, t4, h.nExec, h.eff s e, takeN, Nat.not_lt_zero, if_false, List.take_zero,
    List.drop_zero]
  split
  · rfl
  · split
    · rfl
    · split
      · rfl
      · split
        · rfl
        · split
          · rfl
          · rename_i p out heff
            have hp := h.res s _ p out heff
            simp only [hp, noRoom, List.isEmpty_nil, Bool.not_true, Bool.false_and, Bool.false_or, List.nil_append]
            split
            · rfl
            · simp only [Outcome.map, PState.withExec, withTops, tops]
              rw [← eq_ofTop e]


theorem liftE_map_exec {α : Type} (r : Except Err α) (f : α → Tops) (hf : ∀ v, (f v).exec = [])
    (p : Tops) (out : List OutTok) (h : liftE (r.map fun v => Eff.res (f v) []) = .res p out) : p.exec = [] := by
  cases r with
  | error e => simp [liftE, Except.map] at h
  | ok v => simp [liftE, Except.map] at h; rw [← h.1]; exact hf v

/-- closes `ExecFree` for a signature given by a `match` on the operand lists -/
macro "exec_free" : tactic => `(tactic| (
  refine ⟨rfl, fun s e o => rfl, fun s o p out hr => ?_⟩
  simp only [sInt1, sInt2, sInt3, sIntPred1, sIntPred2, sFloat2, sFloatPred2, sBool1, sBool2, sPush, sPopInt,
    sPopFloat, sPopBool, sDupInt, sDupFloat, sDupBool, sSwapInt, sSwapFloat, sSwapBool, sIsEmpty, sDepth,
    sPrintInt, sPrintFloat, sPrintBool, sOut, bad] at hr
  repeat' split at hr
  all_goals first
    | exact liftE_map_exec _ _ (fun _ => rfl) p out hr
    | (injection hr with hr1 _; subst hr1; rfl)
    | (simp at hr)))

theorem execFree_int (op : IntI) (sg : Sig) (h : sigInt op = some sg) : ExecFree sg := by
  cases op <;> simp only [sigInt, Option.some.injEq] at h <;> (try subst h) <;> (try contradiction)
  all_goals exec_free

theorem execFree_float (op : FloatI) (sg : Sig) (h : sigFloat op = some sg) : ExecFree sg := by
  cases op <;> simp only [sigFloat, Option.some.injEq] at h <;> (try subst h) <;> (try contradiction)
  all_goals exec_free

theorem execFree_bool (op : BoolI) (sg : Sig) (h : sigBool op = some sg) : ExecFree sg := by
  cases op <;> simp only [sigBool, Option.some.injEq] at h <;> (try subst h) <;> (try contradiction)
  all_goals exec_free

theorem execFree_push (t : Tops) (ht : t.exec = []) : ExecFree (sPush t) :=
  ⟨rfl, fun _ _ _ => rfl, fun s o p out hr => by simp only [sPush] at hr; injection hr with h1 _; subst h1; exact ht⟩

theorem execFree_out (str : String) : ExecFree (sOut str) := by exec_free

theorem withExec_self (s : PState) : s.withExec s.exec = s := rfl

theorem flush_execFrame (ty : Ty) (hty : ty ≠ .exec) (s : PState) (e : Stack Prog) :
    flush ty (s.withExec e) = (flush ty s).map (·.withExec e) := by
  cases ty <;> simp only [flush, Outcome.map, withTops, tops, PState.withExec] <;> first
    | contradiction
    | (congr 1; rw [← eq_ofTop e])

/-- **The exec stack is a passenger** of every instruction outside the exec family: the instruction
    does the same to the other stacks and the output whatever the exec stack holds, and hands the exec
    stack on untouched. -/
theorem performInstr_execFrame (i : Instr0) (hi : ∀ x, i ≠ .exec x) (s : PState) (e : Stack Prog) :
    performInstr i (s.withExec e) = (performInstr i s).map (·.withExec e) := by
  cases i with
  | exec x => exact absurd rfl (hi x)
  | inputVar name =>
    simp only [performInstr]
    have l1 : (s.withExec e).inputs = s.inputs := rfl
    rw [l1]
    cases Impl.lookup s.inputs name with
    | none => rfl
    | some v => cases v <;> exact apply_execFrame _ (execFree_push _ rfl) s e
  | int op =>
    simp only [performInstr]
    cases hs : sigInt op with
    | some sg => exact apply_execFrame sg (execFree_int op sg hs) s e
    | none => exact flush_execFrame .int (by decide) s e
  | float op =>
    simp only [performInstr]
    cases hs : sigFloat op with
    | some sg => exact apply_execFrame sg (execFree_float op sg hs) s e
    | none => exact flush_execFrame .float (by decide) s e
  | bool op =>
    simp only [performInstr]
    cases hs : sigBool op with
    | some sg => exact apply_execFrame sg (execFree_bool op sg hs) s e
    | none => exact flush_execFrame .bool (by decide) s e
  | printSpace => exact apply_execFrame _ (execFree_out _) s e
  | printNewline => exact apply_execFrame _ (execFree_out _) s e
  | printPeriod => exact apply_execFrame _ (execFree_out _) s e
  | printString str => exact apply_execFrame _ (execFree_out _) s e

/-- … and in particular leaves the exec stack as it was. -/
theorem performInstr_exec_eq (i : Instr0) (hi : ∀ x, i ≠ .exec x) (s s' : PState)
    (h : (performInstr i s).nextState = some s') : s'.exec = s.exec := by
  have hf := performInstr_execFrame i hi s s.exec
  rw [withExec_self] at hf
  cases ho : performInstr i s with
  | ok t => rw [ho] at hf h; simp [Outcome.map] at hf; simp [Outcome.nextState] at h; subst h; rw [hf]; rfl
  | recoverable t e => rw [ho] at hf h; simp [Outcome.map] at hf; simp [Outcome.nextState] at h; subst h; rw [hf]; rfl
  | fatal t e => rw [ho] at h; simp [Outcome.nextState] at h
  | panic => rw [ho] at h; simp [Outcome.nextState] at h

/-- the instructions of a flattened program performed in order: a recoverable failure is skipped, the
    first fatal error (or panic) stops -/
def runInstrs : List Instr0 → PState → Outcome PState
  | [], s => .ok s
  | i :: is, s =>
    match performInstr i s with
    | .ok s' => runInstrs is s'
    | .recoverable s' _ => runInstrs is s'
    | .fatal s' e => .fatal s' e
    | .panic => .panic

theorem runInstrs_not_recoverable (is : List Instr0) (s s' : PState) (e : Err) :
    runInstrs is s ≠ .recoverable s' e := by
  induction is generalizing s with
  | nil => simp [runInstrs]
  | cons i is ih =>
    simp only [runInstrs]
    split
    · exact ih _
    · exact ih _
    · simp
    · simp

end Spec

open Impl in
/-- **Front to back, blocks unfolding in order — for whole programs.**  Let `ps` be any program built of
    instructions outside the exec family and of arbitrarily nested blocks, sitting on top of the exec
    stack (`exec = ps ++ rest`, first element on top) with room to unfold and with at least `nodes ps`
    steps left.  Then the interpreter does exactly this: it performs the depth-first flattening of `ps`,
    in order, on the integer, float and boolean stacks and the output (skipping recoverable failures),
    uses one step per instruction and per block, and
    * if no fatal error occurs, carries on with `exec = rest` from the resulting state;
    * at the first fatal error stops with that error, the data part of the state being what the
      flattened run produced up to there. -/
theorem specRun_straight (n : Nat) : ∀ (ps rest : List Prog) (fuel k : Nat) (s : PState),
    Prog.nodesList ps = n → Prog.straightList ps = true → s.exec.tops = ps ++ rest →
    Prog.nodesList ps + rest.length ≤ s.exec.max → Prog.nodesList ps ≤ fuel →
    (∀ s1, Spec.runInstrs (Prog.flatList ps) (s.withExec (ofTop s.exec.max rest)) = .ok s1 →
        runLoopG Spec.perform fuel k s = runLoopG Spec.perform (fuel - n) (k + n) s1) ∧
    (∀ s1 e, Spec.runInstrs (Prog.flatList ps) (s.withExec (ofTop s.exec.max rest)) = .fatal s1 e →
        ∃ st j, runLoopG Spec.perform fuel k s = .error st e j ∧ k ≤ j ∧ j < k + n ∧
          st.int = s1.int ∧ st.float = s1.float ∧ st.bool = s1.bool ∧ st.out = s1.out) ∧
    (Spec.runInstrs (Prog.flatList ps) (s.withExec (ofTop s.exec.max rest)) = .panic →
        runLoopG Spec.perform fuel k s = .panic) := by
  induction n using Nat.strongRecOn with
  | _ n ih =>
  intro ps rest fuel k s hn hst htops hroom hfuel
  cases ps with
  | nil =>
    simp only [Prog.nodesList] at hn
    subst hn
    have hs : s.withExec (ofTop s.exec.max rest) = s := by
      have := eq_ofTop s.exec
      simp only [List.nil_append] at htops
      rw [htops] at this
      simp only [PState.withExec, ← this]
    simp only [Prog.flatList, Spec.runInstrs, hs]
    refine ⟨fun s1 h => ?_, fun s1 e h => ?_, fun h => ?_⟩
    · simp at h; subst h; simp
    · simp at h
    · simp at h
  | cons p ps' =>
    -- the top of the exec stack is `p`
    have hex : s.exec = ofTop s.exec.max (p :: (ps' ++ rest)) := by
      have := eq_ofTop s.exec; rw [htops] at this; simpa using this
    have hpop : s.exec.pop = .ok (p, ofTop s.exec.max (ps' ++ rest)) := by
      rw [hex]; simp
    obtain ⟨f, rfl⟩ : ∃ f, fuel = f + 1 := by
      have := Prog.nodes_pos p
      simp only [Prog.nodesList] at hfuel
      exact ⟨fuel - 1, by omega⟩
    have hloop : ∀ o, Spec.perform p ({ s with exec := ofTop s.exec.max (ps' ++ rest) } : PState) = o →
        runLoopG Spec.perform (f + 1) k s =
          match o with
          | .ok s' => runLoopG Spec.perform f (k + 1) s'
          | .recoverable s' _ => runLoopG Spec.perform f (k + 1) s'
          | .fatal s' e => .error s' e k
          | .panic => .panic := by
      intro o ho
      rw [runLoopG]
      simp only [hpop, ho]
      cases o <;> rfl
    simp only [Prog.straightList, Bool.and_eq_true] at hst
    cases p with
    | execPush q => simp [Prog.straight] at hst
    | block qs =>
      -- one step unfolds the block in place
      have hn' : Prog.nodesList (qs ++ ps') = n - 1 := by
        simp only [Prog.nodesList, Prog.nodes] at hn
        rw [Prog.nodesList_append]; omega
      have hlen := Prog.length_le_nodesList (qs ++ ps')
      simp only [Prog.nodesList, Prog.nodes] at hroom hfuel hn
      have hperf : Spec.perform (.block qs) ({ s with exec := ofTop s.exec.max (ps' ++ rest) } : PState) =
          .ok (s.withExec (ofTop s.exec.max ((qs ++ ps') ++ rest))) := by
        simp only [Spec.perform, Spec.tops, ofTop_tops, ofTop_max]
        rw [if_neg (by simp only [List.length_append] at hlen ⊢; rw [Prog.nodesList_append] at hlen; omega)]
        simp only [Spec.withTops, PState.withExec, ofTop_max, List.append_assoc]
        rw [← eq_ofTop s.int, ← eq_ofTop s.float, ← eq_ofTop s.bool]
      have hl := hloop _ hperf
      simp only [] at hl
      have hst' : Prog.straightList (qs ++ ps') = true := by
        rw [Prog.straightList_append]; simp only [Prog.straight] at hst; simp [hst.1, hst.2]
      have key := ih (n - 1) (by omega) (qs ++ ps') rest f (k + 1)
        (s.withExec (ofTop s.exec.max ((qs ++ ps') ++ rest))) hn' hst' (by simp [PState.withExec])
        (by simp only [PState.withExec, ofTop_max]; rw [Prog.nodesList_append]; omega)
        (by rw [Prog.nodesList_append]; omega)
      have hbase : ((s.withExec (ofTop s.exec.max ((qs ++ ps') ++ rest))).withExec
          (ofTop (s.withExec (ofTop s.exec.max ((qs ++ ps') ++ rest))).exec.max rest)) =
          s.withExec (ofTop s.exec.max rest) := by simp [PState.withExec]
      rw [hbase] at key
      have hflat : Prog.flatList (Prog.block qs :: ps') = Prog.flatList (qs ++ ps') := by
        simp [Prog.flatList, Prog.flat, Prog.flatList_append]
      rw [hflat, hl]
      obtain ⟨k1, k2, k3⟩ := key
      refine ⟨fun s1 h => ?_, fun s1 e h => ?_, k3⟩
      · rw [k1 s1 h]
        have e1 : f - (n - 1) = f + 1 - n := by omega
        have e2 : k + 1 + (n - 1) = k + n := by omega
        rw [e1, e2]
      · obtain ⟨st, j, hj, h1, h2, h3⟩ := k2 s1 e h
        exact ⟨st, j, hj, by omega, by omega, h3⟩
    | instr i =>
      have hi : ∀ x, i ≠ .exec x := by
        intro x hx; subst hx; simp [Prog.straight] at hst
      have hn' : Prog.nodesList ps' = n - 1 := by
        simp only [Prog.nodesList, Prog.nodes] at hn; omega
      simp only [Prog.nodesList, Prog.nodes] at hroom hfuel hn
      -- frame: the instruction acts on the data part as it does with `exec = rest`
      have hfr : Spec.perform (.instr i) ({ s with exec := ofTop s.exec.max (ps' ++ rest) } : PState) =
          (Spec.performInstr i (s.withExec (ofTop s.exec.max rest))).map
            (·.withExec (ofTop s.exec.max (ps' ++ rest))) := by
        have := Spec.performInstr_execFrame i hi (s.withExec (ofTop s.exec.max rest)) (ofTop s.exec.max (ps' ++ rest))
        simpa [Spec.perform, PState.withExec] using this
      have hflat : Prog.flatList (Prog.instr i :: ps') = i :: Prog.flatList ps' := by
        simp [Prog.flatList, Prog.flat]
      rw [hflat]
      simp only [Spec.runInstrs]
      -- what the induction hypothesis says about a data state `s1` handed on by the instruction
      have next : ∀ s1, (Spec.performInstr i (s.withExec (ofTop s.exec.max rest))).nextState = some s1 →
          (∀ t, Spec.runInstrs (Prog.flatList ps') s1 = .ok t →
            runLoopG Spec.perform f (k + 1) (s1.withExec (ofTop s.exec.max (ps' ++ rest))) =
              runLoopG Spec.perform (f + 1 - n) (k + n) t) ∧
          (∀ t e, Spec.runInstrs (Prog.flatList ps') s1 = .fatal t e →
            ∃ st j, runLoopG Spec.perform f (k + 1) (s1.withExec (ofTop s.exec.max (ps' ++ rest))) = .error st e j ∧
              k ≤ j ∧ j < k + n ∧ st.int = t.int ∧ st.float = t.float ∧ st.bool = t.bool ∧ st.out = t.out) ∧
          (Spec.runInstrs (Prog.flatList ps') s1 = .panic →
            runLoopG Spec.perform f (k + 1) (s1.withExec (ofTop s.exec.max (ps' ++ rest))) = .panic) := by
        intro s1 h1
        have hexec : s1.exec = ofTop s.exec.max rest :=
          Spec.performInstr_exec_eq i hi _ s1 h1
        have key := ih (n - 1) (by omega) ps' rest f (k + 1) (s1.withExec (ofTop s.exec.max (ps' ++ rest)))
          hn' hst.2 (by simp [PState.withExec]) (by simp only [PState.withExec, ofTop_max]; omega) (by omega)
        have hbase : ((s1.withExec (ofTop s.exec.max (ps' ++ rest))).withExec
            (ofTop (s1.withExec (ofTop s.exec.max (ps' ++ rest))).exec.max rest)) = s1 := by
          simp only [PState.withExec, ofTop_max, ← hexec]
        rw [hbase] at key
        obtain ⟨k1, k2, k3⟩ := key
        refine ⟨fun t h => ?_, fun t e h => ?_, k3⟩
        · rw [k1 t h]
          have e1 : f - (n - 1) = f + 1 - n := by omega
          have e2 : k + 1 + (n - 1) = k + n := by omega
          rw [e1, e2]
        · obtain ⟨st, j, hj, h1, h2, h3⟩ := k2 t e h
          exact ⟨st, j, hj, by omega, by omega, h3⟩
      cases ho : Spec.performInstr i (s.withExec (ofTop s.exec.max rest)) with
      | ok s1 =>
        have hl := hloop _ (by rw [hfr, ho])
        simp only [Outcome.map] at hl
        rw [hl]
        exact next s1 (by simp [ho, Outcome.nextState])
      | recoverable s1 e1 =>
        have hl := hloop _ (by rw [hfr, ho])
        simp only [Outcome.map] at hl
        rw [hl]
        exact next s1 (by simp [ho, Outcome.nextState])
      | fatal s1 e1 =>
        have hl := hloop _ (by rw [hfr, ho])
        simp only [Outcome.map] at hl
        refine ⟨fun t h => by simp at h, fun t e h => ?_, fun h => by simp at h⟩
        simp at h
        obtain ⟨rfl, rfl⟩ := h
        have := Prog.nodes_pos (Prog.instr i)
        exact ⟨_, k, hl, Nat.le_refl k, by omega, rfl, rfl, rfl, rfl⟩
      | panic =>
        have hl := hloop _ (by rw [hfr, ho])
        simp only [Outcome.map] at hl
        exact ⟨fun t h => by simp at h, fun t e h => by simp at h, fun _ => hl⟩


mutual
theorem Prog.flat_bound (inp : List (String × Lit)) : ∀ (p : Prog), p.bound inp = true →
    ∀ i ∈ p.flat, (Prog.instr i).bound inp = true
  | .instr i, h => by intro j hj; simp [Prog.flat] at hj; subst hj; exact h
  | .execPush q, _ => by intro j hj; simp [Prog.flat] at hj
  | .block ps, h => by
    intro j hj; simp only [Prog.flat] at hj
    simp only [Prog.bound] at h
    exact Prog.flatList_bound inp ps h j hj
theorem Prog.flatList_bound (inp : List (String × Lit)) : ∀ (ps : List Prog), Prog.boundList inp ps = true →
    ∀ i ∈ Prog.flatList ps, (Prog.instr i).bound inp = true
  | [], _ => by intro j hj; simp [Prog.flatList] at hj
  | p :: ps, h => by
    intro j hj
    simp only [Prog.boundList, Bool.and_eq_true] at h
    simp only [Prog.flatList, List.mem_append] at hj
    rcases hj with hj | hj
    · exact Prog.flat_bound inp p h.1 j hj
    · exact Prog.flatList_bound inp ps h.2 j hj
end

/-- the data run of a well-formed state is well-formed (and keeps limits and inputs) -/
theorem Spec.runInstrs_wf (is : List Instr0) : ∀ (s : PState), WF s →
    (∀ i ∈ is, (Prog.instr i).bound s.inputs = true) → ∀ s1, Spec.runInstrs is s = .ok s1 →
    WF s1 ∧ s1.inputs = s.inputs := by
  induction is with
  | nil => intro s h _ s1 h1; simp [Spec.runInstrs] at h1; subst h1; exact ⟨h, rfl⟩
  | cons i is ih =>
    intro s h hb s1 h1
    simp only [Spec.runInstrs] at h1
    have hpe : Impl.perform (.instr i) s = Spec.performInstr i s := by
      rw [perform_eq_spec _ s h.sizes]; rfl
    have step : ∀ t, (Spec.performInstr i s).nextState = some t → WF t ∧ t.inputs = s.inputs := by
      intro t ht
      refine ⟨Impl.wf_next (.instr i) s t h (hb i (by simp)) (by rw [hpe]; exact ht), ?_⟩
      exact Spec.perform_inputs (.instr i) s t ht
    cases ho : Spec.performInstr i s with
    | ok t =>
      rw [ho] at h1; simp only [] at h1
      obtain ⟨wt, it⟩ := step t (by simp [ho, Outcome.nextState])
      obtain ⟨w1, i1⟩ := ih t wt (fun j hj => by rw [it]; exact hb j (by simp [hj])) s1 h1
      exact ⟨w1, by rw [i1, it]⟩
    | recoverable t e =>
      rw [ho] at h1; simp only [] at h1
      obtain ⟨wt, it⟩ := step t (by simp [ho, Outcome.nextState])
      obtain ⟨w1, i1⟩ := ih t wt (fun j hj => by rw [it]; exact hb j (by simp [hj])) s1 h1
      exact ⟨w1, by rw [i1, it]⟩
    | fatal t e => rw [ho] at h1; simp at h1
    | panic => rw [ho] at h1; simp at h1

/-- the state in which the data run starts (`exec = rest`) is well-formed when the whole state is -/
theorem WF.withRest (s : PState) (ps rest : List Prog) (h : WF s) (htops : s.exec.tops = ps ++ rest) :
    WF (s.withExec (ofTop s.exec.max rest)) ∧ Prog.boundList s.inputs ps = true := by
  have hb := h.bound
  rw [htops] at hb
  have hb' := (boundList_iff _ _).mp hb
  refine ⟨⟨⟨?_, h.sizes.int, h.sizes.float, h.sizes.bool⟩, ?_⟩, ?_⟩
  · have := h.sizes.exec
    have e : s.exec.size = (ps ++ rest).length := by rw [← htops]; simp [Stack.size, Stack.tops]
    simp only [PState.withExec, ofTop_size, ofTop_max]
    rw [e] at this; simp at this; omega
  · simp only [PState.withExec, ofTop_tops]
    exact (boundList_iff _ _).mpr (fun q hq => hb' q (by simp [hq]))
  · exact (boundList_iff _ _).mpr (fun q hq => hb' q (by simp [hq]))

end Uec
