import Uec.Model.Plushy
namespace Uec.Plushy
variable {ι : Type} (opens : ι → Nat)

theorem parse_nil (top : Bool) (acc : List (Tree ι)) : (parse opens top [] acc).1 = (acc, []) := by
  rw [parse]
theorem parse_close_top (rest : List (Gene ι)) (acc : List (Tree ι)) :
    (parse opens true (.close :: rest) acc).1 = (parse opens true rest acc).1 := by
  rw [parse]; simp
theorem parse_close_inner (rest : List (Gene ι)) (acc : List (Tree ι)) :
    (parse opens false (.close :: rest) acc).1 = (acc, rest) := by
  rw [parse]; simp
theorem parse_instr (top : Bool) (i : ι) (rest : List (Gene ι)) (acc : List (Tree ι)) :
    (parse opens top (.instr i :: rest) acc).1 =
      (parse opens top (blocks opens (opens i) rest (acc ++ [.instr i])).1.2
        (blocks opens (opens i) rest (acc ++ [.instr i])).1.1).1 := by
  rw [parse]
theorem blocks_zero (genes : List (Gene ι)) (acc : List (Tree ι)) :
    (blocks opens 0 genes acc).1 = (acc, genes) := by
  rw [blocks]
theorem blocks_succ (n : Nat) (genes : List (Gene ι)) (acc : List (Tree ι)) :
    (blocks opens (n + 1) genes acc).1 =
      (blocks opens n (parse opens false genes []).1.2 (acc ++ [.block (parse opens false genes []).1.1])).1 := by
  rw [blocks]

/-- items produced / genes left, starting from an empty accumulator -/
def pItems (top : Bool) (genes : List (Gene ι)) := (parse opens top genes []).1.1
def pRest (top : Bool) (genes : List (Gene ι)) := (parse opens top genes []).1.2
def bItems (n : Nat) (genes : List (Gene ι)) := (blocks opens n genes []).1.1
def bRest (n : Nat) (genes : List (Gene ι)) := (blocks opens n genes []).1.2

theorem acc_both :
    (∀ (top : Bool) (genes : List (Gene ι)) (_ : List (Tree ι)), ∀ acc,
      (parse opens top genes acc).1 = (acc ++ pItems opens top genes, pRest opens top genes)) ∧
    (∀ (n : Nat) (genes : List (Gene ι)) (_ : List (Tree ι)), ∀ acc,
      (blocks opens n genes acc).1 = (acc ++ bItems opens n genes, bRest opens n genes)) := by
  apply parse.mutual_induct opens
  · intro top _ acc; simp [parse_nil, pItems, pRest]
  · intro _ rest ih acc
    simp only [parse_close_top, pItems, pRest] at *
    exact ih acc
  · intro top _ rest ht acc
    have : top = false := by simpa using ht
    subst this
    simp [parse_close_inner, pItems, pRest]
  · intro top acc0 i rest b ih2 ih1 _ acc
    have hb : b.val.snd = bRest opens (opens i) rest := by
      have := ih2 (acc0 ++ [.instr i]); simp only [b, this]
    rw [hb] at ih1
    have e1 := ih2 (acc ++ [.instr i])
    have e0 := ih2 ([.instr i])
    have lhs : (parse opens top (.instr i :: rest) acc).1 =
        (acc ++ [.instr i] ++ bItems opens (opens i) rest ++ pItems opens top (bRest opens (opens i) rest),
          pRest opens top (bRest opens (opens i) rest)) := by
      rw [parse_instr, e1]; simp only []; rw [ih1]
    have rhs : (parse opens top (.instr i :: rest) []).1 =
        ([.instr i] ++ bItems opens (opens i) rest ++ pItems opens top (bRest opens (opens i) rest),
          pRest opens top (bRest opens (opens i) rest)) := by
      rw [parse_instr]; simp only [List.nil_append]; rw [e0]; simp only []; rw [ih1]
    rw [lhs]; simp only [pItems, pRest, rhs]; simp
  · intro genes _ acc; simp [blocks_zero, bItems, bRest]
  · intro genes _ n p ih1 ih2 _ acc
    have lhs : (blocks opens (n + 1) genes acc).1 =
        (acc ++ [.block (pItems opens false genes)] ++ bItems opens n (pRest opens false genes),
          bRest opens n (pRest opens false genes)) := by
      rw [blocks_succ]; exact ih2 _
    have rhs : (blocks opens (n + 1) genes []).1 =
        ([.block (pItems opens false genes)] ++ bItems opens n (pRest opens false genes),
          bRest opens n (pRest opens false genes)) := by
      rw [blocks_succ]; exact ih2 _
    rw [lhs]; simp only [bItems, bRest, rhs]; simp

theorem parse_acc (top : Bool) (genes : List (Gene ι)) (acc : List (Tree ι)) :
    (parse opens top genes acc).1 = (acc ++ pItems opens top genes, pRest opens top genes) :=
  (acc_both opens).1 top genes [] acc
theorem blocks_acc (n : Nat) (genes : List (Gene ι)) (acc : List (Tree ι)) :
    (blocks opens n genes acc).1 = (acc ++ bItems opens n genes, bRest opens n genes) :=
  (acc_both opens).2 n genes [] acc

/-! Clean recursive equations of the parser (accumulator-free). -/
@[simp] theorem pItems_nil (top : Bool) : pItems opens top ([] : List (Gene ι)) = [] := by simp [pItems, parse_nil]
@[simp] theorem pRest_nil (top : Bool) : pRest opens top ([] : List (Gene ι)) = [] := by simp [pRest, parse_nil]
@[simp] theorem pItems_close_top (r : List (Gene ι)) : pItems opens true (.close :: r) = pItems opens true r := by
  simp [pItems, parse_close_top]
@[simp] theorem pRest_close_top (r : List (Gene ι)) : pRest opens true (.close :: r) = pRest opens true r := by
  simp [pRest, parse_close_top]
@[simp] theorem pItems_close_inner (r : List (Gene ι)) : pItems opens false (.close :: r) = [] := by
  simp [pItems, parse_close_inner]
@[simp] theorem pRest_close_inner (r : List (Gene ι)) : pRest opens false (.close :: r) = r := by
  simp [pRest, parse_close_inner]
theorem pItems_instr (top : Bool) (i : ι) (r : List (Gene ι)) :
    pItems opens top (.instr i :: r) =
      .instr i :: (bItems opens (opens i) r ++ pItems opens top (bRest opens (opens i) r)) := by
  show (parse opens top (.instr i :: r) []).1.1 = _
  rw [parse_instr, blocks_acc]; simp only []; rw [parse_acc]; simp
theorem pRest_instr (top : Bool) (i : ι) (r : List (Gene ι)) :
    pRest opens top (.instr i :: r) = pRest opens top (bRest opens (opens i) r) := by
  show (parse opens top (.instr i :: r) []).1.2 = _
  rw [parse_instr, blocks_acc]; simp only []; rw [parse_acc]
@[simp] theorem bItems_zero (g : List (Gene ι)) : bItems opens 0 g = [] := by simp [bItems, blocks_zero]
@[simp] theorem bRest_zero (g : List (Gene ι)) : bRest opens 0 g = g := by simp [bRest, blocks_zero]
theorem bItems_succ (n : Nat) (g : List (Gene ι)) :
    bItems opens (n + 1) g = .block (pItems opens false g) :: bItems opens n (pRest opens false g) := by
  show (blocks opens (n + 1) g []).1.1 = _
  rw [blocks_succ, blocks_acc]; simp [pItems, pRest]
theorem bRest_succ (n : Nat) (g : List (Gene ι)) :
    bRest opens (n + 1) g = bRest opens n (pRest opens false g) := by
  show (blocks opens (n + 1) g []).1.2 = _
  rw [blocks_succ, blocks_acc]; simp [pRest]

theorem pRest_length_le (top : Bool) (g : List (Gene ι)) : (pRest opens top g).length ≤ g.length :=
  (parse opens top g []).2
theorem bRest_length_le (n : Nat) (g : List (Gene ι)) : (bRest opens n g).length ≤ g.length :=
  (blocks opens n g []).2

/-- Induction principle following the parser's own recursion (accumulator-free). -/
theorem plushy_induct (P1 : Bool → List (Gene ι) → Prop) (P2 : Nat → List (Gene ι) → Prop)
    (h_nil : ∀ top, P1 top [])
    (h_close_top : ∀ r, P1 true r → P1 true (.close :: r))
    (h_close_in : ∀ r, P1 false (.close :: r))
    (h_instr : ∀ top i r, P2 (opens i) r → P1 top (bRest opens (opens i) r) → P1 top (.instr i :: r))
    (h_b0 : ∀ g, P2 0 g)
    (h_bs : ∀ n g, P1 false g → P2 n (pRest opens false g) → P2 (n + 1) g) :
    (∀ top g, P1 top g) ∧ (∀ n g, P2 n g) := by
  have := parse.mutual_induct opens (fun top g _ => P1 top g) (fun n g _ => P2 n g)
    (fun top _ => h_nil top)
    (fun _ r ih => h_close_top r ih)
    (fun top _ r ht => by
      have : top = false := by simpa using ht
      subst this; exact h_close_in r)
    (fun top acc i r ih2 ih1 _ => by
      apply h_instr top i r ih2
      have hb : (blocks opens (opens i) r (acc ++ [.instr i])).val.snd = bRest opens (opens i) r := by
        rw [blocks_acc]
      rw [← hb]; exact ih1)
    (fun g _ => h_b0 g)
    (fun g _ n ih1 ih2 _ => by
      apply h_bs n g ih1
      exact ih2)
  exact ⟨fun top g => this.1 top g [], fun n g => this.2 n g []⟩

end Uec.Plushy
