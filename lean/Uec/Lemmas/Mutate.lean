/-
  Helper lemmas for C11/C12: reachability of the float-valued requests, the exact reading of the
  comparison `r < rate`, and the shape of UMAD's output.
-/
import Uec.Lemmas.RandLin
import Uec.Lemmas.Floats
import Uec.Model.Mutate
namespace Uec.Lin
open Uec
open Uec.Rand (Reach)
variable {α : Type}

/-! ### requests -/

theorem reach_reqBoolP {p : UInt64} {b : Bool} :
    Reach (reqBoolP p) b ↔ ∀ c, F64.certain p = some c → b = c := by
  unfold reqBoolP
  rw [reach_ask]
  constructor
  · rintro ⟨ans, hv, hr⟩
    cases ans <;> simp only [Prim.valid] at hv <;> try exact hv.elim
    simp [ansBool] at hr; subst hr; exact hv
  · intro h; exact ⟨.bool b, by simp only [Prim.valid]; exact h, by simp [ansBool]⟩

theorem reach_reqBoolP_free {p : UInt64} (h : F64.certain p = none) (b : Bool) : Reach (reqBoolP p) b :=
  reach_reqBoolP.mpr (by simp [h])

theorem reach_reqF32 {w : Nat} : Reach reqF32 w ↔ w < 2 ^ 32 ∧ F32.unit w := by
  unfold reqF32
  rw [reach_ask]
  constructor
  · rintro ⟨ans, hv, hr⟩
    cases ans <;> simp [Prim.valid] at hv
    simp [ansBits] at hr; subst hr; exact hv
  · rintro ⟨h1, h2⟩
    refine ⟨.bits w.toUInt64, ?_, ?_⟩
    · have : w.toUInt64.toNat = w := by
        simp only [Nat.toUInt64, UInt64.toNat_ofNat']
        exact Nat.mod_eq_of_lt (by omega)
      simp [Prim.valid, this, h1, h2]
    · have : w.toUInt64.toNat = w := by
        simp only [Nat.toUInt64, UInt64.toNat_ofNat']
        exact Nat.mod_eq_of_lt (by omega)
      simp [ansBits, this]

theorem reach_reqUser {t v : Nat} : Reach (reqUser t) v := by
  unfold reqUser
  exact .ask (ans := .nat v) (by simp [Prim.valid]) (by simp [ansNat])

/-! ### the comparison `r < rate` on the grid -/

/-- does the grid point `k · 2⁻²⁴` lie below the rate? -/
def flipsAt (rate : Nat) (k : Nat) : Bool := (F32.Val.fin (F32.gridScaled k)).lt (F32.decode rate)

theorem lt_of_unit {w rate k : Nat} (h : F32.decode w = .fin (F32.gridScaled k)) :
    F32.lt w rate = flipsAt rate k := by
  simp [F32.lt, flipsAt, h]

/-- rate `±0`: no grid point lies below it -/
theorem flipsAt_zero {rate : Nat} (h : F32.decode rate = .fin 0) (k : Nat) : flipsAt rate k = false := by
  simp only [flipsAt, h, F32.Val.lt, F32.gridScaled, decide_eq_false_iff_not, Int.not_lt]
  exact Int.mul_nonneg (Int.natCast_nonneg k) (by decide)

/-- rate `≥ 1` (finite): every grid point lies below it -/
theorem flipsAt_ge_one {rate : Nat} {s : Int} (h : F32.decode rate = .fin s) (hs : F32.oneScaled ≤ s)
    {k : Nat} (hk : k < 2 ^ 24) : flipsAt rate k = true := by
  simp only [flipsAt, h, F32.Val.lt, F32.gridScaled, decide_eq_true_eq]
  have h1 : (k : Int) * 2 ^ 125 < 2 ^ 24 * 2 ^ 125 := by
    apply Int.mul_lt_mul_of_pos_right _ (by decide)
    exact_mod_cast hk
  have h2 : (2 : Int) ^ 24 * 2 ^ 125 = F32.oneScaled := by decide
  omega

/-- rate `+inf`: every grid point lies below it -/
theorem flipsAt_inf {rate : Nat} (h : F32.decode rate = .inf false) (k : Nat) : flipsAt rate k = true := by
  simp [flipsAt, h, F32.Val.lt]

/-! ### `WithRate` -/

/-- Spec of bit-flip mutation: the decisions `ks` (one grid index per gene) applied gene by gene -/
def Spec.flipWith (rate : Nat) (neg : α → α) : List Nat → List α → List α
  | k :: ks, x :: xs => (if flipsAt rate k then neg x else x) :: Spec.flipWith rate neg ks xs
  | _, _ => []

theorem reach_withRate (rate : Nat) (neg : α → α) (g out : List α) :
    Reach (withRate rate neg g) out ↔
      ∃ ks : List Nat, ks.length = g.length ∧ (∀ k ∈ ks, k < 2 ^ 24) ∧ out = Spec.flipWith rate neg ks g := by
  induction g generalizing out with
  | nil =>
    simp only [withRate, pure_eq, reach_pure, List.length_nil, List.length_eq_zero_iff]
    constructor
    · rintro rfl; exact ⟨[], rfl, by simp, by simp [Spec.flipWith]⟩
    · rintro ⟨ks, rfl, -, h⟩; simpa [Spec.flipWith] using h
  | cons x xs ih =>
    simp only [withRate, bind_eq, pure_eq, reach_bind, reach_pure, reach_reqF32]
    constructor
    · rintro ⟨w, ⟨-, k, hk, hd⟩, out', ho, rfl⟩
      obtain ⟨ks, hl, hks, rfl⟩ := (ih out').mp ho
      refine ⟨k :: ks, by simp [hl], ?_, ?_⟩
      · intro k' hk'; rcases List.mem_cons.mp hk' with rfl | h
        · exact hk
        · exact hks _ h
      · simp [Spec.flipWith, lt_of_unit hd]
    · rintro ⟨ks, hl, hks, rfl⟩
      cases ks with
      | nil => simp at hl
      | cons k ks =>
        simp only [List.length_cons, Nat.add_right_cancel_iff] at hl
        have hk := hks k (by simp)
        refine ⟨F32.gridBits k, ⟨F32.gridBits_lt k hk, F32.unit_gridBits k hk⟩, _,
          (ih _).mpr ⟨ks, hl, fun k' hk' => hks k' (by simp [hk']), rfl⟩, ?_⟩
        simp [Spec.flipWith, lt_of_unit (F32.decode_gridBits k hk)]

theorem flipWith_none (rate : Nat) (neg : α → α) (ks : List Nat) (g : List α)
    (hl : ks.length = g.length) (h : ∀ k ∈ ks, flipsAt rate k = false) : Spec.flipWith rate neg ks g = g := by
  induction g generalizing ks with
  | nil => cases ks <;> simp [Spec.flipWith]
  | cons x xs ih =>
    cases ks with
    | nil => simp at hl
    | cons k ks =>
      simp only [List.length_cons, Nat.add_right_cancel_iff] at hl
      simp only [Spec.flipWith, h k (by simp), Bool.false_eq_true, if_false, List.cons.injEq, true_and]
      exact ih ks hl (fun k' hk' => h k' (by simp [hk']))

theorem flipWith_all (rate : Nat) (neg : α → α) (ks : List Nat) (g : List α)
    (hl : ks.length = g.length) (h : ∀ k ∈ ks, flipsAt rate k = true) :
    Spec.flipWith rate neg ks g = g.map neg := by
  induction g generalizing ks with
  | nil => cases ks <;> simp [Spec.flipWith]
  | cons x xs ih =>
    cases ks with
    | nil => simp at hl
    | cons k ks =>
      simp only [List.length_cons, Nat.add_right_cancel_iff] at hl
      simp only [Spec.flipWith, h k (by simp), if_true, List.map_cons, List.cons.injEq, true_and]
      exact ih ks hl (fun k' hk' => h k' (by simp [hk']))

/-! ### UMAD -/

/-- every way the per-gene closure of UMAD can come out -/
theorem reach_umadGene (add del : UInt64) (gen : Rand α) (gene : α) (here : List α) :
    Reach (umadGene add del gen gene) here ↔
      ∃ a d dn, Reach (reqBoolP add) a ∧ Reach (reqBoolP del) d ∧
        (if a then Reach (reqBoolP del) dn else dn = false) ∧
        (if a && !dn then ∃ x, Reach gen x ∧ here = (if !d then [gene] else []) ++ [x]
         else here = (if !d then [gene] else [])) := by
  unfold umadGene
  simp only [bind_eq, pure_eq]
  rw [reach_bind]
  constructor
  · rintro ⟨a, ha, h⟩
    rw [reach_bind] at h
    obtain ⟨d, hd, h⟩ := h
    cases a
    · simp only [Bool.false_eq_true, if_false, bind_pure_left, Bool.false_and, reach_pure] at h
      exact ⟨false, d, false, ha, hd, rfl, by simpa using h⟩
    · simp only [if_true, reach_bind] at h
      obtain ⟨dn, hdn, h⟩ := h
      refine ⟨true, d, dn, ha, hd, hdn, ?_⟩
      cases dn
      · simpa [reach_bind] using h
      · simpa using h
  · rintro ⟨a, d, dn, ha, hd, hdn, h⟩
    refine ⟨a, ha, ?_⟩
    rw [reach_bind]
    refine ⟨d, hd, ?_⟩
    cases a
    · simp only [Bool.false_eq_true, if_false] at hdn
      subst hdn
      simp only [Bool.false_eq_true, if_false, bind_pure_left, Bool.false_and, reach_pure]
      simpa using h
    · simp only [if_true] at hdn
      simp only [if_true, reach_bind]
      refine ⟨dn, hdn, ?_⟩
      cases dn
      · simpa [reach_bind] using h
      · simpa using h

theorem reach_umadPass_cons (add del : UInt64) (gen : Rand α) (gene : α) (rest out : List α) :
    Reach (umadPass add del gen (gene :: rest)) out ↔
      ∃ here tail, Reach (umadGene add del gen gene) here ∧ Reach (umadPass add del gen rest) tail ∧
        out = here ++ tail := by
  simp only [umadPass, bind_eq, pure_eq, reach_bind, reach_pure]
  constructor
  · rintro ⟨h, hh, t, ht, rfl⟩; exact ⟨h, t, hh, ht, rfl⟩
  · rintro ⟨h, t, hh, ht, rfl⟩; exact ⟨h, hh, t, ht, rfl⟩

end Uec.Lin
