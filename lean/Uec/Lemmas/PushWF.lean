/- WF is an invariant of the interpreter; consequences for the code-shaped Impl. -/
import Uec.Lemmas.PushBound
set_option linter.unusedSimpArgs false
set_option linter.unusedVariables false
namespace Uec
open Stack

/-- Well-formed state: sizes within limits, every mentioned input variable bound.  The builder
    establishes it (C19); the interpreter preserves it (C03). -/
structure WF (s : PState) : Prop where
  sizes : SizesOk s
  bound : Prog.boundList s.inputs s.exec.tops = true

namespace Impl

theorem pop_tops (s : PState) (p : Prog) (est : Stack Prog) (hp : s.exec.pop = .ok (p, est)) :
    s.exec.tops = p :: est.tops ∧ est.max = s.exec.max := by
  rw [eq_ofTop s.exec] at hp
  simp only [ofTop_pop] at hp
  split at hp
  · simp at hp
  · rename_i x r hx
    simp at hp
    obtain ⟨rfl, rfl⟩ := hp
    simp [hx]

theorem wf_pop (s : PState) (p : Prog) (est : Stack Prog) (h : WF s) (hp : s.exec.pop = .ok (p, est)) :
    WF { s with exec := est } ∧ p.bound s.inputs = true := by
  obtain ⟨ht, _⟩ := pop_tops s p est hp
  have hb := h.bound
  rw [ht] at hb
  simp only [Prog.boundList, Bool.and_eq_true] at hb
  exact ⟨⟨sizesOk_pop s p est h.sizes hp, hb.2⟩, hb.1⟩

theorem bound_execPush (inp : List (String × Lit)) (q : Prog) (h : (Prog.execPush q).bound inp = true) :
    q.bound inp = true := by simpa [Prog.bound] using h
theorem bound_block (inp : List (String × Lit)) (ps : List Prog) (h : (Prog.block ps).bound inp = true) :
    ∀ q ∈ ps, q.bound inp = true := by
  rw [Prog.bound] at h; exact (boundList_iff inp ps).mp h

/-- one step from a well-formed state (instruction already taken off exec and bound): the state
    handed on is well-formed again -/
theorem wf_next (p : Prog) (s s' : PState) (h : WF s) (hp : p.bound s.inputs = true)
    (hn : (perform p s).nextState = some s') : WF s' := by
  rw [perform_eq_spec p s h.sizes] at hn
  have hB : ∀ q ∈ (Spec.tops s).exec, q.bound s.inputs = true := by
    simpa [Spec.tops] using (boundList_iff _ _).mp h.bound
  have hexec := Spec.perform_next_exec (fun q => q.bound s.inputs = true) p s s'
    (fun q hq => bound_execPush _ q (hq ▸ hp)) (fun ps hps => bound_block _ ps (hps ▸ hp)) hB hn
  rcases Spec.perform_good_or_panic p s with ⟨g, _⟩ | ⟨hpan, _⟩
  · cases hout : Spec.perform p s with
    | ok s1 =>
      simp [hout, Outcome.nextState] at hn; subst hn
      obtain ⟨hs, hc⟩ := g.ok h.sizes s1 (by simp [hout, Outcome.okState])
      refine ⟨hs, ?_⟩
      rw [hc.2.2.2.2.1]
      exact (boundList_iff _ _).mpr (by simpa [Spec.tops] using hexec)
    | recoverable s1 e =>
      simp [hout, Outcome.nextState] at hn; subst hn
      have := g.err s1 (by simp [hout, Outcome.errState]); subst this; exact h
    | fatal s1 e => simp [hout, Outcome.nextState] at hn
    | panic => simp [hout, Outcome.nextState] at hn
  · simp [hpan, Outcome.nextState] at hn

theorem wf_fatal (p : Prog) (s s' : PState) (e : Err) (h : WF s) (hf : perform p s = .fatal s' e) :
    s' = s ∧ e = .stack .overflow := by
  rw [perform_eq_spec p s h.sizes] at hf
  rcases Spec.perform_good_or_panic p s with ⟨g, _⟩ | ⟨hpan, _⟩
  · exact ⟨g.err s' (by simp [hf, Outcome.errState]), g.fatal e (by simp [hf, Outcome.fatalErr])⟩
  · simp [hpan] at hf

theorem wf_no_panic (p : Prog) (s : PState) (h : WF s) (hp : p.bound s.inputs = true) :
    perform p s ≠ .panic := by
  rw [perform_eq_spec p s h.sizes]
  rcases Spec.perform_good_or_panic p s with ⟨_, hnp⟩ | ⟨_, name, rfl, hl⟩
  · exact hnp
  · simp [Prog.bound, hl] at hp

/-- the three obligations of `runLoopG_inv` for `I = WF`, `perf = Impl.perform` -/
theorem wf_loop_pop (s : PState) (p : Prog) (est : Stack Prog) (h : WF s) (hp : s.exec.pop = .ok (p, est)) :
    WF { s with exec := est } := (wf_pop s p est h hp).1
theorem wf_loop_next (s : PState) (p : Prog) (est : Stack Prog) (s' : PState) (h : WF s)
    (hp : s.exec.pop = .ok (p, est)) (hn : (perform p { s with exec := est }).nextState = some s') : WF s' :=
  wf_next p _ s' (wf_pop s p est h hp).1 (wf_pop s p est h hp).2 hn
theorem wf_loop_fatal (s : PState) (p : Prog) (est : Stack Prog) (s' : PState) (e : Err) (h : WF s)
    (hp : s.exec.pop = .ok (p, est)) (hf : perform p { s with exec := est } = .fatal s' e) : WF s' := by
  obtain ⟨rfl, _⟩ := wf_fatal p _ s' e (wf_pop s p est h hp).1 hf
  exact (wf_pop s p est h hp).1

end Impl
end Uec
