/-
  Helper lemmas for C09: the `collect::<Result<…>>` loop over all answer sequences and over tapes,
  the scheduled execution of `par_next`, and the ordered assembly of the new population.
-/
import Uec.Model.Generation
import Uec.Lemmas.RandRun
namespace Uec.Generation
open Uec Uec.Rand
variable {ι ε : Type}

theorem collectResults_succ (mk : Rand (Except ε ι)) (n : Nat) (acc : List ι) :
    collectResults mk (n + 1) acc =
      Rand.bind mk (fun r => match r with
        | .error e => Rand.pure (.error e)
        | .ok c => collectResults mk n (acc ++ [c])) := by
  simp only [collectResults, bind_eq, pure_eq]
  congr 1

/-! ### all answer sequences -/

theorem reach_collectResults_ok (mk : Rand (Except ε ι)) (n : Nat) (acc out : List ι) :
    Reach (collectResults mk n acc) (.ok out) ↔
      ∃ cs, cs.length = n ∧ out = acc ++ cs ∧ ∀ c ∈ cs, Reach mk (.ok c) := by
  induction n generalizing acc with
  | zero =>
    simp only [collectResults, pure_eq, reach_pure, Except.ok.injEq]
    constructor
    · rintro rfl; exact ⟨[], rfl, by simp, by simp⟩
    · rintro ⟨cs, hl, rfl, -⟩
      have : cs = [] := List.eq_nil_of_length_eq_zero hl
      simp [this]
  | succ n ih =>
    rw [collectResults_succ, reach_bind]
    constructor
    · rintro ⟨r, hr, h⟩
      cases r with
      | error e => simp at h
      | ok c =>
        obtain ⟨cs, hl, rfl, hcs⟩ := (ih (acc ++ [c])).mp h
        refine ⟨c :: cs, by simp [hl], by simp, ?_⟩
        intro x hx
        rcases List.mem_cons.mp hx with rfl | hx
        · exact hr
        · exact hcs x hx
    · rintro ⟨cs, hl, rfl, hcs⟩
      cases cs with
      | nil => simp at hl
      | cons c cs =>
        refine ⟨.ok c, hcs c (by simp), ?_⟩
        exact (ih (acc ++ [c])).mpr ⟨cs, by simpa using hl, by simp, fun x hx => hcs x (by simp [hx])⟩

theorem reach_collectResults_err (mk : Rand (Except ε ι)) (n : Nat) (acc : List ι) (e : ε)
    (h : Reach (collectResults mk n acc) (.error e)) : 0 < n ∧ Reach mk (.error e) := by
  induction n generalizing acc with
  | zero => simp [collectResults] at h
  | succ n ih =>
    rw [collectResults_succ, reach_bind] at h
    obtain ⟨r, hr, h⟩ := h
    cases r with
    | error e' =>
      simp only [reach_pure, Except.error.injEq] at h
      subst h; exact ⟨Nat.succ_pos _, hr⟩
    | ok c => exact ⟨Nat.succ_pos _, (ih _ h).2⟩

/-- a failure is possible at every position: after any `k < n` possible successes -/
theorem reach_collectResults_err_at (mk : Rand (Except ε ι)) (n : Nat) (acc : List ι) (e : ε)
    (cs : List ι) (hk : cs.length < n) (hcs : ∀ c ∈ cs, Reach mk (.ok c)) (he : Reach mk (.error e)) :
    Reach (collectResults mk n acc) (.error e) := by
  induction n generalizing acc cs with
  | zero => omega
  | succ n ih =>
    rw [collectResults_succ, reach_bind]
    cases cs with
    | nil => exact ⟨.error e, he, by simp⟩
    | cons c cs =>
      refine ⟨.ok c, hcs c (by simp), ?_⟩
      exact ih (acc ++ [c]) cs (by simpa using hk) (fun x hx => hcs x (by simp [hx]))

/-! ### explicit tapes -/

theorem run_collectResults_ok (mk : Rand (Except ε ι)) (n : Nat) (acc out : List ι) (t r : List Ans)
    (h : run (collectResults mk n acc) t = some (.ok out, r)) :
    ∃ (segs : List (List Ans)) (cs : List ι), cs.length = n ∧ out = acc ++ cs ∧
      t = segs.flatten ++ r ∧ Consumes mk segs (cs.map Except.ok) := by
  induction n generalizing acc t with
  | zero =>
    simp only [collectResults, pure_eq, run_pure, Option.some.injEq, Prod.mk.injEq, Except.ok.injEq] at h
    obtain ⟨rfl, rfl⟩ := h
    exact ⟨[], [], rfl, by simp, by simp, .nil⟩
  | succ n ih =>
    rw [collectResults_succ, run_bind] at h
    cases h1 : run mk t with
    | none => simp [h1] at h
    | some p =>
      obtain ⟨x, t1⟩ := p
      simp only [h1, Option.bind_some] at h
      cases x with
      | error e => simp at h
      | ok c =>
        obtain ⟨segs, cs, hl, rfl, ht1, hc⟩ := ih (acc ++ [c]) t1 h
        obtain ⟨s, hs, hrs⟩ := run_split mk t t1 _ h1
        exact ⟨s :: segs, c :: cs, by simp [hl], by simp, by simp [hs, ht1], .cons hrs hc⟩

theorem run_collectResults_err (mk : Rand (Except ε ι)) (n : Nat) (acc : List ι) (e : ε) (t r : List Ans)
    (h : run (collectResults mk n acc) t = some (.error e, r)) :
    ∃ (segs : List (List Ans)) (cs : List ι) (seg : List Ans), cs.length < n ∧
      t = segs.flatten ++ seg ++ r ∧ Consumes mk segs (cs.map Except.ok) ∧
      run mk seg = some (.error e, []) := by
  induction n generalizing acc t with
  | zero => simp [collectResults] at h
  | succ n ih =>
    rw [collectResults_succ, run_bind] at h
    cases h1 : run mk t with
    | none => simp [h1] at h
    | some p =>
      obtain ⟨x, t1⟩ := p
      simp only [h1, Option.bind_some] at h
      obtain ⟨s, hs, hrs⟩ := run_split mk t t1 _ h1
      cases x with
      | error e' =>
        simp only [run_pure, Option.some.injEq, Prod.mk.injEq, Except.error.injEq] at h
        obtain ⟨rfl, rfl⟩ := h
        exact ⟨[], [], s, Nat.succ_pos _, by simp [hs], .nil, hrs⟩
      | ok c =>
        obtain ⟨segs, cs, seg, hl, ht1, hc, he⟩ := ih (acc ++ [c]) t1 h
        exact ⟨s :: segs, c :: cs, seg, by simp; omega, by simp [hs, ht1], .cons hrs hc, he⟩

/-! ### scheduled execution -/

theorem parExec_executed (mk : Rand (Except ε ι)) (extra : Nat) (order : List Slot) (b : Option Nat)
    (T T' : Tapes) (rs : List (Nat × Except ε ι)) (h : parExec mk extra order b T = some (rs, T')) :
    Executed mk order T rs T' := by
  induction order generalizing b T rs with
  | nil =>
    simp only [parExec, Option.some.injEq, Prod.mk.injEq] at h
    obtain ⟨rfl, rfl⟩ := h; exact .stop _ _
  | cons s rest ih =>
    by_cases hb : b = some 0
    · subst hb
      simp only [parExec, Option.some.injEq, Prod.mk.injEq] at h
      obtain ⟨rfl, rfl⟩ := h; exact .stop _ _
    · rw [parExec] at h
      · cases h1 : run mk (T s.thread) with
        | none => simp [h1] at h
        | some p =>
          obtain ⟨r, t'⟩ := p
          simp only [h1] at h
          split at h
          · simp at h
          · rename_i rs0 T0 h2
            simp only [Option.some.injEq, Prod.mk.injEq] at h
            obtain ⟨rfl, rfl⟩ := h
            obtain ⟨seg, hseg, hrun⟩ := run_split mk _ _ _ h1
            exact .step hseg hrun (ih _ _ _ h2)
      · intro h0; exact hb h0

/-- no failure happened ⇒ every scheduled child was executed -/
theorem parExec_complete (mk : Rand (Except ε ι)) (extra : Nat) (order : List Slot)
    (T T' : Tapes) (rs : List (Nat × Except ε ι)) (h : parExec mk extra order none T = some (rs, T'))
    (hne : errorsOf rs = []) : rs.map Prod.fst = order.map Slot.pos := by
  induction order generalizing T rs with
  | nil =>
    simp only [parExec, Option.some.injEq, Prod.mk.injEq] at h
    obtain ⟨rfl, rfl⟩ := h; rfl
  | cons s rest ih =>
    rw [parExec] at h
    · cases h1 : run mk (T s.thread) with
      | none => simp [h1] at h
      | some p =>
        obtain ⟨r, t'⟩ := p
        simp only [h1] at h
        split at h
        · simp at h
        · rename_i rs0 T0 h2
          simp only [Option.some.injEq, Prod.mk.injEq] at h
          obtain ⟨rfl, rfl⟩ := h
          cases r with
          | error e => simp [errorsOf] at hne
          | ok c =>
            simp only [errorsOf] at hne
            simp only [List.map_cons, List.cons.injEq, true_and]
            exact ih _ _ h2 hne
    · simp

theorem Executed.mem_run {mk : Rand (Except ε ι)} {order : List Slot} {T T' : Tapes}
    {rs : List (Nat × Except ε ι)} (h : Executed mk order T rs T') (p : Nat) (r : Except ε ι)
    (hm : (p, r) ∈ rs) : ∃ seg, run mk seg = some (r, []) := by
  induction h with
  | stop => simp at hm
  | step _ hrun _ ih =>
    rcases List.mem_cons.mp hm with h1 | h1
    · simp only [Prod.mk.injEq] at h1; obtain ⟨_, rfl⟩ := h1; exact ⟨_, hrun⟩
    · exact ih h1

theorem errorsOf_mem (rs : List (Nat × Except ε ι)) (e : ε) :
    e ∈ errorsOf rs ↔ ∃ p, (p, Except.error e) ∈ rs := by
  induction rs with
  | nil => simp [errorsOf]
  | cons x rs ih =>
    obtain ⟨p, r⟩ := x
    cases r with
    | error e' =>
      simp only [errorsOf, List.mem_cons, ih, Prod.mk.injEq, Except.error.injEq]
      constructor
      · rintro (rfl | ⟨q, hq⟩)
        · exact ⟨p, .inl ⟨rfl, rfl⟩⟩
        · exact ⟨q, .inr hq⟩
      · rintro ⟨q, (⟨_, rfl⟩ | hq)⟩
        · exact .inl rfl
        · exact .inr ⟨q, hq⟩
    | ok c =>
      simp only [errorsOf, ih, List.mem_cons, Prod.mk.injEq, reduceCtorEq, and_false, false_or]

theorem errorsOf_nil_all_ok (rs : List (Nat × Except ε ι)) (h : errorsOf rs = []) :
    ∀ p r, (p, r) ∈ rs → ∃ c, r = .ok c := by
  intro p r hm
  cases r with
  | ok c => exact ⟨c, rfl⟩
  | error e =>
    have : e ∈ errorsOf rs := (errorsOf_mem rs e).mpr ⟨p, hm⟩
    simp [h] at this

theorem childAt_of_mem (rs : List (Nat × Except ε ι)) (hnd : (rs.map Prod.fst).Nodup) (i : Nat) (c : ι)
    (hm : (i, Except.ok c) ∈ rs) : childAt rs i = some c := by
  induction rs with
  | nil => simp at hm
  | cons x rs ih =>
    obtain ⟨p, r⟩ := x
    simp only [List.map_cons, List.nodup_cons] at hnd
    rcases List.mem_cons.mp hm with h1 | h1
    · simp only [Prod.mk.injEq] at h1; obtain ⟨rfl, rfl⟩ := h1
      simp [childAt]
    · have hpi : p ≠ i := by
        rintro rfl
        exact hnd.1 (List.mem_map.mpr ⟨(p, Except.ok c), h1, rfl⟩)
      simp only [childAt, hpi, if_false]
      exact ih hnd.2 h1

/-- ordered assembly: with every position executed once and no failure, the new vector has `n`
    elements and element `i` is the child executed for position `i` -/
theorem assemble_spec (n : Nat) (rs : List (Nat × Except ε ι))
    (hperm : (rs.map Prod.fst).Perm (List.range n)) (hne : errorsOf rs = []) :
    (assemble n rs).length = n ∧
      ∀ i (h : i < (assemble n rs).length), (i, Except.ok (assemble n rs)[i]) ∈ rs := by
  have hnd : (rs.map Prod.fst).Nodup := hperm.nodup_iff.mpr List.nodup_range
  have hall : ∀ i, i < n → ∃ c, (i, Except.ok c) ∈ rs ∧ childAt rs i = some c := by
    intro i hi
    have : i ∈ rs.map Prod.fst := hperm.mem_iff.mpr (List.mem_range.mpr hi)
    obtain ⟨⟨p, r⟩, hm, rfl⟩ := List.mem_map.mp this
    obtain ⟨c, rfl⟩ := errorsOf_nil_all_ok rs hne _ _ hm
    exact ⟨c, hm, childAt_of_mem rs hnd _ c hm⟩
  -- filterMap over range n with a function that is `some` on all of range n
  have key : ∀ m, m ≤ n → ((List.range m).filterMap (childAt rs)).length = m ∧
      ∀ i (h : i < ((List.range m).filterMap (childAt rs)).length),
        (i, Except.ok ((List.range m).filterMap (childAt rs))[i]) ∈ rs := by
    intro m hm
    induction m with
    | zero => simp
    | succ m ih =>
      obtain ⟨ih1, ih2⟩ := ih (by omega)
      obtain ⟨c, hc1, hc2⟩ := hall m (by omega)
      rw [List.range_succ, List.filterMap_append]
      simp only [List.filterMap_cons, hc2, List.filterMap_nil, List.length_append, ih1,
        List.length_singleton, true_and]
      intro i hi
      by_cases him : i < m
      · rw [List.getElem_append_left (by rw [ih1]; exact him)]
        exact ih2 i (by rw [ih1]; exact him)
      · have : i = m := by omega
        subst this
        rw [List.getElem_append_right (by rw [ih1]; exact Nat.le_refl _)]
        simpa [ih1] using hc1
  exact key n (Nat.le_refl n)

end Uec.Generation
