/-
  C15 helper: every (Mathlib) linear order is a lawful element type in the sense of
  `Uec.Elem.Lawful` — so the C15 theorems hold "for any linear order".
-/
import Uec.Model.Results
import Mathlib.Order.Defs.LinearOrder
import Mathlib.Order.Compare
namespace Uec

/-- a linear order seen through Rust's three comparison traits -/
def Elem.ofLinearOrder (T : Type) [LinearOrder T] : Elem T :=
  ⟨compare, fun a b => some (compare a b), fun a b => decide (a = b)⟩

theorem Elem.ofLinearOrder_lawful (T : Type) [LinearOrder T] : (Elem.ofLinearOrder T).Lawful where
  pcmp_eq _ _ := rfl
  eq_iff a b := by simp [Elem.ofLinearOrder]
  cmp_eq_iff a b := by simp [Elem.ofLinearOrder]
  swap a b := by
    simp only [Elem.ofLinearOrder]
    rcases lt_trichotomy a b with h | h | h
    · rw [compare_lt_iff_lt.mpr h, compare_gt_iff_gt.mpr h]; rfl
    · subst h; simp
    · rw [compare_gt_iff_gt.mpr h, compare_lt_iff_lt.mpr h]; rfl
  trans a b c := by
    simp only [Elem.ofLinearOrder, compare_lt_iff_lt]
    exact lt_trans

end Uec
