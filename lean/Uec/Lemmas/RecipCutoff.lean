/-
  General rounding bound for the length-scaled rates (C12): for every 1 ≤ n < 2²⁴ the cut-off of
  fl32(1/fl32(n)) on the 2⁻²⁴ grid satisfies 2²⁴ ≤ n·cutoff < 2²⁴ + 2n.
-/
import Uec.Lemmas.FloatRecip
import Uec.Lemmas.LinDist
import Mathlib.Tactic.IntervalCases
namespace Uec.Lin
open Uec

theorem ceil_mul (a B : Nat) (hB : 0 < B) : (a * B + B - 1) / B = a := by
  apply Nat.div_eq_of_lt_le
  · omega
  · rw [Nat.add_mul, Nat.one_mul]; omega

theorem ceil_scale (M P Q : Nat) (hP : 0 < P) (hQ : 0 < Q) :
    (M * Q + P * Q - 1) / (P * Q) = (M + P - 1) / P := by
  have h1 := Nat.div_mul_le_self (M + P - 1) P
  have h2 := Nat.lt_div_mul_add (a := M + P - 1) hP
  generalize (M + P - 1) / P = c at *
  apply Nat.div_eq_of_lt_le
  · -- c * (P*Q) ≤ M*Q + P*Q - 1
    have : c * P * Q ≤ (M + P - 1) * Q := Nat.mul_le_mul_right Q h1
    have e : (M + P - 1) * Q = M * Q + P * Q - Q := by
      rw [Nat.sub_mul, Nat.add_mul, Nat.one_mul]
    rw [Nat.mul_assoc] at this
    have hPQ : Q ≤ P * Q := Nat.le_mul_of_pos_left Q hP
    omega
  · -- M*Q + P*Q - 1 < (c+1) * (P*Q)
    have h3 : M + P ≤ (c + 1) * P := by rw [Nat.add_mul, Nat.one_mul]; omega
    have : (M + P) * Q ≤ (c + 1) * P * Q := Nat.mul_le_mul_right Q h3
    rw [Nat.add_mul, Nat.mul_assoc] at this
    have hPQ : 0 < P * Q := Nat.mul_pos hP hQ
    omega

theorem recip_cutoff (n : Nat) (h0 : n ≠ 0) (hn : n < 2 ^ 24) :
    2 ^ 24 ≤ n * cutoff (F32.recipOfNat n) ∧ n * cutoff (F32.recipOfNat n) < 2 ^ 24 + 2 * n := by
  obtain ⟨hj, hnj, hj0, hjn⟩ := F32.recipExp_spec n h0 hn
  obtain ⟨m1, m2, b1, b2⟩ := F32.recip_mant n h0 hn
  have hdec := F32.decode_recipOfNat n h0 hn
  unfold cutoff F32.cutoff
  rw [hdec]
  simp only []
  generalize F32.recipExp n = j at *
  generalize F32.divRne (2 ^ (23 + j)) n = M at *
  have hpos : ¬ (((M * 2 ^ (126 - j) : Nat) : Int) ≤ 0) := by
    have : 0 < M * 2 ^ (126 - j) := Nat.mul_pos (by omega) (Nat.two_pow_pos _)
    omega
  rw [if_neg hpos, Int.toNat_natCast]
  have hn0 : 0 < n := Nat.pos_of_ne_zero h0
  rcases Nat.eq_zero_or_pos j with hz | hjp
  · -- j = 0: n = 1, M = 2²³, the rate is exactly 1.0
    subst hz
    have := hj0 rfl
    subst this
    have hM : M = 2 ^ 23 := by omega
    subst hM
    have e : (2:Nat) ^ 23 * 2 ^ (126 - 0) = 2 ^ 24 * 2 ^ 125 := by
      rw [← Nat.pow_add, ← Nat.pow_add]
    rw [e, ceil_mul _ _ (Nat.two_pow_pos 125)]
    simp
  · -- j ≥ 1: the cut-off is ⌈M / 2^(j-1)⌉
    have e125 : (2:Nat) ^ 125 = 2 ^ (j - 1) * 2 ^ (126 - j) := by rw [← Nat.pow_add]; congr 1; omega
    rw [e125, ceil_scale _ _ _ (Nat.two_pow_pos _) (Nat.two_pow_pos _)]
    have hjn' := hjn hjp
    generalize hX : M * n = X at b1 b2
    -- facts that need a multiplication by `n` (everything else is linear once `j` is a numeral)
    have key : ∀ c P : Nat, M ≤ c * P → c * P < M + P → X ≤ (n * c) * P ∧ (n * c) * P < X + n * P := by
      intro c P h1 h2
      constructor
      · rw [← hX, Nat.mul_comm M n, Nat.mul_assoc]; exact Nat.mul_le_mul_left n h1
      · have := Nat.mul_lt_mul_of_pos_left h2 hn0
        rw [← hX, Nat.mul_comm M n, Nat.mul_assoc, ← Nat.mul_add]; exact this
    have hpow : n = 2 ^ j → X = M * 2 ^ j := fun h => by rw [← hX, ← h]
    have hP : 0 < 2 ^ (j - 1) := Nat.two_pow_pos _
    have c1 := Nat.div_mul_le_self (M + 2 ^ (j - 1) - 1) (2 ^ (j - 1))
    have c2 := Nat.lt_div_mul_add (a := M + 2 ^ (j - 1) - 1) hP
    -- the clip at 2²⁴ is not active
    have hmin : min ((M + 2 ^ (j - 1) - 1) / 2 ^ (j - 1)) (2 ^ 24) = (M + 2 ^ (j - 1) - 1) / 2 ^ (j - 1) := by
      apply Nat.min_eq_left
      have : (M + 2 ^ (j - 1) - 1) / 2 ^ (j - 1) * 2 ^ (j - 1) < (2 ^ 24 + 1) * 2 ^ (j - 1) := by
        rw [Nat.add_mul, Nat.one_mul]
        have := Nat.mul_le_mul_right (2 ^ (j - 1)) m2
        omega
      have := Nat.lt_of_mul_lt_mul_right this
      omega
    rw [hmin]
    obtain ⟨k1, k2⟩ := key ((M + 2 ^ (j - 1) - 1) / 2 ^ (j - 1)) (2 ^ (j - 1)) (by omega) (by omega)
    generalize n * ((M + 2 ^ (j - 1) - 1) / 2 ^ (j - 1)) = k at *
    clear c1 c2 hmin key hdec hpos
    interval_cases j <;> simp only [Nat.reducePow, Nat.reduceSub, Nat.reduceAdd] at * <;> omega

end Uec.Lin
