/-
  Helper lemmas for C18: the collection loop against its Spec, over all answer sequences
  (`Reach`) and over explicit tapes (`run`).
-/
import Uec.Model.Gen
import Uec.Lemmas.RandRun
namespace Uec.Gen
open Uec Uec.Rand
variable {α : Type}

/-- the code's accumulate-and-push loop is the Spec's `n` successive draws appended to `acc` -/
theorem collectLoop_eq (elem : Rand α) (n : Nat) (acc : List α) :
    collectLoop elem n acc = Rand.bind (specCollect elem n) (fun xs => Rand.pure (acc ++ xs)) := by
  induction n generalizing acc with
  | zero => simp [collectLoop, specCollect]
  | succ n ih =>
    simp only [collectLoop, specCollect, bind_eq, pure_eq, ih, bind_assoc, bind_pure_left,
      List.append_assoc, List.singleton_append]

theorem sample_eq_spec (g : Generator (Rand α)) :
    g.sample = specCollect g.elementGenerator g.size := by
  simp [Generator.sample, collectLoop_eq, bind_pure_right]

theorem specCollect_succ (elem : Rand α) (n : Nat) :
    specCollect elem (n + 1) =
      Rand.bind elem (fun x => Rand.bind (specCollect elem n) (fun xs => Rand.pure (x :: xs))) := rfl

/-- all answer sequences: the results of `n` draws are exactly the lists of `n` results of one draw -/
theorem reach_specCollect (elem : Rand α) (n : Nat) (xs : List α) :
    Reach (specCollect elem n) xs ↔ xs.length = n ∧ ∀ x ∈ xs, Reach elem x := by
  induction n generalizing xs with
  | zero =>
    simp only [specCollect, pure_eq, reach_pure]
    constructor
    · rintro rfl; simp
    · rintro ⟨h, -⟩; exact (List.eq_nil_of_length_eq_zero h).symm
  | succ n ih =>
    simp only [specCollect_succ, reach_bind, reach_pure, ih]
    constructor
    · rintro ⟨x, hx, ys, ⟨hl, hys⟩, rfl⟩
      refine ⟨by simp [hl], ?_⟩
      intro z hz
      rcases List.mem_cons.mp hz with rfl | hz
      · exact hx
      · exact hys z hz
    · rintro ⟨hl, h⟩
      cases xs with
      | nil => simp at hl
      | cons x ys =>
        refine ⟨x, h x (by simp), ys, ⟨by simpa using hl, fun z hz => h z (by simp [hz])⟩, rfl⟩

/-- explicit tapes: the tape consumed by `n` draws is the concatenation of `n` consecutive
    segments, the `i`-th element is what the element generator makes of the `i`-th segment, and
    nothing else is read. -/
theorem run_specCollect (elem : Rand α) (n : Nat) (t r : List Ans) (xs : List α) :
    run (specCollect elem n) t = some (xs, r) ↔
      ∃ segs : List (List Ans), segs.length = n ∧ t = segs.flatten ++ r ∧
        Consumes elem segs xs := by
  induction n generalizing t xs with
  | zero =>
    simp only [specCollect, pure_eq, run_pure, Option.some.injEq, Prod.mk.injEq]
    constructor
    · rintro ⟨rfl, rfl⟩; exact ⟨[], rfl, by simp, .nil⟩
    · rintro ⟨segs, hl, ht, hf⟩
      have : segs = [] := List.eq_nil_of_length_eq_zero hl
      subst this
      cases hf
      simp [ht]
  | succ n ih =>
    simp only [specCollect_succ, run_bind]
    constructor
    · intro h
      cases h1 : run elem t with
      | none => simp [h1] at h
      | some p1 =>
        obtain ⟨x, t1⟩ := p1
        simp only [h1, Option.bind_some] at h
        cases h2 : run (specCollect elem n) t1 with
        | none => simp [h2] at h
        | some p2 =>
          obtain ⟨ys, t2⟩ := p2
          simp only [h2, Option.bind_some, run_pure, Option.some.injEq, Prod.mk.injEq] at h
          obtain ⟨rfl, rfl⟩ := h
          obtain ⟨s, hs, hrs⟩ := run_split elem t t1 x h1
          obtain ⟨segs, hl, ht1, hf⟩ := (ih t1 ys).mp h2
          exact ⟨s :: segs, by simp [hl], by simp [hs, ht1], .cons hrs hf⟩
    · rintro ⟨segs, hl, ht, hf⟩
      cases hf with
      | nil => simp at hl
      | @cons s x segs' ys hs hf' =>
        have h1 : run elem t = some (x, segs'.flatten ++ r) := by
          rw [ht]; simpa using run_append elem s (segs'.flatten ++ r) x hs
        have h2 : run (specCollect elem n) (segs'.flatten ++ r) = some (ys, r) :=
          (ih _ ys).mpr ⟨segs', by simpa using hl, rfl, hf'⟩
        simp [h1, h2]

/-! ### choices -/

theorem nonZero_eq_some (n m : Nat) : nonZero n = some m ↔ n ≠ 0 ∧ m = n := by
  unfold nonZero; split <;> simp_all [eq_comm]

theorem OneOfCloning.new_ok_iff (c : List α) (d : OneOfCloning α) :
    OneOfCloning.new c = .ok d ↔ c ≠ [] ∧ d = ⟨c, c.length, c.length⟩ := by
  unfold OneOfCloning.new nonZero uniformNew
  cases c with
  | nil => simp
  | cons x xs => simp [eq_comm]

theorem OneOfCloning.new_err_iff (c : List α) (e : ChoiceErr) :
    OneOfCloning.new c = .error e ↔ c = [] := by
  unfold OneOfCloning.new nonZero uniformNew
  cases c with
  | nil => simp
  | cons x xs => simp

theorem Choose.new_ok_iff (c : List α) (d : Choose α) :
    Choose.new c = .ok d ↔ c ≠ [] ∧ d = ⟨c, c.length, c.length⟩ := by
  unfold Choose.new nonZero
  cases c with
  | nil => simp
  | cons x xs => simp [eq_comm]

theorem Choose.new_err_iff (c : List α) (e : ChoiceErr) :
    Choose.new c = .error e ↔ c = [] := by
  unfold Choose.new nonZero
  cases c with
  | nil => simp
  | cons x xs => simp

/-- what a successfully built distribution looks like, whatever the flavour -/
inductive BuiltFrom (c : List α) : Dist α → Prop where
  | oneOf : BuiltFrom c (.oneOfCloning ⟨c, c.length, c.length⟩)
  | chooseCloning : BuiltFrom c (.chooseCloning ⟨c, c.length, c.length⟩)
  | choose : BuiltFrom c (.choose ⟨c, c.length, c.length⟩)

theorem mkOneOfCloning_ok (c : List α) (d : Dist α) :
    mkOneOfCloning c = .ok d ↔ c ≠ [] ∧ d = .oneOfCloning ⟨c, c.length, c.length⟩ := by
  unfold mkOneOfCloning
  cases h : OneOfCloning.new c with
  | error e => simp [(OneOfCloning.new_err_iff c e).mp h]
  | ok d' =>
    obtain ⟨h1, rfl⟩ := (OneOfCloning.new_ok_iff c d').mp h
    simp [h1, eq_comm]

theorem mkChooseCloning_ok (c : List α) (d : Dist α) :
    mkChooseCloning c = .ok d ↔ c ≠ [] ∧ d = .chooseCloning ⟨c, c.length, c.length⟩ := by
  unfold mkChooseCloning
  cases h : Choose.new c with
  | error e => simp [(Choose.new_err_iff c e).mp h]
  | ok d' =>
    obtain ⟨h1, rfl⟩ := (Choose.new_ok_iff c d').mp h
    simp [h1, eq_comm]

theorem mkChooseRef_ok (c : List α) (d : Dist α) :
    mkChooseRef c = .ok d ↔ c ≠ [] ∧ d = .choose ⟨c, c.length, c.length⟩ := by
  unfold mkChooseRef
  cases h : Choose.new c with
  | error e => simp [(Choose.new_err_iff c e).mp h]
  | ok d' =>
    obtain ⟨h1, rfl⟩ := (Choose.new_ok_iff c d').mp h
    simp [h1, eq_comm]

theorem mkOneOfCloning_err (c : List α) (e : ChoiceErr) : mkOneOfCloning c = .error e ↔ c = [] := by
  unfold mkOneOfCloning
  cases h : OneOfCloning.new c with
  | error e' => simp [(OneOfCloning.new_err_iff c e').mp h]
  | ok d' => simp [((OneOfCloning.new_ok_iff c d').mp h).1]

theorem mkChooseCloning_err (c : List α) (e : ChoiceErr) : mkChooseCloning c = .error e ↔ c = [] := by
  unfold mkChooseCloning
  cases h : Choose.new c with
  | error e' => simp [(Choose.new_err_iff c e').mp h]
  | ok d' => simp [((Choose.new_ok_iff c d').mp h).1]

theorem mkChooseRef_err (c : List α) (e : ChoiceErr) : mkChooseRef c = .error e ↔ c = [] := by
  unfold mkChooseRef
  cases h : Choose.new c with
  | error e' => simp [(Choose.new_err_iff c e').mp h]
  | ok d' => simp [((Choose.new_ok_iff c d').mp h).1]

/-- the sample of a distribution built from `c`, as a tree: one request, answer `i` ↦ member `i` -/
theorem BuiltFrom.sample_eq {c : List α} {d : Dist α} (h : BuiltFrom c d) :
    ∃ p : Prim, (p = .uniform c.length ∨ p = .chooseDistr c.length) ∧
      d.sample = Rand.ask p (fun a => match a with
        | .nat idx => match c[idx]? with
          | some v => Rand.pure (.value idx v)
          | none => Rand.pure .panic
        | _ => Rand.pure .panic) := by
  cases h with
  | oneOf =>
    refine ⟨.uniform c.length, .inl rfl, ?_⟩
    simp only [Dist.sample, OneOfCloning.sample, bind_eq, req_def, bind_ask, bind_pure_left, pure_eq]
    congr 1
  | chooseCloning =>
    refine ⟨.chooseDistr c.length, .inr rfl, ?_⟩
    simp only [Dist.sample, Choose.sample, bind_eq, req_def, bind_ask, bind_pure_left, pure_eq]
    congr 1
  | choose =>
    refine ⟨.chooseDistr c.length, .inr rfl, ?_⟩
    simp only [Dist.sample, Choose.sample, bind_eq, req_def, bind_ask, bind_pure_left, pure_eq]
    congr 1

end Uec.Gen
