/-
  The vector model seen from the top: `Stack.ofTop m l` is the stack with maximum `m` whose
  elements are `l`, top first.  Every Rust-shaped operation of `Uec.Stack` is characterised on
  `ofTop` (consequences of the `_rev` lemmas), so that proofs about instructions never see `reverse`.
-/
import Uec.Lemmas.Stack
namespace Uec
namespace Stack
variable {α : Type}

theorem eq_ofTop (s : Stack α) : s = ofTop s.max s.tops := by
  cases s; simp [ofTop, tops]

@[simp] theorem ofTop_max (m : Nat) (l : List α) : (ofTop m l).max = m := rfl
@[simp] theorem ofTop_tops (m : Nat) (l : List α) : (ofTop m l).tops = l := by simp [ofTop, tops]
@[simp] theorem ofTop_size (m : Nat) (l : List α) : (ofTop m l).size = l.length := by simp [ofTop, size]
@[simp] theorem ofTop_isEmpty (m : Nat) (l : List α) : (ofTop m l).isEmpty = l.isEmpty := by
  cases l <;> simp [ofTop, isEmpty]
@[simp] theorem ofTop_isFull (m : Nat) (l : List α) : (ofTop m l).isFull = (l.length == m) := by
  simp [isFull]
theorem ofTop_inj {m m' : Nat} {l l' : List α} : ofTop m l = ofTop m' l' ↔ m = m' ∧ l = l' := by
  simp [ofTop]
@[simp] theorem ofTop_setValuesNil (m : Nat) (l : List α) :
    ({ ofTop m l with values := [] } : Stack α) = ofTop m [] := rfl

@[simp] theorem ofTop_top (m : Nat) (l : List α) :
    (ofTop m l).top = match l with
      | [] => .error (.underflow 1 0)
      | x :: _ => .ok x := top_rev m l
@[simp] theorem ofTop_top2 (m : Nat) (l : List α) :
    (ofTop m l).top2 = match l with
      | x :: y :: _ => .ok (x, y)
      | _ => .error (.underflow 2 l.length) := top2_rev m l
@[simp] theorem ofTop_top3 (m : Nat) (l : List α) :
    (ofTop m l).top3 = match l with
      | x :: y :: z :: _ => .ok (x, y, z)
      | _ => .error (.underflow 3 l.length) := top3_rev m l
@[simp] theorem ofTop_pop (m : Nat) (l : List α) :
    (ofTop m l).pop = match l with
      | [] => .error (.underflow 1 0)
      | x :: r => .ok (x, ofTop m r) := pop_rev m l
@[simp] theorem ofTop_pop2 (m : Nat) (l : List α) :
    (ofTop m l).pop2 = match l with
      | x :: y :: r => .ok ((x, y), ofTop m r)
      | _ => .error (.underflow 2 l.length) := pop2_rev m l
@[simp] theorem ofTop_pop3 (m : Nat) (l : List α) :
    (ofTop m l).pop3 = match l with
      | x :: y :: z :: r => .ok ((x, y, z), ofTop m r)
      | _ => .error (.underflow 3 l.length) := pop3_rev m l
@[simp] theorem ofTop_discard (m n : Nat) (l : List α) :
    (ofTop m l).discard n =
      if n > l.length then .error (.underflow n l.length) else .ok (ofTop m (l.drop n)) :=
  discard_rev m n l
@[simp] theorem ofTop_push (m : Nat) (l : List α) (v : α) :
    (ofTop m l).push v = if l.length ≥ m then .error .overflow else .ok (ofTop m (v :: l)) :=
  push_rev m l v
@[simp] theorem ofTop_pushMany (m : Nat) (l vs : List α) :
    (ofTop m l).pushMany vs =
      if vs.length + l.length > m then .error .overflow else .ok (ofTop m (vs ++ l)) :=
  pushMany_rev m l vs

end Stack
end Uec
