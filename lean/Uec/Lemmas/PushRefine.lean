/-
  The refinement: on every state whose stacks are within their limits, the code-shaped `Impl.perform`
  equals the signature-driven `Spec.perform`, for every instruction, block and input variable.
-/
import Uec.Lemmas.Push
set_option linter.unusedSimpArgs false
namespace Uec
open Stack

/-- every stack holds at most its configured maximum -/
structure SizesOk (s : PState) : Prop where
  exec : s.exec.size ≤ s.exec.max
  int : s.int.size ≤ s.int.max
  float : s.float.size ≤ s.float.max
  bool : s.bool.size ≤ s.bool.max

theorem sizesOk_mkS {me mi mf mb : Nat} {le : List Prog} {li : List Int64} {lf : List UInt64} {lb : List Bool}
    {inp : List (String × Lit)} {out : List OutTok} {ms : Nat} :
    SizesOk (mkS me mi mf mb le li lf lb inp out ms) ↔
      le.length ≤ me ∧ li.length ≤ mi ∧ lf.length ≤ mf ∧ lb.length ≤ mb := by
  constructor
  · intro h; exact ⟨by simpa [mkS] using h.exec, by simpa [mkS] using h.int, by simpa [mkS] using h.float,
      by simpa [mkS] using h.bool⟩
  · intro ⟨a, b, c, d⟩; exact ⟨by simpa [mkS] using a, by simpa [mkS] using b, by simpa [mkS] using c,
      by simpa [mkS] using d⟩

section
variable (me mi mf mb : Nat) (le : List Prog) (li : List Int64) (lf : List UInt64) (lb : List Bool)
    (inp : List (String × Lit)) (out : List OutTok) (ms : Nat)
local notation "S" => mkS me mi mf mb le li lf lb inp out ms

theorem performInt_eq (op : IntI) (he : le.length ≤ me) (hi : li.length ≤ mi) (hf : lf.length ≤ mf)
    (hb : lb.length ≤ mb) :
    Impl.performInt op S = Spec.performInstr (.int op) S := by
  cases op <;> simp only [Impl.performInt, Spec.performInstr, Spec.sigInt]
  case pop => exact popInt_spec ..
  case push v => exact pushInt_spec ..
  case dup => exact dupInt_spec ..
  case swap => exact swapInt_spec _ _ _ _ _ _ _ _ _ _ _ hi
  case isEmpty => exact isEmpty_spec _ _ _ _ _ _ _ _ _ _ _ intL _ (by simp [mkS, intL, Spec.tops])
  case stackDepth => exact stackDepth_spec _ _ _ _ _ _ _ _ _ _ _ intL _ (by simp [mkS, intL, Spec.tops])
  case flush => exact flushInt_spec ..
  case print => exact printInt_spec _ _ _ _ _ _ _ _ _ _ _ false
  case printLn => exact printInt_spec _ _ _ _ _ _ _ _ _ _ _ true
  case clamp => exact clamp_spec _ _ _ _ _ _ _ _ _ _ _ hi
  case fromBoolean => exact fromBoolean_spec _ _ _ _ _ _ _ _ _ _ _ hi hb
  case fromFloatApprox => exact fromFloatApprox_spec _ _ _ _ _ _ _ _ _ _ _ hi hf
  case isZero | isPositive | isNegative | isEven | isOdd => exact intPred1_spec _ _ _ _ _ _ _ _ _ _ _ _ hi hb
  case equal | notEqual | lessThan | lessThanEqual | greaterThan | greaterThanEqual =>
    exact intPred2_spec _ _ _ _ _ _ _ _ _ _ _ _ hi hb
  case negate | abs | inc | dec | square => exact intUnary_spec _ _ _ _ _ _ _ _ _ _ _ _ hi
  case min | max | add | subtract | multiply | protectedDivide | mod | power =>
    exact intBinary_spec _ _ _ _ _ _ _ _ _ _ _ _ hi

theorem performFloat_eq (op : FloatI) (hi : li.length ≤ mi) (hf : lf.length ≤ mf)
    (hb : lb.length ≤ mb) :
    Impl.performFloat op S = Spec.performInstr (.float op) S := by
  cases op <;> simp only [Impl.performFloat, Spec.performInstr, Spec.sigFloat]
  case pop => exact popFloat_spec ..
  case push v => exact pushFloat_spec ..
  case dup => exact dupFloat_spec ..
  case swap => exact swapFloat_spec _ _ _ _ _ _ _ _ _ _ _ hf
  case isEmpty => exact isEmpty_spec _ _ _ _ _ _ _ _ _ _ _ floatL _ (by simp [mkS, floatL, Spec.tops])
  case stackDepth => exact stackDepth_spec _ _ _ _ _ _ _ _ _ _ _ floatL _ (by simp [mkS, floatL, Spec.tops])
  case flush => exact flushFloat_spec ..
  case print => exact printFloat_spec _ _ _ _ _ _ _ _ _ _ _ false
  case printLn => exact printFloat_spec _ _ _ _ _ _ _ _ _ _ _ true
  case fromIntApprox => exact fromIntApprox_spec _ _ _ _ _ _ _ _ _ _ _ hi hf
  case add | subtract | multiply | protectedDivide => exact floatBinary_spec _ _ _ _ _ _ _ _ _ _ _ _ hf
  case equal | notEqual | greaterThan | lessThan | greaterThanOrEqual | lessThanOrEqual =>
    exact floatPred2_spec _ _ _ _ _ _ _ _ _ _ _ _ hf hb

theorem performBool_eq (op : BoolI) (hi : li.length ≤ mi) (hb : lb.length ≤ mb) :
    Impl.performBool op S = Spec.performInstr (.bool op) S := by
  cases op <;> simp only [Impl.performBool, Spec.performInstr, Spec.sigBool]
  case pop => exact popBool_spec ..
  case push v => exact pushBool_spec ..
  case dup => exact dupBool_spec ..
  case swap => exact swapBool_spec _ _ _ _ _ _ _ _ _ _ _ hb
  case isEmpty => exact isEmpty_spec _ _ _ _ _ _ _ _ _ _ _ boolL _ (by simp [mkS, boolL, Spec.tops])
  case stackDepth => exact stackDepth_spec _ _ _ _ _ _ _ _ _ _ _ boolL _ (by simp [mkS, boolL, Spec.tops])
  case flush => exact flushBool_spec ..
  case print => exact printBool_spec _ _ _ _ _ _ _ _ _ _ _ false
  case println => exact printBool_spec _ _ _ _ _ _ _ _ _ _ _ true
  case fromInt => exact fromInt_spec _ _ _ _ _ _ _ _ _ _ _ hi hb
  case not => exact boolUnary_spec _ _ _ _ _ _ _ _ _ _ _ _ hb
  case and | or | xor | implies => exact boolBinary_spec _ _ _ _ _ _ _ _ _ _ _ _ hb

theorem performExec_eq (op : ExecI) (he : le.length ≤ me) :
    Impl.performExec op S = Spec.performInstr (.exec op) S := by
  cases op <;> simp only [Impl.performExec, Spec.performInstr, Spec.sigExec]
  case pop => exact popExec_spec ..
  case dup => exact dupExec_spec ..
  case dupBlock => exact dupExec_spec ..
  case swap => exact swapExec_spec _ _ _ _ _ _ _ _ _ _ _ he
  case isEmpty => exact isEmpty_spec _ _ _ _ _ _ _ _ _ _ _ execL _ (by simp [mkS, execL, Spec.tops])
  case stackDepth => exact stackDepth_spec _ _ _ _ _ _ _ _ _ _ _ execL _ (by simp [mkS, execL, Spec.tops])
  case flush => exact flushExec_spec ..
  case noop => simp [Spec.apply, Spec.takeN, Spec.noRoom, Spec.withTops, Spec.tops, mkS]
  case when => exact when_spec ..
  case «unless» => exact unless_spec ..
  case ifElse => exact ifElse_spec _ _ _ _ _ _ _ _ _ _ _ he

theorem perform_eq_mkS (p : Prog) (he : le.length ≤ me) (hi : li.length ≤ mi) (hf : lf.length ≤ mf)
    (hb : lb.length ≤ mb) :
    Impl.perform p S = Spec.perform p S := by
  cases p with
  | execPush q => simp only [Impl.perform, Spec.perform]; exact pushExec_spec ..
  | block ps => simp only [Impl.perform, Spec.perform]; exact block_spec ..
  | instr i =>
    simp only [Impl.perform, Spec.perform]
    cases i with
    | int op => exact performInt_eq _ _ _ _ _ _ _ _ _ _ _ op he hi hf hb
    | float op => exact performFloat_eq _ _ _ _ _ _ _ _ _ _ _ op hi hf hb
    | bool op => exact performBool_eq _ _ _ _ _ _ _ _ _ _ _ op hi hb
    | exec op => exact performExec_eq _ _ _ _ _ _ _ _ _ _ _ op he
    | inputVar name =>
      simp only [Impl.performInstr, Spec.performInstr, Impl.withInput]
      have hinp : (S).inputs = inp := rfl
      rw [hinp]
      cases Impl.lookup inp name with
      | none => rfl
      | some v =>
        cases v with
        | int v => exact pushInt_spec ..
        | float v => exact pushFloat_spec ..
        | bool v => exact pushBool_spec ..
    | printSpace => exact out_spec ..
    | printNewline => exact out_spec ..
    | printPeriod => exact out_spec ..
    | printString str => exact out_spec ..
end

/-- **Refinement.** -/
theorem perform_eq_spec (p : Prog) (s : PState) (h : SizesOk s) :
    Impl.perform p s = Spec.perform p s := by
  rw [PState.eq_mkS s] at h ⊢
  obtain ⟨he, hi, hf, hb⟩ := sizesOk_mkS.mp h
  exact perform_eq_mkS _ _ _ _ _ _ _ _ _ _ _ p he hi hf hb

end Uec
