import Uec.Model.StackSpec
namespace Uec
open Stack
variable {α : Type}

theorem Stack.exists_rev (s : Stack α) : ∃ l : List α, s = ⟨s.max, l.reverse⟩ :=
  ⟨s.values.reverse, by simp⟩

theorem pop_rev (m : Nat) (l : List α) :
    (Stack.mk m l.reverse).pop = match l with
      | [] => .error (.underflow 1 0)
      | x :: r => .ok (x, ⟨m, r.reverse⟩) := by
  cases l <;> simp [Stack.pop]

theorem top_rev (m : Nat) (l : List α) :
    (Stack.mk m l.reverse).top = match l with
      | [] => .error (.underflow 1 0)
      | x :: _ => .ok x := by
  cases l <;> simp [Stack.top]

theorem top2_rev (m : Nat) (l : List α) :
    (Stack.mk m l.reverse).top2 = match l with
      | x :: y :: _ => .ok (x, y)
      | _ => .error (.underflow 2 l.length) := by
  match l with
  | [] => simp [Stack.top2, Stack.size]
  | [x] => simp [Stack.top2, Stack.size]
  | x :: y :: r => simp [Stack.top2, Stack.size, Stack.top]

theorem top3_rev (m : Nat) (l : List α) :
    (Stack.mk m l.reverse).top3 = match l with
      | x :: y :: z :: _ => .ok (x, y, z)
      | _ => .error (.underflow 3 l.length) := by
  match l with
  | [] => simp [Stack.top3, Stack.size]
  | [x] => simp [Stack.top3, Stack.size]
  | [x, y] => simp [Stack.top3, Stack.size]
  | x :: y :: z :: r => simp [Stack.top3, Stack.size, Stack.top]

theorem pop2_rev (m : Nat) (l : List α) :
    (Stack.mk m l.reverse).pop2 = match l with
      | x :: y :: r => .ok ((x, y), ⟨m, r.reverse⟩)
      | _ => .error (.underflow 2 l.length) := by
  match l with
  | [] => simp [Stack.pop2, Stack.size]
  | [x] => simp [Stack.pop2, Stack.size]
  | x :: y :: r =>
    have h := pop_rev m (x :: y :: r)
    have h2 := pop_rev m (y :: r)
    simp only [] at h h2
    rw [Stack.pop2, if_pos (by simp [Stack.size]), h]; simp only [h2]

theorem pop3_rev (m : Nat) (l : List α) :
    (Stack.mk m l.reverse).pop3 = match l with
      | x :: y :: z :: r => .ok ((x, y, z), ⟨m, r.reverse⟩)
      | _ => .error (.underflow 3 l.length) := by
  match l with
  | [] => simp [Stack.pop3, Stack.size]
  | [x] => simp [Stack.pop3, Stack.size]
  | [x, y] => simp [Stack.pop3, Stack.size]
  | x :: y :: z :: r =>
    have h := pop_rev m (x :: y :: z :: r)
    have h2 := pop_rev m (y :: z :: r)
    have h3 := pop_rev m (z :: r)
    simp only [] at h h2 h3
    rw [Stack.pop3, if_pos (by simp [Stack.size]), h]; simp only [h2, h3]

theorem discardLoop_rev (m : Nat) : ∀ (n : Nat) (l : List α), n ≤ l.length →
    Stack.discardLoop n (Stack.mk m l.reverse) = .ok ⟨m, (l.drop n).reverse⟩
  | 0, l, _ => by simp [Stack.discardLoop]
  | n + 1, [], h => by simp at h
  | n + 1, x :: r, h => by
    have hp := pop_rev m (x :: r)
    simp only [] at hp
    simp only [Stack.discardLoop, hp]
    simpa using discardLoop_rev m n r (by simpa using h)

theorem discard_rev (m : Nat) (n : Nat) (l : List α) :
    (Stack.mk m l.reverse).discard n =
      if n > l.length then .error (.underflow n l.length) else .ok ⟨m, (l.drop n).reverse⟩ := by
  unfold Stack.discard
  by_cases h : n > l.length
  · simp [Stack.size, h]
  · simp only [Stack.size, List.length_reverse, h, if_false]
    exact discardLoop_rev m n l (by omega)

theorem push_rev (m : Nat) (l : List α) (v : α) :
    (Stack.mk m l.reverse).push v =
      if l.length ≥ m then .error .overflow else .ok ⟨m, (v :: l).reverse⟩ := by
  simp [Stack.push, Stack.size]

theorem pushMany_rev (m : Nat) (l vs : List α) :
    (Stack.mk m l.reverse).pushMany vs =
      if vs.length + l.length > m then .error .overflow else .ok ⟨m, (vs ++ l).reverse⟩ := by
  simp [Stack.pushMany, Stack.size]

theorem tryExtend_rev (m : Nat) (l vs : List α) :
    (Stack.mk m l.reverse).tryExtend vs =
      if vs.length > m - l.length then (.error .overflow, ⟨m, l.reverse⟩, m - l.length + 1)
      else (.ok (), ⟨m, (vs ++ l).reverse⟩, vs.length) := by
  unfold Stack.tryExtend
  by_cases h : vs.length > m - l.length
  · have hd : vs.drop (m - l.length) ≠ [] := by
      intro h0; have := List.drop_eq_nil_iff.mp h0; omega
    simp only [h, if_true]
    cases hr : vs.drop (m - l.length) with
    | nil => exact absurd hr hd
    | cons a b =>
      simp only [List.length_reverse, hr, List.take_left', List.length_take]
      simp; omega
  · simp only [h, if_false]
    have : vs.drop (m - l.length) = [] := List.drop_eq_nil_iff.mpr (by omega)
    have ht : vs.take (m - l.length) = vs := List.take_of_length_le (by omega)
    simp [this, ht]

end Uec
