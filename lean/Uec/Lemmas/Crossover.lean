/-
  Helper lemmas for C10: the position-wise Spec `pick`, the exchange primitives, and the
  reduction of the index-driven `UniformXo` loop on `Crossover` genomes to a zip-shaped loop.
-/
import Uec.Lemmas.RandLin
namespace Uec.Lin
open Uec
open Uec.Rand (Reach)
variable {α : Type}

/-! ### `pick` -/

@[simp] theorem pick_nil_left (sel : Nat → Bool) (i : Nat) (b : List α) : pick sel i [] b = [] := by
  cases b <;> rfl

@[simp] theorem pick_nil_right (sel : Nat → Bool) (i : Nat) (a : List α) : pick sel i a [] = a := by
  cases a <;> rfl

@[simp] theorem pick_cons (sel : Nat → Bool) (i : Nat) (x y : α) (a b : List α) :
    pick sel i (x :: a) (y :: b) = (if sel i then y else x) :: pick sel (i + 1) a b := rfl

@[simp] theorem pick_length (sel : Nat → Bool) (i : Nat) (a b : List α) :
    (pick sel i a b).length = a.length := by
  induction a generalizing i b with
  | nil => simp
  | cons x a ih => cases b with
    | nil => simp
    | cons y b => simp [ih]

/-- The meaning of `pick`: position-wise choice. -/
theorem pick_getElem? (sel : Nat → Bool) (i j : Nat) (a b : List α) :
    (pick sel i a b)[j]? = if sel (i + j) = true ∧ j < a.length ∧ j < b.length then b[j]? else a[j]? := by
  induction a generalizing i j b with
  | nil => simp
  | cons x a ih => cases b with
    | nil => simp
    | cons y b =>
      cases j with
      | zero => by_cases h : sel i <;> simp [h]
      | succ j =>
        simp only [pick_cons, List.getElem?_cons_succ, ih, List.length_cons, Nat.add_lt_add_iff_right]
        have : i + 1 + j = i + (j + 1) := by omega
        rw [this]

theorem pick_congr {sel sel' : Nat → Bool} (i i' : Nat) (a b : List α)
    (h : ∀ j, j < a.length → sel (i + j) = sel' (i' + j)) : pick sel i a b = pick sel' i' a b := by
  induction a generalizing i i' b with
  | nil => simp
  | cons x a ih => cases b with
    | nil => simp
    | cons y b =>
      simp only [pick_cons]
      have h0 := h 0 (by simp)
      simp only [Nat.add_zero] at h0
      rw [h0, ih (i + 1) (i' + 1)]
      intro j hj
      have := h (j + 1) (by simp; omega)
      simpa [Nat.add_assoc, Nat.add_comm 1 j] using this

theorem pick_false (sel : Nat → Bool) (i : Nat) (a b : List α)
    (h : ∀ j, j < a.length → sel (i + j) = false) : pick sel i a b = a := by
  induction a generalizing i b with
  | nil => simp
  | cons x a ih => cases b with
    | nil => simp
    | cons y b =>
      have h0 := h 0 (by simp)
      simp only [Nat.add_zero] at h0
      simp only [pick_cons, h0]
      rw [ih]
      · simp
      · intro j hj
        have := h (j + 1) (by simp; omega)
        simpa [Nat.add_assoc, Nat.add_comm 1 j] using this

/-! ### the exchange primitives -/

theorem set_eq_pick (a b : List α) (i : Nat) (y : α) (hb : b[i]? = some y) (ha : i < a.length) :
    a.set i y = pick (fun j => j == i) 0 a b := by
  apply List.ext_getElem?
  intro j
  rw [pick_getElem?, List.getElem?_set]
  have hbl : i < b.length := by
    rcases Nat.lt_or_ge i b.length with h | h
    · exact h
    · rw [List.getElem?_eq_none h] at hb; cases hb
  by_cases hij : i = j
  · subst hij
    have := List.getElem?_eq_some_iff.mp hb
    obtain ⟨_, hy⟩ := this
    simp [ha, hbl, hy]
  · have : ¬ (j = i) := fun h => hij h.symm
    simp [hij, this]

theorem crossoverGene_eq_spec (a b : List α) (i : Nat) :
    crossoverGene a b i =
      ⟨(Spec.crossoverGene a b i).1, (Spec.crossoverGene a b i).2.1,
       if (Spec.crossoverGene a b i).2.2 then none else some (.geneAccess i a.length)⟩ := by
  unfold crossoverGene Spec.crossoverGene Spec.exchange
  by_cases ha : i < a.length
  · by_cases hb : i < b.length
    · have h1 : a[i]? = some a[i] := List.getElem?_eq_getElem ha
      have h2 : b[i]? = some b[i] := List.getElem?_eq_getElem hb
      rw [h1, h2]
      simp only [ha, hb, and_self, if_true]
      rw [set_eq_pick a b i _ h2 ha, set_eq_pick b a i _ h1 hb]
    · have h2 : b[i]? = none := List.getElem?_eq_none (by omega)
      rw [h2]; simp [ha, hb]
  · have h1 : a[i]? = none := List.getElem?_eq_none (by omega)
    rw [h1]; simp [ha]

theorem putRange_eq_pick (a b : List α) (s e : Nat) (hse : s ≤ e) (ha : e ≤ a.length) (hb : e ≤ b.length) :
    putRange a s ((b.drop s).take (e - s)) = pick (Spec.inSeg s e) 0 a b := by
  apply List.ext_getElem?
  intro j
  rw [pick_getElem?]
  unfold putRange Spec.inSeg
  have hl : ((b.drop s).take (e - s)).length = e - s := by simp; omega
  rw [hl]
  have hs : s + (e - s) = e := by omega
  rw [hs]
  by_cases h1 : j < s
  · have : ¬ (s ≤ j) := by omega
    simp [List.getElem?_append, h1, this, List.getElem?_take]
    omega
  · by_cases h2 : j < e
    · have hj1 : s ≤ j := by omega
      have hja : j < a.length := by omega
      have hjb : j < b.length := by omega
      simp only [Nat.zero_add, hj1, h2, decide_true, Bool.and_self, hja, hjb, and_self, if_true]
      rw [List.append_assoc, List.getElem?_append_right (by simp; omega)]
      simp only [List.length_take]
      have : min s a.length = s := by omega
      rw [this, List.getElem?_append_left (by simp; omega)]
      rw [List.getElem?_take, if_pos (by omega), List.getElem?_drop]
      congr 1; omega
    · have : ¬ (j < e) := h2
      simp only [Nat.zero_add, this, decide_false, Bool.and_false, Bool.false_eq_true, false_and, if_false]
      rw [List.append_assoc, List.getElem?_append_right (by simp; omega)]
      rw [List.getElem?_append_right (by simp; omega)]
      simp only [List.length_take, List.length_drop, List.getElem?_drop]
      congr 1; omega

theorem getRange_eq (l : List α) (s e : Nat) :
    getRange l s e = if s ≤ e ∧ e ≤ l.length then some ((l.drop s).take (e - s)) else none := rfl

theorem crossoverSegment_eq_spec (a b : List α) (s e : Nat) :
    crossoverSegment a b s e =
      ⟨(Spec.crossoverSegment a b s e).1, (Spec.crossoverSegment a b s e).2.1,
       if (Spec.crossoverSegment a b s e).2.2 then none else some (.geneAccessRange s e a.length)⟩ := by
  unfold crossoverSegment Spec.crossoverSegment Spec.exchange
  simp only [getRange_eq]
  by_cases hse : s ≤ e
  · by_cases ha : e ≤ a.length
    · by_cases hb : e ≤ b.length
      · simp only [hse, ha, hb, and_self, if_true]
        rw [putRange_eq_pick a b s e hse ha hb, putRange_eq_pick b a s e hse hb ha]
      · simp [hse, ha, hb]
    · simp [hse, ha]
  · simp [hse]

/-! ### the index-driven `UniformXo` loop is a zip-shaped loop -/

/-- zip-shaped form of the `UniformXo` loop on `Crossover` genomes: one coin per position, `true`
    exchanges the two genes. -/
def swapLoop : List α → List α → Rand (List α × List α)
  | x :: a, y :: b => do
    let c ← reqBool
    let r ← swapLoop a b
    pure (if c then (y :: r.1, x :: r.2) else (x :: r.1, y :: r.2))
  | a, b => pure (a, b)

theorem crossoverGene_mid (pre pre' suf suf' : List α) (x y : α) (h : pre.length = pre'.length) :
    crossoverGene (pre ++ x :: suf) (pre' ++ y :: suf') pre.length
      = ⟨pre ++ y :: suf, pre' ++ x :: suf', none⟩ := by
  unfold crossoverGene
  have h1 : (pre ++ x :: suf)[pre.length]? = some x := by simp
  have h2 : (pre' ++ y :: suf')[pre.length]? = some y := by rw [h]; simp
  rw [h1, h2]
  simp only [Exch.mk.injEq, and_true]
  constructor
  · simp
  · rw [h]; simp

theorem uniformGLoop_eq (pre pre' suf suf' : List α) (h : pre.length = pre'.length)
    (hs : suf.length = suf'.length) :
    uniformGLoop suf.length pre.length (pre ++ suf) (pre' ++ suf')
      = Rand.bind (swapLoop suf suf') (fun r => .pure ⟨pre ++ r.1, pre' ++ r.2, none⟩) := by
  induction suf generalizing pre pre' suf' with
  | nil =>
    cases suf' with
    | nil => simp [uniformGLoop, swapLoop]
    | cons _ _ => simp at hs
  | cons x s ih =>
    cases suf' with
    | nil => simp at hs
    | cons y s' =>
      simp only [List.length_cons, Nat.add_right_cancel_iff] at hs
      simp only [List.length_cons, uniformGLoop, swapLoop, reqBool, bind_eq, pure_eq, bind_ask, bind_pure_left]
      congr 1
      funext ans
      have e1 : pre ++ y :: s = (pre ++ [y]) ++ s := by simp
      have e2 : pre' ++ x :: s' = (pre' ++ [x]) ++ s' := by simp
      have e3 : pre ++ x :: s = (pre ++ [x]) ++ s := by simp
      have e4 : pre' ++ y :: s' = (pre' ++ [y]) ++ s' := by simp
      have l1 : pre.length + 1 = (pre ++ [y]).length := by simp
      have l2 : pre.length + 1 = (pre ++ [x]).length := by simp
      cases hc : ansBool ans
      · simp only [Bool.false_eq_true, if_false]
        rw [e3, e4, l2, ih (pre ++ [x]) (pre' ++ [y]) s' (by simp [h]) hs, bind_assoc]
        simp
      · simp only [if_true, crossoverGene_mid pre pre' s s' x y h]
        rw [e1, e2, l1, ih (pre ++ [y]) (pre' ++ [x]) s' (by simp [h]) hs, bind_assoc]
        simp

/-- `uniformGLoop` from the start of two equally long genomes -/
theorem uniformGLoop_start (p1 p2 : List α) (h : p1.length = p2.length) :
    uniformGLoop p1.length 0 p1 p2 = Rand.bind (swapLoop p1 p2) (fun r => .pure ⟨r.1, r.2, none⟩) := by
  have := uniformGLoop_eq [] [] p1 p2 rfl h
  simpa using this

theorem pick_shift_cons (c : Bool) (mask : List Bool) (u v : List α) :
    pick (fun j => (c :: mask).getD j false) 1 u v = pick (fun j => mask.getD j false) 0 u v := by
  apply pick_congr; intro j _; simp [Nat.add_comm 1 j]

/-- all results of the zip-shaped loop: any mask, and the exchange it describes -/
theorem reach_swapLoop (a b : List α) (h : a.length = b.length) (r : List α × List α) :
    Reach (swapLoop a b) r ↔
      ∃ mask : List Bool, mask.length = a.length ∧
        r = Spec.exchange (fun j => mask.getD j false) a b := by
  induction a generalizing b r with
  | nil =>
    cases b with
    | nil =>
      simp only [swapLoop, pure_eq, reach_pure, List.length_nil, List.length_eq_zero_iff, Spec.exchange, pick_nil_left]
      constructor
      · intro h; exact ⟨[], rfl, h⟩
      · rintro ⟨_, _, h⟩; exact h
    | cons _ _ => simp at h
  | cons x a ih =>
    cases b with
    | nil => simp at h
    | cons y b =>
      simp only [List.length_cons, Nat.add_right_cancel_iff] at h
      simp only [swapLoop, bind_eq, pure_eq, reach_bind, reach_pure]
      constructor
      · rintro ⟨c, -, r', hr', rfl⟩
        obtain ⟨mask, hm, rfl⟩ := (ih b h r').mp hr'
        refine ⟨c :: mask, by simp [hm], ?_⟩
        cases c <;> simp only [Spec.exchange, pick_cons, List.getD_cons_zero, Nat.zero_add, pick_shift_cons] <;> simp
      · rintro ⟨mask, hm, rfl⟩
        cases mask with
        | nil => simp at hm
        | cons c mask =>
          simp only [List.length_cons, Nat.add_right_cancel_iff] at hm
          refine ⟨c, reach_reqBool, Spec.exchange (fun j => mask.getD j false) a b,
            (ih b h _).mpr ⟨mask, hm, rfl⟩, ?_⟩
          cases c <;> simp only [Spec.exchange, pick_cons, List.getD_cons_zero, Nat.zero_add, pick_shift_cons] <;> simp

/-- all results of the `Vec` flavour's loop: `true` keeps the first parent's gene -/
theorem reach_uniformVecLoop (a b : List α) (h : a.length = b.length) (r : List α) :
    Reach (uniformVecLoop a b) r ↔
      ∃ coins : List Bool, coins.length = a.length ∧
        r = Spec.uniformChild (coins.map not) a b := by
  induction a generalizing b r with
  | nil =>
    cases b with
    | nil =>
      simp only [uniformVecLoop, pure_eq, reach_pure, List.length_nil, List.length_eq_zero_iff,
        Spec.uniformChild, Spec.child, pick_nil_left]
      constructor
      · intro h; exact ⟨[], rfl, h⟩
      · rintro ⟨_, _, h⟩; exact h
    | cons _ _ => simp at h
  | cons x a ih =>
    cases b with
    | nil => simp at h
    | cons y b =>
      simp only [List.length_cons, Nat.add_right_cancel_iff] at h
      simp only [uniformVecLoop, bind_eq, pure_eq, reach_bind, reach_pure]
      constructor
      · rintro ⟨c, -, r', hr', rfl⟩
        obtain ⟨coins, hm, rfl⟩ := (ih b h r').mp hr'
        refine ⟨c :: coins, by simp [hm], ?_⟩
        cases c <;> simp only [Spec.uniformChild, Spec.child, List.map_cons, pick_cons, List.getD_cons_zero, Nat.zero_add, pick_shift_cons] <;> simp
      · rintro ⟨coins, hm, rfl⟩
        cases coins with
        | nil => simp at hm
        | cons c coins =>
          simp only [List.length_cons, Nat.add_right_cancel_iff] at hm
          refine ⟨c, reach_reqBool, Spec.uniformChild (coins.map not) a b,
            (ih b h _).mpr ⟨coins, hm, rfl⟩, ?_⟩
          cases c <;> simp only [Spec.uniformChild, Spec.child, List.map_cons, pick_cons, List.getD_cons_zero, Nat.zero_add, pick_shift_cons] <;> simp

end Uec.Lin
