/-
  Distribution reading of `Rand` (DESIGN.md §4): a *law* gives every primitive a finitely
  supported ℚ-weight on answers; `expect` pushes it through the request tree.
  Theorems about distributions are stated for an arbitrary law that satisfies the documented law of
  the primitives the modelled function actually uses (e.g. `UniformLaw` for `Uniform::new(0,n)` and
  `slice::Choose`).  Proof file: Mathlib allowed.
-/
import Mathlib.Tactic.Ring
import Mathlib.Tactic.FieldSimp
import Mathlib.Algebra.BigOperators.Group.List.Basic
import Mathlib.Algebra.BigOperators.Ring.List
import Mathlib.Data.List.Induction
import Mathlib.Algebra.Order.Field.Rat
import Uec.Lemmas.RandRun
namespace Uec.Law
open Uec

/-- weight of each answer of each primitive (finitely many answers with non-zero weight) -/
abbrev PrimLaw := Prim → List (Ans × ℚ)

variable {α β : Type}

/-- expectation of `g` over the results of `m` under the law `L` -/
def expect (L : PrimLaw) : Rand α → (α → ℚ) → ℚ
  | .pure a, g => g a
  | .ask p k, g => ((L p).map (fun aw => aw.2 * expect L (k aw.1) g)).sum

/-- probability that the result satisfies `P` -/
def prob (L : PrimLaw) (m : Rand α) (P : α → Prop) [DecidablePred P] : ℚ :=
  expect L m (fun a => if P a then 1 else 0)

@[simp] theorem expect_pure (L : PrimLaw) (a : α) (g : α → ℚ) : expect L (Rand.pure a) g = g a := rfl

theorem expect_ask (L : PrimLaw) (p : Prim) (k : Ans → Rand α) (g : α → ℚ) :
    expect L (Rand.ask p k) g = ((L p).map (fun aw => aw.2 * expect L (k aw.1) g)).sum := rfl

theorem expect_bind (L : PrimLaw) (m : Rand α) (f : α → Rand β) (g : β → ℚ) :
    expect L (Rand.bind m f) g = expect L m (fun a => expect L (f a) g) := by
  induction m with
  | pure a => rfl
  | ask p k ih => simp only [Rand.bind_ask, expect_ask, ih]

theorem expect_zero (L : PrimLaw) (m : Rand α) : expect L m (fun _ => 0) = 0 := by
  induction m with
  | pure a => rfl
  | ask p k ih => simp [expect_ask, ih]

theorem expect_mul_const (L : PrimLaw) (m : Rand α) (g : α → ℚ) (c : ℚ) :
    expect L m (fun a => g a * c) = expect L m g * c := by
  induction m with
  | pure a => rfl
  | ask p k ih =>
    simp only [expect_ask, ih]
    rw [← List.sum_map_mul_right]
    congr 1
    apply List.map_congr_left
    intro aw _
    ring

theorem expect_const_mul (L : PrimLaw) (m : Rand α) (g : α → ℚ) (c : ℚ) :
    expect L m (fun a => c * g a) = c * expect L m g := by
  have := expect_mul_const L m g c
  simp only [mul_comm c]
  exact this

theorem expect_congr (L : PrimLaw) (m : Rand α) (g h : α → ℚ) (e : ∀ a, g a = h a) :
    expect L m g = expect L m h := by
  have : g = h := funext e
  rw [this]

/-- the documented law of `Uniform::<usize>::new(0, n)` and of `rand::distr::slice::Choose` over
    `n` elements: every index below `n` with weight `1/n`, nothing else -/
def UniformLaw (L : PrimLaw) : Prop :=
  ∀ n, L (.uniform n) = (List.range n).map (fun i => (Ans.nat i, (1 : ℚ) / n)) ∧
       L (.chooseDistr n) = (List.range n).map (fun i => (Ans.nat i, (1 : ℚ) / n))

/-- a concrete law satisfying `UniformLaw` (non-vacuity); other primitives get the empty law -/
def uniformOnly : PrimLaw
  | .uniform n => (List.range n).map (fun i => (Ans.nat i, (1 : ℚ) / n))
  | .chooseDistr n => (List.range n).map (fun i => (Ans.nat i, (1 : ℚ) / n))
  | _ => []

theorem uniformOnly_ok : UniformLaw uniformOnly := fun _ => ⟨rfl, rfl⟩

theorem sum_range_ite_eq (n i : Nat) (c : ℚ) :
    ((List.range n).map (fun j => if j = i then c else 0)).sum = if i < n then c else 0 := by
  induction n with
  | zero => simp
  | succ n ih =>
    rw [List.range_succ, List.map_append, List.sum_append, ih]
    by_cases h1 : i < n
    · have : n ≠ i := by omega
      simp [h1, this, Nat.lt_succ_of_lt h1]
    · by_cases h2 : n = i
      · subst h2; simp
      · have : ¬ i < n + 1 := by omega
        simp [h1, h2, this]

/-- sum over `range n` of a count-weighted indicator: used for the value law with repeated members -/
theorem sum_range_ite_pred (c : List α) [DecidableEq α] (v : α) (w : ℚ) :
    ((List.range c.length).map (fun j => if c[j]? = some v then w else 0)).sum = (c.count v : ℚ) * w := by
  induction c using List.reverseRecOn with
  | nil => simp
  | append_singleton c x ih =>
    rw [List.length_append, List.length_singleton, List.range_succ, List.map_append, List.sum_append]
    have h1 : (List.range c.length).map (fun j => if (c ++ [x])[j]? = some v then w else 0) =
        (List.range c.length).map (fun j => if c[j]? = some v then w else 0) := by
      apply List.map_congr_left
      intro j hj
      have : j < c.length := List.mem_range.mp hj
      simp [List.getElem?_append_left this]
    rw [h1, ih]
    by_cases hx : x = v
    · subst hx; simp [List.count_append]; ring
    · have : ¬ (v = x) := fun h => hx h.symm
      simp [List.count_append, hx]

end Uec.Law
