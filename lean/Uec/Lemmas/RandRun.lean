/-
  Generic lemmas about `Rand`: `bind` against `Reach` (all valid answer sequences) and against
  `run` (explicit tapes).  Used by C18 (collection generators) and C09 (generation step).
-/
import Uec.Model.Rand
namespace Uec.Rand
variable {α β : Type}

@[simp] theorem pure_eq (a : α) : (Pure.pure a : Rand α) = Rand.pure a := rfl
@[simp] theorem bind_eq (m : Rand α) (f : α → Rand β) : (m >>= f) = Rand.bind m f := rfl
@[simp] theorem map_eq (g : α → β) (m : Rand α) : (g <$> m) = Rand.bind m (fun a => Rand.pure (g a)) := rfl
@[simp] theorem bind_pure_left (a : α) (f : α → Rand β) : Rand.bind (Rand.pure a) f = f a := rfl
@[simp] theorem bind_ask (p : Prim) (k : Ans → Rand α) (f : α → Rand β) :
    Rand.bind (Rand.ask p k) f = Rand.ask p (fun a => Rand.bind (k a) f) := rfl
@[simp] theorem req_def (p : Prim) : Rand.req p = Rand.ask p Rand.pure := rfl

theorem bind_assoc {γ : Type} (m : Rand α) (f : α → Rand β) (g : β → Rand γ) :
    Rand.bind (Rand.bind m f) g = Rand.bind m (fun a => Rand.bind (f a) g) := by
  induction m with
  | pure a => rfl
  | ask p k ih => simp only [bind_ask, ih]

theorem bind_pure_right (m : Rand α) : Rand.bind m Rand.pure = m := by
  induction m with
  | pure a => rfl
  | ask p k ih => simp only [bind_ask, ih]

/-! ### Reach -/

@[simp] theorem reach_pure (a b : α) : Reach (Rand.pure a) b ↔ a = b := by
  constructor
  · intro h; cases h; rfl
  · rintro rfl; exact .pure a

theorem reach_ask (p : Prim) (k : Ans → Rand α) (b : α) :
    Reach (Rand.ask p k) b ↔ ∃ ans, p.valid ans ∧ Reach (k ans) b := by
  constructor
  · intro h; cases h with | ask hv hr => exact ⟨_, hv, hr⟩
  · rintro ⟨ans, hv, hr⟩; exact .ask hv hr

/-- A result of `m >>= f` is a result of `f a` for some result `a` of `m`, and conversely. -/
theorem reach_bind (m : Rand α) (f : α → Rand β) (b : β) :
    Reach (Rand.bind m f) b ↔ ∃ a, Reach m a ∧ Reach (f a) b := by
  induction m with
  | pure a => simp
  | ask p k ih =>
    simp only [bind_ask, reach_ask, ih]
    constructor
    · rintro ⟨ans, hv, a, h1, h2⟩; exact ⟨a, ⟨ans, hv, h1⟩, h2⟩
    · rintro ⟨a, ⟨ans, hv, h1⟩, h2⟩; exact ⟨ans, hv, a, h1, h2⟩

/-! ### run -/

@[simp] theorem run_pure (a : α) (t : List Ans) : run (Rand.pure a) t = some (a, t) := rfl

theorem run_bind (m : Rand α) (f : α → Rand β) (t : List Ans) :
    run (Rand.bind m f) t = (run m t).bind (fun r => run (f r.1) r.2) := by
  induction m generalizing t with
  | pure a => rfl
  | ask p k ih =>
    cases t with
    | nil => rfl
    | cons a t => simp only [bind_ask, run, ih]

/-- Whatever a computation leaves unread it never looked at: the consumed part is a prefix. -/
theorem run_split (m : Rand α) (t r : List Ans) (a : α) (h : run m t = some (a, r)) :
    ∃ s, t = s ++ r ∧ run m s = some (a, []) := by
  induction m generalizing t with
  | pure b =>
    simp only [run_pure, Option.some.injEq, Prod.mk.injEq] at h
    exact ⟨[], by simp [h.2], by simp [h.1]⟩
  | ask p k ih =>
    cases t with
    | nil => simp [run] at h
    | cons x t =>
      simp only [run] at h
      obtain ⟨s, hs, hr⟩ := ih x t h
      exact ⟨x :: s, by simp [hs], by simpa [run] using hr⟩

/-- A computation that consumes exactly `s` behaves the same with anything appended. -/
theorem run_append (m : Rand α) (s r : List Ans) (a : α) (h : run m s = some (a, [])) :
    run m (s ++ r) = some (a, r) := by
  induction m generalizing s with
  | pure b =>
    simp only [run_pure, Option.some.injEq, Prod.mk.injEq] at h
    simp [h.1, h.2]
  | ask p k ih =>
    cases s with
    | nil => simp [run] at h
    | cons x s =>
      simp only [run] at h
      simpa [run] using ih x s h

theorem run_append_iff (m : Rand α) (t r : List Ans) (a : α) :
    run m t = some (a, r) ↔ ∃ s, t = s ++ r ∧ run m s = some (a, []) := by
  constructor
  · exact run_split m t r a
  · rintro ⟨s, rfl, h⟩; exact run_append m s r a h

/-- `Consumes m segs xs`: running `m` once on each segment consumes exactly that segment and
    yields the corresponding element (`segs` and `xs` have the same length). -/
inductive Consumes (m : Rand α) : List (List Ans) → List α → Prop where
  | nil : Consumes m [] []
  | cons {s : List Ans} {x : α} {segs : List (List Ans)} {xs : List α} :
      run m s = some (x, []) → Consumes m segs xs → Consumes m (s :: segs) (x :: xs)

theorem Consumes.length_eq {m : Rand α} {segs : List (List Ans)} {xs : List α}
    (h : Consumes m segs xs) : segs.length = xs.length := by
  induction h with
  | nil => rfl
  | cons _ _ ih => simp [ih]

theorem Consumes.get {m : Rand α} {segs : List (List Ans)} {xs : List α}
    (h : Consumes m segs xs) (i : Nat) (h1 : i < segs.length) (h2 : i < xs.length) :
    run m segs[i] = some (xs[i], []) := by
  induction h generalizing i with
  | nil => simp at h1
  | cons hs _ ih =>
    cases i with
    | zero => simpa using hs
    | succ i => simpa using ih i (by simpa using h1) (by simpa using h2)

/-- The requests issued along a tape are those of the first part followed by those of the second. -/
theorem requests_bind (m : Rand α) (f : α → Rand β) (t : List Ans) :
    requests (Rand.bind m f) t =
      match run m t with
      | some (a, t') => requests m t ++ requests (f a) t'
      | none => requests m t := by
  induction m generalizing t with
  | pure a => simp [requests]
  | ask p k ih =>
    cases t with
    | nil => simp [requests, run]
    | cons x t =>
      simp only [bind_ask, requests, run, ih]
      cases run (k x) t <;> simp

end Uec.Rand
