/-
  The interpreter loop: invariants carried through `runLoopG`, step bound, what a fatal end or a
  panic must have come from; input-variable boundness of everything that can reach the exec stack.
-/
import Uec.Lemmas.PushFacts
set_option linter.unusedSimpArgs false
set_option linter.unusedVariables false
namespace Uec
open Stack

namespace Impl

/-- how many steps a run reports -/
def RunResult.steps? : RunResult → Option Nat
  | .done _ k => some k
  | .error _ _ k => some k
  | .panic => none

theorem runLoopG_steps (perf : Prog → PState → Outcome PState) :
    ∀ (fuel k : Nat) (s : PState) (k' : Nat),
      (runLoopG perf fuel k s).steps? = some k' → k ≤ k' ∧ k' ≤ k + fuel := by
  intro fuel
  induction fuel with
  | zero => intro k s k' h; simp [runLoopG, RunResult.steps?] at h; omega
  | succ n ih =>
    intro k s k' h
    unfold runLoopG at h
    split at h
    · simp [RunResult.steps?] at h; omega
    · split at h
      · have := ih (k + 1) _ k' h; omega
      · have := ih (k + 1) _ k' h; omega
      · simp [RunResult.steps?] at h; omega
      · simp [RunResult.steps?] at h

/-- **Runs compose**: a run with step budget `a + b` is the run with budget `a` continued, from the state and
    step count it reached, with budget `b` (a run that ended early - empty exec stack, fatal error, panic - stays
    ended).  Hence the state after `a` steps of any longer run is the final state of the run with limit `a`. -/
theorem runLoopG_add (perf : Prog → PState → Outcome PState) (b : Nat) :
    ∀ (a k : Nat) (s : PState),
      runLoopG perf (a + b) k s =
        match runLoopG perf a k s with
        | .done s' k' => runLoopG perf b k' s'
        | r => r := by
  intro a
  induction a with
  | zero => intro k s; simp [runLoopG]
  | succ n ih =>
    intro k s
    have e : n + 1 + b = (n + b) + 1 := by omega
    rw [e]
    rw [runLoopG, runLoopG]
    cases hp : s.exec.pop with
    | error e =>
      simp only []
      -- exec empty: the longer run ends here too
      cases b with
      | zero => simp [runLoopG]
      | succ b' => rw [runLoopG]; simp [hp]
    | ok pe =>
      obtain ⟨p, est⟩ := pe
      simp only []
      cases perf p { s with exec := est } with
      | ok s1 => exact ih (k + 1) s1
      | recoverable s1 e1 => exact ih (k + 1) s1
      | fatal s1 e1 => rfl
      | panic => rfl

/-- **The loop never stops early of its own accord**: a run that ends normally with budget left over ended
    because the exec stack was empty (the `break` of `run_to_completion`), whatever `perf` is. -/
theorem runLoopG_done_early (perf : Prog → PState → Outcome PState) :
    ∀ (fuel k : Nat) (s s' : PState) (k' : Nat),
      runLoopG perf fuel k s = .done s' k' → k' < k + fuel → ∃ e, s'.exec.pop = .error e := by
  intro fuel
  induction fuel with
  | zero => intro k s s' k' h hlt; simp [runLoopG] at h; omega
  | succ n ih =>
    intro k s s' k' h hlt
    unfold runLoopG at h
    split at h
    · rename_i e he
      simp at h; obtain ⟨rfl, rfl⟩ := h; exact ⟨e, he⟩
    · split at h
      · exact ih (k + 1) _ s' k' h (by omega)
      · exact ih (k + 1) _ s' k' h (by omega)
      · simp at h
      · simp at h

/-- a finished machine (empty exec stack) is a fixed point of the loop: running it again does nothing and
    counts nothing -/
theorem runLoopG_empty (perf : Prog → PState → Outcome PState) (fuel k : Nat) (s : PState) (e : StackErr)
    (he : s.exec.pop = .error e) : runLoopG perf fuel k s = .done s k := by
  cases fuel with
  | zero => simp [runLoopG]
  | succ n => rw [runLoopG]; simp [he]

/-- the state reached when the loop ends (normally or by a fatal error) -/
def RunResult.state? : RunResult → Option PState
  | .done s _ => some s
  | .error s _ _ => some s
  | .panic => none

/-- An invariant that survives taking the next instruction off the exec stack and every outcome of
    the single-step function holds in the final state. -/
theorem runLoopG_inv (perf : Prog → PState → Outcome PState) (I : PState → Prop)
    (hpop : ∀ s p est, I s → s.exec.pop = .ok (p, est) → I { s with exec := est })
    (hnext : ∀ s p est s', I s → s.exec.pop = .ok (p, est) →
      (perf p { s with exec := est }).nextState = some s' → I s')
    (hfatal : ∀ s p est s' e, I s → s.exec.pop = .ok (p, est) →
      perf p { s with exec := est } = .fatal s' e → I s') :
    ∀ (fuel k : Nat) (s : PState), I s → ∀ s', (runLoopG perf fuel k s).state? = some s' → I s' := by
  intro fuel
  induction fuel with
  | zero => intro k s hs s' h; simp [runLoopG, RunResult.state?] at h; subst h; exact hs
  | succ n ih =>
    intro k s hs s' h
    unfold runLoopG at h
    split at h
    · simp [RunResult.state?] at h; subst h; exact hs
    · rename_i p est hp
      split at h
      · rename_i s1 h1
        exact ih (k + 1) s1 (hnext s p est s1 hs hp (by simp [h1, Outcome.nextState])) s' h
      · rename_i s1 e1 h1
        exact ih (k + 1) s1 (hnext s p est s1 hs hp (by simp [h1, Outcome.nextState])) s' h
      · rename_i s1 e1 h1
        simp [RunResult.state?] at h; subst h
        exact hfatal s p est _ e1 hs hp h1
      · simp [RunResult.state?] at h

/-- a fatal end of the loop is the fatal outcome of one single step taken in a state satisfying the
    invariant -/
theorem runLoopG_error (perf : Prog → PState → Outcome PState) (I : PState → Prop)
    (hpop : ∀ s p est, I s → s.exec.pop = .ok (p, est) → I { s with exec := est })
    (hnext : ∀ s p est s', I s → s.exec.pop = .ok (p, est) →
      (perf p { s with exec := est }).nextState = some s' → I s') :
    ∀ (fuel k : Nat) (s : PState), I s → ∀ s' e k', runLoopG perf fuel k s = .error s' e k' →
      ∃ t p, I t ∧ perf p t = .fatal s' e := by
  intro fuel
  induction fuel with
  | zero => intro k s hs s' e k' h; simp [runLoopG] at h
  | succ n ih =>
    intro k s hs s' e k' h
    unfold runLoopG at h
    split at h
    · simp at h
    · rename_i p est hp
      split at h
      · rename_i s1 h1
        exact ih (k + 1) s1 (hnext s p est s1 hs hp (by simp [h1, Outcome.nextState])) s' e k' h
      · rename_i s1 e1 h1
        exact ih (k + 1) s1 (hnext s p est s1 hs hp (by simp [h1, Outcome.nextState])) s' e k' h
      · rename_i s1 e1 h1
        simp at h
        obtain ⟨rfl, rfl, _⟩ := h
        exact ⟨_, p, hpop s p est hs hp, h1⟩
      · simp at h

/-- a panic of the loop is the panic of one single step taken in a state satisfying the invariant -/
theorem runLoopG_panic (perf : Prog → PState → Outcome PState) (I : PState → Prop)
    (hnext : ∀ s p est s', I s → s.exec.pop = .ok (p, est) →
      (perf p { s with exec := est }).nextState = some s' → I s') :
    ∀ (fuel k : Nat) (s : PState), I s → runLoopG perf fuel k s = .panic →
      ∃ t p est, I t ∧ t.exec.pop = .ok (p, est) ∧ perf p { t with exec := est } = .panic := by
  intro fuel
  induction fuel with
  | zero => intro k s hs h; simp [runLoopG] at h
  | succ n ih =>
    intro k s hs h
    unfold runLoopG at h
    split at h
    · simp at h
    · rename_i p est hp
      split at h
      · rename_i s1 h1
        exact ih (k + 1) s1 (hnext s p est s1 hs hp (by simp [h1, Outcome.nextState])) h
      · rename_i s1 e1 h1
        exact ih (k + 1) s1 (hnext s p est s1 hs hp (by simp [h1, Outcome.nextState])) h
      · simp at h
      · rename_i h1
        exact ⟨s, p, est, hs, hp, h1⟩

end Impl

/-! ### popping the next instruction keeps the sizes within the limits -/

theorem sizesOk_pop (s : PState) (p : Prog) (est : Stack Prog) (h : SizesOk s)
    (hp : s.exec.pop = .ok (p, est)) : SizesOk { s with exec := est } := by
  obtain ⟨he, hi, hf, hb⟩ := h
  rw [eq_ofTop s.exec] at hp he
  simp only [ofTop_pop] at hp
  split at hp
  · simp at hp
  · rename_i x r hx
    simp at hp
    obtain ⟨_, rfl⟩ := hp
    refine ⟨?_, hi, hf, hb⟩
    rw [hx] at he
    simp at he ⊢
    omega

end Uec
