/-
  `fl32(1 / fl32(n))` read exactly (core Lean only): `n as f32` is exact below 2²⁴, the exponent of `1/n` is
  `-j` with `2^(j-1) < n ≤ 2^j`, the mantissa is `rne(2^(23+j) / n)`; used for the general rounding bounds of
  `WithOneOverLength` and `with_uniform_close_probability` (C12).
-/
import Uec.Lemmas.Floats
namespace Uec.F32

theorem divRne_one (a : Nat) : divRne a 1 = a := by
  simp [divRne, Nat.mod_one]

theorem divRne_bounds (a b : Nat) (hb : 0 < b) :
    2 * (divRne a b * b) ≤ 2 * a + b ∧ 2 * a ≤ 2 * (divRne a b * b) + b := by
  have hd := Nat.div_add_mod a b
  have hr := Nat.mod_lt a hb
  have hc : b * (a / b) = (a / b) * b := Nat.mul_comm _ _
  unfold divRne
  simp only []
  split
  · omega
  · split
    · rw [Nat.add_mul]; omega
    · split
      · omega
      · rw [Nat.add_mul]; omega

theorem log2_mul_two_pow (n k : Nat) (hn : n ≠ 0) : Nat.log2 (n * 2 ^ k) = Nat.log2 n + k := by
  have hpos : 0 < 2 ^ k := Nat.two_pow_pos k
  have hne : n * 2 ^ k ≠ 0 := Nat.mul_ne_zero hn (by omega)
  rw [Nat.log2_eq_iff hne]
  constructor
  · rw [Nat.pow_add]; exact Nat.mul_le_mul_right _ (Nat.log2_self_le hn)
  · have : n < 2 ^ (Nat.log2 n + 1) := Nat.lt_log2_self
    have e : 2 ^ (Nat.log2 n + k + 1) = 2 ^ (Nat.log2 n + 1) * 2 ^ k := by rw [← Nat.pow_add]; congr 1; omega
    rw [e]; exact Nat.mul_lt_mul_of_pos_right this hpos

/-- reading back a normal encoding: `m · 2^(e-23)` in units of 2⁻¹⁴⁹ is `m · 2^(e+126)` -/
theorem decode_encodeNormal (m : Nat) (e : Int) (hm1 : 2 ^ 23 ≤ m) (hm2 : m ≤ 2 ^ 24) (he1 : -126 ≤ e) (he2 : e ≤ 126) :
    decode (encodeNormal m e) = .fin ((m * 2 ^ (e + 126).toNat : Nat) : Int) := by
  unfold encodeNormal
  by_cases hc : m = 2 ^ 24
  · have hb1 : (m == 2 ^ 24) = true := by rw [hc]; exact beq_self_eq_true _
    rw [if_pos hb1]
    have h127 : ¬ (e + 1 > 127) := by omega
    show decode (if e + 1 > 127 then 2139095040 else (e + 1 + 127).toNat * 2 ^ 23 + (2 ^ 23 - 2 ^ 23)) = _
    rw [if_neg h127, Nat.sub_self, Nat.add_zero]
    obtain ⟨E, hE⟩ : ∃ E : Nat, (e + 1 + 127).toNat = E ∧ 2 ≤ E ∧ E ≤ 254 ∧ (e+126).toNat = E - 2 := by
      refine ⟨(e + 1 + 127).toNat, rfl, ?_, ?_, ?_⟩ <;> omega
    obtain ⟨hE0, hE1, hE2, hE4⟩ := hE
    rw [hE0]
    have hb : E * 2 ^ 23 < 2 ^ 31 := by omega
    have h1 : E * 2 ^ 23 / 2 ^ 23 % 256 = E := by omega
    have h2 : E * 2 ^ 23 % 2 ^ 23 = 0 := by omega
    rw [decode_eq hb h1 h2 (by omega)]
    have : E ≠ 0 := by omega
    simp only [this, if_false, Nat.add_zero]
    rw [hE4]
    congr 1
    have : (2:Nat) ^ 24 * 2 ^ (E - 2) = 2 ^ 23 * 2 ^ (E - 1) := by
      rw [← Nat.pow_add, ← Nat.pow_add]; congr 1; omega
    rw [hc, this]
  · have hb0 : (m == 2 ^ 24) = false := by simp [hc]
    rw [if_neg (by rw [hb0]; exact Bool.false_ne_true)]
    have h127 : ¬ (e > 127) := by omega
    show decode (if e > 127 then 2139095040 else (e + 127).toNat * 2 ^ 23 + (m - 2 ^ 23)) = _
    rw [if_neg h127]
    obtain ⟨E, hE0, hE1, hE2, hE4⟩ : ∃ E : Nat, (e + 127).toNat = E ∧ 1 ≤ E ∧ E ≤ 253 ∧ (e+126).toNat = E - 1 :=
      by refine ⟨(e + 127).toNat, rfl, ?_, ?_, ?_⟩ <;> omega
    rw [hE0]
    have hb : E * 2 ^ 23 + (m - 2 ^ 23) < 2 ^ 31 := by omega
    have h1 : (E * 2 ^ 23 + (m - 2 ^ 23)) / 2 ^ 23 % 256 = E := by omega
    have h2 : (E * 2 ^ 23 + (m - 2 ^ 23)) % 2 ^ 23 = m - 2 ^ 23 := by omega
    rw [decode_eq hb h1 h2 (by omega)]
    have : E ≠ 0 := by omega
    simp only [this, if_false]
    rw [hE4]
    have h3 : 2 ^ 23 + (m - 2 ^ 23) = m := by omega
    rw [h3]


theorem log2_le_23 (n : Nat) (h0 : n ≠ 0) (hn : n < 2 ^ 24) : Nat.log2 n ≤ 23 := by
  have hlo := Nat.log2_self_le h0
  rcases Nat.lt_or_ge 23 (Nat.log2 n) with h | h
  · have : 2 ^ 24 ≤ 2 ^ Nat.log2 n := Nat.pow_le_pow_right (by decide) h
    omega
  · exact h

theorem expOf_nat (n : Nat) (h0 : n ≠ 0) : expOf n 1 = (Nat.log2 n : Int) := by
  have hlo := Nat.log2_self_le h0
  unfold expOf
  have h1 : Nat.log2 1 = 0 := by decide
  simp only [h1, Int.natCast_zero, Int.sub_zero, Int.toNat_natCast, Nat.one_mul]
  have hge : (Nat.log2 n : Int) ≥ 0 := Int.natCast_nonneg _
  simp only [hge, if_true, ge_iff_le, hlo, decide_true]

/-- `n as f32` is exact below 2²⁴ -/
theorem decode_ofNat (n : Nat) (h0 : n ≠ 0) (hn : n < 2 ^ 24) :
    decode (ofNat n) = .fin ((n * 2 ^ 149 : Nat) : Int) := by
  have hlo := Nat.log2_self_le h0
  have hhi := Nat.lt_log2_self (n := n)
  have hL := log2_le_23 n h0 hn
  unfold ofNat ofRat
  have hz : (n == 0 || (1:Nat) == 0) = false := by simp [h0]
  rw [if_neg (by rw [hz]; exact Bool.false_ne_true)]
  simp only [expOf_nat n h0]
  rw [if_neg (by omega)]
  have hsh : (23 - (Nat.log2 n : Int)) ≥ 0 := by omega
  simp only [hsh, if_true, divRne_one]
  have hsh2 : (23 - (Nat.log2 n : Int)).toNat = 23 - Nat.log2 n := by omega
  rw [hsh2]
  have hp : 2 ^ Nat.log2 n * 2 ^ (23 - Nat.log2 n) = 2 ^ 23 := by rw [← Nat.pow_add]; congr 1; omega
  have hp' : 2 ^ (Nat.log2 n + 1) * 2 ^ (23 - Nat.log2 n) = 2 ^ 24 := by rw [← Nat.pow_add]; congr 1; omega
  have hpos : 0 < 2 ^ (23 - Nat.log2 n) := Nat.two_pow_pos _
  have hM1 : 2 ^ 23 ≤ n * 2 ^ (23 - Nat.log2 n) := by rw [← hp]; exact Nat.mul_le_mul_right _ hlo
  have hM2 : n * 2 ^ (23 - Nat.log2 n) < 2 ^ 24 := by rw [← hp']; exact Nat.mul_lt_mul_of_pos_right hhi hpos
  rw [decode_encodeNormal _ _ hM1 (Nat.le_of_lt hM2) (by omega) (by omega)]
  have h126 : ((Nat.log2 n : Int) + 126).toNat = Nat.log2 n + 126 := by omega
  have ha : 23 - Nat.log2 n + (Nat.log2 n + 126) = 149 := by omega
  rw [h126, Nat.mul_assoc, ← Nat.pow_add, ha]


theorem divRne_mul_right (a b c : Nat) (hc : 0 < c) : divRne (a * c) (b * c) = divRne a b := by
  unfold divRne
  simp only [Nat.mul_div_mul_right a b hc, Nat.mul_mod_mul_right c a b]
  have e1 : (2 * (a % b * c) < b * c) ↔ (2 * (a % b) < b) := by
    rw [← Nat.mul_assoc]; exact Nat.mul_lt_mul_right hc
  have e2 : (2 * (a % b * c) > b * c) ↔ (2 * (a % b) > b) := by
    rw [← Nat.mul_assoc]; exact Nat.mul_lt_mul_right hc
  simp only [e1, e2]

/-- the binade of `1/n`: `2^(j-1) < n ≤ 2^j` -/
def recipExp (n : Nat) : Nat := if n = 2 ^ Nat.log2 n then Nat.log2 n else Nat.log2 n + 1

theorem recipExp_spec (n : Nat) (h0 : n ≠ 0) (hn : n < 2 ^ 24) :
    recipExp n ≤ 24 ∧ n ≤ 2 ^ recipExp n ∧ (recipExp n = 0 → n = 1) ∧ (1 ≤ recipExp n → 2 ^ (recipExp n - 1) < n) := by
  have hlo := Nat.log2_self_le h0
  have hhi := Nat.lt_log2_self (n := n)
  have hL := log2_le_23 n h0 hn
  unfold recipExp
  split
  · rename_i heq
    refine ⟨by omega, by omega, fun hz => by rw [hz] at heq; simpa using heq, fun h1 => ?_⟩
    have : 2 ^ (Nat.log2 n - 1) < 2 ^ Nat.log2 n := Nat.pow_lt_pow_right (by decide) (by omega)
    omega
  · rename_i hne
    refine ⟨by omega, Nat.le_of_lt hhi, fun hz => by omega, fun _ => ?_⟩
    simp only [Nat.add_sub_cancel]
    omega

theorem expOf_recip (n : Nat) (h0 : n ≠ 0) : expOf (2 ^ 149) (n * 2 ^ 149) = -(recipExp n : Int) := by
  have hlo := Nat.log2_self_le h0
  have hhi := Nat.lt_log2_self (n := n)
  unfold expOf
  rw [Nat.log2_two_pow, log2_mul_two_pow n 149 h0]
  have e0 : ((149 : Nat) : Int) - ((Nat.log2 n + 149 : Nat) : Int) = -(Nat.log2 n : Int) := by omega
  simp only [e0]
  by_cases hz : Nat.log2 n = 0
  · -- n = 1
    have hn1 : n = 1 := by rw [hz] at hhi hlo; omega
    subst hn1
    simp [recipExp, hz]
  · have hneg : ¬ (-(Nat.log2 n : Int) ≥ 0) := by omega
    simp only [hneg, if_false, Int.neg_neg, Int.toNat_natCast]
    have hiff : (2 ^ 149 * 2 ^ Nat.log2 n ≥ n * 2 ^ 149) ↔ n = 2 ^ Nat.log2 n := by
      rw [Nat.mul_comm (2 ^ 149)]
      constructor
      · intro h; have := Nat.le_of_mul_le_mul_right h (Nat.two_pow_pos 149); omega
      · intro h; rw [← h]; exact Nat.le_refl _
    unfold recipExp
    by_cases hp : n = 2 ^ Nat.log2 n
    · simp only [hiff.mpr hp, decide_true, if_true, if_pos hp]
    · have : ¬ (2 ^ 149 * 2 ^ Nat.log2 n ≥ n * 2 ^ 149) := fun h => hp (hiff.mp h)
      simp only [this, decide_false, if_neg hp, Bool.false_eq_true, if_false]
      omega


/-- the mantissa of `fl32(1/n)`: `rne(2^(23+j) / n)` lies in `[2²³, 2²⁴]` and is within `n/2` of the exact
    quotient (stated without division) -/
theorem recip_mant (n : Nat) (h0 : n ≠ 0) (hn : n < 2 ^ 24) :
    2 ^ 23 ≤ divRne (2 ^ (23 + recipExp n)) n ∧ divRne (2 ^ (23 + recipExp n)) n ≤ 2 ^ 24 ∧
    2 * (divRne (2 ^ (23 + recipExp n)) n * n) ≤ 2 ^ (24 + recipExp n) + n ∧
    2 ^ (24 + recipExp n) ≤ 2 * (divRne (2 ^ (23 + recipExp n)) n * n) + n := by
  obtain ⟨hj, hnj, _, hjn⟩ := recipExp_spec n h0 hn
  obtain ⟨b1, b2⟩ := divRne_bounds (2 ^ (23 + recipExp n)) n (by omega)
  generalize recipExp n = j at *
  have e24 : 2 * 2 ^ (23 + j) = 2 ^ (24 + j) := by rw [← Nat.pow_succ']; congr 1; omega
  rw [e24] at b1 b2
  generalize divRne (2 ^ (23 + j)) n = M at *
  have h3 : 2 ^ (24 + j) = 2 ^ 24 * 2 ^ j := Nat.pow_add 2 24 j
  have hpos : 0 < 2 ^ j := Nat.two_pow_pos j
  refine ⟨?_, ?_, b1, b2⟩
  · -- M < 2²³ would make 2Mn + n too small
    rcases Nat.lt_or_ge M (2 ^ 23) with h | h
    · exfalso
      have h1 : M * n ≤ (2 ^ 23 - 1) * n := Nat.mul_le_mul_right n (by omega)
      have h2 : (2 ^ 24 - 1) * n ≤ (2 ^ 24 - 1) * 2 ^ j := Nat.mul_le_mul_left _ hnj
      have h4 : (2 ^ 24 - 1) * 2 ^ j = 2 ^ 24 * 2 ^ j - 2 ^ j := by rw [Nat.sub_mul, Nat.one_mul]
      have h5 : 2 * ((2 ^ 23 - 1) * n) + n = (2 ^ 24 - 1) * n := by
        have : (2:Nat) ^ 24 - 1 = 2 * (2 ^ 23 - 1) + 1 := by decide
        rw [this, Nat.add_mul, Nat.one_mul, Nat.mul_assoc]
      have hle : 2 ^ j ≤ 2 ^ 24 * 2 ^ j := Nat.le_mul_of_pos_left _ (by decide)
      omega
    · exact h
  · rcases Nat.lt_or_ge (2 ^ 24) M with h | h
    · exfalso
      have h1 : (2 ^ 24 + 1) * n ≤ M * n := Nat.mul_le_mul_right n (by omega)
      -- 2^j < 2n
      have h6 : 2 ^ j < 2 * n := by
        rcases Nat.eq_zero_or_pos j with hz | hp
        · rw [hz]; omega
        · have := hjn hp
          have e : 2 ^ j = 2 * 2 ^ (j - 1) := by rw [← Nat.pow_succ']; congr 1; omega
          omega
      have h7 : 2 ^ 24 * 2 ^ j < 2 ^ 24 * (2 * n) := Nat.mul_lt_mul_of_pos_left h6 (by decide)
      have h8 : (2 ^ 24 + 1) * n = 2 ^ 24 * n + n := by rw [Nat.add_mul, Nat.one_mul]
      have h9 : 2 ^ 24 * (2 * n) = 2 * (2 ^ 24 * n) := by rw [Nat.mul_left_comm]
      omega
    · exact h

/-- `fl32(1 / fl32(n))` decoded -/
theorem decode_recipOfNat (n : Nat) (h0 : n ≠ 0) (hn : n < 2 ^ 24) :
    decode (recipOfNat n) =
      .fin ((divRne (2 ^ (23 + recipExp n)) n * 2 ^ (126 - recipExp n) : Nat) : Int) := by
  obtain ⟨hj, _, _, _⟩ := recipExp_spec n h0 hn
  obtain ⟨m1, m2, _, _⟩ := recip_mant n h0 hn
  unfold recipOfNat
  have hz : (n == 0) = false := by simp [h0]
  rw [if_neg (by rw [hz]; exact Bool.false_ne_true), decode_ofNat n h0 hn]
  simp only [Int.toNat_natCast]
  unfold ofRat
  have hz2 : ((2:Nat) ^ 149 == 0 || n * 2 ^ 149 == 0) = false := by
    have : n * 2 ^ 149 ≠ 0 := Nat.mul_ne_zero h0 (Nat.pos_iff_ne_zero.mp (Nat.two_pow_pos 149))
    have h2 : (2:Nat) ^ 149 ≠ 0 := Nat.pos_iff_ne_zero.mp (Nat.two_pow_pos 149)
    simp [this]
  rw [if_neg (by rw [hz2]; exact Bool.false_ne_true)]
  simp only [expOf_recip n h0]
  rw [if_neg (by omega)]
  have hsh : (23 - -(recipExp n : Int)) ≥ 0 := by omega
  have hsh2 : (23 - -(recipExp n : Int)).toNat = 23 + recipExp n := by omega
  simp only [hsh, if_true, hsh2]
  have hmul : 2 ^ 149 * 2 ^ (23 + recipExp n) = 2 ^ (23 + recipExp n) * 2 ^ 149 := Nat.mul_comm _ _
  rw [hmul, divRne_mul_right _ _ _ (Nat.two_pow_pos 149)]
  rw [decode_encodeNormal _ _ m1 m2 (by omega) (by omega)]
  have : (-(recipExp n : Int) + 126).toNat = 126 - recipExp n := by omega
  rw [this]

end Uec.F32
