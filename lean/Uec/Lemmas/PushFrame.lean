/-
  The input bindings are a passenger: evaluation depends on them only through `lookup`.
  (Push part of C16: evaluation is independent of the order in which inputs were declared.)
-/
import Uec.Lemmas.PushWF
set_option linter.unusedSimpArgs false
set_option linter.unusedVariables false
namespace Uec
open Stack

def PState.withInputs (s : PState) (i : List (String × Lit)) : PState := { s with inputs := i }

/-- two binding lists resolve every name alike -/
def SameLookup (i1 i2 : List (String × Lit)) : Prop := ∀ n, Impl.lookup i1 n = Impl.lookup i2 n

namespace Spec

/-- a signature whose effect does not look at the input bindings -/
def InputFree (sg : Sig) : Prop := ∀ s i o, sg.eff (PState.withInputs s i) o = sg.eff s o

theorem apply_frame (sg : Sig) (h : InputFree sg) (s : PState) (i : List (String × Lit)) :
    apply sg (s.withInputs i) = (apply sg s).map (·.withInputs i) := by
  unfold apply
  have ht : tops (s.withInputs i) = tops s := rfl
  simp only [ht, h s i]
  have e1 : (s.withInputs i).exec = s.exec := rfl
  have e2 : (s.withInputs i).int = s.int := rfl
  have e3 : (s.withInputs i).float = s.float := rfl
  have e4 : (s.withInputs i).bool = s.bool := rfl
  simp only [e1, e2, e3, e4]
  repeat' split
  all_goals first | rfl | (simp only [Outcome.map]; rfl)

theorem inputFree_int (op : IntI) (sg : Sig) (h : sigInt op = some sg) : InputFree sg := by
  cases op <;> simp only [sigInt, Option.some.injEq] at h <;> (try subst h) <;> (try contradiction)
  all_goals (intro s i o; rfl)
theorem inputFree_float (op : FloatI) (sg : Sig) (h : sigFloat op = some sg) : InputFree sg := by
  cases op <;> simp only [sigFloat, Option.some.injEq] at h <;> (try subst h) <;> (try contradiction)
  all_goals (intro s i o; rfl)
theorem inputFree_bool (op : BoolI) (sg : Sig) (h : sigBool op = some sg) : InputFree sg := by
  cases op <;> simp only [sigBool, Option.some.injEq] at h <;> (try subst h) <;> (try contradiction)
  all_goals (intro s i o; rfl)
theorem inputFree_exec (op : ExecI) (sg : Sig) (h : sigExec op = some sg) : InputFree sg := by
  cases op <;> simp only [sigExec, Option.some.injEq] at h <;> (try subst h) <;> (try contradiction)
  all_goals (intro s i o; rfl)
theorem inputFree_push (t : Tops) : InputFree (sPush t) := fun _ _ _ => rfl
theorem inputFree_out (str : String) : InputFree (sOut str) := fun _ _ _ => rfl

/-- **Frame**: with bindings that resolve every name alike, an instruction does the same thing. -/
theorem perform_frame (p : Prog) (s : PState) (i1 i2 : List (String × Lit)) (h : SameLookup i1 i2) :
    perform p (s.withInputs i2) = (perform p (s.withInputs i1)).map (·.withInputs i2) := by
  have twice : ∀ o : Outcome PState, (o.map (·.withInputs i1)).map (·.withInputs i2) = o.map (·.withInputs i2) := by
    intro o; cases o <;> rfl
  -- everything except the input variable: both sides are the frame of `perform p s`
  have viaS : ∀ (f : PState → Outcome PState),
      (∀ i, f (s.withInputs i) = (f s).map (·.withInputs i)) →
      f (s.withInputs i2) = (f (s.withInputs i1)).map (·.withInputs i2) := by
    intro f hf; rw [hf i2, hf i1, twice]
  cases p with
  | execPush q => exact viaS (perform (.execPush q)) (fun i => apply_frame _ (inputFree_push _) s i)
  | block ps =>
    apply viaS (perform (.block ps))
    intro i
    simp only [perform]
    have e1 : (s.withInputs i).exec = s.exec := rfl
    have ht : tops (s.withInputs i) = tops s := rfl
    simp only [e1, ht]
    split <;> rfl
  | instr ins =>
    cases ins with
    | inputVar name =>
      simp only [perform, performInstr]
      have l1 : (s.withInputs i1).inputs = i1 := rfl
      have l2 : (s.withInputs i2).inputs = i2 := rfl
      rw [l1, l2, ← h name]
      have sw : ∀ i, (s.withInputs i1).withInputs i = s.withInputs i := fun _ => rfl
      cases Impl.lookup i1 name with
      | none => rfl
      | some v =>
        cases v <;> simp only [] <;>
          (rw [apply_frame _ (inputFree_push _) s i2, apply_frame _ (inputFree_push _) s i1, twice])
    | int op =>
      apply viaS (perform (.instr (.int op)))
      intro i
      simp only [perform, performInstr]
      cases hs : sigInt op with
      | some sg => exact apply_frame sg (inputFree_int op sg hs) s i
      | none => rfl
    | float op =>
      apply viaS (perform (.instr (.float op)))
      intro i
      simp only [perform, performInstr]
      cases hs : sigFloat op with
      | some sg => exact apply_frame sg (inputFree_float op sg hs) s i
      | none => rfl
    | bool op =>
      apply viaS (perform (.instr (.bool op)))
      intro i
      simp only [perform, performInstr]
      cases hs : sigBool op with
      | some sg => exact apply_frame sg (inputFree_bool op sg hs) s i
      | none => rfl
    | exec op =>
      apply viaS (perform (.instr (.exec op)))
      intro i
      cases op <;> simp only [perform, performInstr, sigExec]
      case when | «unless» =>
        unfold cond1
        have ht : tops (s.withInputs i) = tops s := rfl
        simp only [ht]
        split <;> rfl
      case ifElse =>
        unfold ifElse
        have ht : tops (s.withInputs i) = tops s := rfl
        simp only [ht]
        split <;> rfl
      case flush => rfl
      case pop => exact apply_frame _ (inputFree_exec .pop _ rfl) s i
      case dup => exact apply_frame _ (inputFree_exec .dup _ rfl) s i
      case swap => exact apply_frame _ (inputFree_exec .swap _ rfl) s i
      case isEmpty => exact apply_frame _ (inputFree_exec .isEmpty _ rfl) s i
      case stackDepth => exact apply_frame _ (inputFree_exec .stackDepth _ rfl) s i
      case noop => exact apply_frame _ (inputFree_exec .noop _ rfl) s i
      case dupBlock => exact apply_frame _ (inputFree_exec .dupBlock _ rfl) s i
    | printSpace => exact viaS _ (fun i => apply_frame _ (inputFree_out _) s i)
    | printNewline => exact viaS _ (fun i => apply_frame _ (inputFree_out _) s i)
    | printPeriod => exact viaS _ (fun i => apply_frame _ (inputFree_out _) s i)
    | printString str => exact viaS _ (fun i => apply_frame _ (inputFree_out _) s i)

end Spec

namespace Spec

theorem apply_inputs (sg : Sig) (s s' : PState) (h : (apply sg s).nextState = some s') :
    s'.inputs = s.inputs := by
  unfold apply at h
  simp only [] at h
  repeat' split at h
  all_goals (simp [Outcome.nextState] at h; try subst h; try rfl)

/-- no instruction changes the input bindings -/
theorem perform_inputs (p : Prog) (s s' : PState) (h : (perform p s).nextState = some s') :
    s'.inputs = s.inputs := by
  cases p with
  | execPush q => simp only [perform] at h; exact apply_inputs _ s s' h
  | block ps =>
    simp only [perform] at h
    split at h <;> simp [Outcome.nextState] at h
    subst h; rfl
  | instr ins =>
    cases ins with
    | inputVar name =>
      simp only [perform, performInstr] at h
      split at h
      · simp [Outcome.nextState] at h
      all_goals exact apply_inputs _ s s' h
    | int op =>
      simp only [perform, performInstr] at h
      split at h
      · exact apply_inputs _ s s' h
      · simp [flush, Outcome.nextState] at h; subst h; rfl
    | float op =>
      simp only [perform, performInstr] at h
      split at h
      · exact apply_inputs _ s s' h
      · simp [flush, Outcome.nextState] at h; subst h; rfl
    | bool op =>
      simp only [perform, performInstr] at h
      split at h
      · exact apply_inputs _ s s' h
      · simp [flush, Outcome.nextState] at h; subst h; rfl
    | exec op =>
      cases op <;> simp only [perform, performInstr, sigExec] at h
      case when | «unless» =>
        unfold cond1 at h; simp only [] at h
        split at h <;> simp [Outcome.nextState] at h <;> subst h <;> rfl
      case ifElse =>
        unfold ifElse at h; simp only [] at h
        split at h <;> simp [Outcome.nextState] at h <;> subst h <;> rfl
      case flush => simp [flush, Outcome.nextState] at h; subst h; rfl
      all_goals exact apply_inputs _ s s' h
    | printSpace | printNewline | printPeriod => simp only [perform, performInstr] at h; exact apply_inputs _ s s' h
    | printString str => simp only [perform, performInstr] at h; exact apply_inputs _ s s' h

end Spec

/-- carry a state transformation through a run result -/
def Impl.RunResult.mapState (f : PState → PState) : Impl.RunResult → Impl.RunResult
  | .done s k => .done (f s) k
  | .error s e k => .error (f s) e k
  | .panic => .panic

/-- **Evaluation depends on the input bindings only through what each name resolves to**: two
    states that differ only in bindings resolving every name alike run to the same result (same
    outcome, steps, stacks, output), for every step budget. -/
theorem specRun_frame (i2 : List (String × Lit)) (fuel : Nat) :
    ∀ (k : Nat) (s : PState), SameLookup s.inputs i2 →
      Impl.runLoopG Spec.perform fuel k (s.withInputs i2) =
        (Impl.runLoopG Spec.perform fuel k s).mapState (·.withInputs i2) := by
  induction fuel with
  | zero => intro k s _; rfl
  | succ n ih =>
    intro k s h
    have e1 : (s.withInputs i2).exec = s.exec := rfl
    unfold Impl.runLoopG
    simp only [e1]
    cases hp : s.exec.pop with
    | error e => rfl
    | ok pe =>
      obtain ⟨p, est⟩ := pe
      simp only []
      have key : Spec.perform p ({ (s.withInputs i2) with exec := est } : PState) =
          (Spec.perform p ({ s with exec := est } : PState)).map (·.withInputs i2) :=
        Spec.perform_frame p ({ s with exec := est } : PState) s.inputs i2 h
      rw [key]
      cases ho : Spec.perform p ({ s with exec := est } : PState) with
      | ok s1 =>
        have hin : s1.inputs = s.inputs := Spec.perform_inputs p ({ s with exec := est } : PState) s1 (by simp [ho, Outcome.nextState])
        simp only [Outcome.map]
        exact ih (k + 1) s1 (by rw [hin]; exact h)
      | recoverable s1 e =>
        have hin : s1.inputs = s.inputs := Spec.perform_inputs p ({ s with exec := est } : PState) s1 (by simp [ho, Outcome.nextState])
        simp only [Outcome.map]
        exact ih (k + 1) s1 (by rw [hin]; exact h)
      | fatal s1 e => rfl
      | panic => rfl

end Uec
