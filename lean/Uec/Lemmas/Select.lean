/-
  Helper lemmas about the selector model (`Uec.Model.Select`): `Iterator::max/min` folds,
  the key view of the individuals' ordering, the lexicase loops.  Core Lean only.
-/
import Uec.Model.Select
namespace Uec
namespace SelLemmas

/-- The individuals' ordering as an integer rank: the key for `Score`, its negation for `Error`. -/
def rank (hb : Bool) (pop : List Ind) (i : Nat) : Int :=
  if hb then (pop.getD i default).key else -(pop.getD i default).key

theorem cmpAt_eq (hb : Bool) (pop : List Ind) (i j : Nat) :
    cmpAt hb pop i j = compare (rank hb pop i) (rank hb pop j) := by
  cases hb
  · simp only [cmpAt, Ind.cmp, rank, Bool.false_eq_true, if_false]
    generalize (pop.getD i default).key = a
    generalize (pop.getD j default).key = b
    rcases Int.lt_trichotomy a b with h | h | h
    · rw [Int.compare_eq_gt.mpr h, Int.compare_eq_gt.mpr (by omega)]
    · subst h; simp
    · rw [Int.compare_eq_lt.mpr h, Int.compare_eq_lt.mpr (by omega)]
  · simp [cmpAt, Ind.cmp, rank]

variable {α : Type}

/-- the fold of `Iterator::max_by` under a comparison given by an integer rank -/
def maxFold (f : α → Int) (xs : List α) (x : α) : α :=
  xs.foldl (fun acc y => if compare (f acc) (f y) == .gt then acc else y) x

def minFold (f : α → Int) (xs : List α) (x : α) : α :=
  xs.foldl (fun acc y => if compare (f acc) (f y) == .gt then y else acc) x

theorem maxFold_cons (f : α → Int) (x y : α) (ys : List α) :
    maxFold f (y :: ys) x = maxFold f ys (if f y < f x then x else y) := by
  simp only [maxFold, List.foldl_cons]
  congr 1
  by_cases h : f y < f x
  · simp [h, Int.compare_eq_gt.mpr h]
  · have : compare (f x) (f y) ≠ .gt := fun hc => h (Int.compare_eq_gt.mp hc)
    simp [h, this]

theorem minFold_cons (f : α → Int) (x y : α) (ys : List α) :
    minFold f (y :: ys) x = minFold f ys (if f y < f x then y else x) := by
  simp only [minFold, List.foldl_cons]
  congr 1
  by_cases h : f y < f x
  · simp [h, Int.compare_eq_gt.mpr h]
  · have : compare (f x) (f y) ≠ .gt := fun hc => h (Int.compare_eq_gt.mp hc)
    simp [h, this]

/-- `Iterator::max`: the result is the **last** element of maximal rank. -/
theorem maxFold_spec (f : α → Int) (xs : List α) (x : α) :
    ∃ pre post, x :: xs = pre ++ maxFold f xs x :: post ∧
      (∀ y ∈ pre, f y ≤ f (maxFold f xs x)) ∧ (∀ y ∈ post, f y < f (maxFold f xs x)) := by
  induction xs generalizing x with
  | nil => exact ⟨[], [], by simp [maxFold]⟩
  | cons y ys ih =>
    rw [maxFold_cons]
    by_cases h : f y < f x
    · simp only [h, if_true]
      obtain ⟨pre, post, heq, hpre, hpost⟩ := ih x
      generalize maxFold f ys x = m at heq hpre hpost ⊢
      -- x stays the accumulator; y is inserted right after x
      cases pre with
      | nil =>
        simp only [List.nil_append, List.cons.injEq] at heq
        obtain ⟨hx, hys⟩ := heq
        refine ⟨[], y :: post, by simp [hx, hys], by simp, ?_⟩
        intro z hz
        rcases List.mem_cons.mp hz with rfl | hz
        · rw [← hx]; exact h
        · exact hpost z hz
      | cons p pre =>
        simp only [List.cons_append, List.cons.injEq] at heq
        obtain ⟨hx, hys⟩ := heq
        refine ⟨x :: y :: pre, post, by simp [hys], ?_, hpost⟩
        intro z hz
        have hxm : f x ≤ f m := hpre p (by simp) |> (hx ▸ ·)
        rcases List.mem_cons.mp hz with rfl | hz
        · exact hxm
        rcases List.mem_cons.mp hz with rfl | hz
        · omega
        · exact hpre z (by simp [hz])
    · simp only [h, if_false]
      obtain ⟨pre, post, heq, hpre, hpost⟩ := ih y
      generalize maxFold f ys y = m at heq hpre hpost ⊢
      refine ⟨x :: pre, post, by simp [heq], ?_, hpost⟩
      intro z hz
      rcases List.mem_cons.mp hz with rfl | hz
      · have hy : f y ≤ f m := by
          cases pre with
          | nil => simp only [List.nil_append, List.cons.injEq] at heq; rw [heq.1]; exact Int.le_refl _
          | cons p pre =>
            simp only [List.cons_append, List.cons.injEq] at heq
            exact hpre y (by simp [heq.1])
        omega
      · exact hpre z hz

/-- `Iterator::min`: the result is the **first** element of minimal rank. -/
theorem minFold_spec (f : α → Int) (xs : List α) (x : α) :
    ∃ pre post, x :: xs = pre ++ minFold f xs x :: post ∧
      (∀ y ∈ pre, f (minFold f xs x) < f y) ∧ (∀ y ∈ post, f (minFold f xs x) ≤ f y) := by
  induction xs generalizing x with
  | nil => exact ⟨[], [], by simp [minFold]⟩
  | cons y ys ih =>
    rw [minFold_cons]
    by_cases h : f y < f x
    · simp only [h, if_true]
      obtain ⟨pre, post, heq, hpre, hpost⟩ := ih y
      generalize minFold f ys y = m at heq hpre hpost ⊢
      refine ⟨x :: pre, post, by simp [heq], ?_, hpost⟩
      intro z hz
      rcases List.mem_cons.mp hz with rfl | hz
      · have hy : f m ≤ f y := by
          cases pre with
          | nil => simp only [List.nil_append, List.cons.injEq] at heq; rw [heq.1]; exact Int.le_refl _
          | cons p pre =>
            simp only [List.cons_append, List.cons.injEq] at heq
            exact Int.le_of_lt (hpre y (by simp [heq.1]))
        omega
      · exact hpre z hz
    · simp only [h, if_false]
      obtain ⟨pre, post, heq, hpre, hpost⟩ := ih x
      generalize minFold f ys x = m at heq hpre hpost ⊢
      cases pre with
      | nil =>
        simp only [List.nil_append, List.cons.injEq] at heq
        obtain ⟨hx, hys⟩ := heq
        refine ⟨[], y :: post, by simp [hx, hys], by simp, ?_⟩
        intro z hz
        rcases List.mem_cons.mp hz with rfl | hz
        · rw [← hx]; omega
        · exact hpost z hz
      | cons p pre =>
        simp only [List.cons_append, List.cons.injEq] at heq
        obtain ⟨hx, hys⟩ := heq
        refine ⟨x :: y :: pre, post, by simp [hys], ?_, hpost⟩
        intro z hz
        have hxm : f m < f x := hpre p (by simp) |> (hx ▸ ·)
        rcases List.mem_cons.mp hz with rfl | hz
        · exact hxm
        rcases List.mem_cons.mp hz with rfl | hz
        · omega
        · exact hpre z (by simp [hz])

theorem iterMax_eq (hb : Bool) (pop : List Ind) (x : Nat) (xs : List Nat) :
    iterMax (cmpAt hb pop) (x :: xs) = some (maxFold (rank hb pop) xs x) := by
  simp only [iterMax, maxFold, cmpAt_eq]

theorem iterMin_eq (hb : Bool) (pop : List Ind) (x : Nat) (xs : List Nat) :
    iterMin (cmpAt hb pop) (x :: xs) = some (minFold (rank hb pop) xs x) := by
  simp only [iterMin, minFold, cmpAt_eq]

/-- packaged: `iterMax` on a non-empty list of positions -/
theorem iterMax_spec (hb : Bool) (pop : List Ind) (l : List Nat) (hl : l ≠ []) :
    ∃ m pre post, iterMax (cmpAt hb pop) l = some m ∧ l = pre ++ m :: post ∧
      (∀ y ∈ pre, rank hb pop y ≤ rank hb pop m) ∧ (∀ y ∈ post, rank hb pop y < rank hb pop m) := by
  cases l with
  | nil => exact absurd rfl hl
  | cons x xs =>
    obtain ⟨pre, post, h1, h2, h3⟩ := maxFold_spec (rank hb pop) xs x
    exact ⟨_, pre, post, iterMax_eq hb pop x xs, h1, h2, h3⟩

theorem iterMin_spec (hb : Bool) (pop : List Ind) (l : List Nat) (hl : l ≠ []) :
    ∃ m pre post, iterMin (cmpAt hb pop) l = some m ∧ l = pre ++ m :: post ∧
      (∀ y ∈ pre, rank hb pop m < rank hb pop y) ∧ (∀ y ∈ post, rank hb pop m ≤ rank hb pop y) := by
  cases l with
  | nil => exact absurd rfl hl
  | cons x xs =>
    obtain ⟨pre, post, h1, h2, h3⟩ := minFold_spec (rank hb pop) xs x
    exact ⟨_, pre, post, iterMin_eq hb pop x xs, h1, h2, h3⟩

end SelLemmas
end Uec

namespace Uec
namespace SelLemmas
open Rand

theorem reach_pure {α : Type} {a r : α} : Reach (Rand.pure a) r ↔ r = a := by
  constructor
  · intro h; cases h; rfl
  · rintro rfl; exact .pure _

theorem reach_pure' {α : Type} {a r : α} : Reach (Pure.pure a : Rand α) r ↔ r = a := reach_pure

theorem reach_ask {α : Type} {p : Prim} {k : Ans → Rand α} {r : α} :
    Reach (.ask p k) r ↔ ∃ ans, p.valid ans ∧ Reach (k ans) r := by
  constructor
  · intro h; cases h with | ask hv hr => exact ⟨_, hv, hr⟩
  · rintro ⟨ans, hv, hr⟩; exact .ask hv hr

theorem reach_bind {α β : Type} {m : Rand α} {f : α → Rand β} {r : β} :
    Reach (Rand.bind m f) r ↔ ∃ a, Reach m a ∧ Reach (f a) r := by
  induction m with
  | pure a => simp [Rand.bind, reach_pure]
  | ask p k ih =>
    simp only [Rand.bind, reach_ask, ih]
    constructor
    · rintro ⟨ans, hv, a, h1, h2⟩; exact ⟨a, ⟨ans, hv, h1⟩, h2⟩
    · rintro ⟨a, ⟨ans, hv, h1⟩, h2⟩; exact ⟨ans, hv, a, h1, h2⟩

theorem getD_eq (pop : List Ind) (i : Nat) (h : i < pop.length) : pop.getD i default = pop[i] := by
  simp [List.getD_eq_getElem?_getD, h]

/-- the rank view of "not better than" -/
theorem rank_le_iff (hb : Bool) (pop : List Ind) (i j : Nat) :
    rank hb pop j ≤ rank hb pop i ↔ cmpAt hb pop j i ≠ .gt := by
  rw [cmpAt_eq, Ne, Int.compare_eq_gt]; omega

theorem rank_lt_iff (hb : Bool) (pop : List Ind) (i j : Nat) :
    rank hb pop j < rank hb pop i ↔ cmpAt hb pop j i = .lt := by
  rw [cmpAt_eq, Int.compare_eq_lt]

end SelLemmas
end Uec

namespace Uec
namespace SelLemmas

/-! ### Lexicase loops: candidates stay candidates, errors have causes -/

theorem lexScan_sub (hb : Bool) (pop : List Ind) (total c : Nat) (l : List Nat) :
    ∀ (ws : List Nat) (best : Int) (ws' : List Nat) (best' : Int),
      lexScan hb pop total c l (ws, best) = .ok (ws', best') →
      (∀ i ∈ ws', i ∈ ws ∨ i ∈ l) ∧ (ws ≠ [] → ws' ≠ []) := by
  induction l with
  | nil => intro ws best ws' best' h; simp [lexScan] at h; obtain ⟨rfl, rfl⟩ := h; exact ⟨fun i hi => .inl hi, id⟩
  | cons j rest ih =>
    intro ws best ws' best' h
    simp only [lexScan] at h
    split at h
    · cases h
    · split at h
      · obtain ⟨h1, h2⟩ := ih _ _ _ _ h
        exact ⟨fun i hi => (h1 i hi).elim .inl (fun x => .inr (List.mem_cons_of_mem _ x)), h2⟩
      · obtain ⟨h1, h2⟩ := ih _ _ _ _ h
        refine ⟨fun i hi => ?_, fun _ => h2 (by simp)⟩
        rcases h1 i hi with x | x
        · rcases List.mem_append.mp x with x | x
          · exact .inl x
          · simp at x; exact .inr (by simp [x])
        · exact .inr (List.mem_cons_of_mem _ x)
      · obtain ⟨h1, h2⟩ := ih _ _ _ _ h
        refine ⟨fun i hi => ?_, fun _ => h2 (by simp)⟩
        rcases h1 i hi with x | x
        · simp at x; exact .inr (by simp [x])
        · exact .inr (List.mem_cons_of_mem _ x)

theorem lexScan_err (hb : Bool) (pop : List Ind) (total c : Nat) (l : List Nat) :
    ∀ (st : List Nat × Int) (e : SelErr), lexScan hb pop total c l st = .error e →
      e = .missingTestCase total c ∧ ∃ j ∈ l, resultAt pop j c = none := by
  induction l with
  | nil => intro st e h; simp [lexScan] at h
  | cons j rest ih =>
    intro st e h
    obtain ⟨ws, best⟩ := st
    simp only [lexScan] at h
    split at h
    · rename_i hnone
      cases h
      exact ⟨rfl, j, by simp, hnone⟩
    · split at h <;>
      · obtain ⟨h1, j', hj', h2⟩ := ih _ _ h
        exact ⟨h1, j', List.mem_cons_of_mem _ hj', h2⟩

theorem lexLoop_sub (hb : Bool) (pop : List Ind) (total : Nat) (order : List Nat) :
    ∀ (cands cs : List Nat), lexLoop hb pop total order cands = .ok cs →
      (∀ i ∈ cs, i ∈ cands) ∧ (cands ≠ [] → cs ≠ []) := by
  induction order with
  | nil => intro cands cs h; simp [lexLoop] at h; subst h; exact ⟨fun _ h => h, id⟩
  | cons c rest ih =>
    intro cands cs h
    match cands, h with
    | [], h => simp [lexLoop] at h
    | [x], h => simp [lexLoop] at h; subst h; exact ⟨fun _ h => h, id⟩
    | first :: y :: rem, h =>
      simp only [lexLoop] at h
      split at h
      · cases h
      · split at h
        · cases h
        · rename_i winners _ hscan
          obtain ⟨h1, h2⟩ := lexScan_sub hb pop total c _ _ _ _ _ hscan
          obtain ⟨h3, h4⟩ := ih _ _ h
          refine ⟨fun i hi => ?_, fun _ => h4 (h2 (by simp))⟩
          rcases h1 i (h3 i hi) with x | x
          · simp at x; simp [x]
          · exact List.mem_cons_of_mem _ x

theorem lexLoop_err (hb : Bool) (pop : List Ind) (total : Nat) (order : List Nat) :
    ∀ (cands : List Nat) (e : SelErr), lexLoop hb pop total order cands = .error e →
      (e = .lexEmpty ∧ cands = []) ∨
      (∃ c ∈ order, e = .missingTestCase total c ∧ ∃ j ∈ cands, resultAt pop j c = none) := by
  induction order with
  | nil => intro cands e h; simp [lexLoop] at h
  | cons c rest ih =>
    intro cands e h
    match cands, h with
    | [], h => simp [lexLoop] at h; exact .inl ⟨h.symm, rfl⟩
    | [x], h => simp [lexLoop] at h
    | first :: y :: rem, h =>
      right
      simp only [lexLoop] at h
      split at h
      · rename_i hnone
        cases h
        exact ⟨c, by simp, rfl, first, by simp, hnone⟩
      · split at h
        · rename_i e' hscan
          cases h
          obtain ⟨h1, j, hj, h2⟩ := lexScan_err hb pop total c _ _ _ hscan
          exact ⟨c, by simp, h1, j, List.mem_cons_of_mem _ hj, h2⟩
        · rename_i winners _ hscan
          obtain ⟨h1, h2⟩ := lexScan_sub hb pop total c _ _ _ _ _ hscan
          rcases ih _ _ h with ⟨_, h0⟩ | ⟨c', hc', he, j, hj, hn⟩
          · exact absurd h0 (h2 (by simp))
          · refine ⟨c', List.mem_cons_of_mem _ hc', he, j, ?_, hn⟩
            rcases h1 j hj with x | x
            · simp at x; simp [x]
            · exact List.mem_cons_of_mem _ x

end SelLemmas
end Uec

namespace Uec
namespace SelLemmas

/-! ### Lexicase: the loops compute the Spec (`survivors`) -/

/-- value of individual `i` on case `c`, oriented so that bigger is better (0 if missing) -/
def cval (hb : Bool) (pop : List Ind) (c i : Nat) : Int :=
  match resultAt pop i c with
  | some r => if hb then r else -r
  | none => 0

theorem resCmp_eq (hb : Bool) (x y : Int) :
    resCmp hb x y = compare (if hb then x else -x) (if hb then y else -y) := by
  cases hb
  · simp only [resCmp, Bool.false_eq_true, if_false]
    rcases Int.lt_trichotomy x y with h | h | h
    · rw [Int.compare_eq_gt.mpr h, Int.compare_eq_gt.mpr (by omega)]
    · subst h; simp
    · rw [Int.compare_eq_lt.mpr h, Int.compare_eq_lt.mpr (by omega)]
  · simp [resCmp]

theorem resCmp_ne_gt (hb : Bool) (x y : Int) :
    (resCmp hb x y != .gt) = decide ((if hb then x else -x) ≤ (if hb then y else -y)) := by
  rw [resCmp_eq]
  generalize (if hb then x else -x) = a
  generalize (if hb then y else -y) = b
  by_cases hab : a ≤ b
  · have : compare a b ≠ .gt := fun hc => by have := Int.compare_eq_gt.mp hc; omega
    simp [hab, this]
  · have : compare a b = .gt := Int.compare_eq_gt.mpr (by omega)
    simp [hab, this]

/-- all of `l` have a result for case `c` -/
def HasCase (pop : List Ind) (c : Nat) (l : List Nat) : Prop := ∀ i ∈ l, (resultAt pop i c).isSome = true

theorem filterBest_eq (hb : Bool) (pop : List Ind) (c : Nat) (cands : List Nat) (h : HasCase pop c cands) :
    filterBest hb pop c cands = cands.filter (fun i => cands.all fun j => decide (cval hb pop c j ≤ cval hb pop c i)) := by
  simp only [filterBest]
  apply List.filter_congr
  intro i hi
  obtain ⟨ri, hri⟩ := Option.isSome_iff_exists.mp (h i hi)
  rw [Bool.eq_iff_iff, List.all_eq_true, List.all_eq_true]
  constructor
  · intro hall j hj
    obtain ⟨rj, hrj⟩ := Option.isSome_iff_exists.mp (h j hj)
    have := hall j hj
    simp only [hri, hrj, resCmp_ne_gt] at this
    simpa [cval, hri, hrj] using this
  · intro hall j hj
    obtain ⟨rj, hrj⟩ := Option.isSome_iff_exists.mp (h j hj)
    have := hall j hj
    simp only [cval, hri, hrj] at this
    simpa [hri, hrj, resCmp_ne_gt] using this

theorem filterBest_sub (hb : Bool) (pop : List Ind) (c : Nat) (cands : List Nat) :
    ∀ i ∈ filterBest hb pop c cands, i ∈ cands := fun i hi => (List.mem_filter.mp hi).1

theorem survivors_sub (hb : Bool) (pop : List Ind) (order : List Nat) :
    ∀ (cands : List Nat), ∀ i ∈ survivors hb pop order cands, i ∈ cands := by
  induction order with
  | nil => intro cands _ hi; exact hi
  | cons c cs ih =>
    intro cands i hi
    simp only [survivors, List.foldl_cons] at hi
    exact filterBest_sub hb pop c cands i (ih _ i hi)

theorem survivors_cons (hb : Bool) (pop : List Ind) (c : Nat) (cs cands : List Nat) :
    survivors hb pop (c :: cs) cands = survivors hb pop cs (filterBest hb pop c cands) := by
  simp [survivors]

theorem filterBest_single (hb : Bool) (pop : List Ind) (c x : Nat) : filterBest hb pop c [x] = [x] := by
  simp only [filterBest, List.filter_cons, List.filter_nil, List.all_cons, List.all_nil, Bool.and_true]
  cases h : resultAt pop x c with
  | none => simp
  | some r =>
    have : resCmp hb r r ≠ .gt := by rw [resCmp_eq]; intro hc; have := Int.compare_eq_gt.mp hc; omega
    simp [this]

theorem survivors_single (hb : Bool) (pop : List Ind) (order : List Nat) (x : Nat) :
    survivors hb pop order [x] = [x] := by
  induction order with
  | nil => rfl
  | cons c cs ih => rw [survivors_cons, filterBest_single, ih]

/-- The inner loop computes the maximisers: invariant over the processed prefix `P`. -/
theorem lexScan_eq (hb : Bool) (pop : List Ind) (total c : Nat) (l : List Nat) :
    ∀ (P ws : List Nat) (best : Int), HasCase pop c l →
      (∀ i ∈ P, cval hb pop c i ≤ (if hb then best else -best)) →
      ws = P.filter (fun i => decide (cval hb pop c i = (if hb then best else -best))) → ws ≠ [] →
      ∃ best', lexScan hb pop total c l (ws, best) =
        .ok ((P ++ l).filter (fun i => (P ++ l).all fun j => decide (cval hb pop c j ≤ cval hb pop c i)), best') := by
  induction l with
  | nil =>
    intro P ws best _ hle hws hne
    refine ⟨best, ?_⟩
    simp only [lexScan, List.append_nil]
    congr 2
    rw [hws]
    apply List.filter_congr
    intro i hi
    obtain ⟨i0, hi0⟩ := List.exists_mem_of_ne_nil _ hne
    rw [hws] at hi0
    have h0 := List.mem_filter.mp hi0
    have h0v : cval hb pop c i0 = (if hb then best else -best) := by simpa using h0.2
    by_cases hv : cval hb pop c i = (if hb then best else -best)
    · simp only [hv, decide_true]
      symm
      rw [List.all_eq_true]
      intro j hj; simpa using hle j hj
    · simp only [hv, decide_false]
      symm
      rw [Bool.eq_false_iff]
      intro hall
      rw [List.all_eq_true] at hall
      have h1 := hall i0 h0.1
      have h2 := hle i hi
      simp only [decide_eq_true_eq] at h1
      omega
  | cons j rest ih =>
    intro P ws best hcase hle hws hne
    have hj := hcase j (by simp)
    have hrest : HasCase pop c rest := fun i hi => hcase i (List.mem_cons_of_mem _ hi)
    cases hr : resultAt pop j c with
    | none => simp [hr] at hj
    | some r =>
      have hcv : cval hb pop c j = (if hb then r else -r) := by simp [cval, hr]
      simp only [lexScan, hr, resCmp_eq]
      have happ : P ++ j :: rest = (P ++ [j]) ++ rest := by simp
      rw [happ]
      rcases Int.lt_trichotomy (if hb then r else -r) (if hb then best else -best) with hlt | heq | hgt
      · rw [Int.compare_eq_lt.mpr hlt]
        refine ih (P ++ [j]) ws best hrest ?_ ?_ hne
        · intro i hi
          rcases List.mem_append.mp hi with h | h
          · exact hle i h
          · simp at h; subst h; omega
        · rw [List.filter_append, ← hws]
          have : ¬ cval hb pop c j = (if hb then best else -best) := by omega
          simp [this]
      · rw [Int.compare_eq_eq.mpr heq]
        refine ih (P ++ [j]) (ws ++ [j]) best hrest ?_ ?_ (by simp)
        · intro i hi
          rcases List.mem_append.mp hi with h | h
          · exact hle i h
          · simp at h; subst h; omega
        · rw [List.filter_append, ← hws]
          have : cval hb pop c j = (if hb then best else -best) := by omega
          simp [this]
      · rw [Int.compare_eq_gt.mpr hgt]
        refine ih (P ++ [j]) [j] r hrest ?_ ?_ (by simp)
        · intro i hi
          rcases List.mem_append.mp hi with h | h
          · have := hle i h; omega
          · simp at h; subst h; omega
        · rw [List.filter_append]
          have h1 : P.filter (fun i => decide (cval hb pop c i = (if hb then r else -r))) = [] := by
            rw [List.filter_eq_nil_iff]
            intro i hi
            have := hle i hi
            simp only [decide_eq_true_eq]; omega
          simp [h1, hcv]

/-- **The loop computes the Spec**: on a non-empty candidate list whose members all have results
    for the cases of `order`, the filtering loop (with its early exit on a single candidate)
    returns exactly `survivors order cands`. -/
theorem lexLoop_eq (hb : Bool) (pop : List Ind) (total : Nat) (order : List Nat) :
    ∀ (cands : List Nat), cands ≠ [] → (∀ c ∈ order, HasCase pop c cands) →
      lexLoop hb pop total order cands = .ok (survivors hb pop order cands) := by
  induction order with
  | nil => intro cands _ _; rfl
  | cons c cs ih =>
    intro cands hne hcase
    match cands, hne, hcase with
    | [], hne, _ => exact absurd rfl hne
    | [x], _, _ => simp [lexLoop, survivors_single]
    | first :: y :: rem, _, hcase =>
      have hc := hcase c (by simp)
      obtain ⟨r0, hr0⟩ := Option.isSome_iff_exists.mp (hc first (by simp))
      have hcv : cval hb pop c first = (if hb then r0 else -r0) := by simp [cval, hr0]
      obtain ⟨best', hscan⟩ := lexScan_eq hb pop total c (y :: rem) [first] [first] r0
        (fun i hi => hc i (List.mem_cons_of_mem _ hi))
        (by intro i hi; simp at hi; subst hi; omega)
        (by simp [hcv]) (by simp)
      simp only [lexLoop, hr0, hscan]
      have hfb := filterBest_eq hb pop c (first :: y :: rem) hc
      simp only [List.singleton_append] at hscan ⊢
      rw [← hfb]
      rw [survivors_cons]
      have hsub := filterBest_sub hb pop c (first :: y :: rem)
      refine ih _ ?_ ?_
      · have := (lexScan_sub hb pop total c _ _ _ _ _ hscan).2 (by simp)
        rw [← hfb] at this; exact this
      · intro c' hc' i hi
        exact hcase c' (List.mem_cons_of_mem _ hc') i (hsub i hi)


theorem resCmp_ne_lt (hb : Bool) (x y : Int) :
    (resCmp hb x y != .lt) = decide ((if hb then y else -y) ≤ (if hb then x else -x)) := by
  rw [resCmp_eq]
  generalize (if hb then x else -x) = a
  generalize (if hb then y else -y) = b
  by_cases hab : b ≤ a
  · have : compare a b ≠ .lt := fun hc => by have := Int.compare_eq_lt.mp hc; omega
    simp [hab, this]
  · have : compare a b = .lt := Int.compare_eq_lt.mpr (by omega)
    simp [hab, this]

theorem resCmp_eq_gt (hb : Bool) (x y : Int) :
    (resCmp hb x y == .gt) = decide ((if hb then y else -y) < (if hb then x else -x)) := by
  rw [resCmp_eq]
  generalize (if hb then x else -x) = a
  generalize (if hb then y else -y) = b
  by_cases hab : b < a
  · simp [hab, Int.compare_eq_gt.mpr hab]
  · have : compare a b ≠ .gt := fun hc => hab (Int.compare_eq_gt.mp hc)
    simp [hab, this]

/-- `dominates` in terms of the oriented values -/
theorem dominates_cval (hb : Bool) (pop : List Ind) (n j i : Nat) (h : dominates hb pop n j i = true) :
    (∀ c < n, cval hb pop c i ≤ cval hb pop c j) ∧ ∃ c < n, cval hb pop c i < cval hb pop c j := by
  simp only [dominates, Bool.and_eq_true, List.all_eq_true, List.any_eq_true, List.mem_range] at h
  obtain ⟨hall, c0, hc0, hgt⟩ := h
  constructor
  · intro c hc
    have := hall c hc
    cases hrj : resultAt pop j c with
    | none => simp [hrj] at this
    | some rj =>
      cases hri : resultAt pop i c with
      | none => simp [hrj, hri] at this
      | some ri =>
        simp only [hrj, hri, resCmp_ne_lt, decide_eq_true_eq] at this
        simpa [cval, hrj, hri] using this
  · refine ⟨c0, hc0, ?_⟩
    cases hrj : resultAt pop j c0 with
    | none => simp [hrj] at hgt
    | some rj =>
      cases hri : resultAt pop i c0 with
      | none => simp [hrj, hri] at hgt
      | some ri =>
        simp only [hrj, hri, resCmp_eq_gt, decide_eq_true_eq] at hgt
        simpa [cval, hrj, hri] using hgt

/-- an individual that is at least as good as a survivor on every case survives too, and is then
    equally good on every case -/
theorem dom_survives (hb : Bool) (pop : List Ind) (j w : Nat) (order : List Nat) :
    ∀ (cands : List Nat), (∀ c ∈ order, HasCase pop c cands) → j ∈ cands → w ∈ survivors hb pop order cands →
      (∀ c ∈ order, cval hb pop c w ≤ cval hb pop c j) →
      j ∈ survivors hb pop order cands ∧ ∀ c ∈ order, cval hb pop c j ≤ cval hb pop c w := by
  induction order with
  | nil => intro cands _ hj _ _; exact ⟨hj, by simp⟩
  | cons c cs ih =>
    intro cands hcase hj hw hle
    rw [survivors_cons] at hw ⊢
    have hwf := survivors_sub hb pop cs _ w hw
    have hc := hcase c (by simp)
    rw [filterBest_eq hb pop c cands hc] at hwf
    obtain ⟨hwc, hwall⟩ := List.mem_filter.mp hwf
    rw [List.all_eq_true] at hwall
    have hjw : cval hb pop c j ≤ cval hb pop c w := by simpa using hwall j hj
    have hwj := hle c (by simp)
    have hjf : j ∈ filterBest hb pop c cands := by
      rw [filterBest_eq hb pop c cands hc]
      refine List.mem_filter.mpr ⟨hj, ?_⟩
      rw [List.all_eq_true]
      intro k hk
      have : cval hb pop c k ≤ cval hb pop c w := by simpa using hwall k hk
      simp only [decide_eq_true_eq]; omega
    obtain ⟨h1, h2⟩ := ih (filterBest hb pop c cands)
      (fun c' hc' i hi => hcase c' (List.mem_cons_of_mem _ hc') i (filterBest_sub hb pop c cands i hi))
      hjf hw (fun c' hc' => hle c' (List.mem_cons_of_mem _ hc'))
    refine ⟨h1, ?_⟩
    intro c' hc'
    rcases List.mem_cons.mp hc' with rfl | hc'
    · exact hjw
    · exact h2 c' hc'

end SelLemmas
end Uec
