/-
  Helper lemmas about the selector model (`Uec.Model.Select`): `Iterator::max/min` folds,
  the key view of the individuals' ordering, the lexicase loops.  Core Lean only.
-/
import Uec.Model.Select
namespace Uec
namespace SelLemmas

/-- The individuals' ordering as an integer rank: the key for `Score`, its negation for `Error`. -/
def rank (hb : Bool) (pop : List Ind) (i : Nat) : Int :=
  if hb then (pop.getD i default).key else -(pop.getD i default).key

theorem cmpAt_eq (hb : Bool) (pop : List Ind) (i j : Nat) :
    cmpAt hb pop i j = compare (rank hb pop i) (rank hb pop j) := by
  cases hb
  · simp only [cmpAt, Ind.cmp, rank, Bool.false_eq_true, if_false]
    generalize (pop.getD i default).key = a
    generalize (pop.getD j default).key = b
    rcases Int.lt_trichotomy a b with h | h | h
    · rw [Int.compare_eq_gt.mpr h, Int.compare_eq_gt.mpr (by omega)]
    · subst h; simp
    · rw [Int.compare_eq_lt.mpr h, Int.compare_eq_lt.mpr (by omega)]
  · simp [cmpAt, Ind.cmp, rank]

variable {α : Type}

/-- the fold of `Iterator::max_by` under a comparison given by an integer rank -/
def maxFold (f : α → Int) (xs : List α) (x : α) : α :=
  xs.foldl (fun acc y => if compare (f acc) (f y) == .gt then acc else y) x

def minFold (f : α → Int) (xs : List α) (x : α) : α :=
  xs.foldl (fun acc y => if compare (f acc) (f y) == .gt then y else acc) x

theorem maxFold_cons (f : α → Int) (x y : α) (ys : List α) :
    maxFold f (y :: ys) x = maxFold f ys (if f y < f x then x else y) := by
  simp only [maxFold, List.foldl_cons]
  congr 1
  by_cases h : f y < f x
  · simp [h, Int.compare_eq_gt.mpr h]
  · have : compare (f x) (f y) ≠ .gt := fun hc => h (Int.compare_eq_gt.mp hc)
    simp [h, this]

theorem minFold_cons (f : α → Int) (x y : α) (ys : List α) :
    minFold f (y :: ys) x = minFold f ys (if f y < f x then y else x) := by
  simp only [minFold, List.foldl_cons]
  congr 1
  by_cases h : f y < f x
  · simp [h, Int.compare_eq_gt.mpr h]
  · have : compare (f x) (f y) ≠ .gt := fun hc => h (Int.compare_eq_gt.mp hc)
    simp [h, this]

/-- `Iterator::max`: the result is the **last** element of maximal rank. -/
theorem maxFold_spec (f : α → Int) (xs : List α) (x : α) :
    ∃ pre post, x :: xs = pre ++ maxFold f xs x :: post ∧
      (∀ y ∈ pre, f y ≤ f (maxFold f xs x)) ∧ (∀ y ∈ post, f y < f (maxFold f xs x)) := by
  induction xs generalizing x with
  | nil => exact ⟨[], [], by simp [maxFold]⟩
  | cons y ys ih =>
    rw [maxFold_cons]
    by_cases h : f y < f x
    · simp only [h, if_true]
      obtain ⟨pre, post, heq, hpre, hpost⟩ := ih x
      generalize maxFold f ys x = m at heq hpre hpost ⊢
      -- x stays the accumulator; y is inserted right after x
      cases pre with
      | nil =>
        simp only [List.nil_append, List.cons.injEq] at heq
        obtain ⟨hx, hys⟩ := heq
        refine ⟨[], y :: post, by simp [hx, hys], by simp, ?_⟩
        intro z hz
        rcases List.mem_cons.mp hz with rfl | hz
        · rw [← hx]; exact h
        · exact hpost z hz
      | cons p pre =>
        simp only [List.cons_append, List.cons.injEq] at heq
        obtain ⟨hx, hys⟩ := heq
        refine ⟨x :: y :: pre, post, by simp [hys], ?_, hpost⟩
        intro z hz
        have hxm : f x ≤ f m := hpre p (by simp) |> (hx ▸ ·)
        rcases List.mem_cons.mp hz with rfl | hz
        · exact hxm
        rcases List.mem_cons.mp hz with rfl | hz
        · omega
        · exact hpre z (by simp [hz])
    · simp only [h, if_false]
      obtain ⟨pre, post, heq, hpre, hpost⟩ := ih y
      generalize maxFold f ys y = m at heq hpre hpost ⊢
      refine ⟨x :: pre, post, by simp [heq], ?_, hpost⟩
      intro z hz
      rcases List.mem_cons.mp hz with rfl | hz
      · have hy : f y ≤ f m := by
          cases pre with
          | nil => simp only [List.nil_append, List.cons.injEq] at heq; rw [heq.1]; exact Int.le_refl _
          | cons p pre =>
            simp only [List.cons_append, List.cons.injEq] at heq
            exact hpre y (by simp [heq.1])
        omega
      · exact hpre z hz

/-- `Iterator::min`: the result is the **first** element of minimal rank. -/
theorem minFold_spec (f : α → Int) (xs : List α) (x : α) :
    ∃ pre post, x :: xs = pre ++ minFold f xs x :: post ∧
      (∀ y ∈ pre, f (minFold f xs x) < f y) ∧ (∀ y ∈ post, f (minFold f xs x) ≤ f y) := by
  induction xs generalizing x with
  | nil => exact ⟨[], [], by simp [minFold]⟩
  | cons y ys ih =>
    rw [minFold_cons]
    by_cases h : f y < f x
    · simp only [h, if_true]
      obtain ⟨pre, post, heq, hpre, hpost⟩ := ih y
      generalize minFold f ys y = m at heq hpre hpost ⊢
      refine ⟨x :: pre, post, by simp [heq], ?_, hpost⟩
      intro z hz
      rcases List.mem_cons.mp hz with rfl | hz
      · have hy : f m ≤ f y := by
          cases pre with
          | nil => simp only [List.nil_append, List.cons.injEq] at heq; rw [heq.1]; exact Int.le_refl _
          | cons p pre =>
            simp only [List.cons_append, List.cons.injEq] at heq
            exact Int.le_of_lt (hpre y (by simp [heq.1]))
        omega
      · exact hpre z hz
    · simp only [h, if_false]
      obtain ⟨pre, post, heq, hpre, hpost⟩ := ih x
      generalize minFold f ys x = m at heq hpre hpost ⊢
      cases pre with
      | nil =>
        simp only [List.nil_append, List.cons.injEq] at heq
        obtain ⟨hx, hys⟩ := heq
        refine ⟨[], y :: post, by simp [hx, hys], by simp, ?_⟩
        intro z hz
        rcases List.mem_cons.mp hz with rfl | hz
        · rw [← hx]; omega
        · exact hpost z hz
      | cons p pre =>
        simp only [List.cons_append, List.cons.injEq] at heq
        obtain ⟨hx, hys⟩ := heq
        refine ⟨x :: y :: pre, post, by simp [hys], ?_, hpost⟩
        intro z hz
        have hxm : f m < f x := hpre p (by simp) |> (hx ▸ ·)
        rcases List.mem_cons.mp hz with rfl | hz
        · exact hxm
        rcases List.mem_cons.mp hz with rfl | hz
        · omega
        · exact hpre z (by simp [hz])

theorem iterMax_eq (hb : Bool) (pop : List Ind) (x : Nat) (xs : List Nat) :
    iterMax (cmpAt hb pop) (x :: xs) = some (maxFold (rank hb pop) xs x) := by
  simp only [iterMax, maxFold, cmpAt_eq]

theorem iterMin_eq (hb : Bool) (pop : List Ind) (x : Nat) (xs : List Nat) :
    iterMin (cmpAt hb pop) (x :: xs) = some (minFold (rank hb pop) xs x) := by
  simp only [iterMin, minFold, cmpAt_eq]

/-- packaged: `iterMax` on a non-empty list of positions -/
theorem iterMax_spec (hb : Bool) (pop : List Ind) (l : List Nat) (hl : l ≠ []) :
    ∃ m pre post, iterMax (cmpAt hb pop) l = some m ∧ l = pre ++ m :: post ∧
      (∀ y ∈ pre, rank hb pop y ≤ rank hb pop m) ∧ (∀ y ∈ post, rank hb pop y < rank hb pop m) := by
  cases l with
  | nil => exact absurd rfl hl
  | cons x xs =>
    obtain ⟨pre, post, h1, h2, h3⟩ := maxFold_spec (rank hb pop) xs x
    exact ⟨_, pre, post, iterMax_eq hb pop x xs, h1, h2, h3⟩

theorem iterMin_spec (hb : Bool) (pop : List Ind) (l : List Nat) (hl : l ≠ []) :
    ∃ m pre post, iterMin (cmpAt hb pop) l = some m ∧ l = pre ++ m :: post ∧
      (∀ y ∈ pre, rank hb pop m < rank hb pop y) ∧ (∀ y ∈ post, rank hb pop m ≤ rank hb pop y) := by
  cases l with
  | nil => exact absurd rfl hl
  | cons x xs =>
    obtain ⟨pre, post, h1, h2, h3⟩ := minFold_spec (rank hb pop) xs x
    exact ⟨_, pre, post, iterMin_eq hb pop x xs, h1, h2, h3⟩

end SelLemmas
end Uec

namespace Uec
namespace SelLemmas
open Rand

theorem reach_pure {α : Type} {a r : α} : Reach (Rand.pure a) r ↔ r = a := by
  constructor
  · intro h; cases h; rfl
  · rintro rfl; exact .pure _

theorem reach_pure' {α : Type} {a r : α} : Reach (Pure.pure a : Rand α) r ↔ r = a := reach_pure

theorem reach_ask {α : Type} {p : Prim} {k : Ans → Rand α} {r : α} :
    Reach (.ask p k) r ↔ ∃ ans, p.valid ans ∧ Reach (k ans) r := by
  constructor
  · intro h; cases h with | ask hv hr => exact ⟨_, hv, hr⟩
  · rintro ⟨ans, hv, hr⟩; exact .ask hv hr

theorem reach_bind {α β : Type} {m : Rand α} {f : α → Rand β} {r : β} :
    Reach (Rand.bind m f) r ↔ ∃ a, Reach m a ∧ Reach (f a) r := by
  induction m with
  | pure a => simp [Rand.bind, reach_pure]
  | ask p k ih =>
    simp only [Rand.bind, reach_ask, ih]
    constructor
    · rintro ⟨ans, hv, a, h1, h2⟩; exact ⟨a, ⟨ans, hv, h1⟩, h2⟩
    · rintro ⟨a, ⟨ans, hv, h1⟩, h2⟩; exact ⟨ans, hv, a, h1, h2⟩

theorem getD_eq (pop : List Ind) (i : Nat) (h : i < pop.length) : pop.getD i default = pop[i] := by
  simp [List.getD_eq_getElem?_getD, h]

/-- the rank view of "not better than" -/
theorem rank_le_iff (hb : Bool) (pop : List Ind) (i j : Nat) :
    rank hb pop j ≤ rank hb pop i ↔ cmpAt hb pop j i ≠ .gt := by
  rw [cmpAt_eq, Ne, Int.compare_eq_gt]; omega

theorem rank_lt_iff (hb : Bool) (pop : List Ind) (i j : Nat) :
    rank hb pop j < rank hb pop i ↔ cmpAt hb pop j i = .lt := by
  rw [cmpAt_eq, Int.compare_eq_lt]

end SelLemmas
end Uec

namespace Uec
namespace SelLemmas

/-! ### Lexicase loops: candidates stay candidates, errors have causes -/

theorem lexScan_sub (hb : Bool) (pop : List Ind) (total c : Nat) (l : List Nat) :
    ∀ (ws : List Nat) (best : Int) (ws' : List Nat) (best' : Int),
      lexScan hb pop total c l (ws, best) = .ok (ws', best') →
      (∀ i ∈ ws', i ∈ ws ∨ i ∈ l) ∧ (ws ≠ [] → ws' ≠ []) := by
  induction l with
  | nil => intro ws best ws' best' h; simp [lexScan] at h; obtain ⟨rfl, rfl⟩ := h; exact ⟨fun i hi => .inl hi, id⟩
  | cons j rest ih =>
    intro ws best ws' best' h
    simp only [lexScan] at h
    split at h
    · cases h
    · split at h
      · obtain ⟨h1, h2⟩ := ih _ _ _ _ h
        exact ⟨fun i hi => (h1 i hi).elim .inl (fun x => .inr (List.mem_cons_of_mem _ x)), h2⟩
      · obtain ⟨h1, h2⟩ := ih _ _ _ _ h
        refine ⟨fun i hi => ?_, fun _ => h2 (by simp)⟩
        rcases h1 i hi with x | x
        · rcases List.mem_append.mp x with x | x
          · exact .inl x
          · simp at x; exact .inr (by simp [x])
        · exact .inr (List.mem_cons_of_mem _ x)
      · obtain ⟨h1, h2⟩ := ih _ _ _ _ h
        refine ⟨fun i hi => ?_, fun _ => h2 (by simp)⟩
        rcases h1 i hi with x | x
        · simp at x; exact .inr (by simp [x])
        · exact .inr (List.mem_cons_of_mem _ x)

theorem lexScan_err (hb : Bool) (pop : List Ind) (total c : Nat) (l : List Nat) :
    ∀ (st : List Nat × Int) (e : SelErr), lexScan hb pop total c l st = .error e →
      e = .missingTestCase total c ∧ ∃ j ∈ l, resultAt pop j c = none := by
  induction l with
  | nil => intro st e h; simp [lexScan] at h
  | cons j rest ih =>
    intro st e h
    obtain ⟨ws, best⟩ := st
    simp only [lexScan] at h
    split at h
    · rename_i hnone
      cases h
      exact ⟨rfl, j, by simp, hnone⟩
    · split at h <;>
      · obtain ⟨h1, j', hj', h2⟩ := ih _ _ h
        exact ⟨h1, j', List.mem_cons_of_mem _ hj', h2⟩

theorem lexLoop_sub (hb : Bool) (pop : List Ind) (total : Nat) (order : List Nat) :
    ∀ (cands cs : List Nat), lexLoop hb pop total order cands = .ok cs →
      (∀ i ∈ cs, i ∈ cands) ∧ (cands ≠ [] → cs ≠ []) := by
  induction order with
  | nil => intro cands cs h; simp [lexLoop] at h; subst h; exact ⟨fun _ h => h, id⟩
  | cons c rest ih =>
    intro cands cs h
    match cands, h with
    | [], h => simp [lexLoop] at h
    | [x], h => simp [lexLoop] at h; subst h; exact ⟨fun _ h => h, id⟩
    | first :: y :: rem, h =>
      simp only [lexLoop] at h
      split at h
      · cases h
      · split at h
        · cases h
        · rename_i winners _ hscan
          obtain ⟨h1, h2⟩ := lexScan_sub hb pop total c _ _ _ _ _ hscan
          obtain ⟨h3, h4⟩ := ih _ _ h
          refine ⟨fun i hi => ?_, fun _ => h4 (h2 (by simp))⟩
          rcases h1 i (h3 i hi) with x | x
          · simp at x; simp [x]
          · exact List.mem_cons_of_mem _ x

theorem lexLoop_err (hb : Bool) (pop : List Ind) (total : Nat) (order : List Nat) :
    ∀ (cands : List Nat) (e : SelErr), lexLoop hb pop total order cands = .error e →
      (e = .lexEmpty ∧ cands = []) ∨
      (∃ c ∈ order, e = .missingTestCase total c ∧ ∃ j ∈ cands, resultAt pop j c = none) := by
  induction order with
  | nil => intro cands e h; simp [lexLoop] at h
  | cons c rest ih =>
    intro cands e h
    match cands, h with
    | [], h => simp [lexLoop] at h; exact .inl ⟨h.symm, rfl⟩
    | [x], h => simp [lexLoop] at h
    | first :: y :: rem, h =>
      right
      simp only [lexLoop] at h
      split at h
      · rename_i hnone
        cases h
        exact ⟨c, by simp, rfl, first, by simp, hnone⟩
      · split at h
        · rename_i e' hscan
          cases h
          obtain ⟨h1, j, hj, h2⟩ := lexScan_err hb pop total c _ _ _ hscan
          exact ⟨c, by simp, h1, j, List.mem_cons_of_mem _ hj, h2⟩
        · rename_i winners _ hscan
          obtain ⟨h1, h2⟩ := lexScan_sub hb pop total c _ _ _ _ _ hscan
          rcases ih _ _ h with ⟨_, h0⟩ | ⟨c', hc', he, j, hj, hn⟩
          · exact absurd h0 (h2 (by simp))
          · refine ⟨c', List.mem_cons_of_mem _ hc', he, j, ?_, hn⟩
            rcases h1 j hj with x | x
            · simp at x; simp [x]
            · exact List.mem_cons_of_mem _ x

end SelLemmas
end Uec
