/-
  Facts about the Spec semantics (the all-or-nothing engine, the action tables, blocks, inputs):
  errors carry the unchanged state, fatal errors are overflows, sizes stay within the limits,
  limits/inputs never change, the only panic is an unbound input variable.
  Through `perform_eq_spec` they become facts about the code-shaped Impl.
-/
import Uec.Lemmas.PushRefine
set_option linter.unusedSimpArgs false
set_option linter.unusedVariables false
namespace Uec
open Stack

/-- the state an outcome carries, if it is an error -/
def Outcome.errState {σ : Type} : Outcome σ → Option σ
  | .recoverable s _ => some s
  | .fatal s _ => some s
  | _ => none

def Outcome.okState {σ : Type} : Outcome σ → Option σ
  | .ok s => some s
  | _ => none

/-- the state handed on by the interpreter (`try_recover`): after success or a recoverable error -/
def Outcome.nextState {σ : Type} : Outcome σ → Option σ
  | .ok s => some s
  | .recoverable s _ => some s
  | _ => none

def Outcome.fatalErr {σ : Type} : Outcome σ → Option Err
  | .fatal _ e => some e
  | _ => none

def Outcome.recErr {σ : Type} : Outcome σ → Option Err
  | .recoverable _ e => some e
  | _ => none

namespace Spec

theorem apply_errState (sg : Sig) (s s' : PState)
    (h : (apply sg s).errState = some s') : s' = s := by
  unfold apply at h
  simp only [] at h
  repeat' split at h
  all_goals simp_all [Outcome.errState]

theorem apply_fatalErr (sg : Sig) (s : PState) (e : Err)
    (h : (apply sg s).fatalErr = some e) : e = .stack .overflow := by
  unfold apply at h
  simp only [] at h
  repeat' split at h
  all_goals simp_all [Outcome.fatalErr]

theorem apply_not_panic (sg : Sig) (s : PState) : apply sg s ≠ .panic := by
  unfold apply
  simp only []
  repeat' split
  all_goals simp

theorem takeN_ok {α : Type} {n : Nat} {l o r : List α} (h : takeN n l = .ok (o, r)) :
    r.length ≤ l.length ∧ o = l.take n ∧ r = l.drop n := by
  unfold takeN at h
  split at h
  · simp at h
  · simp at h; obtain ⟨rfl, rfl⟩ := h; simp

theorem noRoom_false {α : Type} {m : Nat} {p rest l : List α} (h : noRoom m p rest = false)
    (hr : rest.length ≤ l.length) (hl : l.length ≤ m) : (p ++ rest).length ≤ m := by
  unfold noRoom at h
  cases p with
  | nil => simp; omega
  | cons a p => simp at h; simp; omega

/-- limits, inputs and the step limit of two states agree -/
def SameConfig (s s' : PState) : Prop :=
  s'.exec.max = s.exec.max ∧ s'.int.max = s.int.max ∧ s'.float.max = s.float.max ∧
  s'.bool.max = s.bool.max ∧ s'.inputs = s.inputs ∧ s'.maxSteps = s.maxSteps

theorem SameConfig.refl (s : PState) : SameConfig s s := ⟨rfl, rfl, rfl, rfl, rfl, rfl⟩

theorem withTops_config (s : PState) (t : Tops) : SameConfig s (withTops s t) := by
  simp [SameConfig, withTops]

theorem sizesOk_withTops (s : PState) (t : Tops)
    (he : t.exec.length ≤ s.exec.max) (hi : t.int.length ≤ s.int.max)
    (hf : t.float.length ≤ s.float.max) (hb : t.bool.length ≤ s.bool.max) : SizesOk (withTops s t) := by
  constructor <;> simp [withTops] <;> assumption

theorem tops_len (s : PState) (h : SizesOk s) :
    (tops s).exec.length ≤ s.exec.max ∧ (tops s).int.length ≤ s.int.max ∧
    (tops s).float.length ≤ s.float.max ∧ (tops s).bool.length ≤ s.bool.max := by
  obtain ⟨a, b, c, d⟩ := h
  simp [tops, Stack.tops, Stack.size] at *
  exact ⟨a, b, c, d⟩

theorem apply_ok (sg : Sig) (s s' : PState) (hs : SizesOk s)
    (h : (apply sg s).okState = some s') : SizesOk s' ∧ SameConfig s s' := by
  obtain ⟨le, li, lf, lb⟩ := tops_len s hs
  unfold apply at h
  simp only [] at h
  repeat' split at h
  all_goals try (simp [Outcome.okState] at h; done)
  rename_i hpre _ oe re h1 _ oi ri h2 _ of_ rf h3 _ ob rb h4 _ p out heff hroom
  simp only [Outcome.okState, Option.some.injEq] at h
  subst h
  obtain ⟨r1, _, _⟩ := takeN_ok h1
  obtain ⟨r2, _, _⟩ := takeN_ok h2
  obtain ⟨r3, _, _⟩ := takeN_ok h3
  obtain ⟨r4, _, _⟩ := takeN_ok h4
  simp only [Bool.or_eq_true, not_or, Bool.not_eq_true] at hroom
  obtain ⟨⟨⟨n1, n2⟩, n3⟩, n4⟩ := hroom
  refine ⟨?_, ?_⟩
  · have := sizesOk_withTops s ⟨_, _, _, _⟩ (noRoom_false n1 r1 le) (noRoom_false n2 r2 li)
      (noRoom_false n3 r3 lf) (noRoom_false n4 r4 lb)
    exact ⟨this.exec, this.int, this.float, this.bool⟩
  · simp [SameConfig, withTops]

/-- what every outcome of the Spec semantics satisfies, relative to the state before -/
structure Good (s : PState) (o : Outcome PState) : Prop where
  err : ∀ s', o.errState = some s' → s' = s
  fatal : ∀ e, o.fatalErr = some e → e = .stack .overflow
  ok : SizesOk s → ∀ s', o.okState = some s' → SizesOk s' ∧ SameConfig s s'

theorem good_apply (sg : Sig) (s : PState) : Good s (apply sg s) :=
  ⟨apply_errState sg s, apply_fatalErr sg s, fun hs s' h => apply_ok sg s s' hs h⟩

theorem drop_len {α : Type} (a : Act) (l : List α) : (dropIf a l).length ≤ l.length := by
  unfold dropIf; split <;> simp

theorem good_flush (ty : Ty) (s : PState) : Good s (flush ty s) := by
  refine ⟨by simp [flush, Outcome.errState], by simp [flush, Outcome.fatalErr], ?_⟩
  intro hs s' h
  obtain ⟨le, li, lf, lb⟩ := tops_len s hs
  simp only [flush, Outcome.okState, Option.some.injEq] at h
  subst h
  refine ⟨?_, withTops_config _ _⟩
  cases ty <;> apply sizesOk_withTops <;> simp <;> assumption

theorem good_cond1 (tbl : Option Bool → Bool → Option (Act × Act)) (s : PState) : Good s (cond1 tbl s) := by
  unfold cond1
  simp only []
  split
  · refine ⟨by simp [Outcome.errState], by simp [Outcome.fatalErr], ?_⟩
    intro hs s' h
    obtain ⟨le, li, lf, lb⟩ := tops_len s hs
    simp only [Outcome.okState, Option.some.injEq] at h
    subst h
    refine ⟨?_, withTops_config _ _⟩
    apply sizesOk_withTops <;> simp
    · exact Nat.le_trans (drop_len _ _) le
    · exact li
    · exact lf
    · exact Nat.le_trans (drop_len _ _) lb
  · exact ⟨by simp [Outcome.errState], by simp [Outcome.fatalErr], by simp [Outcome.okState]⟩

theorem good_ifElse (s : PState) : Good s (ifElse s) := by
  unfold ifElse
  simp only []
  split
  · refine ⟨by simp [Outcome.errState], by simp [Outcome.fatalErr], ?_⟩
    intro hs s' h
    obtain ⟨le, li, lf, lb⟩ := tops_len s hs
    simp only [Outcome.okState, Option.some.injEq] at h
    subst h
    refine ⟨?_, withTops_config _ _⟩
    apply sizesOk_withTops <;> simp
    · split
      · rename_i th el r hex
        rw [hex] at le
        simp at le ⊢
        split <;> split <;> simp <;> omega
      · exact Nat.le_trans (drop_len _ _) le
    · exact li
    · exact lf
    · exact Nat.le_trans (drop_len _ _) lb
  · exact ⟨by simp [Outcome.errState], by simp [Outcome.fatalErr], by simp [Outcome.okState]⟩

theorem good_block (ps : List Prog) (s : PState) : Good s (perform (.block ps) s) := by
  unfold perform
  simp only []
  split
  · exact ⟨by simp [Outcome.errState], by simp [Outcome.fatalErr], by simp [Outcome.okState]⟩
  · rename_i hroom
    refine ⟨by simp [Outcome.errState], by simp [Outcome.fatalErr], ?_⟩
    intro hs s' h
    obtain ⟨le, li, lf, lb⟩ := tops_len s hs
    simp only [Outcome.okState, Option.some.injEq] at h
    subst h
    refine ⟨?_, withTops_config _ _⟩
    apply sizesOk_withTops <;> simp
    · omega
    · exact li
    · exact lf
    · exact lb

/-- the only way the semantics can panic: an input variable nobody bound -/
def Unbound (p : Prog) (s : PState) : Prop :=
  ∃ name, p = .instr (.inputVar name) ∧ Impl.lookup s.inputs name = none

theorem perform_good_or_panic (p : Prog) (s : PState) :
    (Good s (perform p s) ∧ perform p s ≠ .panic) ∨ (perform p s = .panic ∧ Unbound p s) := by
  cases p with
  | execPush q => simp only [perform]; exact .inl ⟨good_apply _ _, apply_not_panic _ _⟩
  | block ps =>
    refine .inl ⟨good_block ps s, ?_⟩
    unfold perform; simp only []; split <;> simp
  | instr i =>
    cases i with
    | inputVar name =>
      simp only [perform, performInstr]
      cases h : Impl.lookup s.inputs name with
      | none => exact .inr ⟨rfl, name, rfl, h⟩
      | some v => cases v <;> exact .inl ⟨good_apply _ _, apply_not_panic _ _⟩
    | int op =>
      simp only [perform, performInstr]
      cases sigInt op with
      | some sg => exact .inl ⟨good_apply _ _, apply_not_panic _ _⟩
      | none => exact .inl ⟨good_flush _ _, by simp [flush]⟩
    | float op =>
      simp only [perform, performInstr]
      cases sigFloat op with
      | some sg => exact .inl ⟨good_apply _ _, apply_not_panic _ _⟩
      | none => exact .inl ⟨good_flush _ _, by simp [flush]⟩
    | bool op =>
      simp only [perform, performInstr]
      cases sigBool op with
      | some sg => exact .inl ⟨good_apply _ _, apply_not_panic _ _⟩
      | none => exact .inl ⟨good_flush _ _, by simp [flush]⟩
    | exec op =>
      cases op <;> simp only [perform, performInstr, sigExec]
      case when => exact .inl ⟨good_cond1 _ _, by unfold cond1; simp only []; split <;> simp⟩
      case «unless» => exact .inl ⟨good_cond1 _ _, by unfold cond1; simp only []; split <;> simp⟩
      case ifElse => exact .inl ⟨good_ifElse _, by unfold ifElse; simp only []; split <;> simp⟩
      case flush => exact .inl ⟨good_flush _ _, by simp [flush]⟩
      all_goals exact .inl ⟨good_apply _ _, apply_not_panic _ _⟩
    | printSpace => simp only [perform, performInstr]; exact .inl ⟨good_apply _ _, apply_not_panic _ _⟩
    | printNewline => simp only [perform, performInstr]; exact .inl ⟨good_apply _ _, apply_not_panic _ _⟩
    | printPeriod => simp only [perform, performInstr]; exact .inl ⟨good_apply _ _, apply_not_panic _ _⟩
    | printString str => simp only [perform, performInstr]; exact .inl ⟨good_apply _ _, apply_not_panic _ _⟩

end Spec
end Uec
