/- Boundness of input variables is preserved by every instruction (nothing reaches the exec stack
   that was not on it, or inside the instruction, before). -/
import Uec.Model.PushWF
import Uec.Lemmas.PushRun
set_option linter.unusedSimpArgs false
set_option linter.unusedVariables false
namespace Uec
open Stack

theorem boundList_iff (inp : List (String × Lit)) (l : List Prog) :
    Prog.boundList inp l = true ↔ ∀ q ∈ l, q.bound inp = true := by
  induction l with
  | nil => simp [Prog.boundList]
  | cons p ps ih => simp [Prog.boundList, ih]

namespace Spec

/-- the programs an instruction pushes onto exec satisfy `B` whenever its exec operands do -/
def ExecSafe (B : Prog → Prop) (sg : Sig) : Prop :=
  ∀ s o p out, (∀ q ∈ o.exec, B q) → sg.eff s o = .res p out → ∀ q ∈ p.exec, B q

theorem execSafe_of_noExec (B : Prog → Prop) (sg : Sig)
    (h : ∀ s o p out, sg.eff s o = .res p out → p.exec = []) : ExecSafe B sg := by
  intro s o p out _ he q hq
  rw [h s o p out he] at hq; simp at hq

/-- close `eff … = res p out → p.exec = []` for the shapes of the table -/
macro "no_exec" : tactic => `(tactic| (
  apply execSafe_of_noExec
  intro s o p out h
  simp only [sInt1, sInt2, sInt3, sIntPred1, sIntPred2, sFloat2, sFloatPred2, sBool1, sBool2, sPush, sPopInt,
    sPopFloat, sPopBool, sDupInt, sDupFloat, sDupBool, sSwapInt, sSwapFloat, sSwapBool, sIsEmpty,
    sDepth, sPrintInt, sPrintFloat, sPrintBool, sOut, bad, liftE, Except.map] at h
  repeat' split at h
  all_goals first
    | (injection h with h1 h2; subst h1; rfl)
    | (simp at h; done)
    | (simp_all; done)))

theorem sInt1_noExec (f : Int64 → Except Err Int64) (s : PState) (o p : Tops) (out : List OutTok)
    (h : (sInt1 f).eff s o = .res p out) : p.exec = [] := by
  simp only [sInt1] at h
  split at h
  · rename_i x _
    cases hf : f x <;> simp [hf, liftE, Except.map] at h
    obtain ⟨rfl, _⟩ := h; rfl
  · simp [bad] at h

theorem sInt2_noExec (f : Int64 → Int64 → Except Err Int64) (s : PState) (o p : Tops) (out : List OutTok)
    (h : (sInt2 f).eff s o = .res p out) : p.exec = [] := by
  simp only [sInt2] at h
  split at h
  · rename_i x y _
    cases hf : f x y <;> simp [hf, liftE, Except.map] at h
    obtain ⟨rfl, _⟩ := h; rfl
  · simp [bad] at h

theorem execSafe_int (B : Prog → Prop) (op : IntI) (sg : Sig) (h : sigInt op = some sg) : ExecSafe B sg := by
  cases op <;> simp only [sigInt, Option.some.injEq] at h <;> (try subst h) <;> (try contradiction)
  all_goals first
    | exact execSafe_of_noExec _ _ (sInt1_noExec _)
    | exact execSafe_of_noExec _ _ (sInt2_noExec _)
    | no_exec

theorem execSafe_float (B : Prog → Prop) (op : FloatI) (sg : Sig) (h : sigFloat op = some sg) : ExecSafe B sg := by
  cases op <;> simp only [sigFloat, Option.some.injEq] at h <;> (try subst h) <;> (try contradiction)
  all_goals no_exec

theorem execSafe_bool (B : Prog → Prop) (op : BoolI) (sg : Sig) (h : sigBool op = some sg) : ExecSafe B sg := by
  cases op <;> simp only [sigBool, Option.some.injEq] at h <;> (try subst h) <;> (try contradiction)
  all_goals no_exec

theorem execSafe_exec (B : Prog → Prop) (op : ExecI) (sg : Sig) (h : sigExec op = some sg) : ExecSafe B sg := by
  cases op <;> simp only [sigExec, Option.some.injEq] at h <;> (try subst h) <;> (try contradiction)
  case pop => apply execSafe_of_noExec; intro s o p out h; simp [sPopExec] at h; obtain ⟨rfl, _⟩ := h; rfl
  case dup | dupBlock =>
    intro s o p out hB h q hq
    simp [sDupExec] at h; obtain ⟨rfl, _⟩ := h
    simp at hq; exact hB q hq
  case swap =>
    intro s o p out hB h q hq
    simp [sSwapExec] at h; obtain ⟨rfl, _⟩ := h
    simp at hq; exact hB q hq
  case isEmpty => apply execSafe_of_noExec; intro s o p out h; simp [sIsEmpty] at h; obtain ⟨rfl, _⟩ := h; rfl
  case stackDepth => apply execSafe_of_noExec; intro s o p out h; simp [sDepth] at h; obtain ⟨rfl, _⟩ := h; rfl
  case noop => apply execSafe_of_noExec; intro s o p out h; simp at h; obtain ⟨rfl, _⟩ := h; rfl

theorem execSafe_push (B : Prog → Prop) (t : Tops) (h : ∀ q ∈ t.exec, B q) : ExecSafe B (sPush t) := by
  intro s o p out _ he q hq
  simp [sPush] at he; obtain ⟨rfl, _⟩ := he; exact h q hq

theorem execSafe_out (B : Prog → Prop) (str : String) : ExecSafe B (sOut str) := by
  apply execSafe_of_noExec; intro s o p out h; simp [sOut] at h; obtain ⟨rfl, _⟩ := h; rfl

theorem apply_next_exec (B : Prog → Prop) (sg : Sig) (hsafe : ExecSafe B sg) (s s' : PState)
    (hB : ∀ q ∈ (tops s).exec, B q) (h : (apply sg s).nextState = some s') :
    ∀ q ∈ (tops s').exec, B q := by
  unfold apply at h
  simp only [] at h
  repeat' split at h
  all_goals try (simp [Outcome.nextState] at h; try subst h; try exact hB)
  rename_i hpre _ oe re h1 _ oi ri h2 _ of_ rf h3 _ ob rb h4 _ p out heff hroom
  obtain ⟨_, ho, hr⟩ := takeN_ok h1
  intro q hq
  simp [tops, withTops] at hq
  rcases hq with hq | hq
  · refine hsafe s _ p out ?_ heff q hq
    intro q' hq'
    simp only [] at hq'
    rw [ho] at hq'
    exact hB q' (List.mem_of_mem_take hq')
  · rw [hr] at hq
    exact hB q (List.mem_of_mem_drop hq)

theorem mem_dropIf {α : Type} (a : Act) (l : List α) (q : α) (h : q ∈ dropIf a l) : q ∈ l := by
  unfold dropIf at h; split at h
  · exact List.mem_of_mem_drop h
  · exact h

/-- Whatever is on the exec stack after an instruction was on it before or came out of the
    instruction itself: `B` on the exec stack and on the instruction is preserved. -/
theorem perform_next_exec (B : Prog → Prop) (p : Prog) (s s' : PState)
    (hpush : ∀ q, p = .execPush q → B q) (hblock : ∀ ps, p = .block ps → ∀ q ∈ ps, B q)
    (hB : ∀ q ∈ (tops s).exec, B q) (h : (perform p s).nextState = some s') :
    ∀ q ∈ (tops s').exec, B q := by
  cases p with
  | execPush q0 =>
    simp only [perform] at h
    exact apply_next_exec B _ (execSafe_push B _ (by simpa using hpush q0 rfl)) s s' hB h
  | block ps =>
    simp only [perform] at h
    split at h
    · simp [Outcome.nextState] at h
    · simp [Outcome.nextState] at h; subst h
      intro q hq; simp [tops, withTops] at hq
      rcases hq with hq | hq
      · exact hblock ps rfl q hq
      · exact hB q (by simpa [tops] using hq)
  | instr i =>
    cases i with
    | inputVar name =>
      simp only [perform, performInstr] at h
      split at h
      · simp [Outcome.nextState] at h
      all_goals exact apply_next_exec B _ (execSafe_push B _ (by simp)) s s' hB h
    | int op =>
      simp only [perform, performInstr] at h
      split at h
      · rename_i sg hsg; exact apply_next_exec B _ (execSafe_int B op sg hsg) s s' hB h
      · simp [flush, Outcome.nextState] at h; subst h
        intro q hq; simp [tops, withTops] at hq; exact hB q (by simpa [tops] using hq)
    | float op =>
      simp only [perform, performInstr] at h
      split at h
      · rename_i sg hsg; exact apply_next_exec B _ (execSafe_float B op sg hsg) s s' hB h
      · simp [flush, Outcome.nextState] at h; subst h
        intro q hq; simp [tops, withTops] at hq; exact hB q (by simpa [tops] using hq)
    | bool op =>
      simp only [perform, performInstr] at h
      split at h
      · rename_i sg hsg; exact apply_next_exec B _ (execSafe_bool B op sg hsg) s s' hB h
      · simp [flush, Outcome.nextState] at h; subst h
        intro q hq; simp [tops, withTops] at hq; exact hB q (by simpa [tops] using hq)
    | exec op =>
      cases op <;> simp only [perform, performInstr, sigExec] at h
      case when | «unless» =>
        unfold cond1 at h; simp only [] at h
        split at h
        · simp [Outcome.nextState] at h; subst h
          intro q hq; simp [tops, withTops] at hq
          exact hB q (by simpa [tops] using mem_dropIf _ _ q hq)
        · simp [Outcome.nextState] at h; subst h; exact hB
      case ifElse =>
        unfold ifElse at h; simp only [] at h
        split at h
        · simp [Outcome.nextState] at h; subst h
          intro q hq; simp [tops, withTops] at hq
          split at hq
          · rename_i th el r hex
            have hm : ∀ x, x ∈ (th :: el :: r) → B x := by
              intro x hx; exact hB x (by rw [← hex] at hx; simpa [tops] using hx)
            simp at hq
            rcases hq with hq | hq | hq
            · obtain ⟨_, rfl⟩ := hq; exact hm _ (by simp)
            · obtain ⟨_, rfl⟩ := hq; exact hm _ (by simp)
            · exact hm _ (by simp [hq])
          · exact hB q (by simpa [tops] using mem_dropIf _ _ q hq)
        · simp [Outcome.nextState] at h; subst h; exact hB
      case flush =>
        simp [flush, Outcome.nextState] at h; subst h
        intro q hq; simp [tops, withTops] at hq
      case pop => exact apply_next_exec B _ (execSafe_exec B .pop _ rfl) s s' hB h
      case dup => exact apply_next_exec B _ (execSafe_exec B .dup _ rfl) s s' hB h
      case swap => exact apply_next_exec B _ (execSafe_exec B .swap _ rfl) s s' hB h
      case isEmpty => exact apply_next_exec B _ (execSafe_exec B .isEmpty _ rfl) s s' hB h
      case stackDepth => exact apply_next_exec B _ (execSafe_exec B .stackDepth _ rfl) s s' hB h
      case noop => exact apply_next_exec B _ (execSafe_exec B .noop _ rfl) s s' hB h
      case dupBlock => exact apply_next_exec B _ (execSafe_exec B .dupBlock _ rfl) s s' hB h
    | printSpace | printNewline | printPeriod =>
      simp only [perform, performInstr] at h
      exact apply_next_exec B _ (execSafe_out B _) s s' hB h
    | printString str =>
      simp only [perform, performInstr] at h
      exact apply_next_exec B _ (execSafe_out B _) s s' hB h

end Spec
end Uec
