/-
  Generic facts about `Rand.Reach` (all-valid-answers reading of a request tree), used by the
  ec-linear family (C10, C11, C12).  Core Lean only.
-/
import Uec.Model.Crossover
namespace Uec.Lin
open Uec
open Uec.Rand (Reach)
variable {α β : Type}

@[simp] theorem bind_eq (m : Rand α) (f : α → Rand β) : (m >>= f) = Rand.bind m f := rfl
@[simp] theorem pure_eq (a : α) : (pure a : Rand α) = Rand.pure a := rfl
@[simp] theorem bind_pure_left (a : α) (f : α → Rand β) : Rand.bind (.pure a) f = f a := rfl
@[simp] theorem bind_ask (p : Prim) (k : Ans → Rand α) (f : α → Rand β) :
    Rand.bind (.ask p k) f = .ask p (fun a => Rand.bind (k a) f) := rfl

theorem bind_assoc {γ : Type} (m : Rand α) (f : α → Rand β) (g : β → Rand γ) :
    Rand.bind (Rand.bind m f) g = Rand.bind m (fun a => Rand.bind (f a) g) := by
  induction m with
  | pure a => rfl
  | ask p k ih => simp only [bind_ask, ih]

theorem bind_pure_right (m : Rand α) : Rand.bind m .pure = m := by
  induction m with
  | pure a => rfl
  | ask p k ih => simp only [bind_ask, ih]

@[simp] theorem reach_pure {a b : α} : Reach (.pure a) b ↔ b = a := by
  constructor
  · intro h; cases h; rfl
  · intro h; subst h; exact .pure _

theorem reach_ask {p : Prim} {k : Ans → Rand α} {a : α} :
    Reach (.ask p k) a ↔ ∃ ans, p.valid ans ∧ Reach (k ans) a := by
  constructor
  · intro h; cases h with | ask hv hr => exact ⟨_, hv, hr⟩
  · rintro ⟨ans, hv, hr⟩; exact .ask hv hr

theorem reach_bind {m : Rand α} {f : α → Rand β} {b : β} :
    Reach (Rand.bind m f) b ↔ ∃ a, Reach m a ∧ Reach (f a) b := by
  induction m with
  | pure a => simp
  | ask p k ih =>
    simp only [bind_ask, reach_ask, ih]
    constructor
    · rintro ⟨ans, hv, a, h1, h2⟩; exact ⟨a, ⟨ans, hv, h1⟩, h2⟩
    · rintro ⟨a, ⟨ans, hv, h1⟩, h2⟩; exact ⟨ans, hv, a, h1, h2⟩

theorem reach_reqBool {c : Bool} : Reach reqBool c := by
  unfold reqBool
  exact .ask (ans := .bool c) (by simp [Prim.valid]) (by simp [ansBool])

theorem reach_reqRangeIncl {lo hi n : Nat} : Reach (reqRangeIncl lo hi) n ↔ lo ≤ n ∧ n ≤ hi := by
  unfold reqRangeIncl
  rw [reach_ask]
  constructor
  · rintro ⟨ans, hv, hr⟩
    cases ans <;> simp [Prim.valid] at hv
    simp [ansNat] at hr; subst hr; exact hv
  · intro h; exact ⟨.nat n, by simpa [Prim.valid] using h, by simp [ansNat]⟩

end Uec.Lin
