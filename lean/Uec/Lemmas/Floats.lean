/-
  The grid of `rng.random::<f32>()`: every grid point k·2⁻²⁴ (0 ≤ k < 2²⁴) has a binary32 bit pattern
  that `F32.decode` reads back exactly — the contract `F32.unit` is satisfiable for every k.
-/
import Uec.Model.Floats
namespace Uec.F32

/-- the bit pattern of the grid point `k · 2⁻²⁴` (`0 < k < 2²⁴`: normalised; `k = 0`: `+0.0`) -/
def gridBits (k : Nat) : Nat :=
  if k = 0 then 0 else
  let e := Nat.log2 k
  (e + 103) * 2 ^ 23 + (k * 2 ^ (23 - e) - 2 ^ 23)

theorem decode_eq {b e m : Nat} (hb : b < 2 ^ 31) (he : (b / 2 ^ 23) % 256 = e) (hm : b % 2 ^ 23 = m)
    (h255 : e ≠ 255) :
    decode b = .fin ((if e = 0 then m else (2 ^ 23 + m) * 2 ^ (e - 1) : Nat) : Int) := by
  have hs : (b / 2 ^ 31) % 2 = 0 := by
    have : b / 2 ^ 31 = 0 := Nat.div_eq_of_lt hb
    simp [this]
  unfold decode
  simp only [hs, he, hm]
  simp [h255]

theorem decode_gridBits (k : Nat) (hk : k < 2 ^ 24) : decode (gridBits k) = .fin (gridScaled k) := by
  unfold gridBits
  by_cases h0 : k = 0
  · subst h0; simp [gridScaled]; decide
  · simp only [h0, if_false]
    have hlo := Nat.log2_self_le h0
    have hhi := Nat.lt_log2_self (n := k)
    generalize Nat.log2 k = e at *
    have he : e ≤ 23 := by
      rcases Nat.lt_or_ge 23 e with h | h
      · have : 2 ^ 24 ≤ 2 ^ e := Nat.pow_le_pow_right (by decide) h
        omega
      · exact h
    have hp : 2 ^ e * 2 ^ (23 - e) = 2 ^ 23 := by rw [← Nat.pow_add]; congr 1; omega
    have hp' : 2 ^ (e + 1) * 2 ^ (23 - e) = 2 ^ 24 := by rw [← Nat.pow_add]; congr 1; omega
    have hpos : 0 < 2 ^ (23 - e) := Nat.two_pow_pos _
    have hM1 : 2 ^ 23 ≤ k * 2 ^ (23 - e) := by rw [← hp]; exact Nat.mul_le_mul_right _ hlo
    have hM2 : k * 2 ^ (23 - e) < 2 ^ 24 := by rw [← hp']; exact Nat.mul_lt_mul_of_pos_right hhi hpos
    have hMk : k * 2 ^ (23 - e) * 2 ^ (e + 102) = k * 2 ^ 125 := by
      rw [Nat.mul_assoc, ← Nat.pow_add]; congr 2; omega
    generalize k * 2 ^ (23 - e) = M at *
    have hb : (e + 103) * 2 ^ 23 + (M - 2 ^ 23) < 2 ^ 31 := by omega
    have h1 : ((e + 103) * 2 ^ 23 + (M - 2 ^ 23)) / 2 ^ 23 % 256 = e + 103 := by omega
    have h2 : ((e + 103) * 2 ^ 23 + (M - 2 ^ 23)) % 2 ^ 23 = M - 2 ^ 23 := by omega
    rw [decode_eq hb h1 h2 (by omega)]
    have : e + 103 ≠ 0 := by omega
    simp only [this, if_false, gridScaled]
    have h3 : 2 ^ 23 + (M - 2 ^ 23) = M := by omega
    have h4 : e + 103 - 1 = e + 102 := by omega
    rw [h3, h4, hMk]
    simp only [Int.natCast_mul, Int.natCast_pow]
    rfl

theorem gridBits_lt (k : Nat) (hk : k < 2 ^ 24) : gridBits k < 2 ^ 32 := by
  unfold gridBits
  by_cases h0 : k = 0
  · simp [h0]
  · simp only [h0, if_false]
    have hhi := Nat.lt_log2_self (n := k)
    have hlo := Nat.log2_self_le h0
    generalize Nat.log2 k = e at *
    have he : e ≤ 23 := by
      rcases Nat.lt_or_ge 23 e with h | h
      · have : 2 ^ 24 ≤ 2 ^ e := Nat.pow_le_pow_right (by decide) h
        omega
      · exact h
    have hp' : 2 ^ (e + 1) * 2 ^ (23 - e) = 2 ^ 24 := by rw [← Nat.pow_add]; congr 1; omega
    have hpos : 0 < 2 ^ (23 - e) := Nat.two_pow_pos _
    have hM2 : k * 2 ^ (23 - e) < 2 ^ 24 := by rw [← hp']; exact Nat.mul_lt_mul_of_pos_right hhi hpos
    generalize k * 2 ^ (23 - e) = M at *
    omega

theorem unit_gridBits (k : Nat) (hk : k < 2 ^ 24) : unit (gridBits k) := ⟨k, hk, decode_gridBits k hk⟩

end Uec.F32
