/-
  Syntax of Push programs (packages/push/src/instruction/*.rs, push_vm/program.rs).

  `Instr0` is `PushInstruction` without the one recursive case `Exec(Push(program))`, which is the
  constructor `Prog.execPush`; `Prog` is `PushProgram`.  Integers are `Int64` (an `i64` cannot be out
  of range), floats are carried as the bit pattern of the `f64` (`UInt64`), all NaNs identified with
  the canonical quiet NaN as `OrderedFloat` identifies them.
-/
namespace Uec

inductive IntI where
  | pop | push (v : Int64) | dup | swap | isEmpty | stackDepth | flush | print | printLn
  | negate | abs | min | max | clamp | inc | dec | add | subtract | multiply | protectedDivide
  | mod | power | square
  | isZero | isPositive | isNegative | isEven | isOdd
  | equal | notEqual | lessThan | lessThanEqual | greaterThan | greaterThanEqual
  | fromBoolean | fromFloatApprox
deriving DecidableEq, Repr, Inhabited

inductive FloatI where
  | pop | push (bits : UInt64) | dup | swap | isEmpty | stackDepth | flush | print | printLn
  | add | subtract | multiply | protectedDivide
  | equal | notEqual | greaterThan | lessThan | greaterThanOrEqual | lessThanOrEqual
  | fromIntApprox
deriving DecidableEq, Repr, Inhabited

inductive BoolI where
  | pop | push (b : Bool) | dup | swap | isEmpty | stackDepth | flush | print | println
  | not | or | and | xor | implies | fromInt
deriving DecidableEq, Repr, Inhabited

/-- `ExecInstruction` without `Push(program)` -/
inductive ExecI where
  | pop | dup | swap | isEmpty | stackDepth | flush | noop | dupBlock | when | unless | ifElse
deriving DecidableEq, Repr, Inhabited

inductive Instr0 where
  | inputVar (name : String)
  | exec (e : ExecI)
  | bool (b : BoolI)
  | int (i : IntI)
  | float (f : FloatI)
  | printSpace | printNewline | printPeriod
  | printString (s : String)
deriving DecidableEq, Repr, Inhabited

/-- `PushProgram`; `execPush p` is `Instruction(Exec(Push(Box(PushValue(p)))))`. -/
inductive Prog where
  | instr (i : Instr0)
  | execPush (p : Prog)
  | block (ps : List Prog)
deriving Repr, Inhabited

/-- `NumOpens` of a `PushInstruction` -/
def Instr0.numOpens : Instr0 → Nat
  | .exec .dupBlock => 1
  | .exec .when => 1
  | .exec .unless => 1
  | .exec .ifElse => 2
  | _ => 0

/-- `NumOpens` of an element of a program used as a gene: an instruction opens what the table says, an exec literal
    (`Exec::Push(payload)`) opens nothing - whatever its payload is - and a block is not a gene -/
def Prog.numOpens : Prog → Nat
  | .instr i => i.numOpens
  | .execPush _ => 0
  | .block _ => 0

/-- the value an input variable is bound to (`PushInstruction::push_int/float/bool(value)`) -/
inductive Lit where
  | int (v : Int64) | float (bits : UInt64) | bool (b : Bool)
deriving DecidableEq, Repr, Inhabited

/-- one piece of printed output: literal bytes, or a float to be rendered by `Display for f64` -/
inductive OutTok where
  | str (s : String)
  | float (bits : UInt64)
deriving DecidableEq, Repr, Inhabited

/-! names as the crates' `strum::Display` prints them (inventory cross-check, line protocol) -/

def IntI.names : List (String × IntI) :=
  [("Pop", .pop), ("Dup", .dup), ("Swap", .swap), ("IsEmpty", .isEmpty), ("StackDepth", .stackDepth),
   ("Flush", .flush), ("Print", .print), ("PrintLn", .printLn), ("Negate", .negate), ("Abs", .abs),
   ("Min", .min), ("Max", .max), ("Clamp", .clamp), ("Inc", .inc), ("Dec", .dec), ("Add", .add),
   ("Subtract", .subtract), ("Multiply", .multiply), ("ProtectedDivide", .protectedDivide), ("Mod", .mod),
   ("Power", .power), ("Square", .square), ("IsZero", .isZero), ("IsPositive", .isPositive),
   ("IsNegative", .isNegative), ("IsEven", .isEven), ("IsOdd", .isOdd), ("Equal", .equal),
   ("NotEqual", .notEqual), ("LessThan", .lessThan), ("LessThanEqual", .lessThanEqual),
   ("GreaterThan", .greaterThan), ("GreaterThanEqual", .greaterThanEqual), ("FromBoolean", .fromBoolean),
   ("FromFloatApprox", .fromFloatApprox)]

def FloatI.names : List (String × FloatI) :=
  [("Pop", .pop), ("Dup", .dup), ("Swap", .swap), ("IsEmpty", .isEmpty), ("StackDepth", .stackDepth),
   ("Flush", .flush), ("Print", .print), ("PrintLn", .printLn), ("Add", .add), ("Subtract", .subtract),
   ("Multiply", .multiply), ("ProtectedDivide", .protectedDivide), ("Equal", .equal), ("NotEqual", .notEqual),
   ("GreaterThan", .greaterThan), ("LessThan", .lessThan), ("GreaterThanOrEqual", .greaterThanOrEqual),
   ("LessThanOrEqual", .lessThanOrEqual), ("FromIntApprox", .fromIntApprox)]

def BoolI.names : List (String × BoolI) :=
  [("Pop", .pop), ("Dup", .dup), ("Swap", .swap), ("IsEmpty", .isEmpty), ("StackDepth", .stackDepth),
   ("Flush", .flush), ("Print", .print), ("Println", .println), ("Not", .not), ("Or", .or), ("And", .and),
   ("Xor", .xor), ("Implies", .implies), ("FromInt", .fromInt)]

def ExecI.names : List (String × ExecI) :=
  [("Pop", .pop), ("Dup", .dup), ("Swap", .swap), ("IsEmpty", .isEmpty), ("StackDepth", .stackDepth),
   ("Flush", .flush), ("Noop", .noop), ("DupBlock", .dupBlock), ("When", .when), ("Unless", .unless),
   ("IfElse", .ifElse)]

end Uec
