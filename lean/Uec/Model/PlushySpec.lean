/-
  Spec for the genome-to-program translation (property C05):
  (a) depth-first reading `flatten`; (b) well-shapedness `WS`; (c) the open-block automaton — a
  literal transcription of "a close marker ends the innermost open block and is ignored when none
  is open; blocks still open when the genome ends are closed there (possibly empty)";
  (d) `unparse`, a genome for every well-shaped program.
-/
import Uec.Model.Plushy
namespace Uec
namespace Plushy
variable {ι : Type}

mutual
/-- depth-first reading of a program -/
def flatten : List (Tree ι) → List ι
  | [] => []
  | t :: ts => flattenT t ++ flatten ts
def flattenT : Tree ι → List ι
  | .instr i => [i]
  | .block ps => flatten ps
end

/-- the genome's instructions in their original order -/
def instrs : List (Gene ι) → List ι
  | [] => []
  | .close :: r => instrs r
  | .instr i :: r => i :: instrs r

mutual
/-- Well-shaped: a sequence of groups `instr i, block, …, block` with exactly `opens i` blocks, each
    block well-shaped again.  (A block can only occur as one of the blocks owed to an opener.) -/
inductive WS (opens : ι → Nat) : List (Tree ι) → Prop where
  | nil : WS opens []
  | group (i : ι) (bs rest : List (Tree ι)) :
      Blocks opens (opens i) bs → WS opens rest → WS opens (.instr i :: (bs ++ rest))
/-- exactly `n` blocks, each well-shaped -/
inductive Blocks (opens : ι → Nat) : Nat → List (Tree ι) → Prop where
  | zero : Blocks opens 0 []
  | succ (n : Nat) (b bs : List (Tree ι)) :
      WS opens b → Blocks opens n bs → Blocks opens (n + 1) (.block b :: bs)
end

/-! ### The open-block automaton -/

/-- An open block: the items collected so far and how many further blocks are still owed to the
    instruction that opened it. The bottom frame is the top level (its `owed` is unused). -/
abbrev Frame (ι : Type) := List (Tree ι) × Nat

/-- open the next owed block, if any -/
def openBlocks (n : Nat) (st : List (Frame ι)) : List (Frame ι) :=
  match n with
  | 0 => st
  | n + 1 => ([], n) :: st

/-- A close marker: the innermost open block ends and becomes an item of its parent; if its opener
    is owed more blocks the next one opens.  With no block open the marker is ignored. -/
def closeTop : List (Frame ι) → List (Frame ι)
  | (items, owed) :: (pitems, powed) :: fs => openBlocks owed ((pitems ++ [.block items], powed) :: fs)
  | st => st

def stepA (opens : ι → Nat) (st : List (Frame ι)) : Gene ι → List (Frame ι)
  | .close => closeTop st
  | .instr i =>
    match st with
    | (items, owed) :: fs => openBlocks (opens i) ((items ++ [.instr i], owed) :: fs)
    | [] => []

/-- End of the genome: every open block is closed there, innermost first; blocks still owed are
    empty. -/
def finishGo (cur : Frame ι) : List (Frame ι) → List (Tree ι)
  | [] => cur.1
  | (pitems, powed) :: fs =>
    finishGo (pitems ++ [.block cur.1] ++ List.replicate cur.2 (.block []), powed) fs

def finish : List (Frame ι) → List (Tree ι)
  | [] => []
  | cur :: fs => finishGo cur fs

def runA (opens : ι → Nat) (st : List (Frame ι)) (genes : List (Gene ι)) : List (Tree ι) :=
  finish (genes.foldl (stepA opens) st)

/-- the program the automaton builds for a genome -/
def automaton (opens : ι → Nat) (genes : List (Gene ι)) : List (Tree ι) :=
  runA opens [([], 0)] genes

/-! ### A genome for every program: instructions as they come, a close marker after every block -/
mutual
def unparse : List (Tree ι) → List (Gene ι)
  | [] => []
  | t :: ts => unparseT t ++ unparse ts
def unparseT : Tree ι → List (Gene ι)
  | .instr i => [.instr i]
  | .block ps => unparse ps ++ [.close]
end

end Plushy
end Uec
