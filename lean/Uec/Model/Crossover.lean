/-
  Impl model and Spec of ec-linear's recombinators (C10):
    packages/ec-linear/src/recombinator/{two_point_xo,uniform_xo,crossover,errors}.rs
    packages/ec-linear/src/genome/bitstring.rs  (impl Crossover for Bitstring)

  A linear genome (`Vec<T>`, `Bitstring.bits`) is a `List α`.  The Impl functions are code-shaped:
  the length check comes first, the random requests are issued in the order of the Rust, the
  exchange primitives take the `if let (Some, Some)` shape of the Rust, slice indexing that can
  panic has an explicit `panic` outcome.  Core Lean only (linked into the driver).
-/
import Uec.Model.Rand
namespace Uec.Lin
open Uec
variable {α : Type}

/-! ## answers -/

/-- the `bool` carried by an answer (`false` for a malformed answer; valid answers to
    `bool`/`boolP` requests are always `.bool _`) -/
def ansBool : Ans → Bool
  | .bool b => b
  | _ => false

/-- the `usize` carried by an answer (`0` for a malformed answer) -/
def ansNat : Ans → Nat
  | .nat n => n
  | _ => 0

/-- `rng.random::<bool>()` -/
def reqBool : Rand Bool := .ask .bool (fun a => .pure (ansBool a))
/-- `rng.random_range(lo..=hi)` -/
def reqRangeIncl (lo hi : Nat) : Rand Nat := .ask (.rangeIncl lo hi) (fun a => .pure (ansNat a))

/-! ## errors and outcomes -/

inductive XoErr where
  /-- `DifferentGenomeLength(first.len(), second.len())` -/
  | differentLength (a b : Nat)
  /-- `GeneAccess { index, bitstring_size }` -/
  | geneAccess (index size : Nat)
  /-- `GeneAccessRange { range: s..e, bitstring_size }` -/
  | geneAccessRange (s e size : Nat)
deriving DecidableEq, Repr, Inhabited

/-- outcome of a recombination: the child, a reported error, or a Rust panic -/
inductive Res (α : Type) where
  | ok (child : α)
  | err (e : XoErr)
  | panic
deriving DecidableEq, Repr

/-! ## Spec: position-wise choice -/

/-- `pick sel i a b`: walk both genomes from position `i`; the gene at position `j` is `b`'s when
    `sel j` and `a`'s otherwise.  Positions that `b` does not have keep `a`'s gene. -/
def pick (sel : Nat → Bool) : Nat → List α → List α → List α
  | _, [], _ => []
  | _, a, [] => a
  | i, x :: a, y :: b => (if sel i then y else x) :: pick sel (i + 1) a b

namespace Spec

/-- The child of a crossover: gene `j` comes from the second parent iff `fromSecond j`. -/
def child (fromSecond : Nat → Bool) (p1 p2 : List α) : List α := pick fromSecond 0 p1 p2

/-- the contiguous segment `[lo, hi)` -/
def inSeg (lo hi : Nat) (j : Nat) : Bool := decide (lo ≤ j) && decide (j < hi)

/-- two-point child with the segment `[lo, hi)` taken from the second parent -/
def twoPointChild (lo hi : Nat) (p1 p2 : List α) : List α := child (inSeg lo hi) p1 p2

/-- uniform child: `mask[j] = true` ⇒ gene `j` comes from the second parent -/
def uniformChild (mask : List Bool) (p1 p2 : List α) : List α := child (fun j => mask.getD j false) p1 p2

/-- An exchange of the positions selected by `sel` between two genomes: both results. -/
def exchange (sel : Nat → Bool) (a b : List α) : List α × List α := (pick sel 0 a b, pick sel 0 b a)

/-- Spec of `crossover_gene`: addressed outside either genome ⇒ error and nothing changes;
    otherwise exactly position `i` is exchanged. -/
def crossoverGene (a b : List α) (i : Nat) : List α × List α × Bool :=
  if i < a.length ∧ i < b.length then
    let r := exchange (fun j => j == i) a b
    (r.1, r.2, true)
  else (a, b, false)

/-- Spec of `crossover_segment`: a segment that is not a range inside both genomes ⇒ error and
    nothing changes; otherwise exactly the positions `s ≤ j < e` are exchanged. -/
def crossoverSegment (a b : List α) (s e : Nat) : List α × List α × Bool :=
  if s ≤ e ∧ e ≤ a.length ∧ e ≤ b.length then
    let r := exchange (inSeg s e) a b
    (r.1, r.2, true)
  else (a, b, false)

end Spec

/-! ## Impl: the exchange primitives of `impl Crossover for Bitstring` -/

/-- both genomes after the call and the error, if one was reported -/
structure Exch (α : Type) where
  first : List α
  second : List α
  err : Option XoErr
deriving DecidableEq, Repr

/-- ```
    if let (Some(lhs), Some(rhs)) = (self.gene_mut(index), other.gene_mut(index)) {
        std::mem::swap(lhs, rhs); Ok(())
    } else { Err(GeneAccess { index, bitstring_size: self.size() }) }
    ``` -/
def crossoverGene (a b : List α) (i : Nat) : Exch α :=
  match a[i]?, b[i]? with
  | some x, some y => ⟨a.set i y, b.set i x, none⟩
  | _, _ => ⟨a, b, some (.geneAccess i a.length)⟩

/-- `slice.get_mut(s..e)`: `Some(&mut self[s..e])` iff `s ≤ e ∧ e ≤ len` -/
def getRange (l : List α) (s e : Nat) : Option (List α) :=
  if s ≤ e ∧ e ≤ l.length then some ((l.drop s).take (e - s)) else none

/-- write `seg` over the positions starting at `s` (`seg` came from a range of equal width) -/
def putRange (l : List α) (s : Nat) (seg : List α) : List α :=
  l.take s ++ seg ++ l.drop (s + seg.length)

/-- ```
    let bitstring_size = self.size();
    if let (Some(lhs), Some(rhs)) = (self.bits.get_mut(range.clone()), other.bits.get_mut(range.clone())) {
        lhs.swap_with_slice(rhs); Ok(())
    } else { Err(GeneAccessRange { range, bitstring_size }) }
    ``` -/
def crossoverSegment (a b : List α) (s e : Nat) : Exch α :=
  match getRange a s e, getRange b s e with
  | some lhs, some rhs => ⟨putRange a s rhs, putRange b s lhs, none⟩
  | _, _ => ⟨a, b, some (.geneAccessRange s e a.length)⟩

/-! ## Impl: `TwoPointXo` -/

/-- the two cut points, ordered: `if second < first { swap }` -/
def orderCuts (first second : Nat) : Nat × Nat :=
  if second < first then (second, first) else (first, second)

/-- `impl Recombinator<[Vec<T>; 2]> for TwoPointXo` (the tuple impl delegates to it):
    ```
    let len = first_genome.len();
    if len != second_genome.len() { return Err(DifferentGenomeLength(len, second_genome.len())); }
    let mut first = rng.random_range(0..=len);
    let mut second = rng.random_range(0..=len);
    if second < first { (first, second) = (second, first); }
    first_genome[first..second].swap_with_slice(&mut second_genome[first..second]);
    Ok(first_genome)
    ``` -/
def twoPointVec (p1 p2 : List α) : Rand (Res (List α)) :=
  let len := p1.length
  if len != p2.length then .pure (.err (.differentLength len p2.length)) else do
  let first ← reqRangeIncl 0 len
  let second ← reqRangeIncl 0 len
  let (lo, hi) := orderCuts first second
  -- `v[lo..hi]` panics unless `lo ≤ hi ≤ len` (on both vectors)
  match getRange p1 lo hi, getRange p2 lo hi with
  | some _, some rhs => pure (.ok (putRange p1 lo rhs))
  | _, _ => pure .panic

/-- `impl<G: Crossover> Recombinator<[G; 2]> for TwoPointXo` (G = Bitstring; tuple impl delegates):
    same draws, then `first_genome.crossover_segment(&mut second_genome, first..second)
    .map_err(CrossoverGeneError::Crossover)?; Ok(first_genome)` -/
def twoPointG (p1 p2 : List α) : Rand (Res (List α)) :=
  let len := p1.length
  if len != p2.length then .pure (.err (.differentLength len p2.length)) else do
  let first ← reqRangeIncl 0 len
  let second ← reqRangeIncl 0 len
  let (lo, hi) := orderCuts first second
  let x := crossoverSegment p1 p2 lo hi
  match x.err with
  | some e => pure (.err e)
  | none => pure (.ok x.first)

/-! ## Impl: `UniformXo` -/

/-- `(0..len).map(|pos| if rng.random::<bool>() { first[pos].clone() } else { second[pos].clone() })`
    for two vectors of equal length `len`: one coin per position, `true` keeps the FIRST parent's gene. -/
def uniformVecLoop : List α → List α → Rand (List α)
  | x :: a, y :: b => do
    let c ← reqBool
    let rest ← uniformVecLoop a b
    pure ((if c then x else y) :: rest)
  | _, _ => pure []

/-- `impl<T: Clone> Recombinator<[Vec<T>; 2]> for UniformXo` -/
def uniformVec (p1 p2 : List α) : Rand (Res (List α)) :=
  let len := p1.length
  if len != p2.length then .pure (.err (.differentLength len p2.length)) else do
  let c ← uniformVecLoop p1 p2
  pure (.ok c)

/-- ```
    for i in 0..len {
        if rng.random::<bool>() {
            first_genome.crossover_gene(&mut second_genome, i).map_err(CrossoverGeneError::Crossover)?;
        }
    }
    ```
    `n` iterations remain, `i` is the loop variable.  `true` EXCHANGES, i.e. takes the SECOND parent's gene. -/
def uniformGLoop : Nat → Nat → List α → List α → Rand (Exch α)
  | 0, _, a, b => pure ⟨a, b, none⟩
  | n + 1, i, a, b => do
    let c ← reqBool
    if c then
      let x := crossoverGene a b i
      match x.err with
      | some e => pure ⟨x.first, x.second, some e⟩
      | none => uniformGLoop n (i + 1) x.first x.second
    else uniformGLoop n (i + 1) a b

/-- `impl<G: Crossover> Recombinator<[G; 2]> for UniformXo` (G = Bitstring) -/
def uniformG (p1 p2 : List α) : Rand (Res (List α)) :=
  let len := p1.length
  if len != p2.length then .pure (.err (.differentLength len p2.length)) else do
  let x ← uniformGLoop len 0 p1 p2
  match x.err with
  | some e => pure (.err e)
  | none => pure (.ok x.first)

end Uec.Lin
