/-
  Impl model of ec-core's type-erased (dyn) layer:
    operator/erased.rs, operator/{selector,mutator,recombinator}/erased.rs, child_maker/erased.rs and
    the 28 pointer flavours generated per trait by `ec_macros::dyn_ref_impls`.

  All five erasable traits have the same shape — a method taking the arguments and `rng` and
  returning `Result` — so each is an `Oper ε α β` (`α` = population / genome / genomes / input /
  (population, selector)).  Two layers, as in the Rust:
    * the blanket impl  `impl<T: Tr<Error: Into<E>>> DynTr<E> for T`:
        `dyn_m(&self, args, rng: &mut dyn RngCore) = self.m(args, rng).map_err(Into::into)`;
    * per pointer flavour  `impl Tr for <Ptr><dyn DynTr<E> [+ Send] [+ Sync]>`:
        `m(&self, args, mut rng: &mut R) = (**self).dyn_m(args, &mut rng)`.
-/
import Uec.Model.Operator
import Uec.Model.OpProbe
namespace Uec

/-- `SHARED_ALTERNATIVES` of `dyn_ref_impls/mod.rs` -/
inductive Pointer where
  | ref | mutRef | cellRefMut | box | arc | rc | cellRef
deriving Repr, DecidableEq

/-- `PRELIMINARY_MODIFICATIONS` -/
inductive AutoTraits where
  | none | send | sync | sendSync
deriving Repr, DecidableEq

abbrev Flavour := Pointer × AutoTraits

def Pointer.all : List Pointer := [.ref, .mutRef, .cellRefMut, .box, .arc, .rc, .cellRef]
def AutoTraits.all : List AutoTraits := [.none, .send, .sync, .sendSync]
/-- the macro's `flat_map`: for every pointer, every auto-trait set -/
def Flavour.all : List Flavour := Pointer.all.flatMap fun p => AutoTraits.all.map fun a => (p, a)

namespace Oper
variable {ε ε' α β : Type}

/-- the blanket `DynTr` impl: forward, then `map_err(Into::into)` -/
def dynForm (into : ε → ε') (op : Oper ε α β) : Oper ε' α β := fun x =>
  (op x).bind fun
    | .error e => .pure (.error (into e))
    | .ok v => .pure (.ok v)

/-- the generated impl for one pointer flavour: dereference and forward, re-borrowing the generator
    as `&mut dyn RngCore` (`&mut rng` with `rng: &mut R`), which forwards every draw to `R`. -/
def viaPointer (_fl : Flavour) (dynOp : Oper ε' α β) : Oper ε' α β := fun x => dynOp x

/-- a concrete implementation behind an erased pointer -/
def erased (fl : Flavour) (into : ε → ε') (op : Oper ε α β) : Oper ε' α β :=
  viaPointer fl (dynForm into op)

end Oper

/-- The erased error types used in the correspondence and their `Into` conversions:
    the error type itself, `Box<dyn Error + Send + Sync>`, and a caller-defined error type. -/
inductive Conv where
  | same | boxed | custom
deriving Repr, DecidableEq

inductive EErr where
  | same (e : OpErr) | boxed (e : OpErr) | custom (e : OpErr)
deriving Repr

def Conv.into : Conv → OpErr → EErr
  | .same => .same
  | .boxed => .boxed
  | .custom => .custom

/-- A pipeline (or a bare selector / mutator / recombinator / child-maker probe) behind an erased pointer. -/
def Op.evalErased (fl : Flavour) (c : Conv) (op : Op) : Oper EErr Val Val :=
  Oper.erased fl c.into op.eval

namespace Probe
/-- `ProbeChildMaker`: select a parent with the given selector probe, derive the child genome from
    the parent's genome with a probe call, score it; errors are passed through untagged. -/
def pchild (id d sid sd : Nat) : Oper OpErr Val Val := fun pop =>
  (psel sid sd pop).bind fun
    | .error e => .pure (.error e)
    | .ok parent =>
      match parent with
      | .ind g _ => (probe id d g).bind fun
        | .error e => .pure (.error e)
        | .ok child => .pure (.ok (.ind child (score 11 child)))
      | _ => .pure (.error .illTyped)
end Probe
end Uec
