/-
  Impl model of `From<Plushy> for Vec<PushProgram>` / `PushProgram::parse_from_plushy`
  (packages/push/src/push_vm/program.rs), generic in the instruction type: the translation only
  looks at `num_opens()`.

  Code-shaped: one shared cursor over the genes (the `&mut impl Iterator`), the recursive descent
  with the `is_top_level` flag, the `for _ in 0..num_opens` loop (`blocks`).  The functions return the
  program built so far together with the *remaining genes* (what is left in the iterator).
-/
namespace Uec

inductive Gene (ι : Type) where
  | close
  | instr (i : ι)
deriving Repr, DecidableEq

/-- `PushProgram` over an instruction type `ι` -/
inductive Tree (ι : Type) where
  | instr (i : ι)
  | block (ps : List (Tree ι))
deriving Repr

namespace Plushy
variable {ι : Type}

abbrev Res (ι : Type) (genes : List (Gene ι)) :=
  { r : List (Tree ι) × List (Gene ι) // r.2.length ≤ genes.length }

mutual
/-- `parse_from_plushy(is_top_level, genes, program)`: `acc` is `program` on entry. -/
def parse (opens : ι → Nat) (top : Bool) (genes : List (Gene ι)) (acc : List (Tree ι)) : Res ι genes :=
  match genes with
  | [] => ⟨(acc, []), Nat.le_refl _⟩                       -- `genes.next()` is `None`
  | .close :: rest =>
    if top then
      -- ignore the `Close` and continue with the next gene
      let r := parse opens top rest acc
      ⟨r.1, Nat.le_trans r.2 (Nat.le_succ _)⟩
    else
      ⟨(acc, rest), Nat.le_succ _⟩                          -- closes this block: return to the caller
  | .instr i :: rest =>
    -- `program.push(Instruction(i))`, then `num_opens` blocks, then carry on
    let b := blocks opens (opens i) rest (acc ++ [.instr i])
    let r := parse opens top b.1.2 b.1.1
    ⟨r.1, Nat.le_trans r.2 (Nat.le_trans b.2 (Nat.le_succ _))⟩
termination_by (genes.length, 0)
decreasing_by
  all_goals simp_wf
  · exact Prod.Lex.left _ _ (Nat.lt_succ_self _)
  · exact Prod.Lex.left _ _ (Nat.lt_succ_self _)
  · exact Prod.Lex.left _ _ (Nat.lt_succ_of_le b.2)

/-- the loop `for _ in 0..num_opens { let mut block = Vec::new(); parse(false, genes, &mut block);
    program.push(Block(block)) }` -/
def blocks (opens : ι → Nat) (n : Nat) (genes : List (Gene ι)) (acc : List (Tree ι)) : Res ι genes :=
  match n with
  | 0 => ⟨(acc, genes), Nat.le_refl _⟩
  | n + 1 =>
    let p := parse opens false genes []
    let r := blocks opens n p.1.2 (acc ++ [.block p.1.1])
    ⟨r.1, Nat.le_trans r.2 p.2⟩
termination_by (genes.length, n + 1)
decreasing_by
  all_goals simp_wf
  · exact Prod.Lex.right _ (Nat.succ_pos _)
  · rcases Nat.lt_or_eq_of_le p.2 with h | h
    · exact Prod.Lex.left _ _ h
    · rw [h]; exact Prod.Lex.right _ (Nat.lt_succ_self _)
end

/-- `Vec::<PushProgram>::from(plushy)` -/
def toProgram (opens : ι → Nat) (genes : List (Gene ι)) : List (Tree ι) :=
  (parse opens true genes []).1.1

end Plushy
end Uec
