/-
  Impl model and Spec of ec-linear's mutators and the Plushy gene generator (C11, C12):
    packages/ec-linear/src/mutator/{with_rate,with_one_over_length,umad}.rs
    packages/ec-linear/src/genome/bitstring.rs   (Bitstring::random, random_with_probability)
    packages/push/src/genome/plushy.rs           (GeneGenerator, with_uniform_close_probability)

  A linear genome (`Vec<T>`, `Bitstring`, `Vector<T>`, `Plushy`) is a `List α` — all four go through
  `into_iter() … collect()`.  `f32` rates are bit patterns (`Nat`), compared exactly (`F32.lt`);
  `f64` probabilities of `random_bool` are bit patterns (`UInt64`).  Core Lean only.
-/
import Uec.Model.Crossover
namespace Uec.Lin
open Uec
variable {α : Type}

/-- the bit pattern carried by an answer (`0` for a malformed answer) -/
def ansBits : Ans → Nat
  | .bits w => w.toNat
  | _ => 0

/-- **Spec of bit-flip mutation** (property-shaped): same length, every gene unchanged or negated,
    in place -/
inductive Spec.FlipShape (neg : α → α) : List α → List α → Prop where
  | nil : FlipShape neg [] []
  | cons {x y : α} {xs ys : List α} :
      (y = x ∨ y = neg x) → FlipShape neg xs ys → FlipShape neg (x :: xs) (y :: ys)

/-- `rng.random::<f32>()`: the bit pattern of the sample -/
def reqF32 : Rand Nat := .ask .f32 (fun a => .pure (ansBits a))
/-- `rng.random_bool(p)` for an accepted `p` (see `F64.validP`) -/
def reqBoolP (p : UInt64) : Rand Bool := .ask (.boolP p) (fun a => .pure (ansBool a))
/-- one sample of a caller-supplied distribution, identified by `tag`; the answer is a code -/
def reqUser (tag : Nat) : Rand Nat := .ask (.user tag) (fun a => .pure (ansNat a))

/-- outcome of a mutation: the child or a Rust panic (`random_bool` on `p ∉ [0,1]`) -/
inductive MRes (α : Type) where
  | ok (child : List α)
  | panic
deriving DecidableEq, Repr

/-! ## `WithRate`, `WithOneOverLength` -/

/-- ```
    genome.into_iter().map(|bit| { let r: f32 = rng.random(); if r < self.mutation_rate { !bit } else { bit } }).collect()
    ```
    (`impl Mutator<Vec<T>>` and the `T: Linear` impl are the same code); `rate` = bits of the `f32` -/
def withRate (rate : Nat) (neg : α → α) : List α → Rand (List α)
  | [] => pure []
  | bit :: rest => do
    let r ← reqF32
    let out ← withRate rate neg rest
    pure ((if F32.lt r rate then neg bit else bit) :: out)

/-- ```
    let genome_length = genome.len().to_f32().ok_or(..)?;      // never `None` for `usize`
    let mutation_rate = 1.0 / genome_length;
    WithRate::new(mutation_rate).mutate(genome, rng)
    ``` -/
def withOneOverLength (neg : α → α) (genome : List α) : Rand (List α) :=
  withRate (F32.recipOfNat genome.length) neg genome

/-! ## `Umad` -/

structure UmadCfg where
  /-- `addition_rate: f64` -/
  add : UInt64
  /-- `deletion_rate: f64` -/
  del : UInt64
  /-- `empty_addition_rate: Option<f64>` -/
  emptyAdd : Option UInt64
deriving Repr

/-- `Umad::new(add, del, g)` -/
def UmadCfg.new (add del : UInt64) : UmadCfg := ⟨add, del, some add⟩
/-- `Umad::new_with_empty_rate(add, empty, del, g)` -/
def UmadCfg.newWithEmptyRate (add empty del : UInt64) : UmadCfg := ⟨add, del, some empty⟩
/-- `Umad::new_without_empty(add, del, g)` -/
def UmadCfg.newWithoutEmpty (add del : UInt64) : UmadCfg := ⟨add, del, none⟩

/-- the closure of the addition pass, for one parent gene:
    ```
    let add_gene = rng.random_bool(self.addition_rate);
    let delete_gene = rng.random_bool(self.deletion_rate);
    let delete_new_gene = add_gene && rng.random_bool(self.deletion_rate);
    let old_gene = (!delete_gene).then_some(gene);
    let new_gene = match (add_gene, delete_new_gene) { (true, false) => Some(self.new_gene(rng)), _ => None };
    [old_gene, new_gene]
    ``` -/
def umadGene (add del : UInt64) (gen : Rand α) (gene : α) : Rand (List α) := do
  let addGene ← reqBoolP add
  let deleteGene ← reqBoolP del
  let deleteNew ← if addGene then reqBoolP del else pure false
  let old := if !deleteGene then [gene] else []
  if addGene && !deleteNew then do
    let g ← gen
    pure (old ++ [g])
  else pure old

/-- `genome.into_iter().flat_map(closure).flatten().collect()` -/
def umadPass (add del : UInt64) (gen : Rand α) : List α → Rand (List α)
  | [] => pure []
  | gene :: rest => do
    let here ← umadGene add del gen gene
    let out ← umadPass add del gen rest
    pure (here ++ out)

/-- ```
    if genome.size() == 0 {
        if let Some(addition_rate) = self.empty_addition_rate {
            return Ok(rng.random_bool(addition_rate).then(|| self.new_gene(rng)).into_iter().collect());
        }
    }
    Ok(<addition pass>)
    ```
    `random_bool(p)` panics for `p ∉ [0,1]`: in the empty case that is `empty_addition_rate`; in the
    pass the first gene evaluates `random_bool(add)` and then `random_bool(del)`, so a non-empty
    genome panics iff one of the two is not a probability. -/
def umad (cfg : UmadCfg) (gen : Rand α) (genome : List α) : Rand (MRes α) :=
  match genome, cfg.emptyAdd with
  | [], some r =>
    if !F64.validP r then pure .panic else do
    let addNew ← reqBoolP r
    if addNew then do
      let g ← gen
      pure (.ok [g])
    else pure (.ok [])
  | [], none => pure (.ok [])
  | genome, _ =>
    if !F64.validP cfg.add || !F64.validP cfg.del then pure .panic else do
    let out ← umadPass cfg.add cfg.del gen genome
    pure (.ok out)

/-- **Spec of UMAD's pass** (property-shaped): the output is the concatenation, over the parent genes
    in order, of `keepᵢ ++ addᵢ` with `keepᵢ ∈ {[], [geneᵢ]}` and `addᵢ ∈ {[], [x]}` for a gene `x`
    the gene generator can produce — survivors in their original order, at most one new gene after
    each parent position, every new gene drawn from the generator. -/
inductive Spec.UmadShape (isGen : α → Prop) : List α → List α → Prop where
  | nil : UmadShape isGen [] []
  | cons {g : α} {gs keep add out : List α} :
      (keep = [] ∨ keep = [g]) → (add = [] ∨ ∃ x, isGen x ∧ add = [x]) →
      UmadShape isGen gs out → UmadShape isGen (g :: gs) (keep ++ add ++ out)

/-- the rates are probabilities (`random_bool` accepts them) -/
def UmadCfg.Valid (cfg : UmadCfg) : Prop :=
  F64.validP cfg.add = true ∧ F64.validP cfg.del = true ∧ ∀ r, cfg.emptyAdd = some r → F64.validP r = true

/-- Spec of UMAD with addition 1 / deletion 0: every parent gene followed by one new gene -/
def Spec.interleave : List α → List α → List α
  | g :: gs, x :: xs => g :: x :: Spec.interleave gs xs
  | _, _ => []

/-! ## generators -/

/-- a gene of a Plushy genome, as far as the generator is concerned -/
inductive PGene where
  | close
  /-- `PushGene::Instruction(i)`: `i` is the code the instruction distribution answered -/
  | instr (code : Nat)
deriving DecidableEq, Repr

/-- `impl Distribution<PushGene> for GeneGenerator<T>`:
    ```
    if rng.random::<f32>() < self.close_probability { PushGene::Close }
    else { PushGene::Instruction(self.instruction_distribution.sample(rng)) }
    ``` -/
def geneGen (closeP : Nat) (tag : Nat) : Rand PGene := do
  let r ← reqF32
  if F32.lt r closeP then pure .close else do
    let i ← reqUser tag
    pure (.instr i)

/-- `GeneGenerator::with_uniform_close_probability`: `1.0 / f32::conv_approx(n.saturating_add(1))`
    (`conv_approx` is `as f32` in release builds; `n + 1 < 2⁶⁴` is not modelled as saturating) -/
def uniformCloseProbability (numChoices : Nat) : Nat := F32.recipOfNat (numChoices + 1)

/-- `collection::Generator { element_generator, size }.sample(rng)`: `size` samples, in order -/
def collect (gen : Rand α) : Nat → Rand (List α)
  | 0 => pure []
  | n + 1 => do
    let x ← gen
    let rest ← collect gen n
    pure (x :: rest)

/-- `Bitstring::random(n, rng)`: `StandardUniform.into_collection_generator(n).sample(rng)` -/
def bitstringRandom (n : Nat) : Rand (List Bool) := collect reqBool n

/-- `Bitstring::random_with_probability(n, p, rng)`: `BoolGenerator::new(p)` sampled `n` times;
    each sample is `rng.random_bool(p)` (panics for `p ∉ [0,1]` when `n > 0`) -/
def bitstringRandomP (n : Nat) (p : UInt64) : Rand (MRes Bool) :=
  if n == 0 then pure (.ok []) else
  if !F64.validP p then pure .panic else do
  let bits ← collect (reqBoolP p) n
  pure (.ok bits)

end Uec.Lin
