/-
  Spec for operator pipelines (property C14), property-shaped:
  a pipeline is run against an explicit random *stream* (the tape of answers).  Every part receives
  the stream exactly as the previous part left it; the first failing part ends the run (the
  stream and the call log stay as that part left them) and its error is tagged with the position
  of the part on the way out; identity / constant / extractor / wrappers do not touch the stream.
  The Spec also keeps what the Impl (a bare `Rand` tree) does not show: the log of component calls.
-/
import Uec.Model.Operator
namespace Uec

abbrev Tape := List Ans

namespace Rand
variable {α : Type}

/-- Run against a tape, reporting result, the requests issued (in order) and the unread rest.
    `none` when the tape is too short.  (`Rand.run` + `Rand.requests` in one pass.) -/
def exec : Rand α → Tape → Option (α × List Prim × Tape)
  | .pure a, t => some (a, [], t)
  | .ask _ _, [] => none
  | .ask p k, a :: t =>
    match exec (k a) t with
    | none => none
    | some (r, ps, t') => some (r, p :: ps, t')

end Rand

namespace Oper
variable {ε α β : Type}

/-- `Chain f xs t ys ps t'`: applying `f` to the elements of `xs` one after the other, each on the
    stream as the previous one left it, succeeds everywhere with results `ys`, issues the requests
    `ps` (concatenated in element order) and leaves `t'`. -/
inductive Chain (f : Oper ε α β) : List α → Tape → List β → List Prim → Tape → Prop where
  | nil (t : Tape) : Chain f [] t [] [] t
  | cons {x : α} {xs : List α} {t t' t'' : Tape} {y : β} {ys : List β} {ps qs : List Prim} :
      Rand.exec (f x) t = some (.ok y, ps, t') → Chain f xs t' ys qs t'' →
      Chain f (x :: xs) t (y :: ys) (ps ++ qs) t''

end Oper

namespace Spec

/-- One call of a component (leaf) operator. -/
structure Call where
  name : Nat
  input : Val
  reqs : List Prim
  failed : Bool

/-- What a run of a pipeline on a stream produces. -/
structure Out where
  result : Except OpErr Val
  /-- all requests made, in order -/
  reqs : List Prim
  /-- the unread rest of the stream -/
  rest : Tape
  /-- the component calls, in order -/
  calls : List Call

/-- what of a Spec run is visible on the Impl (a bare `Rand` tree): result, requests, rest -/
def Out.vis (o : Out) : Except OpErr Val × List Prim × Tape := (o.result, o.reqs, o.rest)

def isErr {ε β : Type} : Except ε β → Bool
  | .error _ => true
  | .ok _ => false

/-- Run independent parts left to right on the shared stream.  Part number `i` (counted from
    `start`) that fails ends the run: its error is tagged `tag e i`, later parts are not run and
    the stream is left as the failing part left it.  Otherwise: all results, in order. -/
def runAll (tag : OpErr → Nat → OpErr) : Nat → List (Tape → Option Out) → Tape →
    Option (Except OpErr (List Val) × List Prim × Tape × List Call)
  | _, [], t => some (.ok [], [], t, [])
  | i, p :: ps, t =>
    match p t with
    | none => none
    | some o =>
      match o.result with
      | .error e => some (.error (tag e i), o.reqs, o.rest, o.calls)
      | .ok v =>
        match runAll tag (i + 1) ps o.rest with
        | none => none
        | some (.error e, qs, t', cs) => some (.error e, o.reqs ++ qs, t', o.calls ++ cs)
        | some (.ok vs, qs, t', cs) => some (.ok (v :: vs), o.reqs ++ qs, t', o.calls ++ cs)

def andTag (e : OpErr) (i : Nat) : OpErr := if i = 0 then .andFirst e else .andSecond e

/-- collect the results of `runAll` into a value -/
def pack (mk : List Val → Val) :
    Option (Except OpErr (List Val) × List Prim × Tape × List Call) → Option Out
  | none => none
  | some (.error e, qs, t, cs) => some ⟨.error e, qs, t, cs⟩
  | some (.ok vs, qs, t, cs) => some ⟨.ok (mk vs), qs, t, cs⟩

def mkPair : List Val → Val
  | [a, b] => .pair a b
  | _ => .leaf 0

def exec : Op → Val → Tape → Option Out
  | .leaf n f, x, t =>
    match Rand.exec (f x) t with
    | none => none
    | some (r, ps, t') => some ⟨r, ps, t', [⟨n, x, ps, isErr r⟩]⟩
  | .then_ f g, x, t =>
    -- first `f` on the stream; `g` gets f's result and the stream as f left it
    match exec f x t with
    | none => none
    | some o =>
      match o.result with
      | .error e => some ⟨.error (.thenFirst e), o.reqs, o.rest, o.calls⟩
      | .ok y =>
        match exec g y o.rest with
        | none => none
        | some o' =>
          some ⟨match o'.result with | .error e => .error (.thenSecond e) | .ok z => .ok z,
                o.reqs ++ o'.reqs, o'.rest, o.calls ++ o'.calls⟩
  | .and_ f g, x, t => pack mkPair (runAll andTag 0 [exec f x, exec g x] t)
  | .map f, .pair a b, t => pack mkPair (runAll .map 0 [exec f a, exec f b] t)
  | .map f, .arr [a, b], t =>
    pack (fun vs => match mkPair vs with | .pair a b => .arr [a, b] | v => v)
      (runAll .map 0 [exec f a, exec f b] t)
  | .map f, .vec l, t => pack .vec (runAll .map 0 (l.map fun x => exec f x) t)
  | .map _, _, t => some ⟨.error .illTyped, [], t, []⟩
  | .repeat_ n f, x, t => pack .arr (runAll (fun e _ => e) 0 (List.replicate n (exec f x)) t)
  | .identity, x, t => some ⟨.ok x, [], t, []⟩
  | .constant v, _, t => some ⟨.ok v, [], t, []⟩
  | .wrap _ f, x, t => exec f x t
  | .genomeExtractor, .ind g _, t => some ⟨.ok g, [], t, []⟩
  | .genomeExtractor, _, t => some ⟨.error .illTyped, [], t, []⟩
  | .genomeScorer gm sc, x, t =>
    match exec gm x t with
    | none => none
    | some o =>
      some ⟨match o.result with | .error e => .error e | .ok g => .ok (.ind g (sc g)),
            o.reqs, o.rest, o.calls⟩

/-- The call-log discipline of a run: the requests are exactly those of the component calls, in
    call order (nothing else touches the stream), and a failed call is the last call and makes the
    whole run fail. -/
def Inv (failed : Bool) (reqs : List Prim) (calls : List Call) : Prop :=
  reqs = calls.flatMap (·.reqs) ∧
  ∀ pre c post, calls = pre ++ c :: post → c.failed = true → post = [] ∧ failed = true


/-- `Locates op e`: the error `e` spells out a path through the shape `op` — `First`/`Second` of a
    `then`/`and`, the element index of a `map` — that ends at a component operator which itself
    produced the innermost error on some input and stream (or at a `map`/extractor applied to a
    value it has no impl for: `illTyped`, which Rust rejects at compile time). -/
def Locates : Op → OpErr → Prop
  | .leaf _ f, e => ∃ x t ps t', Rand.exec (f x) t = some (.error e, ps, t')
  | .then_ f _, .thenFirst e => Locates f e
  | .then_ _ g, .thenSecond e => Locates g e
  | .and_ f _, .andFirst e => Locates f e
  | .and_ _ g, .andSecond e => Locates g e
  | .map f, .map e _ => Locates f e
  | .map _, .illTyped => True
  | .repeat_ _ f, e => Locates f e
  | .wrap _ f, e => Locates f e
  | .genomeExtractor, .illTyped => True
  | .genomeScorer gm _, e => Locates gm e
  | _, _ => False

end Spec
end Uec
