/-
  Exact (integer) reading of IEEE-754 binary32 bit patterns, as far as ec-linear / Plushy need it:
  the comparison `r < rate` of `WithRate` / `GeneGenerator`, `n as f32` and `1.0 / x`
  (`WithOneOverLength`, `with_uniform_close_probability`), and the validity test of
  `random_bool(p: f64)`.  Everything is `Nat`/`Int` arithmetic, so the kernel can compute and reason
  with it (native `Float32` is opaque to the kernel).  The driver cross-checks these functions against
  native `Float32` on every call (`Driver/MutFam.lean`), the harness against the real Rust decisions.
  Core Lean only.
-/
namespace Uec.F32

/-- the value of a binary32 bit pattern; finite values as an integer multiple of 2⁻¹⁴⁹ -/
inductive Val where
  | nan
  | inf (neg : Bool)
  /-- the value `scaled · 2⁻¹⁴⁹` -/
  | fin (scaled : Int)
deriving DecidableEq, Repr

def decode (b : Nat) : Val :=
  let neg := (b / 2 ^ 31) % 2 == 1
  let e := (b / 2 ^ 23) % 256
  let m := b % 2 ^ 23
  if e == 255 then (if m == 0 then .inf neg else .nan)
  else
    let mag : Nat := if e == 0 then m else (2 ^ 23 + m) * 2 ^ (e - 1)
    .fin (if neg then -(mag : Int) else (mag : Int))

/-- IEEE `<` on two decoded values (`false` whenever a NaN is involved; `-0 < +0` is `false`) -/
def Val.lt : Val → Val → Bool
  | .nan, _ => false
  | _, .nan => false
  | .fin a, .fin b => decide (a < b)
  | .fin _, .inf neg => !neg
  | .inf neg, .fin _ => neg
  | .inf n1, .inf n2 => n1 && !n2

/-- `x < y` on `f32` bit patterns -/
def lt (x y : Nat) : Bool := (decode x).lt (decode y)

/-- `2⁻²⁴ · k`, the `k`-th grid point of `rng.random::<f32>()`, in units of 2⁻¹⁴⁹ -/
def gridScaled (k : Nat) : Int := (k : Int) * 2 ^ 125

/-- contract of `rng.random::<f32>()` (rand 0.9.0: `(next_u32() >> 8) as f32 * 2⁻²⁴`):
    the answer is one of the 2²⁴ grid points `k · 2⁻²⁴`, `0 ≤ k < 2²⁴` -/
def unit (w : Nat) : Prop := ∃ k, k < 2 ^ 24 ∧ decode w = .fin (gridScaled k)

/-- the value 1.0 in units of 2⁻¹⁴⁹ -/
def oneScaled : Int := 2 ^ 149

/-! ### rounding a positive rational to binary32 (round to nearest, ties to even) -/

/-- `a / b` rounded to the nearest integer, ties to even (`b > 0`) -/
def divRne (a b : Nat) : Nat :=
  let q := a / b
  let r := a % b
  if 2 * r < b then q else if 2 * r > b then q + 1 else if q % 2 == 0 then q else q + 1

/-- `⌊log2 (num/den)⌋` for `num, den > 0` -/
def expOf (num den : Nat) : Int :=
  let e0 : Int := (Nat.log2 num : Int) - (Nat.log2 den : Int)
  -- num/den ≥ 2^e0 ?  (num · 2^(-e0) ≥ den  resp.  num ≥ den · 2^e0)
  let ge : Bool := if e0 ≥ 0 then decide (num ≥ den * 2 ^ e0.toNat) else decide (num * 2 ^ (-e0).toNat ≥ den)
  if ge then e0 else e0 - 1

/-- bit pattern of the normal number `m · 2^(e-23)`, `2²³ ≤ m ≤ 2²⁴` (a mantissa that rounded up to `2²⁴` is
    renormalised; `+inf` on exponent overflow) -/
def encodeNormal (m : Nat) (e : Int) : Nat :=
  let (m, e) := if m == 2 ^ 24 then (2 ^ 23, e + 1) else (m, e)
  if e > 127 then 0x7F800000 else (e + 127).toNat * 2 ^ 23 + (m - 2 ^ 23)

/-- bit pattern of `fl32(num / den)` for `num, den > 0` (`+inf` on overflow, subnormals and
    underflow to 0 handled) -/
def ofRat (num den : Nat) : Nat :=
  if num == 0 || den == 0 then 0 else
  let e := expOf num den
  if e < -126 then
    -- subnormal range: mantissa in units of 2⁻¹⁴⁹ (a carry into 2²³ is the smallest normal number)
    divRne (num * 2 ^ 149) den
  else
    -- M = rne(num/den · 2^(23-e)) ∈ [2²³, 2²⁴]
    let sh : Int := 23 - e
    let m := if sh ≥ 0 then divRne (num * 2 ^ sh.toNat) den else divRne num (den * 2 ^ (-sh).toNat)
    encodeNormal m e

/-- `n as f32` (usize → f32, round to nearest even) -/
def ofNat (n : Nat) : Nat := ofRat n 1

/-- `1.0 / x` for the f32 `x = n as f32`: `+inf` for `n = 0`, else `fl32(1 / fl32(n))` -/
def recipOfNat (n : Nat) : Nat :=
  if n == 0 then 0x7F800000 else
  match decode (ofNat n) with
  | .fin s => ofRat (2 ^ 149) s.toNat      -- x = s · 2⁻¹⁴⁹, 1/x = 2¹⁴⁹ / s
  | .inf _ => 0
  | .nan => 0x7FC00000

/-- number of grid points `k·2⁻²⁴` (`0 ≤ k < 2²⁴`) strictly below the `f32` with bits `rate`:
    `⌈rate · 2²⁴⌉` clipped to `[0, 2²⁴]` - the number of outcomes of `random::<f32>()` for which `r < rate` -/
def cutoff (rate : Nat) : Nat :=
  match decode rate with
  | .fin s => if s ≤ 0 then 0 else min ((s.toNat + 2 ^ 125 - 1) / 2 ^ 125) (2 ^ 24)
  | .inf false => 2 ^ 24
  | _ => 0

end Uec.F32

namespace Uec.F64

def oneBits : UInt64 := 0x3FF0000000000000
def negZeroBits : UInt64 := 0x8000000000000000

/-- `Bernoulli::new(p)` accepts `p` iff `0 ≤ p ≤ 1` (NaN rejected): the non-negative doubles up to
    1.0 are exactly the bit patterns `≤ bits(1.0)`, and `-0.0` is accepted too. -/
def validP (p : UInt64) : Bool := p ≤ oneBits || p == negZeroBits

/-- probabilities for which `random_bool(p)` is deterministic: `p = ±0 ↦ false`, `p = 1 ↦ true` -/
def certain (p : UInt64) : Option Bool :=
  if p == 0 || p == negZeroBits then some false else if p == oneBits then some true else none

end Uec.F64
