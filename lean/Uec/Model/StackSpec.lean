/-
  Spec for the bounded stack (property C04): a plain list whose head is the top,
  plus a number.  Also the operation alphabet used for histories, with the step
  function of the Impl model and of the Spec.
-/
import Uec.Model.Stack
namespace Uec

/-- The specification stack: `items.head` is the top. -/
structure SStack (α : Type) where
  max : Nat
  items : List α
deriving DecidableEq, Repr, Inhabited

/-- Operations of a history (C04's quantifier). -/
inductive StackOp (α : Type) where
  | push (v : α) | pop | pop2 | pop3 | top | top2 | top3
  | discard (n : Nat) | pushMany (l : List α) | tryExtend (l : List α)
  | setMax (m : Nat) | size | isEmpty | isFull | maxSize
deriving Repr

/-- What an operation hands back to the caller. -/
inductive StackOut (α : Type) where
  | unit
  | v1 (x : α) | v2 (x y : α) | v3 (x y z : α)
  | nat (n : Nat) | bool (b : Bool)
  | err (e : StackErr)
  /-- `try_extend`: the result and how many items were taken from the iterator -/
  | ext (e : Option StackErr) (consumed : Nat)
deriving DecidableEq, Repr

namespace SStack
variable {α : Type}

def step (s : SStack α) : StackOp α → SStack α × StackOut α
  | .push v =>
    if s.items.length ≥ s.max then (s, .err .overflow) else ({ s with items := v :: s.items }, .unit)
  | .pop =>
    match s.items with
    | x :: r => ({ s with items := r }, .v1 x)
    | [] => (s, .err (.underflow 1 0))
  | .pop2 =>
    match s.items with
    | x :: y :: r => ({ s with items := r }, .v2 x y)
    | _ => (s, .err (.underflow 2 s.items.length))
  | .pop3 =>
    match s.items with
    | x :: y :: z :: r => ({ s with items := r }, .v3 x y z)
    | _ => (s, .err (.underflow 3 s.items.length))
  | .top =>
    match s.items with
    | x :: _ => (s, .v1 x)
    | [] => (s, .err (.underflow 1 0))
  | .top2 =>
    match s.items with
    | x :: y :: _ => (s, .v2 x y)
    | _ => (s, .err (.underflow 2 s.items.length))
  | .top3 =>
    match s.items with
    | x :: y :: z :: _ => (s, .v3 x y z)
    | _ => (s, .err (.underflow 3 s.items.length))
  | .discard n =>
    if n > s.items.length then (s, .err (.underflow n s.items.length))
    else ({ s with items := s.items.drop n }, .unit)
  | .pushMany l =>
    if l.length + s.items.length > s.max then (s, .err .overflow)
    else ({ s with items := l ++ s.items }, .unit)
  | .tryExtend l =>
    -- all or nothing; the first supplied value becomes the top.  The room is `max - size`
    -- (none when the stack is over-full); supplying more than the room is an overflow, and
    -- then the iterator has lost the items that would have fitted plus the one that proved
    -- there were too many.  (An empty iterator always succeeds and inserts nothing.)
    if l.length > s.max - s.items.length then (s, .ext (some .overflow) (s.max - s.items.length + 1))
    else ({ s with items := l ++ s.items }, .ext none l.length)
  | .setMax m => ({ s with max := m }, .unit)
  | .size => (s, .nat s.items.length)
  | .isEmpty => (s, .bool s.items.isEmpty)
  | .isFull => (s, .bool (s.items.length == s.max))
  | .maxSize => (s, .nat s.max)

def run (s : SStack α) : List (StackOp α) → SStack α × List (StackOut α)
  | [] => (s, [])
  | op :: ops =>
    let (s1, o) := s.step op
    let (s2, os) := run s1 ops
    (s2, o :: os)

end SStack

namespace Stack
variable {α : Type}

/-- abstraction: reverse the vector -/
def abs (s : Stack α) : SStack α := { max := s.max, items := s.values.reverse }

/-- One operation of the Impl model, through the Rust-shaped functions of `Uec.Stack`. -/
def step (s : Stack α) : StackOp α → Stack α × StackOut α
  | .push v => match s.push v with | .ok s' => (s', .unit) | .error e => (s, .err e)
  | .pop => match s.pop with | .ok (x, s') => (s', .v1 x) | .error e => (s, .err e)
  | .pop2 => match s.pop2 with | .ok ((x, y), s') => (s', .v2 x y) | .error e => (s, .err e)
  | .pop3 => match s.pop3 with | .ok ((x, y, z), s') => (s', .v3 x y z) | .error e => (s, .err e)
  | .top => match s.top with | .ok x => (s, .v1 x) | .error e => (s, .err e)
  | .top2 => match s.top2 with | .ok (x, y) => (s, .v2 x y) | .error e => (s, .err e)
  | .top3 => match s.top3 with | .ok (x, y, z) => (s, .v3 x y z) | .error e => (s, .err e)
  | .discard n => match s.discard n with | .ok s' => (s', .unit) | .error e => (s, .err e)
  | .pushMany l => match s.pushMany l with | .ok s' => (s', .unit) | .error e => (s, .err e)
  | .tryExtend l =>
    match s.tryExtend l with
    | (.ok (), s', c) => (s', .ext none c)
    | (.error e, s', c) => (s', .ext (some e) c)
  | .setMax m => (s.setMax m, .unit)
  | .size => (s, .nat s.size)
  | .isEmpty => (s, .bool s.isEmpty)
  | .isFull => (s, .bool s.isFull)
  | .maxSize => (s, .nat s.max)

def run (s : Stack α) : List (StackOp α) → Stack α × List (StackOut α)
  | [] => (s, [])
  | op :: ops =>
    let (s1, o) := s.step op
    let (s2, os) := run s1 ops
    (s2, o :: os)

end Stack
end Uec
