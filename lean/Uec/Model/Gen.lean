/-
  C18 — Impl model of ec-core's collection generator and uniform-choice distributions, and the
  Spec they are compared with.

  Rust sources (as of /repo HEAD):
    * packages/ec-core/src/distributions/collection.rs      `Generator { element_generator, size }`,
        `sample = (&element_generator).sample_iter(rng).take(size).collect()`
    * packages/ec-core/src/distributions/wrappers/owned.rs  `OneOfCloning::new / sample / num_choices`
    * packages/ec-core/src/distributions/wrappers/choose_cloning.rs `ChooseCloning` (newtype of rand's `Choose`)
    * rand-0.9.0/src/distr/slice.rs                         `Choose::new / sample / num_choices`
    * packages/ec-core/src/distributions/conversion.rs      14 `IntoDistribution` / `ToDistribution` impls
    * packages/ec-core/src/distributions/one_of_macro.rs    `uniform_distribution_of!`
    * packages/ec-linear/src/genome/bitstring.rs            `BoolGenerator`, `Bitstring::random*`
    * packages/push/src/genome/plushy.rs                    `GeneGenerator::sample`, `Plushy` generator
    * packages/ec-core/src/individual/ec.rs                 `IndividualGenerator::sample`

  Core Lean only (linked into the driver).
-/
import Uec.Model.Rand
namespace Uec.Gen
open Uec

/-! ## collection.rs -/

/-- `collection::Generator<C>` -/
structure Generator (G : Type) where
  elementGenerator : G
  size : Nat

/-- `ConvertToCollectionGenerator::{into,to}_collection_generator` are both `Generator::new(self, size)`
    (by value resp. by reference; a `&C` samples like `C`). -/
def intoCollectionGenerator {G : Type} (g : G) (size : Nat) : Generator G := ⟨g, size⟩

/-- `sample_iter(rng).take(size).collect::<Vec<_>>()`: `Take::next` hands out an element while its
    counter is non-zero (decrementing it), each element is one `sample` of the element generator on
    the shared generator, `collect` pushes them onto the vector in that order.
    `n` is `Take`'s counter, `acc` the vector built so far. -/
def collectLoop {α : Type} (elem : Rand α) : Nat → List α → Rand (List α)
  | 0, acc => pure acc
  | n + 1, acc => do
    let x ← elem
    collectLoop elem n (acc ++ [x])

/-- `impl Distribution<Vec<T>> for Generator<C>` -/
def Generator.sample {α : Type} (g : Generator (Rand α)) : Rand (List α) :=
  collectLoop g.elementGenerator g.size []

/-- **Spec** of the collection generator: exactly `n` successive draws of the element generator,
    in order (`n = 0`: no draw, empty collection). -/
def specCollect {α : Type} (elem : Rand α) : Nat → Rand (List α)
  | 0 => pure []
  | n + 1 => do
    let x ← elem
    let xs ← specCollect elem n
    pure (x :: xs)

/-! ## uniform choices -/

inductive ChoiceErr where
  | emptySlice
deriving Repr, DecidableEq

/-- Result of one `sample` of a choice distribution: the position chosen and the value there
    (a clone or a reference; the harness checks identity for references), or the panic
    (`slice.get(idx).unwrap()` / out-of-range `get_unchecked`) the Rust would hit when the stored
    range does not fit the stored collection. -/
inductive Sampled (α : Type) where
  | value (idx : Nat) (v : α)
  | panic
deriving Repr, DecidableEq

/-- the value of a sample, if it is one -/
def Sampled.val? {α : Type} : Sampled α → Option α
  | .value _ v => some v
  | .panic => none

/-- `NonZeroUsize::new` -/
def nonZero (n : Nat) : Option Nat := if n = 0 then none else some n

/-- `Uniform::<usize>::new(lo, hi)`: `Err(EmptyRange)` unless `lo < hi`; we only ever build `lo = 0`
    and keep the upper bound. -/
def uniformNew (lo hi : Nat) : Option Nat := if lo < hi then some hi else none

/-- `wrappers::owned::OneOfCloning<T, U>`: three copies of the length information. -/
structure OneOfCloning (α : Type) where
  collection : List α
  range : Nat        -- `Uniform::new(0, range)`
  numChoices : Nat   -- `NonZeroUsize`
deriving Repr, DecidableEq

def OneOfCloning.new {α : Type} (collection : List α) : Except ChoiceErr (OneOfCloning α) :=
  -- `NonZeroUsize::new(collection.borrow().len()).ok_or(EmptySlice)?`
  match nonZero collection.length with
  | none => .error .emptySlice
  | some n =>
    -- `Uniform::new(0, num_choices.get()).map_err(|_| EmptySlice)?`
    match uniformNew 0 n with
    | none => .error .emptySlice
    | some hi => .ok { collection, range := hi, numChoices := n }

def OneOfCloning.sample {α : Type} (d : OneOfCloning α) : Rand (Sampled α) := do
  -- `let idx = self.range.sample(rng); slice.get(idx).unwrap().clone()`
  match ← Rand.req (.uniform d.range) with
  | .nat idx =>
    match d.collection[idx]? with
    | some v => pure (.value idx v)
    | none => pure .panic
  | _ => pure .panic

/-- `rand::distr::slice::Choose<'a, T>` (rand 0.9.0) -/
structure Choose (α : Type) where
  slice : List α
  range : Nat        -- `UniformUsize::new(0, range)`
  numChoices : Nat
deriving Repr, DecidableEq

def Choose.new {α : Type} (slice : List α) : Except ChoiceErr (Choose α) :=
  -- `NonZeroUsize::new(slice.len()).ok_or(Empty)?`; the repository maps `Empty` to `EmptySlice`
  match nonZero slice.length with
  | none => .error .emptySlice
  | some n => .ok { slice, range := n, numChoices := n }

def Choose.sample {α : Type} (d : Choose α) : Rand (Sampled α) := do
  -- `let idx = self.range.sample(rng); unsafe { self.slice.get_unchecked(idx) }`
  match ← Rand.req (.chooseDistr d.range) with
  | .nat idx =>
    match d.slice[idx]? with
    | some v => pure (.value idx v)
    | none => pure .panic
  | _ => pure .panic

/-- The three distribution types the conversions produce. -/
inductive Dist (α : Type) where
  /-- `OneOfCloning<T, U>`: owns the collection, yields clones -/
  | oneOfCloning (d : OneOfCloning α)
  /-- `ChooseCloning<'a, U>(Choose<'a, U>)`: borrows, yields clones -/
  | chooseCloning (c : Choose α)
  /-- `Choose<'a, U>`: borrows, yields `&'a U` -/
  | choose (c : Choose α)
deriving Repr, DecidableEq

/-- `ChoicesDistribution::num_choices` -/
def Dist.numChoices {α : Type} : Dist α → Nat
  | .oneOfCloning d => d.numChoices
  | .chooseCloning c => c.numChoices      -- `self.0.num_choices()`
  | .choose c => c.numChoices

/-- `Distribution::sample` -/
def Dist.sample {α : Type} : Dist α → Rand (Sampled α)
  | .oneOfCloning d => d.sample
  | .chooseCloning c => c.sample          -- `self.0.sample(rng).clone()`
  | .choose c => c.sample

/-- `ChooseCloning::new(slice) = Ok(Self(Choose::new(slice).map_err(|_| EmptySlice)?))` -/
def mkChooseCloning {α : Type} (slice : List α) : Except ChoiceErr (Dist α) :=
  match Choose.new slice with
  | .error _ => .error .emptySlice
  | .ok c => .ok (.chooseCloning c)

/-- `Choose::new(self).map_err(|_| EmptySlice)` -/
def mkChooseRef {α : Type} (slice : List α) : Except ChoiceErr (Dist α) :=
  match Choose.new slice with
  | .error _ => .error .emptySlice
  | .ok c => .ok (.choose c)

def mkOneOfCloning {α : Type} (c : List α) : Except ChoiceErr (Dist α) :=
  match OneOfCloning.new c with
  | .error e => .error e
  | .ok d => .ok (.oneOfCloning d)

/-- Every way the repository offers to turn a collection into a uniform choice: the fourteen impls
    of conversion.rs (named `<receiver><Trait><Element>`), the two public constructors, and the macro.  -/
inductive Flavour where
  | vecIntoOwned        -- `IntoDistribution<U> for Vec<U>`            → OneOfCloning
  | refVecIntoRef       -- `IntoDistribution<&U> for &Vec<U>`          → self.to_distribution()
  | refVecIntoOwned     -- `IntoDistribution<U> for &Vec<U>`           → ToDistribution::<U>::to_distribution(self)
  | vecToOwned          -- `ToDistribution<U> for Vec<U>`              → ChooseCloning::new
  | vecToRef            -- `ToDistribution<&U> for Vec<U>`             → Choose::new
  | arrIntoOwned        -- `IntoDistribution<U> for [U; N]`            → OneOfCloning
  | refArrIntoRef       -- `IntoDistribution<&U> for &[U; N]`          → self.to_distribution()
  | refArrIntoOwned     -- `IntoDistribution<U> for &[U; N]`           → ToDistribution::<U>::to_distribution(self)
  | arrToOwned          -- `ToDistribution<U> for [U; N]`              → ChooseCloning::new
  | arrToRef            -- `ToDistribution<&U> for [U; N]`             → Choose::new
  | sliceIntoRef        -- `IntoDistribution<&T> for &[T]`             → Choose::new
  | sliceIntoOwned      -- `IntoDistribution<T> for &[T]`              → ChooseCloning::new
  | sliceToRef          -- `ToDistribution<&T> for [T]`                → Choose::new
  | sliceToOwned        -- `ToDistribution<T> for [T]`                 → ChooseCloning::new
  | oneOfNew            -- `OneOfCloning::new(collection)` (any `T: Borrow<[U]>`)
  | chooseCloningNew    -- `ChooseCloning::new(slice)`
  | macroOf             -- `uniform_distribution_of![…]` = `[…].into_distribution().unwrap()`
deriving Repr, DecidableEq

def Flavour.all : List Flavour :=
  [.vecIntoOwned, .refVecIntoRef, .refVecIntoOwned, .vecToOwned, .vecToRef,
   .arrIntoOwned, .refArrIntoRef, .refArrIntoOwned, .arrToOwned, .arrToRef,
   .sliceIntoRef, .sliceIntoOwned, .sliceToRef, .sliceToOwned,
   .oneOfNew, .chooseCloningNew, .macroOf]

/-- outcome of building a choice distribution; `panic` only for the macro's `unwrap` -/
inductive Built (α : Type) where
  | ok (d : Dist α)
  | err (e : ChoiceErr)
  | panic
deriving Repr, DecidableEq

/-- `num_choices()` of a successfully built distribution -/
def Built.numChoices? {α : Type} : Built α → Option Nat
  | .ok d => some d.numChoices
  | _ => none

def Built.ofExcept {α : Type} : Except ChoiceErr (Dist α) → Built α
  | .ok d => .ok d
  | .error e => .err e

/-! The conversion impls as written: each either constructs directly or delegates to another impl. -/
namespace Conv
variable {α : Type}
def vecIntoOwned (c : List α) := mkOneOfCloning c          -- `OneOfCloning::new(self)`
def vecToOwned (c : List α) := mkChooseCloning c           -- `ChooseCloning::new(self)`
def vecToRef (c : List α) := mkChooseRef c                 -- `Choose::new(self).map_err(|_| EmptySlice)`
def refVecIntoRef (c : List α) := vecToRef c                -- `self.to_distribution()`
def refVecIntoOwned (c : List α) := vecToOwned c            -- `ToDistribution::<U>::to_distribution(self)`
def arrIntoOwned (c : List α) := mkOneOfCloning c
def arrToOwned (c : List α) := mkChooseCloning c
def arrToRef (c : List α) := mkChooseRef c
def refArrIntoRef (c : List α) := arrToRef c
def refArrIntoOwned (c : List α) := arrToOwned c
def sliceIntoRef (c : List α) := mkChooseRef c
def sliceIntoOwned (c : List α) := mkChooseCloning c
def sliceToRef (c : List α) := mkChooseRef c
def sliceToOwned (c : List α) := mkChooseCloning c
end Conv

def Flavour.build {α : Type} (f : Flavour) (c : List α) : Built α :=
  match f with
  | .vecIntoOwned => .ofExcept (Conv.vecIntoOwned c)
  | .vecToOwned => .ofExcept (Conv.vecToOwned c)
  | .vecToRef => .ofExcept (Conv.vecToRef c)
  | .refVecIntoRef => .ofExcept (Conv.refVecIntoRef c)
  | .refVecIntoOwned => .ofExcept (Conv.refVecIntoOwned c)
  | .arrIntoOwned => .ofExcept (Conv.arrIntoOwned c)
  | .arrToOwned => .ofExcept (Conv.arrToOwned c)
  | .arrToRef => .ofExcept (Conv.arrToRef c)
  | .refArrIntoRef => .ofExcept (Conv.refArrIntoRef c)
  | .refArrIntoOwned => .ofExcept (Conv.refArrIntoOwned c)
  | .sliceIntoRef => .ofExcept (Conv.sliceIntoRef c)
  | .sliceIntoOwned => .ofExcept (Conv.sliceIntoOwned c)
  | .sliceToRef => .ofExcept (Conv.sliceToRef c)
  | .sliceToOwned => .ofExcept (Conv.sliceToOwned c)
  | .oneOfNew => .ofExcept (mkOneOfCloning c)
  | .chooseCloningNew => .ofExcept (mkChooseCloning c)
  | .macroOf =>
    -- `Result::unwrap(IntoDistribution::into_distribution([items…]))`
    match Conv.arrIntoOwned c with
    | .ok d => .ok d
    | .error _ => .panic

/-! ### Spec of a uniform choice (property-shaped) -/

/-- what building must report: an error exactly for the empty source -/
def specBuildOk {α : Type} (c : List α) : Bool := !c.isEmpty

/-- what `num_choices` must report -/
def specNumChoices {α : Type} (c : List α) : Nat := c.length

/-- a legal sample of a uniform choice over `c`: a position of `c` and the member there -/
def specSampleOk {α : Type} [DecidableEq α] (c : List α) : Sampled α → Bool
  | .value i v => decide (c[i]? = some v)
  | .panic => false

/-! ## element generators used in the tie (and available to the theorems) -/

/-- canonical values: what the generators under test produce -/
inductive Val where
  | int (i : Int)
  | list (l : List Val)
  | panic
deriving Repr, Inhabited

/-- instruction distribution inside a `GeneGenerator` -/
inductive InstrKind where
  | oneOf | chooseCloning | probe
deriving Repr, DecidableEq

/-- Element generators of the tie.  -/
inductive Elem where
  /-- caller-supplied `Distribution<i64>` probe drawing `d` words (`Prim.user d`) -/
  | probe (d : Nat)
  /-- `StandardUniform` for `bool` (`Bitstring::random`) -/
  | bool
  /-- `BoolGenerator { true_probability }` (`Bitstring::random_with_probability`) -/
  | boolP (pbits : UInt64)
  /-- `GeneGenerator { close_probability, instruction_distribution }` over `m` instructions -/
  | gene (cpBits : UInt32) (m : Nat) (k : InstrKind)
  /-- a `collection::Generator` as element generator (population of genomes) -/
  | coll (n : Nat) (e : Elem)
  /-- `IndividualGenerator { genome_generator, scorer }` with the sum-of-leaves probe scorer -/
  | ind (e : Elem)
deriving Repr

/-- probe scorer: sum of the integer leaves -/
def Val.total : Val → Int
  | .int i => i
  | .list l => totalList l
  | .panic => 0
where totalList : List Val → Int
  | [] => 0
  | v :: vs => v.total + totalList vs

/-- `GeneGenerator::sample`: `if rng.random::<f32>() < self.close_probability { Close } else
    { Instruction(self.instruction_distribution.sample(rng)) }`; `Close` is `-1`, instruction `j` is `j`. -/
def geneSample (cpBits : UInt32) (instr : Rand Val) : Rand Val := do
  match ← Rand.req .f32 with
  | .bits w =>
    if Float32.ofBits w.toUInt32 < Float32.ofBits cpBits then pure (.int (-1))
    else instr
  | _ => pure .panic

def sampledVal : Sampled Nat → Val
  | .value _ v => .int v
  | .panic => .panic

/-- instruction distribution over the instruction set `0..m` -/
def instrSample (m : Nat) : InstrKind → Rand Val
  | .oneOf =>
    match OneOfCloning.new (List.range m) with
    | .ok d => sampledVal <$> d.sample
    | .error _ => pure .panic      -- the harness never builds a gene generator over an empty set
  | .chooseCloning =>
    match Choose.new (List.range m) with
    | .ok d => sampledVal <$> d.sample
    | .error _ => pure .panic
  | .probe => do
    match ← Rand.req (.user 1) with
    | .nat v => pure (.int v)
    | _ => pure .panic

def Elem.sample : Elem → Rand Val
  | .probe d => do
    match ← Rand.req (.user d) with
    | .nat v => pure (.int v)
    | _ => pure .panic
  | .bool => do
    match ← Rand.req .bool with
    | .bool b => pure (.int (if b then 1 else 0))
    | _ => pure .panic
  | .boolP p => do
    match ← Rand.req (.boolP p) with
    | .bool b => pure (.int (if b then 1 else 0))
    | _ => pure .panic
  | .gene cp m k => geneSample cp (instrSample m k)
  | .coll n e => .list <$> (Generator.sample (intoCollectionGenerator e.sample n))
  | .ind e => do
    -- `let genome = self.genome_generator.sample(rng); let r = self.scorer.score(&genome); EcIndividual::new(genome, r)`
    let genome ← e.sample
    pure (.list [genome, .int genome.total])

end Uec.Gen
