/-
  Spec of the Push instruction semantics (property C01, and the all-or-nothing discipline behind
  C02/C03).

  One table `sig : instruction ↦ Signature` says for every instruction how many operands it takes
  from the top of each stack (first operand = top), what it computes from them (a fault, or the
  values pushed onto each stack and the bytes printed), and whether a full destination is detected
  before the operands are looked at.  One generic engine `apply` carries a signature out
  all-or-nothing: operands present?  compute;  room for the results?  remove exactly the operands,
  push exactly the results.  The conditional instructions are the documented action tables;
  `Flush`, blocks and input variables are stated directly.  States are viewed top first
  (`Stack.tops` / `Stack.ofTop`).
-/
import Uec.Model.PushImpl
namespace Uec
namespace Spec

/-- the four stacks, top first -/
structure Tops where
  exec : List Prog := []
  int : List Int64 := []
  float : List UInt64 := []
  bool : List Bool := []
deriving Repr, Inhabited

def tops (s : PState) : Tops := ⟨s.exec.tops, s.int.tops, s.float.tops, s.bool.tops⟩

/-- same limits, inputs, output; new stack contents -/
def withTops (s : PState) (t : Tops) : PState :=
  { s with exec := .ofTop s.exec.max t.exec, int := .ofTop s.int.max t.int,
           float := .ofTop s.float.max t.float, bool := .ofTop s.bool.max t.bool }

/-- what an instruction computes from its operands -/
inductive Eff where
  | fault (e : Err)
  | res (push : Tops) (out : List OutTok)

structure Sig where
  nExec : Nat := 0
  nInt : Nat := 0
  nFloat : Nat := 0
  nBool : Nat := 0
  /-- a full boolean stack is detected before the operands are looked at (predicates, `FromInt`) -/
  boolRoomFirst : Bool := false
  /-- operands (first = top of the respective stack) ↦ effect; the state is available for the
      instructions that report on a stack (`IsEmpty`, `StackDepth`) -/
  eff : PState → Tops → Eff

/-- take `n` operands off a stack -/
def takeN {α : Type} (n : Nat) (l : List α) : Except Err (List α × List α) :=
  if l.length < n then .error (.stack (.underflow n l.length)) else .ok (l.take n, l.drop n)

/-- pushing `p` onto `rest` overflows a stack of maximum `m` -/
def noRoom {α : Type} (m : Nat) (p rest : List α) : Bool := !p.isEmpty && decide (p.length + rest.length > m)

/-- The engine: all or nothing. -/
def apply (sg : Sig) (s : PState) : Outcome PState :=
  let t := tops s
  if sg.boolRoomFirst && decide (t.bool.length ≥ s.bool.max) then .fatal s (.stack .overflow) else
  match takeN sg.nExec t.exec with
  | .error e => .recoverable s e
  | .ok (oe, re) =>
  match takeN sg.nInt t.int with
  | .error e => .recoverable s e
  | .ok (oi, ri) =>
  match takeN sg.nFloat t.float with
  | .error e => .recoverable s e
  | .ok (of, rf) =>
  match takeN sg.nBool t.bool with
  | .error e => .recoverable s e
  | .ok (ob, rb) =>
  match sg.eff s ⟨oe, oi, of, ob⟩ with
  | .fault e => .recoverable s e
  | .res p out =>
    if noRoom s.exec.max p.exec re || noRoom s.int.max p.int ri
        || noRoom s.float.max p.float rf || noRoom s.bool.max p.bool rb then
      .fatal s (.stack .overflow)
    else
      .ok { withTops s ⟨p.exec ++ re, p.int ++ ri, p.float ++ rf, p.bool ++ rb⟩ with out := s.out ++ out }

/-! ### signatures by shape -/

def bad : Eff := .fault (.stack (.underflow 0 0))   -- never reached: `apply` hands over exactly n operands

def liftE (r : Except Err Eff) : Eff := match r with | .ok e => e | .error e => .fault e

def sInt1 (f : Int64 → Except Err Int64) : Sig :=
  { nInt := 1, eff := fun _ o => match o.int with | [x] => liftE ((f x).map fun v => .res { int := [v] } []) | _ => bad }
def sInt2 (f : Int64 → Int64 → Except Err Int64) : Sig :=
  { nInt := 2, eff := fun _ o => match o.int with | [x, y] => liftE ((f x y).map fun v => .res { int := [v] } []) | _ => bad }
def sInt3 (f : Int64 → Int64 → Int64 → Int64) : Sig :=
  { nInt := 3, eff := fun _ o => match o.int with | [x, y, z] => .res { int := [f x y z] } [] | _ => bad }
def sIntPred1 (f : Int64 → Bool) : Sig :=
  { nInt := 1, boolRoomFirst := true, eff := fun _ o => match o.int with | [x] => .res { bool := [f x] } [] | _ => bad }
def sIntPred2 (f : Int64 → Int64 → Bool) : Sig :=
  { nInt := 2, boolRoomFirst := true, eff := fun _ o => match o.int with | [x, y] => .res { bool := [f x y] } [] | _ => bad }
def sFloat2 (f : UInt64 → UInt64 → UInt64) : Sig :=
  { nFloat := 2, eff := fun _ o => match o.float with | [x, y] => .res { float := [f x y] } [] | _ => bad }
def sFloatPred2 (f : UInt64 → UInt64 → Bool) : Sig :=
  { nFloat := 2, boolRoomFirst := true, eff := fun _ o => match o.float with | [x, y] => .res { bool := [f x y] } [] | _ => bad }
def sBool1 (f : Bool → Bool) : Sig :=
  { nBool := 1, eff := fun _ o => match o.bool with | [x] => .res { bool := [f x] } [] | _ => bad }
def sBool2 (f : Bool → Bool → Bool) : Sig :=
  { nBool := 2, eff := fun _ o => match o.bool with | [x, y] => .res { bool := [f x y] } [] | _ => bad }

/-! the instructions every stack type has; `sel` picks the stack in a `Tops` -/
inductive Ty where | exec | int | float | bool
deriving DecidableEq, Repr

def sPush (t : Tops) : Sig := { eff := fun _ _ => .res t [] }
def sPopInt : Sig := { nInt := 1, eff := fun _ _ => .res {} [] }
def sPopFloat : Sig := { nFloat := 1, eff := fun _ _ => .res {} [] }
def sPopBool : Sig := { nBool := 1, eff := fun _ _ => .res {} [] }
def sPopExec : Sig := { nExec := 1, eff := fun _ _ => .res {} [] }
def sDupInt : Sig := { nInt := 1, eff := fun _ o => .res { int := o.int ++ o.int } [] }
def sDupFloat : Sig := { nFloat := 1, eff := fun _ o => .res { float := o.float ++ o.float } [] }
def sDupBool : Sig := { nBool := 1, eff := fun _ o => .res { bool := o.bool ++ o.bool } [] }
def sDupExec : Sig := { nExec := 1, eff := fun _ o => .res { exec := o.exec ++ o.exec } [] }
def sSwapInt : Sig := { nInt := 2, eff := fun _ o => .res { int := o.int.reverse } [] }
def sSwapFloat : Sig := { nFloat := 2, eff := fun _ o => .res { float := o.float.reverse } [] }
def sSwapBool : Sig := { nBool := 2, eff := fun _ o => .res { bool := o.bool.reverse } [] }
def sSwapExec : Sig := { nExec := 2, eff := fun _ o => .res { exec := o.exec.reverse } [] }
def sIsEmpty (f : Tops → Bool) : Sig := { eff := fun s _ => .res { bool := [f (tops s)] } [] }
def sDepth (f : Tops → Nat) : Sig := { eff := fun s _ => .res { int := [I64.ofSize (f (tops s))] } [] }
def sPrintInt (nl : Bool) : Sig :=
  { nInt := 1, eff := fun _ o => match o.int with
      | [x] => .res {} ([.str (toString x.toInt)] ++ if nl then [.str "\n"] else []) | _ => bad }
def sPrintFloat (nl : Bool) : Sig :=
  { nFloat := 1, eff := fun _ o => match o.float with
      | [x] => .res {} ([.float x] ++ if nl then [.str "\n"] else []) | _ => bad }
def sPrintBool (nl : Bool) : Sig :=
  { nBool := 1, eff := fun _ o => match o.bool with
      | [x] => .res {} ([.str (if x then "true" else "false")] ++ if nl then [.str "\n"] else []) | _ => bad }
def sOut (bytes : String) : Sig := { eff := fun _ _ => .res {} [.str bytes] }

/-! ### the result functions of the arithmetic instructions (what C01 spells out) -/

def negate (x : Int64) : Int64 := if x.toInt = I64.minVal then Int64.ofInt I64.maxVal else -x
def absI (x : Int64) : Int64 := if x.toInt = I64.minVal then Int64.ofInt I64.maxVal else if x < 0 then -x else x
def pdivI (op : IntI) (x y : Int64) : Except Err Int64 :=
  if y = 0 then .ok 1 else I64.checked op (x.toInt.tdiv y.toInt)
def modI (op : IntI) (x y : Int64) : Except Err Int64 :=
  if y = 0 then .ok 0
  else if x.toInt = I64.minVal ∧ y.toInt = -1 then .error (.intOverflow op)
  else I64.checked op (x.toInt.tmod y.toInt)

/-- **The signature table.**  `none` for the instructions stated directly below (`Flush`, the
    conditionals).  Operand order: first operand = top. -/
def sigInt (op : IntI) : Option Sig :=
  match op with
  | .pop => some sPopInt
  | .push v => some (sPush { int := [v] })
  | .dup => some sDupInt
  | .swap => some sSwapInt
  | .isEmpty => some (sIsEmpty fun t => t.int.isEmpty)
  | .stackDepth => some (sDepth fun t => t.int.length)
  | .flush => none
  | .print => some (sPrintInt false)
  | .printLn => some (sPrintInt true)
  | .negate => some (sInt1 fun x => .ok (negate x))
  | .abs => some (sInt1 fun x => .ok (absI x))
  | .min => some (sInt2 fun x y => .ok (if x ≤ y then x else y))
  | .max => some (sInt2 fun x y => .ok (if y ≤ x then x else y))
  | .clamp => some (sInt3 Impl.clampF)
  | .inc => some (sInt1 fun x => I64.checked op (x.toInt + 1))
  | .dec => some (sInt1 fun x => I64.checked op (x.toInt - 1))
  | .square => some (sInt1 fun x => I64.checked op (x.toInt * x.toInt))
  | .add => some (sInt2 fun x y => I64.checked op (x.toInt + y.toInt))
  | .subtract => some (sInt2 fun x y => I64.checked op (x.toInt - y.toInt))
  | .multiply => some (sInt2 fun x y => I64.checked op (x.toInt * y.toInt))
  | .protectedDivide => some (sInt2 (pdivI op))
  | .mod => some (sInt2 (modI op))
  | .power => some (sInt2 fun x y => I64.pow op x.toInt y.toInt)
  | .isZero => some (sIntPred1 fun x => x == 0)
  | .isPositive => some (sIntPred1 fun x => decide (x > 0))
  | .isNegative => some (sIntPred1 fun x => decide (x < 0))
  | .isEven => some (sIntPred1 fun x => x.toInt.tmod 2 == 0)
  | .isOdd => some (sIntPred1 fun x => x.toInt.tmod 2 != 0)
  | .equal => some (sIntPred2 fun x y => x == y)
  | .notEqual => some (sIntPred2 fun x y => x != y)
  | .lessThan => some (sIntPred2 fun x y => decide (x < y))
  | .lessThanEqual => some (sIntPred2 fun x y => decide (x ≤ y))
  | .greaterThan => some (sIntPred2 fun x y => decide (x > y))
  | .greaterThanEqual => some (sIntPred2 fun x y => decide (x ≥ y))
  | .fromBoolean => some { nBool := 1, eff := fun _ o => match o.bool with
      | [b] => .res { int := [if b then 1 else 0] } [] | _ => bad }
  | .fromFloatApprox => some { nFloat := 1, eff := fun _ o => match o.float with
      | [f] => .res { int := [F64.toI64 f] } [] | _ => bad }

def sigFloat (op : FloatI) : Option Sig :=
  match op with
  | .pop => some sPopFloat
  | .push v => some (sPush { float := [v] })
  | .dup => some sDupFloat
  | .swap => some sSwapFloat
  | .isEmpty => some (sIsEmpty fun t => t.float.isEmpty)
  | .stackDepth => some (sDepth fun t => t.float.length)
  | .flush => none
  | .print => some (sPrintFloat false)
  | .printLn => some (sPrintFloat true)
  | .add => some (sFloat2 F64.add)
  | .subtract => some (sFloat2 F64.sub)
  | .multiply => some (sFloat2 F64.mul)
  | .protectedDivide => some (sFloat2 F64.pdiv)
  | .equal => some (sFloatPred2 F64.eq)
  | .notEqual => some (sFloatPred2 F64.ne)
  | .greaterThan => some (sFloatPred2 F64.gt)
  | .lessThan => some (sFloatPred2 F64.lt)
  | .greaterThanOrEqual => some (sFloatPred2 F64.ge)
  | .lessThanOrEqual => some (sFloatPred2 F64.le)
  | .fromIntApprox => some { nInt := 1, eff := fun _ o => match o.int with
      | [i] => .res { float := [F64.ofI64 i] } [] | _ => bad }

def sigBool (op : BoolI) : Option Sig :=
  match op with
  | .pop => some sPopBool
  | .push v => some (sPush { bool := [v] })
  | .dup => some sDupBool
  | .swap => some sSwapBool
  | .isEmpty => some (sIsEmpty fun t => t.bool.isEmpty)
  | .stackDepth => some (sDepth fun t => t.bool.length)
  | .flush => none
  | .print => some (sPrintBool false)
  | .println => some (sPrintBool true)
  | .not => some (sBool1 fun x => !x)
  | .and => some (sBool2 fun x y => x && y)
  | .or => some (sBool2 fun x y => x || y)
  | .xor => some (sBool2 fun x y => x != y)
  | .implies => some (sBool2 fun x y => !x || y)
  | .fromInt => some { nInt := 1, boolRoomFirst := true, eff := fun _ o => match o.int with
      | [i] => .res { bool := [i != 0] } [] | _ => bad }

def sigExec (op : ExecI) : Option Sig :=
  match op with
  | .pop => some sPopExec
  | .dup => some sDupExec
  | .swap => some sSwapExec
  | .isEmpty => some (sIsEmpty fun t => t.exec.isEmpty)
  | .stackDepth => some (sDepth fun t => t.exec.length)
  | .flush => none
  | .noop => some { eff := fun _ _ => .res {} [] }
  | .dupBlock => some sDupExec
  | .when | .unless | .ifElse => none

/-! ### the documented action tables of the conditionals -/

/-- what happens to the boolean / the block(s) -/
inductive Act where
  | keep | consume
deriving DecidableEq, Repr

/-- `When` (instruction/exec/when.rs): top of bool (if any), is there a block → action or underflow -/
def whenTable : Option Bool → Bool → Option (Act × Act)
  | some true, true => some (.consume, .keep)       -- the code block is executed
  | some false, true => some (.consume, .consume)   -- the code block is skipped
  | none, true => some (.keep, .consume)            -- the code block is skipped
  | some _, false => some (.keep, .keep)            -- state is unchanged
  | none, false => none                             -- recoverable underflow

/-- `Unless` (instruction/exec/unless.rs) -/
def unlessTable : Option Bool → Bool → Option (Act × Act)
  | some false, true => some (.consume, .keep)      -- executed
  | some true, true => some (.consume, .consume)    -- skipped
  | none, true => some (.keep, .keep)               -- executed
  | some _, false => some (.keep, .keep)
  | none, false => none

/-- `IfElse` (instruction/exec/ifelse.rs): bool, then-block exists, else-block exists
    ↦ (bool, then, else) actions -/
def ifElseTable : Option Bool → Bool → Bool → Option (Act × Act × Act)
  | some true, true, true => some (.consume, .keep, .consume)
  | some false, true, true => some (.consume, .consume, .keep)
  | some true, true, false => some (.consume, .keep, .keep)     -- (no else block)
  | some false, true, false => some (.consume, .consume, .keep)
  | none, true, _ => some (.keep, .consume, .keep)
  | _, false, _ => none

def dropIf {α : Type} (a : Act) (l : List α) : List α := if a = .consume then l.drop 1 else l

/-- apply a one-block table row -/
def cond1 (tbl : Option Bool → Bool → Option (Act × Act)) (s : PState) : Outcome PState :=
  let t := tops s
  match tbl t.bool.head? (!t.exec.isEmpty) with
  | some (ab, ae) => .ok (withTops s { t with bool := dropIf ab t.bool, exec := dropIf ae t.exec })
  | none => .recoverable s (.stack (.underflow 1 0))

def ifElse (s : PState) : Outcome PState :=
  let t := tops s
  match ifElseTable t.bool.head? (!t.exec.isEmpty) (decide (t.exec.length ≥ 2)) with
  | some (ab, at_, ae) =>
    let exec := match t.exec with
      | th :: el :: r => (if at_ = .consume then [] else [th]) ++ (if ae = .consume then [] else [el]) ++ r
      | l => dropIf at_ l
    .ok (withTops s { t with bool := dropIf ab t.bool, exec := exec })
  | none => .recoverable s (.stack (.underflow 2 t.exec.length))

def flush (ty : Ty) (s : PState) : Outcome PState :=
  let t := tops s
  .ok (withTops s (match ty with
    | .exec => { t with exec := [] } | .int => { t with int := [] }
    | .float => { t with float := [] } | .bool => { t with bool := [] }))

def performInstr (i : Instr0) (s : PState) : Outcome PState :=
  match i with
  | .inputVar name =>
    match Impl.lookup s.inputs name with
    | none => .panic
    | some (.int v) => apply (sPush { int := [v] }) s
    | some (.float v) => apply (sPush { float := [v] }) s
    | some (.bool v) => apply (sPush { bool := [v] }) s
  | .int op => match sigInt op with | some sg => apply sg s | none => flush .int s
  | .float op => match sigFloat op with | some sg => apply sg s | none => flush .float s
  | .bool op => match sigBool op with | some sg => apply sg s | none => flush .bool s
  | .exec .when => cond1 whenTable s
  | .exec .unless => cond1 unlessTable s
  | .exec .ifElse => ifElse s
  | .exec op => match sigExec op with | some sg => apply sg s | none => flush .exec s
  | .printSpace => apply (sOut " ") s
  | .printNewline => apply (sOut "\n") s
  | .printPeriod => apply (sOut ".") s
  | .printString str => apply (sOut str) s

/-- blocks unfold in order: the first element of the block is on top afterwards -/
def perform (p : Prog) (s : PState) : Outcome PState :=
  match p with
  | .instr i => performInstr i s
  | .execPush q => apply (sPush { exec := [q] }) s
  | .block ps =>
    let t := tops s
    if ps.length + t.exec.length > s.exec.max then .fatal s (.stack .overflow)
    else .ok (withTops s { t with exec := ps ++ t.exec })

/-- the interpreter loop over the Spec's single-step semantics -/
def run (s : PState) : Impl.RunResult := Impl.runLoopG perform s.maxSteps 0 s

end Spec
end Uec
