/-
  Impl model of `push::push_vm::stack::Stack<T>` (packages/push/src/push_vm/stack.rs).

  Code-shaped: `values` is the Rust `Vec`, bottom first (the last element is the
  top of the stack); every operation follows the Rust control flow (the order of
  the checks, the `?` exits, `checked_sub`, `saturating_sub`, `truncate`,
  `reverse` of the new tail, …).  No Mathlib import: this file is linked into
  the correspondence driver.
-/
namespace Uec

inductive StackErr where
  | underflow (requested present : Nat)
  | overflow
deriving DecidableEq, Repr, Inhabited

structure Stack (α : Type) where
  max : Nat
  values : List α
deriving DecidableEq, Repr, Inhabited

namespace Stack
variable {α : Type}

/-- `Stack::default()`; `usize::MAX` is modelled by the caller supplying it. -/
def empty (max : Nat) : Stack α := { max := max, values := [] }

def setMax (s : Stack α) (m : Nat) : Stack α := { s with max := m }
def size (s : Stack α) : Nat := s.values.length
def isEmpty (s : Stack α) : Bool := s.values.isEmpty
/-- `self.size() == self.max_stack_size` -/
def isFull (s : Stack α) : Bool := s.size == s.max

/-- `self.values.last().ok_or(Underflow{1,0})` -/
def top (s : Stack α) : Except StackErr α :=
  match s.values.getLast? with
  | some x => .ok x
  | none => .error (.underflow 1 0)

def top2 (s : Stack α) : Except StackErr (α × α) :=
  -- `self.size().checked_sub(2).ok_or_else(..)?`
  if s.size < 2 then .error (.underflow 2 s.size) else
  let idx := s.size - 2
  match s.top with
  | .error e => .error e
  | .ok x =>
    match s.values[idx]? with
    | none => .error (.underflow 2 1)
    | some y => .ok (x, y)

def top3 (s : Stack α) : Except StackErr (α × α × α) :=
  if s.size < 3 then .error (.underflow 3 s.size) else
  let idx := s.size - 3
  match s.top with
  | .error e => .error e
  | .ok x =>
    match s.values[idx + 1]? with
    | none => .error (.underflow 3 (s.size - 1))
    | some y =>
      match s.values[idx]? with
      | none => .error (.underflow 3 (s.size - 2))
      | some z => .ok (x, y, z)

/-- `self.values.pop().ok_or(Underflow{1,0})`; returns the popped value and the new stack. -/
def pop (s : Stack α) : Except StackErr (α × Stack α) :=
  match s.values.getLast? with
  | some x => .ok (x, { s with values := s.values.dropLast })
  | none => .error (.underflow 1 0)

def pop2 (s : Stack α) : Except StackErr ((α × α) × Stack α) :=
  if s.size ≥ 2 then
    match s.pop with
    | .error e => .error e
    | .ok (x, s1) =>
      match s1.pop with
      | .error e => .error e
      | .ok (y, s2) => .ok ((x, y), s2)
  else .error (.underflow 2 s.size)

def pop3 (s : Stack α) : Except StackErr ((α × α × α) × Stack α) :=
  if s.size ≥ 3 then
    match s.pop with
    | .error e => .error e
    | .ok (x, s1) =>
      match s1.pop with
      | .error e => .error e
      | .ok (y, s2) =>
        match s2.pop with
        | .error e => .error e
        | .ok (z, s3) => .ok ((x, y, z), s3)
  else .error (.underflow 3 s.size)

/-- the `for _ in 0..n { self.pop()? }` loop of `discard` -/
def discardLoop : Nat → Stack α → Except StackErr (Stack α)
  | 0, s => .ok s
  | n + 1, s =>
    match s.pop with
    | .error e => .error e
    | .ok (_, s') => discardLoop n s'

def discard (s : Stack α) (n : Nat) : Except StackErr (Stack α) :=
  if n > s.size then .error (.underflow n s.size) else discardLoop n s

/-- `push`: refuses when the stack already holds `max` or more elements
    (`>=` since the `fix:` commit for finding D3; it was `==`). -/
def push (s : Stack α) (v : α) : Except StackErr (Stack α) :=
  if s.size ≥ s.max then .error .overflow
  else .ok { s with values := s.values ++ [v] }

/-- `push_many` with an `ExactSizeIterator + DoubleEndedIterator`:
    `len.checked_add(size).is_none_or(|x| x > max)` then `extend(iter.rev())`.
    (`checked_add` cannot overflow for lists that fit in memory.) -/
def pushMany (s : Stack α) (l : List α) : Except StackErr (Stack α) :=
  if l.length + s.size > s.max then .error .overflow
  else .ok { s with values := s.values ++ l.reverse }

/-- `TryExtend::try_extend(&mut iter)`.  Returns the result, the stack afterwards and the
    number of items taken from the iterator. -/
def tryExtend (s : Stack α) (iter : List α) : Except StackErr Unit × Stack α × Nat :=
  let cur := s.values.length
  let maxExt := s.max - cur                      -- saturating_sub
  let taken := iter.take maxExt                  -- iter.take(max_extended)
  let rest := iter.drop maxExt
  let vals := s.values ++ taken                  -- values.extend(..)
  match rest with
  | _ :: _ =>                                    -- iter.next().is_some()
    (.error .overflow, { s with values := vals.take cur }, taken.length + 1)
  | [] =>
    (.ok (), { s with values := vals.take cur ++ (vals.drop cur).reverse }, taken.length)

/-- the stack with maximum `m` whose elements are `l`, **top first** (specification view) -/
def ofTop (m : Nat) (l : List α) : Stack α := ⟨m, l.reverse⟩
/-- the elements, top first (specification view) -/
def tops (s : Stack α) : List α := s.values.reverse

end Stack
end Uec
