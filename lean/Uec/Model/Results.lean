/-
  Impl model of ec-core's result and individual types
    packages/ec-core/src/test_results.rs   (Score, Error, TestResult, TestResults)
    packages/ec-core/src/individual/ec.rs  (EcIndividual, IndividualGenerator)
    packages/ec-core/src/individual/scorer.rs (Scorer, FnScorer, &T)
  and the Spec of property C15.

  Rust splits comparison over three traits: `PartialEq::eq` (`==`, `!=`), `PartialOrd::partial_cmp`
  (from which the default methods give `<`, `<=`, `>`, `>=`) and `Ord::cmp` (`max`, `min`, sorting,
  the selectors).  The model keeps the three apart — `Elem T` — and mirrors, impl by impl, which
  method of the inner type each of them forwards to.
-/
import Uec.Model.Rand
namespace Uec

/-- The comparison surface of a Rust type: `Ord::cmp`, `PartialOrd::partial_cmp`, `PartialEq::eq`. -/
structure Elem (T : Type) where
  cmp : T → T → Ordering
  pcmp : T → T → Option Ordering
  eq : T → T → Bool

/-- `PartialOrd`'s default methods: `a < b` is `matches!(a.partial_cmp(b), Some(Less))`, … -/
def opLt (p : Option Ordering) : Bool := p == some .lt
def opLe (p : Option Ordering) : Bool := p == some .lt || p == some .eq
def opGt (p : Option Ordering) : Bool := p == some .gt
def opGe (p : Option Ordering) : Bool := p == some .gt || p == some .eq

namespace Elem
variable {T : Type}
def lt (E : Elem T) (a b : T) : Bool := opLt (E.pcmp a b)
def le (E : Elem T) (a b : T) : Bool := opLe (E.pcmp a b)
def gt (E : Elem T) (a b : T) : Bool := opGt (E.pcmp a b)
def ge (E : Elem T) (a b : T) : Bool := opGe (E.pcmp a b)
def ne (E : Elem T) (a b : T) : Bool := !E.eq a b

/-- `Ord`'s provided methods (core::cmp, Rust 1.95): `max`: `if other < self { self } else { other }`,
    `min`: `if other < self { other } else { self }`,
    `clamp`: `assert!(min <= max); if self < min { min } else if self > max { max } else { self }` (`none` = the assertion
    fails: a panic).  They go through the `PartialOrd` operators, i.e. through `partial_cmp`. -/
def max (E : Elem T) (a b : T) : T := if E.lt b a then a else b
def min (E : Elem T) (a b : T) : T := if E.lt b a then b else a
def clamp (E : Elem T) (x lo hi : T) : Option T :=
  if E.le lo hi then some (if E.lt x lo then lo else if E.gt x hi then hi else x) else none

/-- What it means for the three traits of a type to form one lawful total order. -/
structure Lawful (E : Elem T) : Prop where
  pcmp_eq : ∀ a b, E.pcmp a b = some (E.cmp a b)
  eq_iff : ∀ a b, E.eq a b = true ↔ a = b
  cmp_eq_iff : ∀ a b, E.cmp a b = .eq ↔ a = b
  swap : ∀ a b, E.cmp b a = (E.cmp a b).swap
  trans : ∀ a b c, E.cmp a b = .lt → E.cmp b c = .lt → E.cmp a c = .lt

/-- the integers with their usual order (`i8 … i64`, overflow aside) -/
def int : Elem Int := ⟨compare, fun a b => some (compare a b), fun a b => a == b⟩
end Elem

/-- `#[derive(Eq, PartialEq, Ord, PartialOrd)] struct Score<T>(pub T)` -/
structure Score (T : Type) where
  v : T
deriving Repr, DecidableEq

/-- `#[derive(Eq, PartialEq)] struct Error<T>(pub T)` with hand-written `Ord` / `PartialOrd` -/
structure Error (T : Type) where
  v : T
deriving Repr, DecidableEq

/-- derived impls on a one-field tuple struct forward to the field -/
def Score.elem {T : Type} (E : Elem T) : Elem (Score T) where
  cmp a b := E.cmp a.v b.v
  pcmp a b := E.pcmp a.v b.v
  eq a b := E.eq a.v b.v

/-- `cmp = self.0.cmp(&other.0).reverse()`, `partial_cmp = self.0.partial_cmp(&other.0).map(Ordering::reverse)`,
    `eq` derived -/
def Error.elem {T : Type} (E : Elem T) : Elem (Error T) where
  cmp a b := (E.cmp a.v b.v).swap
  pcmp a b := (E.pcmp a.v b.v).map Ordering.swap
  eq a b := E.eq a.v b.v

/-- `enum TestResult<S, E> { Score(Score<S>), Error(Error<E>) }` — `PartialEq` derived, `PartialOrd`
    by hand, no `Ord`. -/
inductive TestResult (S E : Type) where
  | score (s : Score S)
  | error (e : Error E)
deriving Repr, DecidableEq

namespace TestResult
variable {S E : Type}
/-- `match (self, other) { (Score a, Score b) => a.partial_cmp(b), (Error a, Error b) => a.partial_cmp(b), _ => None }` -/
def pcmp (ES : Elem S) (EE : Elem E) : TestResult S E → TestResult S E → Option Ordering
  | .score a, .score b => (Score.elem ES).pcmp a b
  | .error a, .error b => (Error.elem EE).pcmp a b
  | _, _ => none
/-- derived `PartialEq`: same variant and equal payload -/
def eq (ES : Elem S) (EE : Elem E) : TestResult S E → TestResult S E → Bool
  | .score a, .score b => (Score.elem ES).eq a b
  | .error a, .error b => (Error.elem EE).eq a b
  | _, _ => false
end TestResult

/-- `struct TestResults<R> { pub results: Vec<R>, pub total_result: R }` -/
structure TestResults (R : Type) where
  results : List R
  total : R
deriving Repr, DecidableEq

/-- `Vec<R> == Vec<R>`: same length and element-wise `==` -/
def listEq {R : Type} (eq : R → R → Bool) : List R → List R → Bool
  | [], [] => true
  | a :: as, b :: bs => eq a b && listEq eq as bs
  | _, _ => false

/-- `Ord`/`PartialOrd` by hand: the total only; `PartialEq` derived: both fields. -/
def TestResults.elem {R : Type} (E : Elem R) : Elem (TestResults R) where
  cmp a b := E.cmp a.total b.total
  pcmp a b := E.pcmp a.total b.total
  eq a b := listEq E.eq a.results b.results && E.eq a.total b.total

/-- `std::iter::Sum` for the primitive integers: `iter.fold(0, |a, b| a + b)` -/
def sumFold {T : Type} [Add T] [OfNat T 0] (l : List T) : T := l.foldl (· + ·) 0

/-- `Sum for f64` over a non-empty list: the left fold in the order given (the identity std starts from, `±0.0`,
    never changes a non-empty sum, so the fold starts at the first element).  Values are bit patterns. -/
def sumFoldFloat : List UInt64 → UInt64
  | [] => 0
  | x :: xs => (xs.foldl (fun a b => a + Float.ofBits b) (Float.ofBits x)).toBits

/-- `TestResults<Score<f64>>::from(values)` / `TestResults<f64>::from(values)`: results in order, total = their sum -/
def TestResults.fromFloats (values : List UInt64) : TestResults UInt64 :=
  { results := values, total := sumFoldFloat values }

/-- `impl From<I: IntoIterator<Item = V>> for TestResults<R>` with `R = Score<T>`:
    `let results: Vec<R> = values.into_iter().map(Into::into).collect();`
    `let total_result = results.iter().sum();`  where `Sum<&Score<T>>` is
    `iter.map(|s| s.0.to_owned()).sum()` = `Score(inner.sum())`. -/
def TestResults.fromScores {T : Type} [Add T] [OfNat T 0] (values : List T) : TestResults (Score T) :=
  let results := values.map Score.mk
  { results, total := ⟨sumFold (results.map (·.v))⟩ }

def TestResults.fromErrors {T : Type} [Add T] [OfNat T 0] (values : List T) : TestResults (Error T) :=
  let results := values.map Error.mk
  { results, total := ⟨sumFold (results.map (·.v))⟩ }

/-- `struct EcIndividual<G, R> { pub genome: G, pub test_results: R }`; `new`, `From<(G, R)>`. -/
structure EcIndividual (G R : Type) where
  genome : G
  testResults : R
deriving Repr, DecidableEq

def EcIndividual.new {G R : Type} (g : G) (r : R) : EcIndividual G R := ⟨g, r⟩
def EcIndividual.ofPair {G R : Type} (p : G × R) : EcIndividual G R := EcIndividual.new p.1 p.2

/-- `Ord`/`PartialOrd` by hand: `self.test_results.cmp(&other.test_results)`; `PartialEq` derived. -/
def EcIndividual.elem {G R : Type} (EG : Elem G) (ER : Elem R) : Elem (EcIndividual G R) where
  cmp a b := ER.cmp a.testResults b.testResults
  pcmp a b := ER.pcmp a.testResults b.testResults
  eq a b := EG.eq a.genome b.genome && ER.eq a.testResults b.testResults

/-- `Scorer<G>::score(&self, genome: &G)` is a function of the genome; `FnScorer(f).score(g) = f(g)`,
    `(&scorer).score(g) = scorer.score(g)`. -/
abbrev Scorer (G R : Type) := G → R
def FnScorer {G R : Type} (f : G → R) : Scorer G R := fun g => f g
def Scorer.byRef {G R : Type} (s : Scorer G R) : Scorer G R := fun g => s g

/-- `impl Distribution<EcIndividual<G, S::Score>> for IndividualGenerator<D, S>`:
    `let genome = self.genome_generator.sample(rng); let test_results = self.scorer.score(&genome);
     EcIndividual::new(genome, test_results)` -/
def IndividualGenerator.sample {G R : Type} (genomeGenerator : Rand G) (scorer : Scorer G R) :
    Rand (EcIndividual G R) :=
  genomeGenerator.bind fun genome =>
    let testResults := scorer genome
    .pure (EcIndividual.new genome testResults)

/-! ### Spec (property-shaped, on the integers) -/
namespace ResSpec

inductive Polarity where
  | score | error
deriving Repr, DecidableEq

/-- scores order ascending (bigger is better), errors descending (smaller is better) -/
def better : Polarity → Int → Int → Ordering
  | .score, a, b => compare a b
  | .error, a, b => compare b a

/-- every comparison operator of a result, read off the one order -/
structure Verdicts where
  cmp : Option Ordering      -- `Ord::cmp` (none: the type has no `Ord`)
  pcmp : Option Ordering
  eq : Bool
  lt : Bool
  le : Bool
  gt : Bool
  ge : Bool
deriving Repr, DecidableEq

/-- two results of the same polarity -/
def same (p : Polarity) (a b : Int) (hasOrd : Bool := true) : Verdicts :=
  let o := better p a b
  { cmp := if hasOrd then some o else none, pcmp := some o, eq := a == b,
    lt := o == .lt, le := o != .gt, gt := o == .gt, ge := o != .lt }

/-- the same record computed from the trait methods of a modelled type (Impl side) -/
def ofElem {T : Type} (E : Elem T) (hasOrd : Bool) (a b : T) : Verdicts :=
  { cmp := if hasOrd then some (E.cmp a b) else none, pcmp := E.pcmp a b, eq := E.eq a b,
    lt := E.lt a b, le := E.le a b, gt := E.gt a b, ge := E.ge a b }

/-- `TestResult` has no `Ord`; its operators come from its own `partial_cmp` / `eq` -/
def ofTestResult {S E : Type} (ES : Elem S) (EE : Elem E) (a b : TestResult S E) : Verdicts :=
  let p := TestResult.pcmp ES EE a b
  { cmp := none, pcmp := p, eq := TestResult.eq ES EE a b, lt := opLt p, le := opLe p, gt := opGt p, ge := opGe p }

/-- a score is never comparable to an error -/
def mixed : Verdicts :=
  { cmp := none, pcmp := none, eq := false, lt := false, le := false, gt := false, ge := false }

/-- the total is the sum of the per-case results, which are kept in the order given -/
def total (values : List Int) : Int := values.sum

end ResSpec
end Uec
