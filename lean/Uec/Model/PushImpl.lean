/-
  Impl model of the Push VM (packages/push/src): `PushState`, every instruction's `perform`, the
  block instruction, input variables and the interpreter loop `run_to_completion`.

  Code-shaped: each instruction is written with the same helper combinators the Rust uses
  (`with_push`, `with_replace`, `push_onto`, `replace_on`, `with_stack_discard`, `with_stack_push`,
  `not_full`) in the same order (checks, reads, pops, pushes), on the vector model of
  `Uec.Model.Stack`.  Where the Rust can panic (`with_input` on an unbound name) the outcome is
  `panic`.  No Mathlib import.
-/
import Uec.Model.Stack
import Uec.Model.PushSyntax
namespace Uec

/-- `PushInstructionError` (the `stack_type` string of `Overflow` is dropped) -/
inductive Err where
  | stack (e : StackErr)
  | intOverflow (op : IntI)
deriving DecidableEq, Repr, Inhabited

/-- `InstructionResult<S, E>` plus the panic outcome -/
inductive Outcome (σ : Type) where
  | ok (s : σ)
  | recoverable (s : σ) (e : Err)
  | fatal (s : σ) (e : Err)
  | panic
deriving Repr

def Outcome.map {σ τ : Type} (f : σ → τ) : Outcome σ → Outcome τ
  | .ok s => .ok (f s)
  | .recoverable s e => .recoverable (f s) e
  | .fatal s e => .fatal (f s) e
  | .panic => .panic

structure PState where
  exec : Stack Prog
  int : Stack Int64
  float : Stack UInt64
  bool : Stack Bool
  /-- `input_instructions`: a map; at most one binding per name (the builder's `insert`) -/
  inputs : List (String × Lit)
  /-- the stdout cursor, as the list of pieces written so far -/
  out : List OutTok
  maxSteps : Nat
deriving Repr, Inhabited

/-! ### i64 and f64 helpers -/
namespace I64
def minVal : Int := -(2 ^ 63)
def maxVal : Int := 2 ^ 63 - 1
def fits (z : Int) : Bool := decide (minVal ≤ z) && decide (z ≤ maxVal)
/-- `checked_*(..).ok_or(IntInstructionError::Overflow { op })` on a mathematically computed result -/
def checked (op : IntI) (z : Int) : Except Err Int64 :=
  if fits z then .ok (Int64.ofInt z) else .error (.intOverflow op)
/-- `checked_pow(x, y)` after `u32::try_from(y)`: `None` when `y` is not a `u32` or the power does
    not fit.  (Evaluated without building astronomically large numbers.) -/
def pow (op : IntI) (x y : Int) : Except Err Int64 :=
  if y < 0 ∨ y ≥ 2 ^ 32 then .error (.intOverflow op)
  else if x = 0 then .ok (if y = 0 then 1 else 0)
  else if x = 1 then .ok 1
  else if x = -1 then .ok (if y % 2 = 0 then 1 else -1)
  else if y ≥ 64 then .error (.intOverflow op)       -- |x| ≥ 2: |x|^64 ≥ 2^64
  else checked op (x ^ y.toNat)
/-- `usize -> i64`: `try_into().unwrap_or(i64::MAX)` -/
def ofSize (n : Nat) : Int64 := if (n : Int) ≤ maxVal then Int64.ofInt n else Int64.ofInt maxVal
end I64

namespace F64
def nanBits : UInt64 := 0x7ff8000000000000
/-- bit pattern of a float result, all NaNs identified -/
def canon (x : Float) : UInt64 := if x.isNaN then nanBits else x.toBits
def isNaN (a : UInt64) : Bool := (Float.ofBits a).isNaN
def add (a b : UInt64) : UInt64 := canon (Float.ofBits a + Float.ofBits b)
def sub (a b : UInt64) : UInt64 := canon (Float.ofBits a - Float.ofBits b)
def mul (a b : UInt64) : UInt64 := canon (Float.ofBits a * Float.ofBits b)
/-- `if y == 0.0 { 1.0 } else { x / y }` -/
def pdiv (x y : UInt64) : UInt64 :=
  if Float.ofBits y == (0.0 : Float) then canon 1.0 else canon (Float.ofBits x / Float.ofBits y)
/-- `OrderedFloat::ge`: `self.is_nan() | (self.0 >= other.0)` -/
def ge (a b : UInt64) : Bool := isNaN a || decide (Float.ofBits b ≤ Float.ofBits a)
def lt (a b : UInt64) : Bool := !ge a b
def le (a b : UInt64) : Bool := ge b a
def gt (a b : UInt64) : Bool := !ge b a
/-- `OrderedFloat::eq`: NaN equals NaN, otherwise float equality (so `-0.0 == 0.0`) -/
def eq (a b : UInt64) : Bool := if isNaN a then isNaN b else Float.ofBits a == Float.ofBits b
def ne (a b : UInt64) : Bool := !eq a b
/-- `f as i64` (saturating, NaN ↦ 0) -/
def toI64 (a : UInt64) : Int64 := (Float.ofBits a).toInt64
/-- `i as f64` -/
def ofI64 (x : Int64) : UInt64 := canon x.toFloat
end F64

/-! ### lenses for `HasStack<T>` -/
structure Lens (α : Type) where
  get : PState → Stack α
  set : PState → Stack α → PState

def execL : Lens Prog := ⟨(·.exec), fun s st => { s with exec := st }⟩
def intL : Lens Int64 := ⟨(·.int), fun s st => { s with int := st }⟩
def floatL : Lens UInt64 := ⟨(·.float), fun s st => { s with float := st }⟩
def boolL : Lens Bool := ⟨(·.bool), fun s st => { s with bool := st }⟩

namespace Impl
variable {α : Type}

/-- `map_err(PushInstructionError::from)` -/
def liftS {β : Type} : Except StackErr β → Except Err β
  | .ok v => .ok v
  | .error e => .error (.stack e)

/-- `HasStack::with_push` -/
def withPush (L : Lens α) (s : PState) (v : α) : Outcome PState :=
  match (L.get s).push v with
  | .ok st => .ok (L.set s st)
  | .error e => .fatal s (.stack e)

/-- `HasStack::with_replace`: discard, then push (the push error carries the state after the discard) -/
def withReplace (L : Lens α) (s : PState) (n : Nat) (v : α) : Outcome PState :=
  match (L.get s).discard n with
  | .ok st => withPush L (L.set s st) v
  | .error e => .fatal s (.stack e)

/-- `PushOnto::push_onto` -/
def pushOnto (L : Lens α) (r : Except Err α) (s : PState) : Outcome PState :=
  match r with
  | .ok v => withPush L s v
  | .error e => .recoverable s e

/-- `PushOnto::replace_on` -/
def replaceOn (L : Lens α) (n : Nat) (r : Except Err α) (s : PState) : Outcome PState :=
  match r with
  | .ok v => withReplace L s n v
  | .error e => .recoverable s e

/-- `StackDiscard::with_stack_discard` -/
def withStackDiscard (L : Lens α) (n : Nat) : Outcome PState → Outcome PState
  | .ok s =>
    match (L.get s).discard n with
    | .ok st => .ok (L.set s st)
    | .error e => .fatal s (.stack e)
  | o => o

/-- `StackPush::with_stack_push` -/
def withStackPush (L : Lens α) (v : α) : Outcome PState → Outcome PState
  | .ok s =>
    match (L.get s).push v with
    | .ok st => .ok (L.set s st)
    | .error e => .fatal s (.stack e)
  | o => o

/-! #### instructions generic in the stack type (`common/*.rs`, `printing/mod.rs`) -/

def popI (L : Lens α) (s : PState) : Outcome PState :=
  match (L.get s).pop with
  | .ok (_, st) => .ok (L.set s st)
  | .error e => .recoverable s (.stack e)

def pushV (L : Lens α) (v : α) (s : PState) : Outcome PState := withPush L s v

/-- `state.stack::<T>().top().cloned().push_onto(state)` -/
def dupI (L : Lens α) (s : PState) : Outcome PState := pushOnto L (liftS (L.get s).top) s

/-- `pop2` then `with_push(x)?` then `with_push(y)` -/
def swapI (L : Lens α) (s : PState) : Outcome PState :=
  match (L.get s).pop2 with
  | .ok ((x, y), st) =>
    match withPush L (L.set s st) x with
    | .ok s1 => withPush L s1 y
    | o => o
  | .error e => .recoverable s (.stack e)

def isEmptyI (L : Lens α) (s : PState) : Outcome PState := withPush boolL s (L.get s).isEmpty

def stackDepthI (L : Lens α) (s : PState) : Outcome PState :=
  withPush intL s (I64.ofSize (L.get s).size)

/-- `while stack.pop().is_ok() {}` -/
def flushI (L : Lens α) (s : PState) : Outcome PState :=
  .ok (L.set s { (L.get s) with values := [] })

/-- `Print<T>` / `PrintLn<T>`: pop, then write -/
def printI (L : Lens α) (render : α → List OutTok) (s : PState) : Outcome PState :=
  match (L.get s).pop with
  | .ok (v, st) => let s1 := L.set s st; .ok { s1 with out := s1.out ++ render v }
  | .error e => .recoverable s (.stack e)

def renderInt (x : Int64) : List OutTok := [.str (toString x.toInt)]
def renderBool (b : Bool) : List OutTok := [.str (if b then "true" else "false")]
def renderFloat (b : UInt64) : List OutTok := [.float b]
def ln (r : α → List OutTok) : α → List OutTok := fun v => r v ++ [.str "\n"]

/-! #### integer instructions (`instruction/int/*.rs`) -/

def boolFullCheck (s : PState) (k : PState → Outcome PState) : Outcome PState :=
  if s.bool.isFull then .fatal s (.stack .overflow) else k s

def intUnary (f : Int64 → Except Err Int64) (s : PState) : Outcome PState :=
  replaceOn intL 1 (liftS s.int.top >>= f) s
def intBinary (f : Int64 → Int64 → Except Err Int64) (s : PState) : Outcome PState :=
  replaceOn intL 2 (liftS s.int.top2 >>= fun (x, y) => f x y) s
def intPred1 (f : Int64 → Bool) (s : PState) : Outcome PState :=
  boolFullCheck s fun s => withStackDiscard intL 1 (pushOnto boolL ((liftS s.int.top).map f) s)
def intPred2 (f : Int64 → Int64 → Bool) (s : PState) : Outcome PState :=
  boolFullCheck s fun s =>
    withStackDiscard intL 2 (pushOnto boolL ((liftS s.int.top2).map fun (x, y) => f x y) s)

def clampF (value lo hi : Int64) : Int64 :=
  let (lo, hi) := if lo > hi then (hi, lo) else (lo, hi)
  if value < lo then lo else if value > hi then hi else value

def performInt (op : IntI) (s : PState) : Outcome PState :=
  match op with
  | .pop => popI intL s
  | .push v => pushV intL v s
  | .dup => dupI intL s
  | .swap => swapI intL s
  | .isEmpty => isEmptyI intL s
  | .stackDepth => stackDepthI intL s
  | .flush => flushI intL s
  | .print => printI intL renderInt s
  | .printLn => printI intL (ln renderInt) s
  | .negate => intUnary (fun x => .ok (if x.toInt = I64.minVal then Int64.ofInt I64.maxVal else -x)) s
  | .abs => intUnary (fun x =>
      .ok (if x.toInt = I64.minVal then Int64.ofInt I64.maxVal else if x < 0 then -x else x)) s
  | .min => intBinary (fun x y => .ok (if x ≤ y then x else y)) s
  | .max => intBinary (fun x y => .ok (if y ≤ x then x else y)) s
  | .clamp => replaceOn intL 3 ((liftS s.int.top3).map fun (v, lo, hi) => clampF v lo hi) s
  | .inc => intUnary (fun x => I64.checked op (x.toInt + 1)) s
  | .dec => intUnary (fun x => I64.checked op (x.toInt - 1)) s
  | .square => intUnary (fun x => I64.checked op (x.toInt * x.toInt)) s
  | .add => intBinary (fun x y => I64.checked op (x.toInt + y.toInt)) s
  | .subtract => intBinary (fun x y => I64.checked op (x.toInt - y.toInt)) s
  | .multiply => intBinary (fun x y => I64.checked op (x.toInt * y.toInt)) s
  | .protectedDivide => intBinary (fun x y =>
      if y = 0 then .ok 1 else I64.checked op (x.toInt.tdiv y.toInt)) s
  | .mod => intBinary (fun x y =>
      if y = 0 then .ok 0
      else if x.toInt = I64.minVal ∧ y.toInt = -1 then .error (.intOverflow op)
      else I64.checked op (x.toInt.tmod y.toInt)) s
  | .power => intBinary (fun x y => I64.pow op x.toInt y.toInt) s
  | .isZero => intPred1 (fun x => x == 0) s
  | .isPositive => intPred1 (fun x => decide (x > 0)) s
  | .isNegative => intPred1 (fun x => decide (x < 0)) s
  | .isEven => intPred1 (fun x => x.toInt.tmod 2 == 0) s
  | .isOdd => intPred1 (fun x => x.toInt.tmod 2 != 0) s
  | .equal => intPred2 (fun x y => x == y) s
  | .notEqual => intPred2 (fun x y => x != y) s
  | .lessThan => intPred2 (fun x y => decide (x < y)) s
  | .lessThanEqual => intPred2 (fun x y => decide (x ≤ y)) s
  | .greaterThan => intPred2 (fun x y => decide (x > y)) s
  | .greaterThanEqual => intPred2 (fun x y => decide (x ≥ y)) s
  | .fromBoolean =>
    withStackDiscard boolL 1 (pushOnto intL ((liftS s.bool.top).map fun b => if b then 1 else 0) s)
  | .fromFloatApprox =>
    withStackDiscard floatL 1 (pushOnto intL ((liftS s.float.top).map F64.toI64) s)

/-! #### float instructions (`instruction/float.rs`) -/

def floatBinary (f : UInt64 → UInt64 → UInt64) (s : PState) : Outcome PState :=
  replaceOn floatL 2 ((liftS s.float.top2).map fun (x, y) => f x y) s
def floatPred2 (f : UInt64 → UInt64 → Bool) (s : PState) : Outcome PState :=
  boolFullCheck s fun s =>
    withStackDiscard floatL 2 (pushOnto boolL ((liftS s.float.top2).map fun (x, y) => f x y) s)

def performFloat (op : FloatI) (s : PState) : Outcome PState :=
  match op with
  | .pop => popI floatL s
  | .push v => pushV floatL v s
  | .dup => dupI floatL s
  | .swap => swapI floatL s
  | .isEmpty => isEmptyI floatL s
  | .stackDepth => stackDepthI floatL s
  | .flush => flushI floatL s
  | .print => printI floatL renderFloat s
  | .printLn => printI floatL (ln renderFloat) s
  | .add => floatBinary F64.add s
  | .subtract => floatBinary F64.sub s
  | .multiply => floatBinary F64.mul s
  | .protectedDivide => floatBinary F64.pdiv s
  | .equal => floatPred2 F64.eq s
  | .notEqual => floatPred2 F64.ne s
  | .greaterThan => floatPred2 F64.gt s
  | .lessThan => floatPred2 F64.lt s
  | .greaterThanOrEqual => floatPred2 F64.ge s
  | .lessThanOrEqual => floatPred2 F64.le s
  | .fromIntApprox =>
    withStackDiscard intL 1 (pushOnto floatL ((liftS s.int.top).map F64.ofI64) s)

/-! #### boolean instructions (`instruction/bool.rs`) -/

/-- `bool_stack.pop().map(f).push_onto(state)`: the pop has already happened when the push runs -/
def boolUnary (f : Bool → Bool) (s : PState) : Outcome PState :=
  match s.bool.pop with
  | .ok (x, st) => withPush boolL { s with bool := st } (f x)
  | .error e => .recoverable s (.stack e)
def boolBinary (f : Bool → Bool → Bool) (s : PState) : Outcome PState :=
  match s.bool.pop2 with
  | .ok ((x, y), st) => withPush boolL { s with bool := st } (f x y)
  | .error e => .recoverable s (.stack e)

def performBool (op : BoolI) (s : PState) : Outcome PState :=
  match op with
  | .pop => popI boolL s
  | .push v => pushV boolL v s
  | .dup => dupI boolL s
  | .swap => swapI boolL s
  | .isEmpty => isEmptyI boolL s
  | .stackDepth => stackDepthI boolL s
  | .flush => flushI boolL s
  | .print => printI boolL renderBool s
  | .println => printI boolL (ln renderBool) s
  | .not => boolUnary (fun x => !x) s
  | .and => boolBinary (fun x y => x && y) s
  | .or => boolBinary (fun x y => x || y) s
  | .xor => boolBinary (fun x y => x != y) s
  | .implies => boolBinary (fun x y => !x || y) s
  | .fromInt =>
    -- `state.not_full::<bool>()?` then pop the int and `push_onto`
    boolFullCheck s fun s =>
      match s.int.pop with
      | .ok (i, st) => withPush boolL { s with int := st } (i != 0)
      | .error e => .recoverable s (.stack e)

/-! #### exec instructions (`instruction/exec/*.rs`) -/

def whenI (s : PState) : Outcome PState :=
  match s.bool.top, s.exec.top with
  | .ok true, .ok _ => withStackDiscard boolL 1 (.ok s)
  | .ok false, .ok _ => withStackDiscard execL 1 (withStackDiscard boolL 1 (.ok s))
  | .error (.underflow _ _), .ok _ => withStackDiscard execL 1 (.ok s)
  | .ok _, .error (.underflow _ _) => .ok s
  | .error (.underflow _ _), .error (.underflow r p) => .recoverable s (.stack (.underflow r p))
  | .error e, _ => .fatal s (.stack e)
  | _, .error e => .fatal s (.stack e)

def unlessI (s : PState) : Outcome PState :=
  match s.bool.top, s.exec.top with
  | .ok false, .ok _ => withStackDiscard boolL 1 (.ok s)
  | .ok true, .ok _ => withStackDiscard execL 1 (withStackDiscard boolL 1 (.ok s))
  | .ok _, .error (.underflow _ _) => .ok s
  | .error (.underflow _ _), .ok _ => .ok s
  | .error (.underflow _ _), .error (.underflow r p) => .recoverable s (.stack (.underflow r p))
  | .error .overflow, _ => .fatal s (.stack .overflow)
  | _, .error .overflow => .fatal s (.stack .overflow)

def ifElseI (s : PState) : Outcome PState :=
  let condition := s.bool.top
  let topBlock := s.exec.top
  let top2Blocks := s.exec.top2
  -- `then = top_2_blocks.map(|(a, _)| a).or(top_block)`, `else = top_2_blocks.map(|(_, b)| b)`
  let thenB : Except StackErr Prog := match top2Blocks with | .ok (a, _) => .ok a | .error _ => topBlock
  let elseB : Except StackErr Prog := match top2Blocks with | .ok (_, b) => .ok b | .error e => .error e
  match condition, thenB, elseB with
  | .ok false, .ok _, .ok _ => withStackDiscard execL 1 (withStackDiscard boolL 1 (.ok s))
  | .ok true, .ok _, .ok _ =>
    match s.bool.pop with
    | .error e => .fatal s (.stack e)
    | .ok (_, bst) =>
      let s1 := { s with bool := bst }
      match s1.exec.pop2 with
      | .error e => .fatal s1 (.stack e)
      | .ok ((t, _), est) => withStackPush execL t (.ok { s1 with exec := est })
  | .ok _, .ok _, .error (.underflow _ _) => whenI s
  | .error (.underflow _ _), .ok _, .ok _ => withStackDiscard execL 1 (.ok s)
  | .error (.underflow _ _), .ok _, .error (.underflow _ _) => withStackDiscard execL 1 (.ok s)
  | .ok _, .error (.underflow _ _), .error (.underflow r p) => .recoverable s (.stack (.underflow r p))
  | .error (.underflow _ _), .error (.underflow _ _), .error (.underflow r p) =>
    .recoverable s (.stack (.underflow r p))
  | .ok _, .error _, .ok _ => .panic        -- `unreachable!("no else without then")`
  | .error (.underflow _ _), .error _, .ok _ => .panic
  | .error e, _, _ => .fatal s (.stack e)
  | _, .error e, _ => .fatal s (.stack e)
  | _, _, .error e => .fatal s (.stack e)

def performExec (op : ExecI) (s : PState) : Outcome PState :=
  match op with
  | .pop => popI execL s
  | .dup => dupI execL s
  | .swap => swapI execL s
  | .isEmpty => isEmptyI execL s
  | .stackDepth => stackDepthI execL s
  | .flush => flushI execL s
  | .noop => .ok s
  | .dupBlock => dupI execL s
  | .when => whenI s
  | .unless => unlessI s
  | .ifElse => ifElseI s

def lookup (inputs : List (String × Lit)) (name : String) : Option Lit :=
  match inputs with
  | [] => none
  | (n, v) :: r => if n == name then some v else lookup r name

/-- `PushState::with_input`: find the instruction bound to the name (panic if none), perform it -/
def withInput (name : String) (s : PState) : Outcome PState :=
  match lookup s.inputs name with
  | none => .panic
  | some (.int v) => pushV intL v s
  | some (.float v) => pushV floatL v s
  | some (.bool v) => pushV boolL v s

def performInstr (i : Instr0) (s : PState) : Outcome PState :=
  match i with
  | .inputVar name => withInput name s
  | .exec e => performExec e s
  | .bool b => performBool b s
  | .int op => performInt op s
  | .float f => performFloat f s
  | .printSpace => .ok { s with out := s.out ++ [.str " "] }
  | .printNewline => .ok { s with out := s.out ++ [.str "\n"] }
  | .printPeriod => .ok { s with out := s.out ++ [.str "."] }
  | .printString str => .ok { s with out := s.out ++ [.str str] }

/-- `Instruction<PushState> for PushProgram` (a block is `push_many` of its elements onto exec) -/
def perform (p : Prog) (s : PState) : Outcome PState :=
  match p with
  | .instr i => performInstr i s
  | .execPush q => pushV execL q s
  | .block ps =>
    match s.exec.pushMany ps with
    | .ok st => .ok { s with exec := st }
    | .error e => .fatal s (.stack e)

/-- Result of `run_to_completion`: `Ok(state)` after `steps` performed instructions, or the
    `FatalError { state, error }`. -/
inductive RunResult where
  | done (s : PState) (steps : Nat)
  | error (s : PState) (e : Err) (steps : Nat)
  | panic
deriving Repr

/-- the `while instruction_steps < max` loop; `fuel` = steps still allowed; generic in the
    single-step function so that the same loop runs the Impl and the Spec semantics -/
def runLoopG (perf : Prog → PState → Outcome PState) : Nat → Nat → PState → RunResult
  | 0, k, s => .done s k
  | fuel + 1, k, s =>
    match s.exec.pop with
    | .error _ => .done s k                           -- exec empty: `break`
    | .ok (p, est) =>
      match perf p { s with exec := est } with         -- `.try_recover()?`
      | .ok s' => runLoopG perf fuel (k + 1) s'
      | .recoverable s' _ => runLoopG perf fuel (k + 1) s'
      | .fatal s' e => .error s' e k
      | .panic => .panic

def runLoop : Nat → Nat → PState → RunResult := runLoopG perform

def run (s : PState) : RunResult := runLoop s.maxSteps 0 s

end Impl
end Uec
