/-
  Well-formedness of a Push state (the hypothesis of C02/C03): every stack within its limit and
  every input variable mentioned anywhere on the exec stack bound.
-/
import Uec.Model.PushSpec
namespace Uec

mutual
/-- every input variable the program mentions is bound in `inp` -/
def Prog.bound (inp : List (String × Lit)) : Prog → Bool
  | .instr (.inputVar n) => (Impl.lookup inp n).isSome
  | .instr _ => true
  | .execPush p => p.bound inp
  | .block ps => Prog.boundList inp ps
def Prog.boundList (inp : List (String × Lit)) : List Prog → Bool
  | [] => true
  | p :: ps => p.bound inp && Prog.boundList inp ps
end

end Uec
