/-
  The oracle-tape model of randomness (DESIGN.md §4).

  The repository never implements randomness; it calls a small set of `rand 0.9.0` primitives on
  the generator it is handed.  A stochastic function of the repository is modelled as a tree of
  primitive *requests*: `Rand α`.  Three readings of one tree:
    * all answers  — theorems quantify over every (valid) answer sequence (`Rand.run`);
    * distribution — laws of the primitives pushed through the tree (in proof files);
    * interactive  — the driver prints `NEED <prim>` and the harness answers by performing the very
      same `rand` call on a shadow clone of the generator the real code consumed.
-/
import Uec.Model.Floats
namespace Uec

/-- One constructor per `rand` primitive the three library crates call. -/
inductive Prim where
  /-- `rng.random::<f32>()`; answer: `bits` of the f32 (in `[0,1)`, a multiple of 2⁻²⁴) -/
  | f32
  /-- `rng.random::<bool>()` -/
  | bool
  /-- `rng.random_bool(p)`, `p : f64` given by its bit pattern -/
  | boolP (pbits : UInt64)
  /-- `Bernoulli::from_ratio(num, den)` then `.sample(rng)` (weighted pairs) -/
  | ratio (num den : Nat)
  /-- `rng.random_range(lo..hi)` on `usize`; answer `nat n`, `lo ≤ n < hi` -/
  | range (lo hi : Nat)
  /-- `rng.random_range(lo..=hi)` on `usize`; answer `nat n`, `lo ≤ n ≤ hi` -/
  | rangeIncl (lo hi : Nat)
  /-- `Uniform::<usize>::new(0, n)` sampled (`OneOf`); answer `nat i`, `i < n` -/
  | uniform (n : Nat)
  /-- `slice.choose(rng)` on a slice of length `n`; answer `nat i` or `none` when `n = 0` -/
  | choose (n : Nat)
  /-- `rand::distr::slice::Choose` sampled, slice of length `n ≥ 1`; answer `nat i` -/
  | chooseDistr (n : Nat)
  /-- `slice.choose_multiple(rng, k)` on a slice of length `n`; answer `idxs`: the chosen
      positions in the order the iterator yields them (`min k n` distinct indices `< n`) -/
  | chooseMultiple (n k : Nat)
  /-- `slice.choose_weighted(rng, w)`; answer `nat i` (a position of positive weight) or `err` -/
  | chooseWeighted (ws : List Nat)
  /-- `slice.shuffle(rng)` on a slice of length `n`; answer `idxs p`: new position `j` holds the
      old element `p[j]` (a permutation of `0..n`) -/
  | shuffle (n : Nat)
  /-- one sample of a caller-supplied distribution / operator (gene generator, probe, …) -/
  | user (tag : Nat)
deriving Repr, DecidableEq

inductive Ans where
  | nat (n : Nat)
  | bool (b : Bool)
  | bits (w : UInt64)
  | idxs (l : List Nat)
  | none
  | err
deriving Repr, DecidableEq, Inhabited

inductive Rand (α : Type) where
  | pure (a : α)
  | ask (p : Prim) (k : Ans → Rand α)

namespace Rand
variable {α β : Type}

def bind : Rand α → (α → Rand β) → Rand β
  | .pure a, f => f a
  | .ask p k, f => .ask p (fun a => bind (k a) f)

instance : Monad Rand where
  pure := Rand.pure
  bind := Rand.bind

/-- issue one request -/
def req (p : Prim) : Rand Ans := .ask p .pure

/-- Run against a tape of answers: the result and the unread rest of the tape, or `none` when the
    tape is too short. -/
def run : Rand α → List Ans → Option (α × List Ans)
  | .pure a, t => some (a, t)
  | .ask _ _, [] => Option.none
  | .ask _ k, a :: t => run (k a) t

/-- The requests issued along the path selected by the tape (as far as the tape reaches). -/
def requests : Rand α → List Ans → List Prim
  | .pure _, _ => []
  | .ask p _, [] => [p]
  | .ask p k, a :: t => p :: requests (k a) t

end Rand

/-- The contract of each primitive: which answers `rand` can give. -/
def Prim.valid : Prim → Ans → Prop
  | .f32, .bits w => w.toNat < 2 ^ 32 ∧ F32.unit w.toNat   -- one of the grid points k·2⁻²⁴, 0 ≤ k < 2²⁴
  | .bool, .bool _ => True
  | .boolP p, .bool b => ∀ c, F64.certain p = some c → b = c   -- p = 0 ↦ false, p = 1 ↦ true
  -- `Bernoulli::from_ratio(num, den)`: probability 0 never yields `true`, probability 1 never `false`
  | .ratio num den, .bool b => (b = true → 0 < num) ∧ (b = false → num < den)
  | .range lo hi, .nat n => lo ≤ n ∧ n < hi
  | .rangeIncl lo hi, .nat n => lo ≤ n ∧ n ≤ hi
  | .uniform n, .nat i => i < n
  | .choose n, .nat i => i < n
  | .choose n, .none => n = 0
  | .chooseDistr n, .nat i => i < n
  | .chooseMultiple n k, .idxs l => l.length = min k n ∧ l.Nodup ∧ ∀ i ∈ l, i < n
  | .chooseWeighted ws, .nat i => ∃ h : i < ws.length, 0 < ws[i]
  -- `WeightError::InsufficientNonZero` (all weights 0) or `WeightError::Overflow` (the `usize` total)
  | .chooseWeighted ws, .err => ws.all (· == 0) = true ∨ 2 ^ 64 ≤ ws.sum
  | .shuffle n, .idxs l => l.length = n ∧ l.Nodup ∧ ∀ i ∈ l, i < n
  | .user _, .nat _ => True
  | _, _ => False

end Uec

namespace Uec
namespace Rand
variable {α : Type}

/-- `Reach m a`: some sequence of *valid* answers (one per request, in order) makes `m` return `a`.
    "For every random stream, the result satisfies P" is `∀ a, Reach m a → P a`. -/
inductive Reach : Rand α → α → Prop where
  | pure (a : α) : Reach (.pure a) a
  | ask {p : Prim} {k : Ans → Rand α} {ans : Ans} {a : α} :
      p.valid ans → Reach (k ans) a → Reach (.ask p k) a

end Rand
end Uec
