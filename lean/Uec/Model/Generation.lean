/-
  C09 — Impl model of `ec_core::generation::Generation::{serial_next, par_next}` and of the
  `GenomeScorer` child maker, plus the Spec they are compared with.

  Rust sources (as of /repo HEAD): packages/ec-core/src/generation.rs,
  packages/ec-core/src/operator/genome_scorer.rs, packages/ec-core/src/population.rs.

  A population is a list of individuals.  A child maker (`for<'a> Operator<&'a P, Output = Individual>`)
  is a function of the population it is shown and of the answers of the generator it is handed:
  `List ι → Rand (Except ε ι)`.

  `serial_next` creates ONE generator (`rand::rng()`) and threads it through all children: one tape.
  `par_next` runs `rayon::iter::repeatn(&population, size).map_init(rand::rng, |rng, p| cm.apply(p, rng))
  .collect::<Result<_, _>>()`: every rayon worker uses its own thread-local generator, the children
  are distributed over the workers by rayon's scheduler.  The scheduler is NOT modelled; the model
  takes an abstract `Schedule` (a linearisation of the executions with the worker of each, how many
  children still run after the first failure, which failure wins the error slot) and per-worker
  answer tapes, and the theorems quantify over all of them.

  Core Lean only (linked into the driver).
-/
import Uec.Model.Rand
namespace Uec.Generation
open Uec

variable {ι ε γ σ : Type}

/-- `for<'a> Operator<&'a P, Output = P::Individual>` -/
abbrev ChildMaker (ι ε : Type) := List ι → Rand (Except ε ι)

/-! ## genome_scorer.rs -/

/-- `GenomeScorer::apply`: `let genome = self.genome_maker.apply(population, rng)?;
    let score = self.scorer.score(&genome); Ok(EcIndividual::new(genome, score))` -/
def genomeScorer (genomeMaker : List (γ × σ) → Rand (Except ε γ)) (scorer : γ → σ) : ChildMaker (γ × σ) ε :=
  fun population => do
    match ← genomeMaker population with
    | .error e => pure (.error e)
    | .ok genome => pure (.ok (genome, scorer genome))

/-! ## serial_next -/

/-- `std::iter::repeat_n(&population, n).map(|p| child_maker.apply(p, &mut rng)).collect::<Result<Vec<_>, _>>()`:
    std's `Result: FromIterator` pulls one item at a time, pushes `Ok` values, and on the first `Err`
    stores it and stops pulling.  `n` = items `repeat_n` still has, `acc` = vector so far. -/
def collectResults (mk : Rand (Except ε ι)) : Nat → List ι → Rand (Except ε (List ι))
  | 0, acc => pure (.ok acc)
  | n + 1, acc => do
    match ← mk with
    | .error e => pure (.error e)
    | .ok c => collectResults mk n (acc ++ [c])

/-- `Generation::serial_next`: result and the population held afterwards. -/
def serialNext (cm : ChildMaker ι ε) (population : List ι) : Rand (Except ε Unit × List ι) := do
  -- `repeat_n(&alias.population, alias.population.size())`: every child is shown the *old* population
  match ← collectResults (cm population) population.length [] with
  | .error e => pure (.error e, population)   -- `polonius_try!`: early return, nothing assigned
  | .ok new => pure (.ok (), new)             -- `alias.population = new_population; Ok(())`

/-! ## serial_next over any population type

`Generation<P, C>` works for every `P: Population + FromIterator<P::Individual>`, not only `Vec`: `size()` is the
length of the iteration, and the children are collected with `P::from_iter` - which for set-like populations
(`BTreeSet`, `HashSet`) merges equal children, so the population can shrink.  The number of children a step makes is
the size the population has *when the step starts*. -/

/-- a population type seen through its iteration and `FromIterator` -/
structure PopLike (P ι : Type) where
  /-- the individuals in iteration order (`Population::size` is the length) -/
  toList : P → List ι
  /-- `FromIterator::from_iter` -/
  ofList : List ι → P

def PopLike.size {P : Type} (L : PopLike P ι) (p : P) : Nat := (L.toList p).length

/-- `Vec<I>`: the identity -/
def PopLike.vec : PopLike (List ι) ι := ⟨id, id⟩

/-- `Generation::serial_next` for a population of type `P` -/
def serialNextP {P : Type} (L : PopLike P ι) (cm : P → Rand (Except ε ι)) (population : P) :
    Rand (Except ε Unit × P) := do
  match ← collectResults (cm population) (L.size population) [] with
  | .error e => pure (.error e, population)
  | .ok new => pure (.ok (), L.ofList new)

/-! ## par_next -/

/-- one execution of the child maker: the position of the child in the new population and the
    rayon worker whose thread-local generator it used -/
structure Slot where
  pos : Nat
  thread : Nat
deriving Repr, DecidableEq

/-- abstract rayon schedule -/
structure Schedule where
  /-- a linearisation of the executions (children only interact through their worker's generator,
      so any interleaving is equivalent to one of these) -/
  order : List Slot
  /-- after the first failure rayon's `while_some` stops handing out work, but up to `extra`
      children already in flight still run -/
  extra : Nat
  /-- which of the failures that happened got its error into the shared slot -/
  pick : Nat
deriving Repr

/-- per-worker answer tapes of the thread-local generators -/
abbrev Tapes := Nat → List Ans

def Tapes.set (T : Tapes) (th : Nat) (t : List Ans) : Tapes := fun x => if x = th then t else T x

/-- run the scheduled executions in order; `budget = none`: no failure yet; `some k`: `k` more may run.
    `none` result = a tape was too short (not an outcome of the code, only of a too-short tape). -/
def parExec (mk : Rand (Except ε ι)) (extra : Nat) :
    List Slot → Option Nat → Tapes → Option (List (Nat × Except ε ι) × Tapes)
  | [], _, T => some ([], T)
  | _ :: _, some 0, T => some ([], T)
  | s :: rest, budget, T =>
    match Rand.run mk (T s.thread) with
    | none => none
    | some (r, t') =>
      let budget' : Option Nat :=
        match budget, r with
        | none, .error _ => some extra
        | none, .ok _ => none
        | some k, _ => some (k - 1)
      match parExec mk extra rest budget' (T.set s.thread t') with
      | none => none
      | some (rs, T') => some ((s.pos, r) :: rs, T')

def errorsOf : List (Nat × Except ε ι) → List ε
  | [] => []
  | (_, .error e) :: rs => e :: errorsOf rs
  | (_, .ok _) :: rs => errorsOf rs

/-- look a position up among the executed children -/
def childAt : List (Nat × Except ε ι) → Nat → Option ι
  | [], _ => none
  | (p, r) :: rs, i => if p = i then (match r with | .ok c => some c | .error _ => none) else childAt rs i

/-- rayon's ordered collect: the new vector holds the children by position -/
def assemble (n : Nat) (rs : List (Nat × Except ε ι)) : List ι :=
  (List.range n).filterMap (childAt rs)

/-- `Generation::par_next` under a schedule: result, population afterwards, tapes afterwards. -/
def parNext (cm : ChildMaker ι ε) (population : List ι) (sch : Schedule) (T : Tapes) :
    Option (Except ε Unit × List ι × Tapes) :=
  match parExec (cm population) sch.extra sch.order none T with
  | none => none
  | some (rs, T') =>
    match errorsOf rs with
    | [] => some (.ok (), assemble population.length rs, T')     -- `alias.population = new_population`
    | e0 :: es => some (.error ((e0 :: es).getD (sch.pick % (es.length + 1)) e0), population, T')

/-- a schedule is complete for a population of `n`: every position is scheduled exactly once -/
def Schedule.Valid (sch : Schedule) (n : Nat) : Prop :=
  (sch.order.map Slot.pos).Perm (List.range n)

/-- the schedule under which `par_next` degenerates to `serial_next`: one worker, positions in order,
    nothing in flight -/
def Schedule.serial (n : Nat) : Schedule :=
  { order := (List.range n).map (fun i => ⟨i, 0⟩), extra := 0, pick := 0 }

/-! ## Spec (property-shaped) -/

/-- `Executed mk order T rs T'`: `rs` are the results of a prefix of the scheduled executions; each
    one is what the child maker makes of its *own segment* — the next unread answers of its worker's
    generator — and the worker's tape is advanced past exactly that segment.  (Segments of one worker
    are therefore consecutive and disjoint; different workers have different tapes.) -/
inductive Executed (mk : Rand (Except ε ι)) : List Slot → Tapes → List (Nat × Except ε ι) → Tapes → Prop where
  | stop (order : List Slot) (T : Tapes) : Executed mk order T [] T
  | step {s : Slot} {order : List Slot} {T T' : Tapes} {seg rest : List Ans} {r : Except ε ι}
      {rs : List (Nat × Except ε ι)} :
      T s.thread = seg ++ rest → Rand.run mk seg = some (r, []) →
      Executed mk order (T.set s.thread rest) rs T' →
      Executed mk (s :: order) T ((s.pos, r) :: rs) T'

/-- executable Spec used as oracle on an *observed* generation step: what C09 demands of
    (old population, outcome, population afterwards), given what each new child reports about the
    population it was made from (`shownOld c` = "child `c` was made from `old`"). -/
def specStep (shownOld : ι → Bool) (old : List ι) [DecidableEq ι] (ok : Bool) (after : List ι) : Bool :=
  if ok then after.length == old.length && after.all shownOld
  else decide (after = old)

/-! ## probe child maker of the tie -/

/-- checksum of a population of integer vectors (the probe reports it in every child) -/
def checksum (pop : List (List Int)) : Int :=
  pop.foldl (fun a ind => ind.foldl (fun b x => (b * 31 + x % 1000003 + 7) % 2305843009213693951) ((a * 131 + 11) % 2305843009213693951)) 17

def drawWords : Nat → Rand (Option (List Int))
  | 0 => pure (some [])
  | d + 1 => do
    match ← Rand.req (.user 1) with
    | .nat w =>
      match ← drawWords d with
      | some ws => pure (some ((w : Int) :: ws))
      | none => pure none
    | _ => pure none

/-- genome maker probe: reads its call number (`user 0`, answered from the harness's call log) and
    `d` live random words (`user 1`), fails iff the call number is scripted to fail; the genome is
    `[checksum of the population shown, call number, words…]` -/
def probeGenomeMaker (failAt : List Nat) (d : Nat) : List (List Int × Int) → Rand (Except Nat (List Int)) :=
  fun population => do
    match ← Rand.req (.user 0) with
    | .nat call =>
      match ← drawWords d with
      | some ws =>
        if failAt.contains call then pure (.error call)
        else pure (.ok ([checksum (population.map (fun i => i.1 ++ [i.2])), (call : Int)] ++ ws))
      | none => pure (.error 0)
    | _ => pure (.error 0)

/-- probe scorer -/
def probeScore (g : List Int) : Int := g.foldl (fun a x => (a + x % 9973) % 1000000007) 0

def probeChildMaker (failAt : List Nat) (d : Nat) : ChildMaker (List Int × Int) Nat :=
  genomeScorer (probeGenomeMaker failAt d) probeScore

end Uec.Generation
