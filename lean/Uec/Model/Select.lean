/-
  Impl model of ec-core's selectors (packages/ec-core/src/operator/selector/*.rs) and of the
  weighted selector combinators (packages/ec-core/src/weighted/*.rs).
  A population is a list of individuals; a selector returns the *index* of the selected
  individual (the abstraction of the `&'pop Individual` the Rust returns).
-/
import Uec.Model.Rand
namespace Uec

/-- What the selectors look at: the ordering key (`Ord` of the individual; for `EcIndividual`
    the total result) and the per-case results (lexicase). `higherBetter` is the polarity of the
    results (`Score` vs `Error`), the same for the whole population. -/
structure Ind where
  key : Int
  results : List Int
deriving Repr, DecidableEq, Inhabited

/-- `Ord` on individuals: `Score` orders ascending, `Error` is the dual order. -/
def Ind.cmp (higherBetter : Bool) (a b : Ind) : Ordering :=
  if higherBetter then compare a.key b.key else compare b.key a.key

/-- `Ord` on one test-case result: `Score<T>` derives `Ord` (ascending), `Error<T>` reverses it. -/
def resCmp (higherBetter : Bool) (x y : Int) : Ordering :=
  if higherBetter then compare x y else compare y x

/-- `Iterator::max_by`: `reduce(|x, y| if cmp(x, y) == Greater { x } else { y })` — the **last** maximum. -/
def iterMax {α : Type} (cmp : α → α → Ordering) : List α → Option α
  | [] => none
  | x :: xs => some (xs.foldl (fun acc y => if cmp acc y == .gt then acc else y) x)

/-- `Iterator::min_by`: `reduce(|x, y| if cmp(x, y) == Greater { y } else { x })` — the **first** minimum. -/
def iterMin {α : Type} (cmp : α → α → Ordering) : List α → Option α
  | [] => none
  | x :: xs => some (xs.foldl (fun acc y => if cmp acc y == .gt then y else acc) x)

/-- Errors, with the nesting the Rust error types have. -/
inductive SelErr where
  /-- `EmptyPopulation` (best, worst, random, probes) -/
  | emptyPopulation
  /-- `TournamentSizeError { tournament_size, population_size }` -/
  | tournamentSize (k n : Nat)
  /-- `LexicaseError::EmptyPopulation(EmptyPopulation)` -/
  | lexEmpty
  /-- `LexicaseError::MissingTestCase { total_cases, current_index }` -/
  | missingTestCase (total idx : Nat)
  /-- `SelectionError::ZeroWeight(ZeroWeight)` (`Weighted` of weight 0, `WeightedPair` of total 0) -/
  | zeroWeight
  /-- `SelectionError::Selector(e)` -/
  | selector (e : SelErr)
  /-- `WeightedPairError::A(e)` / `WeightedPairError::B(e)` -/
  | a (e : SelErr)
  | b (e : SelErr)
  /-- `DynWeightedError::ZeroWeightSum(WeightError::InsufficientNonZero)` (`overflow = false`) resp.
      `DynWeightedError::ZeroWeightSum(WeightError::Overflow)` (the `usize` total overflowed) -/
  | dynWeight (overflow : Bool)
  /-- `DynWeightedError::Other(Box<dyn Error>)` holding `e` -/
  | dynOther (e : SelErr)
  /-- `Box<dyn Error + Send + Sync>` holding `e` (type-erased selectors) -/
  | boxed (e : SelErr)
deriving Repr, DecidableEq

/-- Selector terms. `weighted`/`pair` are the statically typed combinators of `ec_core::weighted`,
    `dyn` is `DynWeighted`, `byRef` is `&S` (also `Select::new(&s)` applied as an operator),
    `erased` a pointer to `dyn DynSelector<P>`; `probe i` is a caller-supplied deterministic
    selector returning the individual at position `i` (`EmptyPopulation` if there is none), the
    generalisation of the `First` selector of the crate's documentation. -/
inductive Sel where
  | best | worst | random
  | tournament (k : Nat)      -- `NonZeroUsize`: k ≥ 1
  | lexicase (n : Nat)
  | probe (i : Nat)
  | weighted (s : Sel) (w : Nat)     -- `Weighted::new(s, w)`, `w : u32`
  | pair (a b : Sel)                  -- `WeightedPair::new(a, b)` that was built successfully
  | dyn (l : List (Sel × Nat))       -- `DynWeighted::new(..).with_selector(..)…`, weights `usize`
  | byRef (s : Sel)
  | erased (s : Sel)
deriving Repr

/-- compare two positions of the population by the individuals there -/
def cmpAt (hb : Bool) (pop : List Ind) (i j : Nat) : Ordering :=
  Ind.cmp hb (pop.getD i default) (pop.getD j default)

/-! ### Lexicase (selector/lexicase.rs) -/

/-- `c.test_results().results.get(test_case_index)` for the individual at position `i` -/
def resultAt (pop : List Ind) (i c : Nat) : Option Int := (pop.getD i default).results[c]?

/-- The inner `for c in remaining` loop: state = (`winners`, `current_best_result`). -/
def lexScan (hb : Bool) (pop : List Ind) (total c : Nat) :
    List Nat → List Nat × Int → Except SelErr (List Nat × Int)
  | [], st => .ok st
  | j :: rest, (winners, best) =>
    match resultAt pop j c with
    | none => .error (.missingTestCase total c)
    | some r =>
      match resCmp hb r best with
      | .lt => lexScan hb pop total c rest (winners, best)
      | .eq => lexScan hb pop total c rest (winners ++ [j], best)
      | .gt => lexScan hb pop total c rest ([j], r)

/-- The `for test_case_index in case_indices` loop over the candidate vector. -/
def lexLoop (hb : Bool) (pop : List Ind) (total : Nat) : List Nat → List Nat → Except SelErr (List Nat)
  | [], cands => .ok cands
  | c :: cs, cands =>
    match cands with
    | [] => .error .lexEmpty                       -- `split_first().ok_or(EmptyPopulation)?`
    | [x] => .ok [x]                               -- `remaining.is_empty()` → `break`
    | first :: remaining =>
      match resultAt pop first c with
      | none => .error (.missingTestCase total c)
      | some r0 =>
        match lexScan hb pop total c remaining ([first], r0) with
        | .error e => .error e
        | .ok (winners, _) => lexLoop hb pop total cs winners   -- `mem::swap(candidates, winners)`

/-! ### Weighted combinators (weighted/*.rs) -/

def u32Max : Nat := 4294967295

/-- `WithWeight::weight`: `Weighted.weight`, `WeightedPair.weight_sum` (other selectors have none). -/
def Sel.weight : Sel → Nat
  | .weighted _ w => w
  | .pair a b => a.weight + b.weight
  | _ => 0

mutual
/-- Building the value: every `WeightedPair::new(a, b)` does `a.weight().checked_add(b.weight())`;
    operands are built first, left before right (this is also what the `Result` impl of
    `WithWeightedItem` does for chains: `self?.with_weighted_item(..)`).  The first failing
    addition is reported as `WeightSumOverflow(a, b)`. -/
def Sel.build : Sel → Except (Nat × Nat) Unit
  | .weighted s _ => s.build
  | .pair a b =>
    match a.build with
    | .error e => .error e
    | .ok _ =>
      match b.build with
      | .error e => .error e
      | .ok _ => if a.weight + b.weight > u32Max then .error (a.weight, b.weight) else .ok ()
  | .dyn l => Sel.buildList l
  | .byRef s => s.build
  | .erased s => s.build
  | _ => .ok ()
def Sel.buildList : List (Sel × Nat) → Except (Nat × Nat) Unit
  | [] => .ok ()
  | (s, _) :: r =>
    match s.build with
    | .error e => .error e
    | .ok _ => Sel.buildList r
end

def mapErr (f : SelErr → SelErr) : Except SelErr Nat → Except SelErr Nat
  | .ok i => .ok i
  | .error e => .error (f e)

mutual
def Sel.select (hb : Bool) (pop : List Ind) : Sel → Rand (Except SelErr Nat)
  | .best =>
    -- `population.into_iter().max().ok_or(EmptyPopulation)`; no randomness
    match iterMax (cmpAt hb pop) (List.range pop.length) with
    | some i => pure (.ok i)
    | none => pure (.error .emptyPopulation)
  | .worst =>
    match iterMin (cmpAt hb pop) (List.range pop.length) with
    | some i => pure (.ok i)
    | none => pure (.error .emptyPopulation)
  | .random =>
    -- `population.as_ref().choose(rng).ok_or(EmptyPopulation)`
    .ask (.choose pop.length) fun
      | .nat i => pure (.ok i)
      | _ => pure (.error .emptyPopulation)
  | .tournament k =>
    -- size check first, then `choose_multiple(rng, k).max()`
    if pop.length < k then pure (.error (.tournamentSize k pop.length)) else
    .ask (.chooseMultiple pop.length k) fun
      | .idxs l =>
        match iterMax (cmpAt hb pop) l with
        | some i => pure (.ok i)
        | none => pure (.error .emptyPopulation)   -- `unreachable!` in the Rust (k ≥ 1)
      | _ => pure (.error .emptyPopulation)
  | .lexicase n =>
    -- `case_indices.shuffle(rng)`, the filtering loop, `candidates.shuffle(rng)`, `.first()`
    .ask (.shuffle n) fun
      | .idxs order =>
        match lexLoop hb pop n order (List.range pop.length) with
        | .error e => pure (.error e)
        | .ok cands =>
          .ask (.shuffle cands.length) fun
            | .idxs p =>
              match p.head? with
              | some j =>
                match cands[j]? with
                | some i => pure (.ok i)
                | none => pure (.error .lexEmpty)     -- not reachable with a valid shuffle answer
              | none => pure (.error .lexEmpty)       -- `candidates.first()` of an empty vector
            | _ => pure (.error .lexEmpty)
      | _ => pure (.error .lexEmpty)
  | .probe i => if i < pop.length then pure (.ok i) else pure (.error .emptyPopulation)
  | .weighted s w =>
    -- `if self.weight == 0 { return Err(ZeroWeight.into()) }`, then the item
    if w = 0 then pure (.error .zeroWeight)
    else Rand.bind (s.select hb pop) fun r => pure (mapErr .selector r)
  | .pair a b =>
    -- `distr = Bernoulli::from_ratio(a_weight, weight_sum).ok()` is `None` iff the sum is 0
    if a.weight + b.weight = 0 then pure (.error .zeroWeight) else
    .ask (.ratio a.weight (a.weight + b.weight)) fun
      | .bool true => Rand.bind (a.select hb pop) fun r => pure (mapErr (fun e => .selector (.a e)) r)
      | .bool false => Rand.bind (b.select hb pop) fun r => pure (mapErr (fun e => .selector (.b e)) r)
      | _ => pure (.error .zeroWeight)
  | .dyn l =>
    -- `self.selectors.choose_weighted(rng, |(_, w)| *w)?` then the chosen boxed selector
    .ask (.chooseWeighted (l.map (·.2))) fun
      | .nat i => Sel.selectNth hb pop l i
      | _ => pure (.error (.dynWeight (decide (2 ^ 64 ≤ (l.map (·.2)).sum))))
  | .byRef s => s.select hb pop
  | .erased s => Rand.bind (s.select hb pop) fun r => pure (mapErr .boxed r)
/-- the `i`-th selector of a `DynWeighted`, its error boxed into `DynWeightedError::Other` -/
def Sel.selectNth (hb : Bool) (pop : List Ind) : List (Sel × Nat) → Nat → Rand (Except SelErr Nat)
  | [], _ => pure (.error (.dynWeight false))     -- not reachable with a valid answer
  | (s, _) :: _, 0 => Rand.bind (s.select hb pop) fun r => pure (mapErr .dynOther r)
  | _ :: r, i + 1 => Sel.selectNth hb pop r i
end

/-! ### Specification-level notions used by the property theorems and the harness oracles -/

/-- position `i` is at least as good as position `j` under the individuals' ordering -/
def geAt (hb : Bool) (pop : List Ind) (i j : Nat) : Bool := cmpAt hb pop j i != .gt

/-- Spec of one lexicase step: keep the candidates whose result on case `c` is best among the
    candidates (`none` results never occur under the spec's precondition). -/
def filterBest (hb : Bool) (pop : List Ind) (c : Nat) (cands : List Nat) : List Nat :=
  cands.filter fun i => cands.all fun j =>
    match resultAt pop i c, resultAt pop j c with
    | some ri, some rj => resCmp hb rj ri != .gt
    | _, _ => true

/-- Spec of lexicase filtering: the cases in the given order, no early exit. -/
def survivors (hb : Bool) (pop : List Ind) (order : List Nat) (cands : List Nat) : List Nat :=
  order.foldl (fun cs c => filterBest hb pop c cs) cands

/-- `j` Pareto-dominates `i` on the cases `0..n`: at least as good everywhere, better somewhere. -/
def dominates (hb : Bool) (pop : List Ind) (n : Nat) (j i : Nat) : Bool :=
  (List.range n).all (fun c =>
    match resultAt pop j c, resultAt pop i c with
    | some rj, some ri => resCmp hb rj ri != .lt
    | _, _ => false) &&
  (List.range n).any (fun c =>
    match resultAt pop j c, resultAt pop i c with
    | some rj, some ri => resCmp hb rj ri == .gt
    | _, _ => false)

end Uec
