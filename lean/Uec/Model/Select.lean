/-
  Impl model of ec-core's selectors (packages/ec-core/src/operator/selector/*.rs).
  A population is a list of individuals; a selector returns the *index* of the selected
  individual (the abstraction of the `&'pop Individual` the Rust returns).
-/
import Uec.Model.Rand
namespace Uec

/-- What the selectors look at: the ordering key (`Ord` of the individual; for `EcIndividual`
    the total result) and the per-case results (lexicase). `higherBetter` is the polarity of the
    results (`Score` vs `Error`), the same for the whole population. -/
structure Ind where
  key : Int
  results : List Int
deriving Repr, DecidableEq, Inhabited

/-- `Ord` on individuals: `Score` orders ascending, `Error` is the dual order. -/
def Ind.cmp (higherBetter : Bool) (a b : Ind) : Ordering :=
  if higherBetter then compare a.key b.key else compare b.key a.key

/-- `Iterator::max_by`: `reduce(|x, y| if cmp(x, y) == Greater { x } else { y })` — the **last** maximum. -/
def iterMax {α : Type} (cmp : α → α → Ordering) : List α → Option α
  | [] => none
  | x :: xs => some (xs.foldl (fun acc y => if cmp acc y == .gt then acc else y) x)

/-- `Iterator::min_by`: `reduce(|x, y| if cmp(x, y) == Greater { y } else { x })` — the **first** minimum. -/
def iterMin {α : Type} (cmp : α → α → Ordering) : List α → Option α
  | [] => none
  | x :: xs => some (xs.foldl (fun acc y => if cmp acc y == .gt then y else acc) x)

inductive SelErr where
  | emptyPopulation
  | tournamentSize (k n : Nat)
deriving Repr, DecidableEq

inductive Sel where
  | best | worst | random
  | tournament (k : Nat)      -- `NonZeroUsize`: k ≥ 1
deriving Repr

/-- compare two positions of the population by the individuals there -/
def cmpAt (hb : Bool) (pop : List Ind) (i j : Nat) : Ordering :=
  Ind.cmp hb (pop.getD i default) (pop.getD j default)

def Sel.select (hb : Bool) (pop : List Ind) : Sel → Rand (Except SelErr Nat)
  | .best =>
    -- `population.into_iter().max().ok_or(EmptyPopulation)`; no randomness
    match iterMax (cmpAt hb pop) (List.range pop.length) with
    | some i => pure (.ok i)
    | none => pure (.error .emptyPopulation)
  | .worst =>
    match iterMin (cmpAt hb pop) (List.range pop.length) with
    | some i => pure (.ok i)
    | none => pure (.error .emptyPopulation)
  | .random => do
    -- `population.as_ref().choose(rng).ok_or(EmptyPopulation)`
    match ← Rand.req (.choose pop.length) with
    | .nat i => pure (.ok i)
    | _ => pure (.error .emptyPopulation)
  | .tournament k => do
    -- size check first, then `choose_multiple(rng, k).max()`
    if pop.length < k then pure (.error (.tournamentSize k pop.length)) else
    match ← Rand.req (.chooseMultiple pop.length k) with
    | .idxs l =>
      match iterMax (cmpAt hb pop) l with
      | some i => pure (.ok i)
      | none => pure (.error .emptyPopulation)   -- `unreachable!` in the Rust (k ≥ 1)
    | _ => pure (.error .emptyPopulation)

end Uec
