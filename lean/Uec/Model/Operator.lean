/-
  Impl model of ec-core's operator combinators (packages/ec-core/src/operator/…):
    composable/{mod,then,and,map,repeat_with}.rs, identity.rs, constant.rs, genome_extractor.rs,
    genome_scorer.rs and the `Select` / `Mutate` / `Recombine` wrappers (by value and by reference).

  An `Operator<Input>` is `apply(&self, input, rng) -> Result<Output, Error>`: a function from the
  input to a tree of `rand` requests ending in `Result` — `Oper ε α β`.

  Two layers, both code-shaped:
    * typed, generic combinators (`Oper.thenOp`, `andOp`, `mapPair`, `mapVec`, `repeatN`, …) over
      *arbitrary* component operators of arbitrary types — one definition per Rust `impl`;
    * an inductive syntax `Op` of pipelines over a universal value domain `Val`, evaluated with the
      typed combinators (`Op.eval`), so that statements can be proved by induction on the nesting
      and the driver can be handed the same shape the harness builds as a Rust type.
-/
import Uec.Model.Rand
namespace Uec

/-- `Operator<Input>` with `Output = β`, `Error = ε`. -/
abbrev Oper (ε α β : Type) := α → Rand (Except ε β)

/-- `ThenError<T, U>` -/
inductive ThenError (ε₁ ε₂ : Type) where
  | first (e : ε₁) | second (e : ε₂)
deriving Repr, DecidableEq

/-- `AndError<T, U>` -/
inductive AndError (ε₁ ε₂ : Type) where
  | first (e : ε₁) | second (e : ε₂)
deriving Repr, DecidableEq

/-- `MapError<T>(T, usize)` -/
structure MapError (ε : Type) where
  err : ε
  idx : Nat
deriving Repr, DecidableEq

namespace Oper
variable {ε ε₁ ε₂ α β γ : Type}

/-- `Then<F, G>::apply`:
    `let r = self.f.apply(x, rng).map_err(ThenError::First)?; self.g.apply(r, rng).map_err(ThenError::Second)` -/
def thenOp (f : Oper ε₁ α β) (g : Oper ε₂ β γ) : Oper (ThenError ε₁ ε₂) α γ := fun x =>
  (f x).bind fun
    | .error e => .pure (.error (.first e))
    | .ok y => (g y).bind fun
      | .error e => .pure (.error (.second e))
      | .ok z => .pure (.ok z)

/-- `And<F, G>::apply`: `f.apply(x.clone(), rng)?` then `g.apply(x, rng)?`, then the pair. -/
def andOp (f : Oper ε₁ α β) (g : Oper ε₂ α γ) : Oper (AndError ε₁ ε₂) α (β × γ) := fun x =>
  (f x).bind fun
    | .error e => .pure (.error (.first e))
    | .ok y => (g x).bind fun
      | .error e => .pure (.error (.second e))
      | .ok z => .pure (.ok (y, z))

/-- `Map<F>::apply` on `(Input, Input)` and on `[Input; 2]` (the two impls have the same body):
    first element with `MapError(e, 0)`, then the second with `MapError(e, 1)`. -/
def mapPair (f : Oper ε α β) : Oper (MapError ε) (α × α) (β × β) := fun (x, y) =>
  (f x).bind fun
    | .error e => .pure (.error ⟨e, 0⟩)
    | .ok a => (f y).bind fun
      | .error e => .pure (.error ⟨e, 1⟩)
      | .ok b => .pure (.ok (a, b))

/-- `Map<F>::apply` on `Vec<Input>`:
    `input.into_iter().enumerate().map(|(i, x)| f.apply(x, rng).map_err(|e| MapError(e, i))).collect()`
    — `collect` into `Result<Vec<_>, _>` pulls elements one at a time and stops at the first `Err`.
    `i` is the running `enumerate` counter. -/
def mapVecFrom (f : Oper ε α β) : Nat → List α → Rand (Except (MapError ε) (List β))
  | _, [] => .pure (.ok [])
  | i, x :: xs =>
    (f x).bind fun
      | .error e => .pure (.error ⟨e, i⟩)
      | .ok y => (mapVecFrom f (i + 1) xs).bind fun
        | .error e => .pure (.error e)
        | .ok ys => .pure (.ok (y :: ys))

def mapVec (f : Oper ε α β) : Oper (MapError ε) (List α) (List β) := mapVecFrom f 0

/-- `RepeatWith<F, N>::apply`:
    `iter::repeat_with(|| f.apply(input.clone(), rng)).take(N).collect::<Result<Vec<_>, _>>()?`
    (the conversion of the `N`-vector into `[_; N]` cannot fail).  The error is the component's
    error, untagged. -/
def repeatN (f : Oper ε α β) : Nat → Oper ε α (List β)
  | 0, _ => .pure (.ok [])
  | n + 1, x =>
    (f x).bind fun
      | .error e => .pure (.error e)
      | .ok y => (repeatN f n x).bind fun
        | .error e => .pure (.error e)
        | .ok ys => .pure (.ok (y :: ys))

/-- `Identity::apply`: `Ok(input)`; the generator is not touched. (`Error = Infallible`) -/
def identity : Oper ε α α := fun x => .pure (.ok x)

/-- `Constant<T>::apply`: `Ok(self.value.clone())`. -/
def constant (v : β) : Oper ε α β := fun _ => .pure (.ok v)

/-- `Select<S>::apply = self.selector.select(population, rng)`,
    `Mutate<M>::apply = self.mutator.mutate(genome, rng)`,
    `Recombine<R>::apply = self.recombinator.recombine(genomes, rng)`. -/
def wrap (inner : Oper ε α β) : Oper ε α β := fun x => inner x

/-- `impl Selector<P> for &S`, `impl Mutator<G> for &M` / `&mut M`, `impl Recombinator<GS> for &R`:
    `(**self).select(population, rng)` etc. -/
def byRef (inner : Oper ε α β) : Oper ε α β := fun x => inner x

/-- `GenomeScorer<GM, S>::apply`:
    `let genome = self.genome_maker.apply(population, rng)?; let score = self.scorer.score(&genome);
     Ok(EcIndividual::new(genome, score))` — `mk genome score` is `EcIndividual::new`. -/
def genomeScorer {ι σ : Type} (gm : Oper ε α β) (scorer : β → σ) (mk : β → σ → ι) : Oper ε α ι := fun x =>
  (gm x).bind fun
    | .error e => .pure (.error e)
    | .ok g => .pure (.ok (mk g (scorer g)))

end Oper

/-! ### Pipelines as syntax over a universal value domain -/

/-- Values flowing through a pipeline: opaque leaves, Rust tuples `(a, b)`, arrays `[a; N]`,
    `Vec`s, and `EcIndividual { genome, test_results }`. -/
inductive Val where
  | leaf (n : Nat)
  | pair (a b : Val)
  | arr (l : List Val)
  | vec (l : List Val)
  | ind (genome score : Val)
deriving Repr, Inhabited

/-- Errors of a pipeline: the component's own error, tagged along the way out exactly as the Rust
    error types nest (`ThenError::{First,Second}`, `AndError::{First,Second}`, `MapError(e, i)`;
    `RepeatWith`, the wrappers and `GenomeScorer` pass the inner error through untagged).
    `illTyped` marks an application the Rust type checker rejects (no `impl Operator<_>`). -/
inductive OpErr where
  | own (id : Nat) (code : Nat)
  | thenFirst (e : OpErr) | thenSecond (e : OpErr)
  | andFirst (e : OpErr) | andSecond (e : OpErr)
  | map (e : OpErr) (i : Nat)
  | illTyped
deriving Repr, Inhabited

/-- Which wrapper (no behaviour of its own; kept so that shapes on both sides are the same term). -/
inductive WrapKind where
  | select | mutate | recombine | byRef | byMutRef
  /-- a type-erased form (`Box<dyn DynOperator<..>>`, …) with the identity error conversion, used as a component -/
  | erased
deriving Repr, DecidableEq

/-- Composition shapes.  `leaf` is an *arbitrary* operator (anything of type `Val → Rand (Except OpErr Val)`),
    named only for the call log. -/
inductive Op where
  | leaf (name : Nat) (f : Oper OpErr Val Val)
  | then_ (f g : Op)
  | and_ (f g : Op)
  | map (f : Op)
  | repeat_ (n : Nat) (f : Op)
  | identity
  | constant (v : Val)
  | wrap (k : WrapKind) (f : Op)
  | genomeExtractor
  | genomeScorer (gm : Op) (scorer : Val → Val)

def OpErr.ofThen : ThenError OpErr OpErr → OpErr
  | .first e => .thenFirst e
  | .second e => .thenSecond e

def OpErr.ofAnd : AndError OpErr OpErr → OpErr
  | .first e => .andFirst e
  | .second e => .andSecond e

def OpErr.ofMap : MapError OpErr → OpErr
  | ⟨e, i⟩ => .map e i

/-- post-process the `Result` of an operator (total, no requests): `map` / `map_err` -/
def Rand.mapRes {ε ε' β β' : Type} (he : ε → ε') (hv : β → β') (m : Rand (Except ε β)) : Rand (Except ε' β') :=
  m.bind fun
    | .error e => .pure (.error (he e))
    | .ok v => .pure (.ok (hv v))

namespace Op

/-- `Composable::then_map(self, op) = Then::new(self, Map::new(op))` -/
def thenMap (f g : Op) : Op := .then_ f (.map g)
/-- `Composable::apply_twice(self) = RepeatWith::<_, 2>::new(self)` -/
def applyTwice (f : Op) : Op := .repeat_ 2 f
/-- `Composable::apply_n_times::<N>(self) = RepeatWith::<_, N>::new(self)` -/
def applyNTimes (n : Nat) (f : Op) : Op := .repeat_ n f
/-- `Composable::map(self, op) = Map::new(op)` — `self` is dropped. -/
def mapMethod (_self f : Op) : Op := .map f
/-- `Composable::wrap::<GenomeScorer<_, S>>(self, scorer) = GenomeScorer::new(self, scorer)` -/
def wrapScorer (gm : Op) (scorer : Val → Val) : Op := .genomeScorer gm scorer

/-- The pipeline applied to an input.  `Map` picks its impl by the input type
    (`(I, I)`, `[I; 2]`, `Vec<I>`); every other input type has no impl. -/
def eval : Op → Oper OpErr Val Val
  | .leaf _ f => f
  | .then_ f g => fun x => (Oper.thenOp f.eval g.eval x).mapRes OpErr.ofThen id
  | .and_ f g => fun x => (Oper.andOp f.eval g.eval x).mapRes OpErr.ofAnd (fun p => .pair p.1 p.2)
  | .map f => fun x =>
    match x with
    | .pair a b => (Oper.mapPair f.eval (a, b)).mapRes OpErr.ofMap (fun p => .pair p.1 p.2)
    | .arr [a, b] => (Oper.mapPair f.eval (a, b)).mapRes OpErr.ofMap (fun p => .arr [p.1, p.2])
    | .vec l => (Oper.mapVec f.eval l).mapRes OpErr.ofMap .vec
    | _ => .pure (.error .illTyped)
  | .repeat_ n f => fun x => (Oper.repeatN f.eval n x).mapRes id .arr
  | .identity => Oper.identity
  | .constant v => Oper.constant v
  | .wrap .byRef f => Oper.byRef f.eval
  | .wrap .byMutRef f => Oper.byRef f.eval
  | .wrap _ f => Oper.wrap f.eval
  | .genomeExtractor => fun x =>
    -- `Ok(individual.genome().clone())`
    match x with
    | .ind g _ => .pure (.ok g)
    | _ => .pure (.error .illTyped)
  | .genomeScorer gm sc => Oper.genomeScorer gm.eval sc .ind

end Op
end Uec
