/-
  Probe component operators for the C14 / C17 correspondence (DESIGN.md §5: "caller-supplied
  operators are probes defined identically on both sides").  These are *instances* of the arbitrary
  leaves the theorems quantify over; the same definitions are written in Rust in
  `harness/src/probe.rs`.

  A probe `(id, d)` applied to `x`
    1. announces the call: request `user (enterTag id (hash x))` — the answer is the script's
       decision for this call: 0 run, 1 fail before drawing, 2 fail after drawing;
    2. draws `d` words from the generator: `d` requests `user (wordTag id)` (`rng.next_u64()`);
    3. returns a leaf computed from `id`, `hash x` and the words — or its own error.
-/
import Uec.Model.Operator
namespace Uec
namespace Probe

def k1 : UInt64 := 0x9E3779B97F4A7C15
def k2 : UInt64 := 0xBF58476D1CE4E5B9

/-- 64-bit mixing, wrapping arithmetic (identical in `probe.rs`) -/
def mix (a b : UInt64) : UInt64 :=
  let z := (a ^^^ (b * k1)) * k2 + 0x632BE59BD9B4E019
  z ^^^ (z >>> 29)

/-- structural hash of a value -/
def hash : Val → UInt64
  | .leaf n => mix 1 n.toUInt64
  | .pair a b => mix (mix 2 (hash a)) (hash b)
  | .arr l => hashL (mix 3 l.length.toUInt64) l
  | .vec l => hashL (mix 4 l.length.toUInt64) l
  | .ind g s => mix (mix 5 (hash g)) (hash s)
where
  hashL (seed : UInt64) : List Val → UInt64
    | [] => seed
    | x :: xs => hashL (mix seed (hash x)) xs

/-- `user` tags: kind (0 enter / 1 word) + 4·id + 256·(48 low bits of the input hash) -/
def enterTag (id : Nat) (h : UInt64) : Nat := 0 + 4 * id + 256 * (h.toNat % 2 ^ 48)
def wordTag (id : Nat) : Nat := 1 + 4 * id

/-- draw `d` words, mixing them into `m` -/
def drawWords (id : Nat) : Nat → UInt64 → Rand UInt64
  | 0, m => .pure m
  | d + 1, m => .ask (.user (wordTag id)) fun a =>
      match a with
      | .nat w => drawWords id d (mix m w.toUInt64)
      | _ => drawWords id d m

/-- the common body: announce, maybe fail, draw, maybe fail, finish with `fin m` -/
def body (id d : Nat) (x : Val) (fin : UInt64 → Except OpErr Val) : Rand (Except OpErr Val) :=
  .ask (.user (enterTag id (hash x))) fun a =>
    let mode := match a with | .nat n => n | _ => 0
    if mode = 1 then .pure (.error (.own id 0)) else
    (drawWords id d (mix (mix 7 id.toUInt64) (hash x))).bind fun m =>
      if mode = 2 then .pure (.error (.own id 1)) else .pure (fin m)

/-- `Probe`: any input, a leaf out -/
def probe (id d : Nat) : Oper OpErr Val Val := fun x =>
  body id d x fun m => .ok (.leaf m.toNat)

/-- `VProbe`: any input, a vector of `m % 4` leaves out -/
def vprobe (id d : Nat) : Oper OpErr Val Val := fun x =>
  body id d x fun m =>
    .ok (.vec ((List.range (m.toNat % 4)).map fun j => .leaf (mix m j.toUInt64).toNat))

/-- `ProbeSel`: a population in, one of its members out (`own id 2` on an empty population) -/
def psel (id d : Nat) : Oper OpErr Val Val := fun x =>
  body id d x fun m =>
    match x with
    | .vec [] => .error (.own id 2)
    | .vec l => .ok (l.getD (m.toNat % l.length) default)
    | _ => .error .illTyped

/-- the scorer used with `GenomeScorer`: a pure function of the genome -/
def score (c : Nat) : Val → Val := fun g => .leaf (mix c.toUInt64 (hash g)).toNat

end Probe
end Uec
