def hello := "world"
